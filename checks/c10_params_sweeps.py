"""C10 -- parameter resolution and sweeps commute with everything else.

Stages
  (a) value_of_*      : ParamResolver.value_of / resolve_parameters on sympy expression trees against
                        sympy's generic xreplace substitution (iterated to a fixpoint for recursive
                        resolution), compared AS FUNCTIONS at two numeric probe points; call histories
                        on one resolver object (memo); composition of resolvers.
  (b) objects_*       : every parameterizable gate family / composite object: observe(resolve(x, r)) ==
                        observe(x rebuilt from substituted numbers); is_parameterized / parameter_names.
  (c) sweeps_*        : sweep terms against a list-of-dicts reference; Sweepable conversions.
  (d) simulate_sweep  : simulate_sweep / run_sweep == per-resolver results == substituted circuit.
  (e) flatten         : flatten / flatten_with_params / flatten_with_sweep / ExpressionMap.
"""
from __future__ import annotations

import cmath
import functools
import itertools
import math
import warnings

import numpy as np
import sympy
import cirq

from mc import core
from mc.core import CaseStage, Res, bad, good

PROPERTY = "C10"
LEVEL = "exploration"
RULE = ("(a) every (expression tree, resolver map, recursive flag) of the bounded alphabet: all trees of depth<=1 and the "
        "depth-2 trees with one atomic side (quick: over a reduced atom set; thorough: any depth-1 tree on the other side, "
        "plus depth-3 trees on the operator set {+,*,**}) over symbols {a,b,c}, constants {0,1,2,-1,1/2,0.5,pi,I}, "
        "operators {+,*,**,/,neg,cos} x 25 numeric/symbolic resolvers, and 22 expression forms (thorough: all depth-1 "
        "trees) x all 11^3 maps {a,b,c}->{absent,float,int,negative,np.float64,complex,a,b,b+1,2*c,'b'} x key form "
        "{str,Symbol,mixed} x recursive x {value_of, resolve_parameters}; every ordered pair (thorough: also triples) of "
        "(expression, recursive) calls on ONE resolver object; every pair of resolvers composed by resolve_parameters; a "
        "case is non-trivial when the resolver touches a symbol of the expression; (b) every parameterizable gate "
        "family / composite x parameter expressions {a,2a+b,a^2,a*pi} x 11 resolver shapes; (c) every sweep term of "
        "depth<=3 over 16 leaves and Product/Zip/ZipLongest/Concat/+/*, every Sweepable form; (d) every op sequence "
        "(length<=3, thorough 4; hence every unparameterized-prefix length) x layout x simulator; (e) every real "
        "expression tree inside a gate through flatten (3 circuit shapes incl. forced name collisions); distinct = "
        "distinct case descriptors")
TECHNIQUE = ("bounded-exhaustive enumeration of expression trees x resolver maps x call histories against sympy's generic "
             "substitution (compared as functions at numeric probe points), of sweep terms against a list-of-dicts "
             "reference, and of parameterized objects against rebuilding from substituted numbers")
LEVEL_TEXT = ("Every expression tree, resolver map (incl. chains, identity, cycles, str/Symbol keys), two-call history on one "
              "resolver object, composed resolver pair, sweep term and Sweepable form inside the stated bounds is executed on "
              "the real code and compared with an independent reference (sympy xreplace to fixpoint; list-of-dicts sweep "
              "semantics; objects rebuilt from substituted numbers). Nothing is sampled; the bound is the tree depth / term "
              "depth / alphabet.")
LEVEL_NOTE = ("trusted: sympy xreplace + construction-time auto-simplification, numpy, cirq.unitary of unparameterized gates "
              "(tied to closed forms by C03/C04); cases whose reference value is not finite or crosses a branch cut "
              "(negative base to fractional power, division by zero) are outside the statement and skipped by the reference")
ASSUMPTIONS = [
    "sympy's xreplace and its construction-time auto-simplification are ordinary algebra (trusted)",
    "cirq.unitary / kraus of unparameterized single gates is correct (C03/C04)",
    "expressions are compared as functions at two generic positive probe points for the remaining symbols (1e-9 relative)",
    "reference-decided skips: values not finite / on a branch cut (negative or zero base to a non-integer or negative power)",
    "recursive composition of resolvers is only demanded where applying r1 then r2 is idempotent (r2 does not re-introduce "
    "a symbol r1 resolves); a resolver containing a cycle may raise RecursionError on composition",
]

SA, SB, SC = sympy.symbols("a b c")
SYMS = {"a": SA, "b": SB, "c": SC}
I = sympy.I
PI = sympy.pi

_SEED = 0
PROBES = []


class Hazard(Exception):
    """The reference value is outside the statement (non-finite / branch cut)."""


class Ambiguous(Hazard):
    """Value on a branch cut: two correct evaluation orders may legitimately differ."""


# ---------------------------------------------------------------------------------------------
# independent numeric evaluation of a sympy tree (plain Python complex arithmetic)

_FUNCS = {"cos": cmath.cos, "cosh": cmath.cosh, "sin": cmath.sin, "sinh": cmath.sinh, "exp": cmath.exp}


def _safe_pow(bv: complex, xv: complex, computed_exponent: bool) -> complex:
    """computed_exponent: the exponent is itself a computed sub-expression (its rounding may differ between two
    correct evaluation orders), so a base on a branch cut makes the value ambiguous."""
    on_cut = abs(bv) < 1e-9 or abs(cmath.phase(bv)) > math.pi - 1e-6
    if on_cut and computed_exponent:
        raise Ambiguous("zero / negative base to a computed exponent")
    if xv.imag == 0 and xv.real == round(xv.real):
        n = int(round(xv.real))
        if abs(bv) < 1e-9:
            if n < 0:
                raise Hazard("zero to a negative power")
            return 1.0 + 0j if n == 0 else 0j
        if abs(n) > 64:
            raise Ambiguous("huge power")
        return bv ** n
    if abs(bv) < 1e-9:
        raise Ambiguous("zero base, non-integer exponent")
    if on_cut:
        raise Ambiguous("negative base to a non-integer power")
    return cmath.exp(xv * cmath.log(bv))


def nev(e, env) -> complex:
    """Evaluate sympy tree e with symbol values env (name -> complex)."""
    try:
        r = _nev(e, env)
    except OverflowError as ex:
        raise Ambiguous(str(ex))
    except ZeroDivisionError as ex:
        raise Hazard(str(ex))
    if not (math.isfinite(r.real) and math.isfinite(r.imag)):
        raise Hazard("not finite")
    if abs(r) > 1e12:
        raise Ambiguous("huge value (precision)")
    return r


@functools.lru_cache(maxsize=None)
def _const(e) -> complex:
    if e is I:
        return 1j
    return complex(e.evalf(17))


def _nev(e, env) -> complex:
    if isinstance(e, sympy.Symbol):
        return complex(env[e.name])
    if isinstance(e, sympy.Add):
        s = 0j
        for x in e.args:
            s += _nev(x, env)
        return s
    if isinstance(e, sympy.Mul):
        p = 1 + 0j
        for x in e.args:
            p *= _nev(x, env)
        return p
    if isinstance(e, sympy.Pow):
        r = _safe_pow(_nev(e.args[0], env), _nev(e.args[1], env), bool(e.args[1].args))
        if abs(r) > 1e12:
            raise Ambiguous("huge intermediate (precision)")
        return r
    if not e.args:
        if e is sympy.zoo or e is sympy.nan or e is sympy.oo or e is -sympy.oo:
            raise Hazard("infinite constant")
        return _const(e)
    fn = _FUNCS.get(type(e).__name__)
    if fn is not None and len(e.args) == 1:
        arg = _nev(e.args[0], env)
        if abs(arg.imag) > 1e-12:
            raise Hazard("complex argument of a transcendental function (parameters are real)")
        return fn(arg)
    raise KeyError(f"unsupported node {type(e).__name__}")


def supported(e) -> bool:
    try:
        nev(e, PROBES[0])
    except Hazard:
        return True
    except (KeyError, TypeError):
        return False
    return True


def eval_any(v, env) -> complex:
    """Numeric value of whatever value_of returned (number or sympy expr)."""
    if isinstance(v, sympy.Basic):
        return nev(v, env)
    return complex(v)


def close(x: complex, y: complex) -> bool:
    return abs(x - y) <= 1e-9 * max(1.0, abs(x), abs(y))


# ---------------------------------------------------------------------------------------------
# resolver alphabet

VAL_NAMES = ["-", "1.5", "2(int)", "-0.25", "np.float64(0.5)", "(1+1j)", "a", "b", "b+1", "2*c", "'b'"]
V_ABSENT, V_F, V_INT, V_NEG, V_NPF, V_CPX, V_A, V_B, V_B1, V_2C, V_STR = range(11)
NUMERIC_VALS = (V_F, V_INT, V_NEG, V_NPF, V_CPX)


def cirq_value(vi):
    return [None, 1.5, 2, -0.25, np.float64(0.5), 1 + 1j, SA, SB, SB + 1, 2 * SC, "b"][vi]


def ref_value(vi):
    return [None, sympy.Float(1.5), sympy.Integer(2), sympy.Float(-0.25), sympy.Float(0.5),
            sympy.Float(1.0) + sympy.Float(1.0) * I, SA, SB, SB + 1, 2 * SC, SB][vi]


def make_resolver(spec):
    """spec = (va, vb, vc, keyform); keyform 0: str keys, 1: Symbol keys, 2: mixed."""
    va, vb, vc, kf = spec
    d = {}
    for i, (name, vi) in enumerate(zip("abc", (va, vb, vc))):
        if vi == V_ABSENT:
            continue
        key = name if (kf == 0 or (kf == 2 and i == 1)) else SYMS[name]
        d[key] = cirq_value(vi)
    return cirq.ParamResolver(d)


@functools.lru_cache(maxsize=4096)
def ref_map(spec3):
    va, vb, vc = spec3
    m = {}
    for name, vi in zip("abc", (va, vb, vc)):
        if vi != V_ABSENT:
            m[SYMS[name]] = ref_value(vi)
    return m


def describe_spec(spec):
    va, vb, vc, kf = spec
    d = {n: VAL_NAMES[v] for n, v in zip("abc", (va, vb, vc)) if v != V_ABSENT}
    return f"ParamResolver({d}, keys={['str', 'Symbol', 'mixed'][kf]})"


class RefMap:
    """Reference semantics of one resolver map: plain sympy substitution."""

    def __init__(self, m):
        self.m = {k: v for k, v in m.items()}
        self.active = {k: v for k, v in m.items() if v != k}  # identity entries do nothing
        # symbols from which a cycle is reachable
        graph = {k: [s for s in v.free_symbols if s in self.active] for k, v in self.active.items()}
        self.cyclic = set()
        for k in graph:
            # k reaches a cycle iff DFS from k finds a node on the current stack
            if self._reaches_cycle(k, graph):
                self.cyclic.add(k)

    @staticmethod
    def _reaches_cycle(start, graph):
        color = {}

        def dfs(n):
            color[n] = 1
            for m in graph.get(n, ()):
                cm = color.get(m, 0)
                if cm == 1:
                    return True
                if cm == 0 and dfs(m):
                    return True
            color[n] = 2
            return False

        return dfs(start)

    def once(self, e):
        return e.xreplace(self.active) if self.active else e

    def fix(self, e):
        """Returns (expr or None if no fixpoint within the bound, cycle_reachable)."""
        cyc = any(s in self.cyclic for s in e.free_symbols)
        cur = e
        for _ in range(8):
            if not any(s in self.active for s in cur.free_symbols):
                return cur, cyc
            cur = cur.xreplace(self.active)
        return None, cyc

    def touches(self, e):
        return any(s in self.active for s in e.free_symbols)


@functools.lru_cache(maxsize=4096)
def ref_of(spec3):
    return RefMap(ref_map(spec3))


GROWING_REPS = {(0, V_B1, 0), (0, 0, V_2C), (V_B, V_B1, 0), (V_2C, V_F, V_2C)}


def slow_case(spec3, e, rec, reps=True) -> bool:
    """Recursive resolution of a function node (generic sympy path) through a cycle whose terms GROW (b -> b+1,
    c -> 2*c) only ends when Python's own recursion limit is hit (~1.5 s per call; a RecursionError, i.e. a legal
    outcome).  Only a few representative resolvers of that shape are enumerated."""
    if not rec or isinstance(e, str) or not e.has(sympy.Function):
        return False
    if (reps and tuple(spec3) in GROWING_REPS) or not (V_B1 in spec3 or V_2C in spec3):
        return False
    rm = ref_of(tuple(spec3))
    return any(s in rm.cyclic for s in e.free_symbols)


def as_expr(x):
    return sympy.Symbol(x) if isinstance(x, str) else x


class _Lazy:
    """Label built only when a violation message is formatted (sympy printing is slow)."""

    def __init__(self, fn):
        self.fn = fn

    def __format__(self, spec):
        return self.fn()

    def __str__(self):
        return self.fn()


def check_value_of(label, call, e, rm: RefMap, recursive: bool):
    """Runs call() (a value_of on the real code) and compares with the reference.  Returns Res or None (= held)."""
    e = as_expr(e)
    expect_cycle = False
    if recursive:
        ref, cyc = rm.fix(e)
        if ref is None:
            expect_cycle = True
        may_raise = cyc
    else:
        ref, may_raise = rm.once(e), False
    # reference values at the probe points (hazard => outside the statement)
    refvals = None
    hazard = False
    if ref is not None:
        try:
            refvals = [nev(ref, p) for p in PROBES]
            for p in PROBES:  # also walk the ORIGINAL tree with fully substituted symbols
                _ = walk_original(e, rm, recursive, p)
        except Hazard:
            hazard = True
    try:
        got = call()
    except RecursionError:
        if expect_cycle or may_raise:
            return None
        return bad(f"{label}: RecursionError but the resolver has no cycle reachable from the expression", kind="spurious_recursion_error")
    except Exception as ex:  # noqa
        if hazard:
            return Res(skipped=True, nontrivial=False)
        kind = "exception_" + type(ex).__name__
        if isinstance(ex, TypeError) and "float_power" in str(ex):
            kind = "pow_numeric_base_symbolic_exponent"
        return bad(f"{label}: raised {type(ex).__name__}: {ex}; ordinary substitution gives {ref}", kind=kind)
    if expect_cycle:
        return bad(f"{label}: returned {got!r} but resolution never terminates (cycle): RecursionError expected", kind="missed_cycle")
    if hazard:
        return Res(skipped=True, nontrivial=False)
    for p, rv in zip(PROBES, refvals):
        try:
            gv = eval_any(got, p)
        except Ambiguous:
            return Res(skipped=True, nontrivial=False)
        except Hazard as h:
            return bad(f"{label}: returned {got!r} which is not finite at {p} ({h}); ordinary substitution gives {ref}", kind="value")
        except (KeyError, TypeError, ValueError) as ex:
            return bad(f"{label}: returned {got!r} ({type(got).__name__}) which cannot be evaluated: {ex}; expected {ref}", kind="value")
        if not close(gv, rv):
            return bad(f"{label}: returned {got!r} = {gv} at {p}; ordinary substitution gives {ref} = {rv}", kind="value")
    return None


def walk_original(e, rm: RefMap, recursive: bool, probe):
    """Evaluate the original tree with every symbol replaced by the value of its (recursively) substituted
    reference; only used to detect hazards hidden by sympy's simplification of the substituted tree."""
    env = {}
    for s in e.free_symbols:
        if recursive:
            r, _ = rm.fix(s)
        else:
            r = rm.once(s)
        if r is None:
            raise Hazard("cycle")
        env[s.name] = nev(r, probe)
    return nev(e, env)


# ---------------------------------------------------------------------------------------------
# expression alphabet

def _atoms():
    return [SA, SB, SC, sympy.Integer(0), sympy.Integer(1), sympy.Integer(2), sympy.Integer(-1),
            sympy.Rational(1, 2), sympy.Float(0.5), PI, I]


def _binops():
    return [("+", lambda x, y: x + y), ("*", lambda x, y: x * y), ("**", lambda x, y: x ** y), ("/", lambda x, y: x / y)]


def _unops():
    return [("neg", lambda x: -x), ("cos", lambda x: sympy.cos(x))]


def _ok(e):
    if not isinstance(e, sympy.Expr):
        return False
    if e.has(sympy.zoo, sympy.nan, sympy.oo, -sympy.oo):
        return False
    return supported(e)


def _combine(xs, ys, binops, out):
    for _, f in binops:
        for x in xs:
            for y in ys:
                try:
                    e = f(x, y)
                except Exception:  # noqa  sympy refuses (e.g. 0**-1 variants)
                    continue
                if _ok(e) and e not in out:
                    out[e] = None


def _unary(xs, unops, out):
    for _, f in unops:
        for x in xs:
            e = f(x)
            if _ok(e) and e not in out:
                out[e] = None


_EXPRS = {}


def build_exprs(tier):
    """E1: all trees of depth<=1; E2: depth-2 trees (one side depth<=1, other side an atom; both sides depth 1 over
    a reduced atom set); E3 (thorough): depth-3 trees over the reduced operator set."""
    if _EXPRS.get("tier") == tier:
        return _EXPRS
    A = _atoms()
    d1 = {x: None for x in A}
    _combine(A, A, _binops(), d1)
    _unary(A, _unops(), d1)
    E1 = list(d1)
    red_atoms = [SA, SB, sympy.Integer(2), sympy.Integer(-1), sympy.Rational(1, 2), sympy.Float(0.5)]
    d1r = {x: None for x in red_atoms}
    _combine(red_atoms, red_atoms, _binops(), d1r)
    _unary(red_atoms, _unops(), d1r)
    D1r = list(d1r)
    d2 = dict(d1)
    if tier == "thorough":
        _combine(E1, A, _binops(), d2)
        _combine(A, E1, _binops(), d2)
        _combine(D1r, D1r, _binops(), d2)
        _unary(E1, _unops(), d2)
    else:
        # quick: one side a depth-1 tree over the reduced atoms, other side a reduced atom, c or pi
        side = red_atoms + [SC, PI]
        _combine(D1r, side, _binops(), d2)
        _combine(side, D1r, _binops(), d2)
        _unary(D1r, _unops(), d2)
    E2 = [e for e in d2 if e not in d1]
    E3 = []
    if tier == "thorough":
        ops3 = [o for o in _binops() if o[0] in ("+", "*", "**")]
        at3 = [SA, SB, sympy.Integer(2), sympy.Rational(1, 2)]
        t1 = {x: None for x in at3}
        _combine(at3, at3, ops3, t1)
        t2 = dict(t1)
        _combine(list(t1), list(t1), ops3, t2)
        t3 = dict(t2)
        _combine(list(t2), at3 + [SC, sympy.Float(0.5), PI], ops3, t3)
        _combine(at3 + [SC, sympy.Float(0.5), PI], list(t2), ops3, t3)
        _unary(list(t2), _unops(), t3)
        E3 = [e for e in t3 if e not in d2]
    _EXPRS.clear()
    _EXPRS.update(tier=tier, E1=E1, E2=E2, E3=E3)
    # expression forms used by the resolver-structure / history / composition stages
    _EXPRS["ES"] = [SA, SB, SC, "a", "c", sympy.Integer(2), SA + SB, 2 * SA + SB, SA * SB, SA ** 2, SA * PI, -SA, SA / 2,
                    SB ** SC, SC ** SB, 2 ** SA, SA + SC, SB + 1, sympy.cos(SA), sympy.cos(SB) + SA, SA * SB * SC,
                    sympy.Float(0.5) * SA + SC ** 2]
    _EXPRS["EH"] = [SA, SB, SC, "b", 2 * SA + SB, SA * SC, SB + 1, sympy.cos(SA), sympy.cos(SB + 1)]
    _EXPRS["EC"] = [SA, SB, SC, SA + SB, 2 * SA + SB * SC, sympy.cos(SA)]
    return _EXPRS


def _init(seed, tier):
    global _SEED
    _SEED = seed
    g0, g1, g2 = core.generic(seed, 0), core.generic(seed, 1), core.generic(seed, 2)
    PROBES[:] = [
        {"a": 0.7312 + 0.01 * abs(g0), "b": 1.318 + 0.01 * abs(g1), "c": 2.171 + 0.01 * abs(g2)},
        {"a": 1.9071 - 0.01 * abs(g1), "b": 0.4563 + 0.01 * abs(g2), "c": 1.1327 + 0.01 * abs(g0)},
    ]
    build_exprs(tier)
    ref_of.cache_clear()
    if not _FAMS:
        _FAMS.extend(families())


# ---------------------------------------------------------------------------------------------
# stage (a1)/(a2): single value_of / resolve_parameters calls

def run_value_of(case):
    va, vb, vc, kf, rec, which, ei, api = case
    e = _EXPRS[which][ei]
    rm = ref_of((va, vb, vc))
    r = make_resolver((va, vb, vc, kf))
    recursive = bool(rec)
    label = _Lazy(lambda: ("resolve_parameters: " if api else "") + f"{describe_spec((va, vb, vc, kf))}.value_of({e!r}, recursive={recursive})")
    if api == 0:
        call = lambda: r.value_of(e, recursive)
    else:
        call = lambda: cirq.resolve_parameters(as_expr(e), r, recursive)
    res = check_value_of(label, call, e, rm, recursive)
    if res is not None:
        return res
    return good(nontrivial=rm.touches(as_expr(e)))


def describe_value_of(case):
    va, vb, vc, kf, rec, which, ei, api = case
    return {"resolver": describe_spec((va, vb, vc, kf)), "recursive": bool(rec), "expr": repr(_EXPRS[which][ei]),
            "api": ["value_of", "resolve_parameters"][api]}


def small_resolver_specs():
    """Numeric resolvers for the expression-structure stage: every subset of {a,b,c} x 3 type patterns + 3 symbolic."""
    pats = [(V_F, V_NPF, V_INT), (V_INT, V_F, V_NEG), (V_NPF, V_CPX, V_F)]
    out = [(0, 0, 0)]
    for mask in range(1, 8):
        for p in pats:
            out.append(tuple(p[i] if mask >> i & 1 else 0 for i in range(3)))
    out += [(V_B1, V_2C, 0), (V_STR, V_F, 0), (V_B, V_2C, V_F)]
    seen = []
    for s in out:
        if s not in seen:
            seen.append(s)
    return seen


def value_of_structure_cases(tier):
    cases = []
    specs = small_resolver_specs()
    # depth-3 trees: unresolved / fully resolved / one symbol resolved / symbolic chain
    specs3 = [(0, 0, 0), (V_F, V_NPF, V_INT), (V_INT, V_F, V_NEG), (0, V_NPF, 0), (V_B1, V_2C, 0)]
    for which in ("E1", "E2", "E3"):
        n = len(_EXPRS[which])
        for s in (specs3 if which == "E3" else specs):
            for rec in (1, 0):
                for ei in range(n):
                    cases.append((s[0], s[1], s[2], 0, rec, which, ei, 0))
    return cases


def value_of_resolver_cases(tier):
    cases = []
    ES = _EXPRS["ES"]
    nS = len(ES)
    nE1 = len(_EXPRS["E1"])
    core_forms = [i for i in range(nS) if isinstance(ES[i], str) or ES[i] in (SA, SB, SA + SB, 2 * SA + SB, SA ** 2, SB ** SC, sympy.cos(SA))]
    vals = range(11)
    for va in vals:
        for vb in vals:
            for vc in vals:
                for rec in (1, 0):
                    sp = (va, vb, vc)
                    for ei in range(nS):
                        if not slow_case(sp, ES[ei], rec):
                            cases.append((va, vb, vc, 0, rec, "ES", ei, 0))
                    for kf in (1, 2):
                        for ei in (range(nS) if tier == "thorough" else core_forms):
                            if not slow_case(sp, ES[ei], rec):
                                cases.append((va, vb, vc, kf, rec, "ES", ei, 0))
                    for ei in core_forms:
                        if not isinstance(ES[ei], str) and not slow_case(sp, ES[ei], rec):
                            cases.append((va, vb, vc, 1, rec, "ES", ei, 1))
                    if tier == "thorough" and rec:
                        E1 = _EXPRS["E1"]
                        for ei in range(nE1):
                            if not slow_case(sp, E1[ei], rec):
                                cases.append((va, vb, vc, 0, rec, "E1", ei, 0))
    return cases


# ---------------------------------------------------------------------------------------------
# stage (a3): call histories on ONE resolver object

def run_history(case):
    va, vb, vc, kf, calls = case
    rm = ref_of((va, vb, vc))
    r = make_resolver((va, vb, vc, kf))
    EH = _EXPRS["EH"]
    hist = []
    nontrivial = False
    for ei, rec in calls:
        e = EH[ei]
        hist.append((e, rec))
        label = _Lazy(lambda: f"{describe_spec((va, vb, vc, kf))} after calls {[_call_str(h) for h in hist[:-1]]}: {_call_str(hist[-1])}")
        res = check_value_of(label, lambda: r.value_of(e, bool(rec)), e, rm, bool(rec))
        if res is not None and not res.ok:
            if len(hist) > 1 and _fresh_ok(va, vb, vc, kf, e, rec, rm):
                res.sig["kind"] = "history_" + str(res.sig.get("kind"))
                res.msg = "[the same call on a fresh resolver object is fine] " + res.msg
            return res
        nontrivial = nontrivial or rm.touches(as_expr(e))
    return good(nontrivial=nontrivial)


def _call_str(h):
    return f"value_of({h[0]!r}, recursive={bool(h[1])})"


def _fresh_ok(va, vb, vc, kf, e, rec, rm):
    """True iff the same call on a FRESH resolver object is fine (=> the failure needs the history)."""
    r = make_resolver((va, vb, vc, kf))
    res = check_value_of("", lambda: r.value_of(e, bool(rec)), e, rm, bool(rec))
    return res is None or res.ok


def describe_history(case):
    va, vb, vc, kf, calls = case
    return {"resolver": describe_spec((va, vb, vc, kf)),
            "calls": [f"value_of({_EXPRS['EH'][ei]!r}, recursive={bool(rec)})" for ei, rec in calls]}


def history_cases(tier):
    cases = []
    n = len(_EXPRS["EH"])
    letters = [(ei, rec) for ei in range(n) for rec in (1, 0)]
    if tier == "quick":
        vals = [V_ABSENT, V_F, V_A, V_B, V_B1, V_2C, V_STR]
        kfs = (0,)
    else:
        vals = list(range(11))
        kfs = (0,)
    for va in vals:
        for vb in vals:
            for vc in vals:
                if all(v in (V_ABSENT,) + NUMERIC_VALS for v in (va, vb, vc)):
                    continue  # no symbolic value: the memo is never consulted (covered by the single-call stages)
                ok = [l for l in letters if not slow_case((va, vb, vc), _EXPRS["EH"][l[0]], l[1], reps=False)]
                for kf in kfs:
                    for c1 in ok:
                        for c2 in ok:
                            cases.append((va, vb, vc, kf, (c1, c2)))
    if tier == "thorough":
        vals3 = [V_ABSENT, V_F, V_A, V_B, V_B1, V_2C]
        l3 = [(ei, rec) for ei in (0, 1, 7) for rec in (1, 0)]
        for va in vals3:
            for vb in vals3:
                for vc in vals3:
                    if all(v in (V_ABSENT, V_F) for v in (va, vb, vc)):
                        continue
                    ok3 = [l for l in l3 if not slow_case((va, vb, vc), _EXPRS["EH"][l[0]], l[1], reps=False)]
                    for h in itertools.product(ok3, repeat=3):
                        cases.append((va, vb, vc, 0, h))
    return cases


# ---------------------------------------------------------------------------------------------
# stage (a4): composition resolve_parameters(r1, r2)

def run_compose(case):
    s1, s2, rec = case
    recursive = bool(rec)
    rm1, rm2 = ref_of(tuple(s1)), ref_of(tuple(s2))
    r1, r2 = make_resolver(tuple(s1) + (0,)), make_resolver(tuple(s2) + (1,))
    label = f"resolve_parameters({describe_spec(tuple(s1) + (0,))}, {describe_spec(tuple(s2) + (1,))}, recursive={recursive})"
    any_cycle = bool(rm1.cyclic or rm2.cyclic)
    if recursive and not any_cycle:
        # the composed single-step map k -> r2(r1(k)); iterating it may cycle when r2 re-introduces a key of r1
        cm = {}
        for k in list(rm1.m) + [k for k in rm2.m if k not in rm1.m]:
            x1, _ = rm1.fix(k)
            x2, _ = rm2.fix(x1)
            cm[k] = x2
        any_cycle = bool(RefMap(cm).cyclic)
    try:
        comp = cirq.resolve_parameters(r1, r2, recursive)
    except RecursionError:
        if recursive and any_cycle:
            return Res(skipped=True, nontrivial=False)
        return bad(f"{label}: RecursionError without a cycle", kind="compose_spurious_recursion")
    if not isinstance(comp, cirq.ParamResolver):
        return bad(f"{label}: returned {comp!r}, not a ParamResolver", kind="compose_type")
    checked = 0
    for e in _EXPRS["EC"]:
        # reference: apply r1, then r2
        if recursive:
            x1, c1 = rm1.fix(e)
            if x1 is None or c1:
                continue
            ref, c2 = rm2.fix(x1)
            if ref is None or c2:
                continue
            # only demanded where "r1 then r2" is idempotent (r2 does not re-introduce resolved symbols)
            if any(s in rm1.active or s in rm2.active for s in ref.free_symbols) or any_cycle:
                continue
        else:
            ref = rm2.once(rm1.once(e))
        try:
            refvals = [nev(ref, p) for p in PROBES]
        except Hazard:
            continue
        try:
            got = comp.value_of(e, recursive)
        except Exception as ex:  # noqa
            kind = "compose_exception_" + type(ex).__name__
            if isinstance(ex, TypeError) and "float_power" in str(ex):
                kind = "pow_numeric_base_symbolic_exponent"
            return bad(f"{label} = {comp!r}; .value_of({e!r}) raised {type(ex).__name__}: {ex}; r2(r1(e)) = {ref}", kind=kind)
        for p, rv in zip(PROBES, refvals):
            try:
                gv = eval_any(got, p)
            except Ambiguous:
                break
            except (Hazard, KeyError, TypeError, ValueError) as ex:
                return bad(f"{label} = {comp!r}; .value_of({e!r}) = {got!r} cannot be evaluated ({ex}); r2(r1(e)) = {ref}", kind="compose_value")
            if not close(gv, rv):
                names = [k.name if isinstance(k, sympy.Symbol) else k for k in comp.param_dict]
                kind = "compose_duplicate_keys" if len(set(names)) != len(names) else "compose_value"
                return bad(f"{label} = {comp!r}; .value_of({e!r}) = {got!r} = {gv} at {p}; r2(r1(e)) = {ref} = {rv}", kind=kind)
        checked += 1
    return good(nontrivial=checked > 0 and bool(rm1.active) and bool(rm2.active), compared=checked)


def describe_compose(case):
    s1, s2, rec = case
    return {"r1": describe_spec(tuple(s1) + (0,)), "r2": describe_spec(tuple(s2) + (1,)), "recursive": bool(rec)}


def compose_cases(tier):
    vals = [V_ABSENT, V_F, V_A, V_B, V_B1, V_2C] if tier == "thorough" else [V_ABSENT, V_F, V_B, V_B1, V_2C]
    specs = list(itertools.product(vals, repeat=3))
    return [(s1, s2, rec) for s1 in specs for s2 in specs for rec in (1, 0)]


# ---------------------------------------------------------------------------------------------
# stage (c): sweeps against a list-of-dicts reference

PVALS = {"x": [0.1, 0.2, 0.3], "y": [1.1, 1.2, 1.3], "z": [2.1, 2.2, 2.3]}
SX = sympy.Symbol("x")


def ls_def(i):
    return [
        [],
        [{"x": 7.0}],
        [{"x": 0.5, "y": 0.6}, {"x": 0.7, "y": 0.8}],
        [cirq.ParamResolver({SX: 9.0}), cirq.ParamResolver({SX: 10.0})],
    ][i]


class RefError(Exception):
    """The reference semantics say the construction must be rejected (ValueError)."""


class RefEither(Exception):
    """Both rejection and acceptance are compatible with the documentation."""


COMB = ("Prod", "Zip", "ZipL", "Cat", "add", "mul")


def _lin(n, start, stop):
    if n == 1:
        return [start]
    return [start + (stop - start) * i / (n - 1) for i in range(n)]


def _gen_start():
    return core.generic(_SEED, 3)


def build_sweep(t):
    tag = t[0]
    if tag == "U":
        return cirq.UnitSweep
    if tag == "P":
        return cirq.Points(t[1], list(PVALS[t[1]][: t[2]]))
    if tag == "Ps":
        return cirq.Points(sympy.Symbol(t[1]), tuple(PVALS[t[1]][: t[2]]))
    if tag == "L":
        return cirq.Linspace(t[1], 0, 1, t[2])
    if tag == "Lg":
        return cirq.Linspace(t[1], _gen_start(), _gen_start() + 1.3, t[2])
    if tag == "LS":
        return cirq.ListSweep(ls_def(t[1]))
    subs = [build_sweep(x) for x in t[1:]]
    if tag == "Prod":
        return cirq.Product(*subs)
    if tag == "Zip":
        return cirq.Zip(*subs)
    if tag == "ZipL":
        return cirq.ZipLongest(*subs)
    if tag == "Cat":
        return cirq.Concat(*subs)
    if tag == "add":
        return subs[0] + subs[1]
    if tag == "mul":
        return subs[0] * subs[1]
    raise core.HarnessError(f"bad sweep term {t}")


def ref_sweep(t):
    """-> (keys, rows): rows = list of tuples of (key, value)."""
    tag = t[0]
    if tag == "U":
        return [], [()]
    if tag in ("P", "Ps"):
        return [t[1]], [((t[1], v),) for v in PVALS[t[1]][: t[2]]]
    if tag == "L":
        return [t[1]], [((t[1], v),) for v in _lin(t[2], 0.0, 1.0)]
    if tag == "Lg":
        return [t[1]], [((t[1], v),) for v in _lin(t[2], _gen_start(), _gen_start() + 1.3)]
    if tag == "LS":
        rows = []
        for r in ls_def(t[1]):
            d = r.param_dict if isinstance(r, cirq.ParamResolver) else r
            rows.append(tuple((k.name if isinstance(k, sympy.Symbol) else k, v) for k, v in d.items()))
        return ([k for k, _ in rows[0]] if rows else []), rows
    subs = [ref_sweep(x) for x in t[1:]]
    keys = [k for ks, _ in subs for k in ks]
    rowsets = [r for _, r in subs]
    if tag in ("Prod", "mul", "Zip", "add", "ZipL"):
        if len(set(keys)) != len(keys):
            raise RefError("duplicate keys")
    if tag in ("Prod", "mul"):
        return keys, [sum(combo, ()) for combo in itertools.product(*rowsets)]
    if tag in ("Zip", "add"):
        if not rowsets:
            return keys, []
        return keys, [sum(combo, ()) for combo in zip(*rowsets)]
    if tag == "ZipL":
        if any(len(r) == 0 for r in rowsets):
            raise RefError("ZipLongest of an empty sweep")
        n = max((len(r) for r in rowsets), default=0)
        return keys, [sum((r[min(i, len(r) - 1)] for r in rowsets), ()) for i in range(n)]
    if tag == "Cat":
        if not subs:
            raise RefError("Concat of nothing")
        k0 = subs[0][0]
        either = False
        for ks, _ in subs[1:]:
            if sorted(ks) != sorted(k0):
                raise RefError("Concat of sweeps with different keys")
            if ks != k0:
                either = True
        if either:
            raise RefEither("Concat of sweeps with the same keys in a different order")
        return k0, [r for rs in rowsets for r in rs]
    raise core.HarnessError(f"bad sweep term {t}")


def term_str(t):
    tag = t[0]
    if tag == "U":
        return "UnitSweep"
    if tag == "P":
        return f"Points('{t[1]}',{PVALS[t[1]][:t[2]]})"
    if tag == "Ps":
        return f"Points(Symbol('{t[1]}'),{tuple(PVALS[t[1]][:t[2]])})"
    if tag == "L":
        return f"Linspace('{t[1]}',0,1,{t[2]})"
    if tag == "Lg":
        return f"Linspace('{t[1]}',{_gen_start()},{_gen_start() + 1.3},{t[2]})"
    if tag == "LS":
        return f"ListSweep({ls_def(t[1])})"
    if tag == "add":
        return f"({term_str(t[1])} + {term_str(t[2])})"
    if tag == "mul":
        return f"({term_str(t[1])} * {term_str(t[2])})"
    name = {"Prod": "Product", "Zip": "Zip", "ZipL": "ZipLongest", "Cat": "Concat"}[tag]
    return f"{name}({', '.join(term_str(x) for x in t[1:])})"


def _norm_row(d):
    out = {}
    for k, v in d.items():
        out[k.name if isinstance(k, sympy.Symbol) else k] = v
    return out


def _row_matches(resolver, row):
    if not isinstance(resolver, cirq.ParamResolver):
        return False
    got = _norm_row(resolver.param_dict)
    ref = dict(row)
    if set(got) != set(ref):
        return False
    return all(isinstance(got[k], (int, float)) and abs(got[k] - ref[k]) <= 1e-12 for k in ref)


def _rows_match(resolvers, rows):
    resolvers = list(resolvers)
    if len(resolvers) != len(rows):
        return f"{len(resolvers)} assignments, reference has {len(rows)}"
    for i, (r, row) in enumerate(zip(resolvers, rows)):
        if not _row_matches(r, row):
            return f"assignment #{i} is {r!r}, reference {dict(row)}"
    return None


def _has_add_of_ziplongest(t):
    if t[0] in COMB:
        if t[0] == "add" and any(x[0] == "ZipL" and len(x) > 2 for x in t[1:]):
            return True
        return any(_has_add_of_ziplongest(x) for x in t[1:])
    return False


_POOL = []


def _eq_pool():
    if not _POOL:
        for t in sweep_leaves() + [("Prod",), ("Zip",), ("ZipL",)]:
            _POOL.append((t, build_sweep(t), ref_sweep(t)))
        red = reduced_leaves()
        for c in COMB:
            for x in red:
                for y in red:
                    t = (c, x, y)
                    try:
                        r = ref_sweep(t)
                    except (RefError, RefEither):
                        continue
                    try:
                        _POOL.append((t, build_sweep(t), r))
                    except ValueError:
                        continue
    return _POOL


def _canon_rows(rows):
    return [tuple(sorted((k, round(v, 12)) for k, v in r)) for r in rows]


def run_sweep_term(case):
    t, level = case
    desc = term_str(t)
    skind = "add_flattens_ziplongest" if _has_add_of_ziplongest(t) else "sweep"
    either = False
    try:
        keys, rows = ref_sweep(t)
        ref_err = None
    except RefError as e:
        ref_err = str(e)
    except RefEither:
        either = True
        ref_err = None
    try:
        s = build_sweep(t)
    except ValueError as e:
        if ref_err is not None or either:
            return good(nontrivial=True, rejected=1)
        return bad(f"{desc}: construction raised ValueError({e}) but the term is well-defined: keys {keys}, {len(rows)} assignments", kind=skind)
    if ref_err is not None:
        return bad(f"{desc}: accepted (-> {s!r}) but must be rejected with ValueError: {ref_err}", kind=skind)
    if either:
        return Res(skipped=True, nontrivial=False)
    n = len(rows)
    if len(s) != n:
        return bad(f"{desc}: len() = {len(s)}, reference has {n} assignments {[dict(r) for r in rows][:6]}; list() gives {list(s)[:6]}", kind=skind)
    m = _rows_match(list(s), rows)
    if m:
        return bad(f"{desc}: list(): {m}", kind=skind)
    m = _rows_match(list(s), rows)  # second iteration gives the same (no one-shot iterators)
    if m:
        return bad(f"{desc}: second iteration: {m}", kind=skind)
    got_keys = [k.name if isinstance(k, sympy.Symbol) else k for k in s.keys]
    if sorted(got_keys) != sorted(keys):
        return bad(f"{desc}: keys = {s.keys}, reference {keys}", kind=skind)
    pts = list(s.param_tuples())
    if len(pts) != n:
        return bad(f"{desc}: param_tuples() has {len(pts)} entries, reference {n}", kind=skind)
    for i, (pt, row) in enumerate(zip(pts, rows)):
        pt = tuple(pt)
        if len(pt) != len(row) or not _row_matches(cirq.ParamResolver(dict(pt)), row):
            return bad(f"{desc}: param_tuples()[{i}] = {pt}, reference {row}", kind=skind)
    for i in range(-n - 1, n + 1):
        try:
            r = s[i]
        except IndexError:
            if -n <= i < n:
                return bad(f"{desc}: s[{i}] raised IndexError, len is {n}", kind=skind)
            continue
        if not (-n <= i < n):
            return bad(f"{desc}: s[{i}] returned {r!r} but len is {n} (IndexError expected)", kind=skind)
        if not _row_matches(r, rows[i]):
            return bad(f"{desc}: s[{i}] = {r!r}, reference {dict(rows[i])}", kind=skind)
    ab = [None, 0, 1, -1, n]
    steps = [None, 1, 2, -1] if level >= 1 else [None, -1]
    if level == 0:
        ab = [None, 1, -1]
    nsl = 0
    for lo in ab:
        for hi in ab:
            for st in steps:
                sl = slice(lo, hi, st)
                sub = s[sl]
                if not isinstance(sub, cirq.Sweep):
                    return bad(f"{desc}: s[{sl}] is {sub!r}, not a Sweep", kind=skind)
                refrows = rows[sl]
                if len(sub) != len(refrows):
                    return bad(f"{desc}: len(s[{sl}]) = {len(sub)}, reference {len(refrows)}", kind=skind)
                m = _rows_match(list(sub), refrows)
                if m:
                    return bad(f"{desc}: s[{sl}]: {m}", kind=skind)
                nsl += 1
    # == / != / hash
    s2 = build_sweep(t)
    if not (s == s2) or (s != s2):
        return bad(f"{desc}: not equal to an identically constructed sweep", kind="sweep_eq")
    try:
        h1, h2 = hash(s), hash(s2)
    except TypeError:
        h1 = h2 = None
    if h1 != h2:
        return bad(f"{desc}: equal sweeps with different hashes", kind="sweep_eq")
    canon = _canon_rows(rows)
    for pt, p, (_, prow) in _eq_pool():
        e1, e2 = (s == p), (p == s)
        if e1 is NotImplemented or e2 is NotImplemented or bool(e1) != bool(e2):
            return bad(f"{desc} == {term_str(pt)}: asymmetric ({e1} vs {e2})", kind="sweep_eq")
        if bool(s != p) == bool(e1):
            return bad(f"{desc} vs {term_str(pt)}: == gives {e1} and != gives {s != p}", kind="sweep_eq")
        if e1:
            if canon != _canon_rows(prow):
                return bad(f"{desc} == {term_str(pt)} is True but they enumerate different assignments", kind="sweep_eq")
            if h1 is not None:
                try:
                    if hash(p) != h1:
                        return bad(f"{desc} == {term_str(pt)} but hashes differ", kind="sweep_eq")
                except TypeError:
                    pass
    return good(nontrivial=t[0] in COMB and n >= 1, assignments=n, slices=nsl)


def describe_sweep_term(case):
    return {"sweep": term_str(case[0]), "slice_level": case[1]}


def sweep_leaves():
    return [("U",), ("P", "x", 0), ("P", "x", 1), ("P", "x", 3), ("P", "y", 1), ("P", "y", 3), ("Ps", "z", 3),
            ("L", "x", 1), ("L", "x", 2), ("L", "x", 3), ("L", "y", 2), ("Lg", "z", 3),
            ("LS", 0), ("LS", 1), ("LS", 2), ("LS", 3)]


def reduced_leaves():
    return [("U",), ("P", "x", 0), ("P", "x", 1), ("P", "x", 3), ("P", "y", 3), ("L", "y", 2), ("L", "z", 2), ("LS", 2)]


def _valid(t):
    try:
        ref_sweep(t)
        return True
    except (RefError, RefEither):
        return False


def sweep_term_cases(tier):
    leaves = sweep_leaves()
    red = reduced_leaves()
    cases = [(t, 2) for t in leaves]
    d2 = []
    for c in ("Prod", "Zip", "ZipL", "Cat"):
        d2.append((c,))
        for x in leaves:
            d2.append((c, x))
    for c in COMB:
        for x in leaves:
            for y in leaves:
                d2.append((c, x, y))
    for c in ("Prod", "Zip", "ZipL", "Cat"):
        for x in red:
            for y in red:
                for z in red:
                    d2.append((c, x, y, z))
    cases += [(t, 2) for t in d2]
    # depth 3: binary combinators of a valid depth-2 binary term with a reduced leaf (both orders) ...
    base2 = [t for t in d2 if len(t) == 3 and _valid(t) and (tier == "thorough" or (t[1] in red and t[2] in red))]
    d3 = []
    for c in COMB:
        for t2 in base2:
            for l in red:
                d3.append((c, t2, l))
                d3.append((c, l, t2))
    # ... and of two valid depth-2 terms over the 4 core leaves
    core4 = [("P", "x", 1), ("P", "x", 3), ("P", "y", 3), ("L", "z", 2)]
    b4 = [(c, x, y) for c in COMB for x in core4 for y in core4 if _valid((c, x, y))]
    for c in COMB:
        for t1 in b4:
            for t2 in b4:
                d3.append((c, t1, t2))
    cases += [(t, 1 if tier == "thorough" else 0) for t in d3]
    return cases


# Sweepable forms ----------------------------------------------------------------------------------

def res_def(i):
    return [{}, {"x": 0.5}, {"x": 0.5, "y": 2}, {SX: 1.5}][i]


def dict_def(i):
    return [{}, {"x": 0.5}, {"x": [1.0, 2.0], "y": 3.0}, {"x": (1.0, 2.0), "y": [3.0]}, {SX: 1.0, "y": 2.0}][i]


SW_TERMS = [("U",), ("P", "x", 3), ("P", "x", 0), ("Prod", ("P", "x", 3), ("L", "y", 2)), ("Zip", ("P", "x", 3), ("L", "y", 2)), ("LS", 2)]


def build_form(f):
    tag = f[0]
    if tag == "none":
        return None
    if tag == "res":
        return cirq.ParamResolver(res_def(f[1]))
    if tag == "dict":
        return dict(dict_def(f[1]))
    if tag == "sw":
        return build_sweep(SW_TERMS[f[1]])
    items = [build_form(x) for x in f[1:]]
    if tag == "list":
        return items
    if tag == "tuple":
        return tuple(items)
    if tag == "gen":
        return (x for x in items)
    raise core.HarnessError(str(f))


def ref_form(f):
    tag = f[0]
    if tag == "none":
        return [()]
    if tag == "res":
        return [tuple(_norm_row(res_def(f[1])).items())]
    if tag == "dict":
        d = _norm_row(dict_def(f[1]))
        cols = [[(k, x) for x in (v if isinstance(v, (list, tuple)) else [v])] for k, v in d.items()]
        return [tuple(c) for c in itertools.product(*cols)]
    if tag == "sw":
        return ref_sweep(SW_TERMS[f[1]])[1]
    return [r for x in f[1:] for r in ref_form(x)]


def form_str(f):
    tag = f[0]
    if tag == "none":
        return "None"
    if tag == "res":
        return f"ParamResolver({res_def(f[1])})"
    if tag == "dict":
        return repr(dict_def(f[1]))
    if tag == "sw":
        return term_str(SW_TERMS[f[1]])
    inner = ", ".join(form_str(x) for x in f[1:])
    return {"list": f"[{inner}]", "tuple": f"({inner},)", "gen": f"(x for x in [{inner}])"}[tag]


def _to_sweep_ok(f, top=True):
    """Forms cirq.to_sweep documents: a Sweep, a resolver / dict of scalars, or an iterable of those."""
    tag = f[0]
    if tag == "sw":
        return top
    if tag == "res":
        return True
    if tag == "dict":
        return not any(isinstance(v, (list, tuple)) for v in dict_def(f[1]).values())
    if tag in ("list", "tuple", "gen") and top:
        return all(x[0] in ("res", "dict") and _to_sweep_ok(x, False) for x in f[1:])
    return False


def run_sweepable(case):
    f = case
    rows = ref_form(f)
    desc = form_str(f)
    with warnings.catch_warnings():
        warnings.simplefilter("ignore")
        got = list(cirq.to_resolvers(build_form(f)))
        m = _rows_match(got, rows)
        if m:
            return bad(f"to_resolvers({desc}): {m}", kind="sweepable")
        sw = cirq.to_sweeps(build_form(f))
        if not isinstance(sw, list) or not all(isinstance(x, cirq.Sweep) for x in sw):
            return bad(f"to_sweeps({desc}) = {sw!r} is not a list of Sweeps", kind="sweepable")
        m = _rows_match([r for x in sw for r in x], rows)
        if m:
            return bad(f"to_sweeps({desc}) = {sw!r}: {m}", kind="sweepable")
        if sum(len(x) for x in sw) != len(rows):
            return bad(f"to_sweeps({desc}) = {sw!r}: total len {sum(len(x) for x in sw)} != {len(rows)}", kind="sweepable")
        if _to_sweep_ok(f):
            one = cirq.to_sweep(build_form(f))
            if not isinstance(one, cirq.Sweep):
                return bad(f"to_sweep({desc}) = {one!r} is not a Sweep", kind="sweepable")
            m = _rows_match(list(one), rows)
            if m or len(one) != len(rows):
                return bad(f"to_sweep({desc}) = {one!r}: {m or 'wrong len'}", kind="sweepable")
    return good(nontrivial=len(rows) >= 1 and f[0] != "none")


def sweepable_cases(tier):
    base = [("none",)] + [("res", i) for i in range(4)] + [("dict", i) for i in range(5)] + [("sw", i) for i in range(len(SW_TERMS))]
    out = list(base)
    out.append(("list",))
    for x in base:
        out.append(("list", x))
        out.append(("gen", x))
        for y in base:
            out.append(("list", x, y))
    small = [("none",), ("res", 2), ("dict", 2), ("sw", 3), ("dict", 1)]
    for x in small:
        for y in small:
            out.append(("tuple", x, y))
            out.append(("gen", x, y))
            for z in small:
                out.append(("list", x, ("list", y, z)))
                out.append(("list", ("tuple", x, y), z))
    return out


DV = [None, 1.5, [0.25], [0.1, 0.2, 0.3], (0.4, 0.5), []]


def run_dict_to_sweep(case):
    vx, vy, vz, kf, fn = case
    d = {}
    for name, vi in zip("xyz", (vx, vy, vz)):
        if vi:
            d[sympy.Symbol(name) if kf and name != "y" else name] = DV[vi]
    cols = [[(name, v) for v in (DV[vi] if isinstance(DV[vi], (list, tuple)) else [DV[vi]])] for name, vi in zip("xyz", (vx, vy, vz)) if vi]
    if fn == 0:
        rows = [tuple(c) for c in itertools.product(*cols)]
        s = cirq.dict_to_product_sweep(d)
        name = "dict_to_product_sweep"
    else:
        rows = [tuple(c) for c in zip(*cols)] if cols else []
        s = cirq.dict_to_zip_sweep(d)
        name = "dict_to_zip_sweep"
    if len(s) != len(rows):
        return bad(f"{name}({d}) = {s!r}: len {len(s)}, reference {len(rows)}", kind="dict_to_sweep")
    m = _rows_match(list(s), rows)
    if m:
        return bad(f"{name}({d}) = {s!r}: {m}", kind="dict_to_sweep")
    return good(nontrivial=len(cols) >= 1)


def dict_to_sweep_cases(tier):
    return [(vx, vy, vz, kf, fn) for vx in range(6) for vy in range(6) for vz in range(6) for kf in (0, 1) for fn in (0, 1)]


LD = [{"x": 0.5}, {"x": 0.6, "y": 1.5}, {"y": 2.5, "x": 0.7}, {"x": 0.8, "y": 3.5, "z": 4.5}]


def run_list_of_dicts(case):
    dicts = [dict(LD[i]) for i in case]
    ok = len(dicts) >= 1 and all(set(d) == set(dicts[0]) for d in dicts)
    try:
        s = cirq.list_of_dicts_to_zip(dicts)
    except ValueError:
        if ok:
            return bad(f"list_of_dicts_to_zip({dicts}) raised ValueError on a consistent list", kind="list_of_dicts")
        return good(nontrivial=True, rejected=1)
    if not ok:
        return bad(f"list_of_dicts_to_zip({dicts}) = {s!r}: accepted an empty list / inconsistent keys (ValueError documented)", kind="list_of_dicts")
    m = _rows_match(list(s), [tuple(d.items()) for d in dicts])
    if m or len(s) != len(dicts):
        return bad(f"list_of_dicts_to_zip({dicts}) = {s!r}: {m or 'wrong len'}", kind="list_of_dicts")
    return good(nontrivial=len(dicts) >= 2)


def list_of_dicts_cases(tier):
    out = [()]
    for n in (1, 2, 3):
        out += list(itertools.product(range(len(LD)), repeat=n))
    return out


# ---------------------------------------------------------------------------------------------
# stage (b): parameterized objects

Q0, Q1, Q2 = cirq.LineQubit.range(3)
QS = [Q0, Q1, Q2]
SM = sympy.Symbol("m")
PEXPR = [SA, 2 * SA + SB, SA ** 2, SA * PI]
PEXPR_NAMES = ["a", "2*a+b", "a**2", "a*pi"]


def _ph(p):
    """Unit-modulus coefficient exp(i p)."""
    return sympy.exp(I * p) if isinstance(p, sympy.Basic) else cmath.exp(1j * p)


def _num_tags(tags):
    out = []
    for t in tags:
        out.append(t if isinstance(t, str) else complex(t))
    return out


def obs_u(x):
    return [np.asarray(cirq.unitary(x))]


def obs_circ(x):
    return [x.unitary(qubit_order=QS)] + _num_tags(x.tags)


def obs_in_circuit(x):
    return [cirq.Circuit(x).unitary(qubit_order=QS)]


def obs_tagged(x):
    return [np.asarray(cirq.unitary(x))] + _num_tags(x.tags)


def obs_moment_tags(x):
    return [cirq.Circuit(x).unitary(qubit_order=QS)] + [t for op in x.operations for t in _num_tags(op.tags)]


def obs_matrix(x):
    return [np.asarray(x.matrix())]


def obs_kraus(x):
    return [np.stack(cirq.kraus(x))]


def obs_sim(x):
    return [cirq.Simulator(seed=1).simulate(x, qubit_order=QS).final_state_vector]


def _inner_c(exprs):
    return [e.xreplace({SA: SC + 1}) for e in exprs]


def _inner_swap(exprs):
    return [e.xreplace({SA: SB, SB: SA}, ) if isinstance(e, sympy.Basic) else e for e in exprs]


def families():
    """(name, number of parameter slots, build(params) -> object, observe, pre = effective expressions)."""
    X, Y, Z = cirq.X, cirq.Y, cirq.Z
    F = []

    def add(name, n, build, obs=obs_u, pre=None):
        F.append((name, n, build, obs, pre))

    for nm, g in [("X", X), ("Y", Y), ("Z", Z), ("H", cirq.H), ("S", cirq.S), ("T", cirq.T)]:
        add(f"{nm}**p", 1, lambda p, g=g: g(Q0) ** p[0])
    for nm, g in [("CZ", cirq.CZ), ("CNOT", cirq.CNOT), ("SWAP", cirq.SWAP), ("ISWAP", cirq.ISWAP), ("XX", cirq.XX),
                  ("YY", cirq.YY), ("ZZ", cirq.ZZ)]:
        add(f"{nm}**p", 1, lambda p, g=g: g(Q0, Q1) ** p[0])
    for nm, g in [("CCZ", cirq.CCZ), ("CCX", cirq.CCX)]:
        add(f"{nm}**p", 1, lambda p, g=g: g(Q0, Q1, Q2) ** p[0])
    add("ZPowGate(p,global_shift=-0.5)", 1, lambda p: cirq.ZPowGate(exponent=p[0], global_shift=-0.5).on(Q0))
    add("XPowGate(p,global_shift=0.25)", 1, lambda p: cirq.XPowGate(exponent=p[0], global_shift=0.25).on(Q0))
    add("CZPowGate(p,global_shift=0.5)", 1, lambda p: cirq.CZPowGate(exponent=p[0], global_shift=0.5).on(Q0, Q1))
    add("rx(p)", 1, lambda p: cirq.rx(p[0]).on(Q0))
    add("ry(p)", 1, lambda p: cirq.ry(p[0]).on(Q0))
    add("rz(p)", 1, lambda p: cirq.rz(p[0]).on(Q0))
    add("ms(p)", 1, lambda p: cirq.ms(p[0]).on(Q0, Q1))
    add("PhasedXPowGate(phase_exponent=p0,exponent=p1)", 2, lambda p: cirq.PhasedXPowGate(phase_exponent=p[0], exponent=p[1]).on(Q0))
    add("PhasedXZGate(x=p0,z=p1,axis=p2)", 3, lambda p: cirq.PhasedXZGate(x_exponent=p[0], z_exponent=p[1], axis_phase_exponent=p[2]).on(Q0))
    add("PhasedISwapPowGate(phase_exponent=p0,exponent=p1)", 2, lambda p: cirq.PhasedISwapPowGate(phase_exponent=p[0], exponent=p[1]).on(Q0, Q1))
    add("PhasedXPowGate(phase_exponent=p0,exponent=p1,global_shift=0.3)", 2, lambda p: cirq.PhasedXPowGate(phase_exponent=p[0], exponent=p[1], global_shift=0.3).on(Q0))
    add("PhasedISwapPowGate(phase_exponent=p0,exponent=p1,global_shift=0.3)", 2, lambda p: cirq.PhasedISwapPowGate(phase_exponent=p[0], exponent=p[1], global_shift=0.3).on(Q0, Q1))
    for nm, g in [("YPowGate", cirq.YPowGate), ("HPowGate", cirq.HPowGate)]:
        add(f"{nm}(p,global_shift=-0.25)", 1, lambda p, g=g: g(exponent=p[0], global_shift=-0.25).on(Q0))
    for nm, g in [("CXPowGate", cirq.CXPowGate), ("SwapPowGate", cirq.SwapPowGate), ("ISwapPowGate", cirq.ISwapPowGate),
                  ("XXPowGate", cirq.XXPowGate), ("YYPowGate", cirq.YYPowGate), ("ZZPowGate", cirq.ZZPowGate)]:
        add(f"{nm}(p,global_shift=0.4)", 1, lambda p, g=g: g(exponent=p[0], global_shift=0.4).on(Q0, Q1))
    for nm, g in [("CCZPowGate", cirq.CCZPowGate), ("CCXPowGate", cirq.CCXPowGate)]:
        add(f"{nm}(p,global_shift=0.4)", 1, lambda p, g=g: g(exponent=p[0], global_shift=0.4).on(Q0, Q1, Q2))
    add("PhaseGradientGate(exponent=p) on 3 qubits", 1, lambda p: cirq.PhaseGradientGate(num_qubits=3, exponent=p[0]).on(Q0, Q1, Q2))
    add("FSimGate(p0,p1)", 2, lambda p: cirq.FSimGate(theta=p[0], phi=p[1]).on(Q0, Q1))
    add("PhasedFSimGate(p0..p4)", 5, lambda p: cirq.PhasedFSimGate(theta=p[0], zeta=p[1], chi=p[2], gamma=p[3], phi=p[4]).on(Q0, Q1))
    add("GlobalPhaseGate(exp(i p))", 1, lambda p: cirq.global_phase_operation(_ph(p[0])))
    add("DiagonalGate([p0,p1])", 2, lambda p: cirq.DiagonalGate([p[0], p[1]]).on(Q0))
    add("TwoQubitDiagonalGate([p0,p1,0.3,p0])", 2, lambda p: cirq.TwoQubitDiagonalGate([p[0], p[1], 0.3, p[0]]).on(Q0, Q1))
    add("ThreeQubitDiagonalGate", 2, lambda p: cirq.ThreeQubitDiagonalGate([p[0], p[1], 0.3, p[0], 0, 0.1, 0, p[1]]).on(Q0, Q1, Q2))
    add("PhaseGradientGate(exponent=p)", 1, lambda p: cirq.PhaseGradientGate(num_qubits=2, exponent=p[0]).on(Q0, Q1))
    add("ControlledGate(Y**p)", 1, lambda p: cirq.ControlledGate(Y ** p[0], control_values=[0]).on(Q0, Q1))
    add("(Y**p).controlled_by", 1, lambda p: (Y(Q1) ** p[0]).controlled_by(Q0, Q2))
    add("ParallelGate(X**p,2)", 1, lambda p: cirq.ParallelGate(X ** p[0], 2).on(Q0, Q1))
    add("PauliStringPhasor(neg=p0,pos=p1)", 2, lambda p: cirq.PauliStringPhasor(X(Q0) * Z(Q1), exponent_neg=p[0], exponent_pos=p[1]))
    add("PauliStringPhasorGate(neg=p0,pos=p1)", 2, lambda p: cirq.PauliStringPhasorGate(cirq.DensePauliString("XZ"), exponent_neg=p[0], exponent_pos=p[1]).on(Q0, Q1))
    add("DensePauliString(coefficient=exp(i p))", 1, lambda p: cirq.DensePauliString("XZ", coefficient=_ph(p[0])).on(Q0, Q1))
    add("PauliString(coefficient=p)", 1, lambda p: cirq.PauliString({Q0: X, Q1: Z}, coefficient=p[0]), obs_matrix)
    add("PauliSumExponential(exponent=p)", 1, lambda p: cirq.PauliSumExponential(X(Q0) * X(Q1) + Z(Q0) * Z(Q1), exponent=p[0]), obs_matrix)
    add("LinearCombinationOfGates({X**p0: p1, Z: 0.5})", 2, lambda p: cirq.LinearCombinationOfGates({X ** p[0]: p[1], Z: 0.5}), obs_matrix)
    add("LinearCombinationOfOperations", 2, lambda p: cirq.LinearCombinationOfOperations({X(Q0) ** p[0]: p[1], Z(Q1): 0.5}), obs_matrix)
    add("LinearDict", 2, lambda p: cirq.LinearDict({"X": p[0], "Y": p[1]}), lambda x: [complex(x["X"]), complex(x["Y"])])
    add("RandomGateChannel(X**p,0.25)", 1, lambda p: cirq.RandomGateChannel(sub_gate=X ** p[0], probability=0.25).on(Q0), obs_kraus)
    add("WaitGate(Duration(nanos=p))", 1, lambda p: cirq.wait(Q0, nanos=p[0]), lambda x: [complex(x.gate.duration.total_picos())])
    add("Duration(nanos=p0,picos=p1)", 2, lambda p: cirq.Duration(nanos=p[0], picos=p[1]), lambda x: [complex(x.total_picos())])
    add("PeriodicValue(p,2.5)", 1, lambda p: cirq.PeriodicValue(p[0], 2.5), lambda x: [complex(x.value), complex(x.period)])
    # tags
    add("(X**p0).with_tags(p1,'a')", 2, lambda p: (X(Q0) ** p[0]).with_tags(p[1], "a"), obs_tagged)
    add("(X**0.5).with_tags(p0)", 1, lambda p: (X(Q0) ** 0.5).with_tags(p[0]), obs_tagged)
    # composites
    add("Moment[X**p0,CZ**p1]", 2, lambda p: cirq.Moment([X(Q0) ** p[0], cirq.CZ(Q1, Q2) ** p[1]]), obs_moment_tags)
    add("Moment[(X**0.5).with_tags(p0),Y**p1]", 2, lambda p: cirq.Moment([(X(Q0) ** 0.5).with_tags(p[0]), Y(Q1) ** p[1]]), obs_moment_tags)
    add("Moment[(X**0.5).with_tags(p0),Y]", 1, lambda p: cirq.Moment([(X(Q0) ** 0.5).with_tags(p[0]), Y(Q1)]), obs_moment_tags)

    def circ(p):
        return cirq.Circuit(cirq.Moment([cirq.H(Q0), Y(Q2) ** 0.3]), cirq.Moment([X(Q0) ** p[0]]), cirq.Moment([cirq.CZ(Q0, Q1) ** p[1], Y(Q2)]))

    add("Circuit", 2, circ, obs_circ)
    add("FrozenCircuit", 2, lambda p: circ(p).freeze(), obs_circ)
    add("Circuit.with_tags(p2)", 3, lambda p: circ(p).with_tags(p[2], "a"), obs_circ)
    add("FrozenCircuit(tags=[p2])", 3, lambda p: cirq.FrozenCircuit(circ(p).moments, tags=[p[2]]), obs_circ)
    add("Circuit[unparameterized moment + tag p0]", 1, lambda p: cirq.Circuit(cirq.H(Q0), (X(Q1) ** 0.5).with_tags(p[0])), lambda x: obs_circ(x) + [t for op in x.all_operations() for t in _num_tags(op.tags)])

    def sub2(p):
        return cirq.FrozenCircuit(X(Q0) ** p[0], cirq.CZ(Q0, Q1) ** p[1], Y(Q1) ** 0.25)

    add("CircuitOperation(2q)", 2, lambda p: cirq.CircuitOperation(sub2(p)), obs_in_circuit)
    add("CircuitOperation(2q,repetitions=2)", 2, lambda p: cirq.CircuitOperation(sub2(p), repetitions=2), obs_in_circuit)
    add("CircuitOperation(2q,param_resolver={a:c+1})", 2,
        lambda p: cirq.CircuitOperation(sub2(p), param_resolver={SA: SC + 1}) if any(isinstance(x, sympy.Basic) for x in p) else cirq.CircuitOperation(sub2(p)),
        obs_in_circuit, _inner_c)
    add("CircuitOperation(2q,param_resolver={a:b,b:a})", 2,
        lambda p: cirq.CircuitOperation(sub2(p), param_resolver={SA: SB, SB: SA}) if any(isinstance(x, sympy.Basic) for x in p) else cirq.CircuitOperation(sub2(p)),
        obs_in_circuit, lambda ex: [e.xreplace({SA: SB, SB: SA}) for e in ex])
    add("CircuitOperation(2q) inside a Circuit", 2, lambda p: cirq.Circuit(cirq.H(Q0), cirq.CircuitOperation(sub2(p))), obs_circ)
    add("CircuitOperation(1q)", 1, lambda p: cirq.CircuitOperation(cirq.FrozenCircuit(X(Q0) ** p[0], Y(Q0) ** 0.25)), obs_u)
    add("CircuitOperation[PhasedFSimGate]", 2, lambda p: cirq.CircuitOperation(cirq.FrozenCircuit(cirq.PhasedFSimGate(theta=p[0], zeta=0.1, chi=0.2, gamma=p[1], phi=0.3).on(Q0, Q1))), obs_in_circuit)
    add("classically controlled X**p on Eq(m,1)", 1,
        lambda p: cirq.Circuit(X(Q0), cirq.measure(Q0, key="m"), (X(Q1) ** p[0]).with_classical_controls(sympy.Eq(SM, 1)), cirq.H(Q2)), obs_sim)
    add("classically controlled op", 1, lambda p: (X(Q1) ** p[0]).with_classical_controls(sympy.Eq(SM, 1)),
        lambda x: [np.asarray(cirq.unitary(x.without_classical_controls())), str(sorted(str(k) for k in cirq.control_keys(x))), repr(x.classical_controls)])
    return F


_FAMS = []


def obj_resolvers():
    g0 = abs(core.generic(_SEED, 0)) + 0.11
    g1 = abs(core.generic(_SEED, 1)) + 0.07
    return [
        ("full,str keys", {"a": g0, "b": g1, "m": 0.0}, True),
        ("full,Symbol keys,int+np.float64", {SA: 2, SB: np.float64(0.5), SM: 0.0}, True),
        ("chain a->b->number", {"a": SB, "b": g1, "m": 0.0}, True),
        ("chain a->b->number, recursive=False", {"a": SB, "b": g1, "m": 0.0}, False),
        ("partial a", {"a": g0, "m": 0.0}, True),
        ("partial b,Symbol key", {SB: g1}, True),
        ("a->'b'", {"a": "b", "b": g1}, True),
        ("a->b+1", {"a": SB + 1, "b": g1, "m": 0.0}, True),
        ("unrelated only", {"c": 1.0, "m": 0.0}, True),
        ("identity a->a", {SA: SA, "b": g1}, True),
        ("full, recursive=False", {"a": g0, "b": g1, "m": 0.0}, False),
    ]


def _ref_of_dict(d):
    m = {}
    for k, v in d.items():
        k = sympy.Symbol(k) if isinstance(k, str) else k
        if isinstance(v, str):
            v = sympy.Symbol(v)
        elif not isinstance(v, sympy.Basic):
            v = sympy.Float(float(v))
        m[k] = v
    return RefMap(m)


def _complete():
    h = [abs(core.generic(_SEED, 2)) + 0.05, abs(core.generic(_SEED, 3)) + 0.21, abs(core.generic(_SEED, 4)) + 0.13]
    return {"a": h[0], "b": h[1], "c": h[2]}


def _obs_equal(x, y):
    if len(x) != len(y):
        return f"{len(x)} vs {len(y)} observables"
    for u, v in zip(x, y):
        if isinstance(u, str) or isinstance(v, str):
            if u != v:
                return f"{u!r} vs {v!r}"
        else:
            u, v = np.asarray(u), np.asarray(v)
            if u.shape != v.shape or not np.allclose(u, v, atol=1e-8):
                return f"{np.round(u, 6).tolist()} vs reference {np.round(v, 6).tolist()}"
    return None


def slot_assignments(n):
    k = len(PEXPR)
    if n <= 2:
        return list(itertools.product(range(k), repeat=n))
    out = [tuple((i + r) % k for i in range(n)) for r in range(k)] + [tuple([r] * n) for r in range(k)]
    return out


def run_object(case):
    fi, pa, ri = case
    name, nslots, build, observe, pre = _FAMS[fi]
    rname, rdict, recursive = obj_resolvers()[ri]
    exprs = [PEXPR[i] for i in pa]
    eff = pre(exprs) if pre else exprs
    rm = _ref_of_dict(rdict)
    what = f"{name} with p={[PEXPR_NAMES[i] for i in pa]}"
    fam = {"family": name}
    x = build(exprs)
    issues = []  # (kind, message); the first one names the violation, later checks still run where they can

    def done():
        if issues:
            return bad(" || ".join(m for _, m in issues), kind=issues[0][0], **fam)
        return None

    names0 = {s.name for e in eff for s in e.free_symbols}
    got0 = set(cirq.parameter_names(x))
    if got0 != names0:
        issues.append(("parameter_names", f"parameter_names({what}) = {sorted(got0)}, free symbols are {sorted(names0)}"))
    if not cirq.is_parameterized(x):
        issues.append(("is_parameterized", f"is_parameterized({what}) is False, free symbols are {sorted(names0)}"))
    resolver = cirq.ParamResolver(dict(rdict))
    call = f"resolve_parameters({what}, {rdict}, recursive={recursive})"
    try:
        y = cirq.resolve_parameters(x, resolver, recursive)
    except Exception as ex:  # noqa
        kind = "pow_numeric_base_symbolic_exponent" if isinstance(ex, TypeError) and "float_power" in str(ex) else "resolve_exception"
        issues.append((kind, f"{call} raised {type(ex).__name__}: {ex}"))
        return done()
    refs = []
    for e in eff:
        if recursive:
            r, _ = rm.fix(e)
            if r is None:
                raise core.HarnessError("cycle in object resolver")
        else:
            r = rm.once(e)
        refs.append(r)
    names1 = {s.name for r in refs for s in r.free_symbols}
    got1 = set(cirq.parameter_names(y))
    if got1 != names1:
        issues.append(("parameter_names_after", f"parameter_names({call}) = {sorted(got1)}, ordinary substitution leaves {sorted(names1)} (parameters become {refs})"))
    if bool(cirq.is_parameterized(y)) != bool(names1):
        issues.append(("is_parameterized_after", f"is_parameterized({call}) = {cirq.is_parameterized(y)}, ordinary substitution leaves {sorted(names1)}"))
    if names1:
        comp = _complete()
        try:
            y2 = cirq.resolve_parameters(y, comp, True)
        except Exception as ex:  # noqa
            issues.append(("resolve_exception", f"{call} = {y!r}; resolving the rest with {comp} raised {type(ex).__name__}: {ex}"))
            return done()
        cm = {sympy.Symbol(k): sympy.Float(v) for k, v in comp.items()}
        refs = [r.xreplace(cm) for r in refs]
        if cirq.is_parameterized(y2):
            issues.append(("is_parameterized_after", f"{call} then {comp}: still parameterized: {y2!r}"))
    else:
        y2 = y
    nums = []
    for r in refs:
        v = nev(r, {})
        if abs(v.imag) > 1e-12:
            raise core.HarnessError(f"complex parameter {v}")
        nums.append(v.real)
    z = build(nums)
    oz = observe(z)
    try:
        oy = observe(y2)
    except Exception as ex:  # noqa
        issues.append(("observe_exception", f"{call} -> {y2!r}: observing it raised {type(ex).__name__}: {str(ex)[:300]} (the object rebuilt from numbers {nums} is fine)"))
        return done()
    m = _obs_equal(oy, oz)
    if m:
        issues.append(("object_value", f"{call} (then completed) -> {y2!r} differs from the object rebuilt from substituted numbers {nums}: {m}"))
    if issues:
        return done()
    touched = any(rm.touches(e) for e in eff)
    return good(nontrivial=touched)


def describe_object(case):
    fi, pa, ri = case
    return {"family": _FAMS[fi][0], "params": [PEXPR_NAMES[i] for i in pa], "resolver": obj_resolvers()[ri][0]}


def object_cases(tier):
    out = []
    nres = len(obj_resolvers())
    for fi, f in enumerate(_FAMS):
        for pa in slot_assignments(f[1]):
            for ri in range(nres):
                out.append((fi, pa, ri))
    return out


# ---------------------------------------------------------------------------------------------
# stage (d): simulate_sweep / run_sweep == per-resolver simulation == substituted circuit

def sim_letters():
    """(name, build(a, b) -> op, parameterized?)"""
    return [
        ("H(q0)", lambda a, b: cirq.H(Q0), False),
        ("CNOT(q0,q1)", lambda a, b: cirq.CNOT(Q0, Q1), False),
        ("X(q1)**0.3", lambda a, b: cirq.X(Q1) ** 0.3, False),
        ("X(q0)**a", lambda a, b: cirq.X(Q0) ** a, True),
        ("Z(q1)**(2a+b)", lambda a, b: cirq.Z(Q1) ** (2 * a + b), True),
        ("CZ(q0,q1)**b", lambda a, b: cirq.CZ(Q0, Q1) ** b, True),
        ("rx(a*pi)(q1)", lambda a, b: cirq.rx(a * (PI if isinstance(a, sympy.Basic) else math.pi)).on(Q1), True),
        ("(Y(q0)**0.5).with_tags(a)", lambda a, b: (cirq.Y(Q0) ** 0.5).with_tags(a), True),
    ]


SIMS = ["Simulator", "Simulator(split_untangled_states=False)", "DensityMatrixSimulator", "Simulator initial_state=2"]


def _make_sim(si):
    if si in (0, 3):
        return cirq.Simulator(dtype=np.complex128, seed=11)
    if si == 1:
        return cirq.Simulator(dtype=np.complex128, seed=11, split_untangled_states=False)
    return cirq.DensityMatrixSimulator(dtype=np.complex128, seed=11)


def _sim_sweeps():
    """(name, sweepable, [(a, b), ...]).  #0 has distinct assignments; the others visit an assignment more than once
    (duplicate of the LAST point first / in the middle, all points equal, Concat sharing end values, equal resolvers in
    a ListSweep / plain list, Product / ZipLongest producing repeated rows): the shared unparameterized-prefix state must
    be copied for every point but the last, whatever the assignments are."""
    g = abs(core.generic(_SEED, 0)) + 0.1
    P, Z = cirq.Points, cirq.Zip
    return [
        ("distinct", cirq.Product(P("a", [g, 0.5]), cirq.Linspace("b", 0, 1, 2)), [(g, 0.0), (g, 1.0), (0.5, 0.0), (0.5, 1.0)]),
        ("closed loop (first == last)", Z(P("a", [0.5, g, 0.5]), P("b", [0.25, 1.0, 0.25])), [(0.5, 0.25), (g, 1.0), (0.5, 0.25)]),
        ("last point also in the middle", Z(P("a", [g, 0.5, 0.3, 0.5]), P("b", [0.0, 0.25, 1.0, 0.25])),
         [(g, 0.0), (0.5, 0.25), (0.3, 1.0), (0.5, 0.25)]),
        ("all points equal", Z(P("a", [g, g, g]), P("b", [0.5, 0.5, 0.5])), [(g, 0.5)] * 3),
        ("Concat sharing end values", cirq.Product(cirq.Concat(cirq.Linspace("a", 1.0, 0.0, 3), cirq.Linspace("a", 0.5, 0.0, 2)), P("b", [g])),
         [(1.0, g), (0.5, g), (0.0, g), (0.5, g), (0.0, g)]),
        ("ListSweep with equal resolvers", cirq.ListSweep([{"a": g, "b": 0.5}, {"a": 0.3, "b": 0.125}, {"a": g, "b": 0.5}, {"a": g, "b": 0.5}]),
         [(g, 0.5), (0.3, 0.125), (g, 0.5), (g, 0.5)]),
        ("plain list of resolvers with a duplicate of the last", [cirq.ParamResolver({"a": 0.75, "b": g}), {"a": 0.25, "b": 0.0}, cirq.ParamResolver({"a": 0.75, "b": g})],
         [(0.75, g), (0.25, 0.0), (0.75, g)]),
        ("Product / ZipLongest with repeated rows", cirq.Product(cirq.ZipLongest(P("a", [0.5, g, 0.5]), P("b", [0.25])), cirq.UnitSweep),
         [(0.5, 0.25), (g, 0.25), (0.5, 0.25)]),
    ]


def _mk_circuit(seq, layout, a, b):
    L = sim_letters()
    ops = [L[i][1](a, b) for i in seq]
    return cirq.Circuit([cirq.Moment(o) for o in ops]) if layout == 0 else cirq.Circuit(ops)


def run_sim_sweep(case):
    seq, layout, si, wi = case
    L = sim_letters()
    circ = _mk_circuit(seq, layout, SA, SB)
    wname, sweep, pts = _sim_sweeps()[wi]
    sim = _make_sim(si)
    init = 2 if si == 3 else 0
    desc = f"{SIMS[si]}.simulate_sweep(Circuit({[L[i][0] for i in seq]}, {'one op per moment' if layout == 0 else 'packed'}), {sweep!r} [{wname}])"
    prefix_len = 0
    for i in seq:
        if L[i][2]:
            break
        prefix_len += 1
    kw = {"initial_state": init} if init else {}
    results = sim.simulate_sweep(circ, sweep, qubit_order=[Q0, Q1], **kw)
    if len(results) != len(pts):
        return bad(f"{desc}: {len(results)} results for {len(pts)} assignments", kind="simulate_sweep")

    def state_of(res):
        if si == 2:
            return np.asarray(res.final_density_matrix)
        psi = np.asarray(res.final_state_vector)
        return np.outer(psi, psi.conj())

    for i, (av, bv) in enumerate(pts):
        ref_circ = _mk_circuit(seq, layout, av, bv)
        u = ref_circ.unitary(qubit_order=[Q0, Q1])
        psi = u[:, init]
        rho = np.outer(psi, psi.conj())
        got = state_of(results[i])
        pd = _norm_row(results[i].params.param_dict)
        if set(pd) != {"a", "b"} or abs(pd["a"] - av) > 1e-12 or abs(pd["b"] - bv) > 1e-12:
            return bad(f"{desc}: result #{i} carries params {results[i].params!r}, assignment #{i} is a={av}, b={bv}", kind="simulate_sweep")
        if not np.allclose(got, rho, atol=1e-8):
            return bad(f"{desc}: result #{i} (a={av}, b={bv}) differs from the state of the circuit with the numbers substituted "
                       f"(unparameterized prefix length {prefix_len}); max deviation {np.abs(got - rho).max():.3g}", kind="simulate_sweep")
        single = sim.simulate(circ, cirq.ParamResolver({"a": av, "b": bv}), qubit_order=[Q0, Q1], **kw)
        if not np.allclose(state_of(single), got, atol=1e-8):
            return bad(f"{desc}: result #{i} differs from simulate(circuit, {{a:{av}, b:{bv}}})", kind="simulate_sweep")
    return good(nontrivial=any(L[i][2] for i in seq), max_prefix=prefix_len, repeated_assignment_sweeps=1 if wi else 0)


def describe_sim(case):
    seq, layout, si, wi = case
    return {"ops": [sim_letters()[i][0] for i in seq], "layout": ["one op per moment", "packed"][layout], "simulator": SIMS[si],
            "sweep": _sim_sweeps()[wi][0]}


def sim_sweep_cases(tier):
    n = len(sim_letters())
    Lmax = 3 if tier == "quick" else 4
    out = []
    for k in range(1, Lmax + 1):
        for seq in itertools.product(range(n), repeat=k):
            for layout in (0, 1):
                for si in range(len(SIMS)):
                    if k == Lmax and si in (1, 3):
                        continue
                    out.append((seq, layout, si, 0))
    # sweeps that visit an assignment more than once: every sequence (= every unparameterized-prefix length), both
    # layouts, state-vector and density-matrix simulators
    nw = len(_sim_sweeps())
    for k in range(1, Lmax + 1):
        for seq in itertools.product(range(n), repeat=k):
            for layout in (0, 1):
                for si in (0, 2):
                    if tier == "quick" and k == Lmax and (layout == 0 or si == 2):
                        continue
                    for wi in range(1, nw):
                        out.append((seq, layout, si, wi))
    return out


def run_letters():
    return [
        ("X(q0)**a", lambda a, b: cirq.X(Q0) ** a),
        ("X(q1)**b", lambda a, b: cirq.X(Q1) ** b),
        ("CNOT(q0,q1)", lambda a, b: cirq.CNOT(Q0, Q1)),
        ("X(q1)", lambda a, b: cirq.X(Q1)),
        ("X(q0)**(a*b)", lambda a, b: cirq.X(Q0) ** (a * b)),
        ("SWAP(q0,q1)", lambda a, b: cirq.SWAP(Q0, Q1)),
    ]


def run_run_sweep(case):
    seq, si, wi = case
    L = run_letters()
    mk = lambda a, b: cirq.Circuit([L[i][1](a, b) for i in seq] + [cirq.measure(Q0, Q1, key="m")])
    circ = mk(SA, SB)
    if wi == 0:
        sweep = cirq.Product(cirq.Points("a", [0, 1]), cirq.Points("b", [1, 0]))
        pts = [(0, 1), (0, 0), (1, 1), (1, 0)]
    else:  # repeated assignments (the last one also first and in the middle)
        sweep = cirq.Zip(cirq.Points("a", [1, 0, 1, 1]), cirq.Points("b", [0, 1, 0, 0]))
        pts = [(1, 0), (0, 1), (1, 0), (1, 0)]
    sim = cirq.Simulator(seed=5) if si == 0 else cirq.DensityMatrixSimulator(seed=5)
    desc = f"{'Simulator' if si == 0 else 'DensityMatrixSimulator'}.run_sweep(Circuit({[L[i][0] for i in seq]} + measure(q0,q1,key='m')), {sweep!r}, repetitions=3)"
    results = sim.run_sweep(circ, sweep, repetitions=3)
    if len(results) != len(pts):
        return bad(f"{desc}: {len(results)} results for {len(pts)} assignments", kind="run_sweep")
    for i, (av, bv) in enumerate(pts):
        u = cirq.Circuit([L[j][1](av, bv) for j in seq]).unitary(qubit_order=[Q0, Q1])
        psi = u[:, 0]
        idx = int(np.argmax(np.abs(psi)))
        if abs(abs(psi[idx]) - 1) > 1e-9:
            raise core.HarnessError("run_sweep letter alphabet must keep basis states")
        bits = [(idx >> 1) & 1, idx & 1]
        m = np.asarray(results[i].measurements["m"])
        pd = _norm_row(results[i].params.param_dict)
        if pd != {"a": av, "b": bv}:
            return bad(f"{desc}: result #{i} carries params {results[i].params!r}, assignment is a={av}, b={bv}", kind="run_sweep")
        if m.shape != (3, 2) or not (m == np.array(bits)).all():
            return bad(f"{desc}: result #{i} (a={av}, b={bv}) measured {m.tolist()}, the substituted circuit gives {bits} with certainty", kind="run_sweep")
    return good(nontrivial=True)


def run_sweep_cases(tier):
    n = len(run_letters())
    out = []
    for k in range(1, (3 if tier == "quick" else 4) + 1):
        for seq in itertools.product(range(n), repeat=k):
            for si in (0, 1):
                for wi in (0, 1):
                    out.append((seq, si, wi))
    return out


# ---------------------------------------------------------------------------------------------
# stage (e): flatten

def _flat_env():
    return {"a": abs(core.generic(_SEED, 0)) + 0.21, "b": abs(core.generic(_SEED, 1)) + 0.43, "c": abs(core.generic(_SEED, 2)) + 0.17}


def _gate_params(op):
    g = op.gate
    return [g.exponent]


def run_flatten(case):
    which, ei, variant = case
    e = _EXPRS[which][ei]
    env = _flat_env()
    try:
        val = nev(e, env)
        e2val = None
    except Hazard:
        return Res(skipped=True, nontrivial=False)
    if abs(val.imag) > 1e-12 or abs(val) > 1e4:
        return Res(skipped=True, nontrivial=False)  # gate parameters are real
    val = val.real
    clash = sympy.Symbol(f"<{e!s}>")
    clash_val = 0.77
    resolver = dict(env)
    if variant == 0:
        circ = cirq.Circuit(cirq.X(Q0) ** e, cirq.Z(Q1) ** SA, cirq.Y(Q0) ** (e + 1))
        ref = cirq.Circuit(cirq.X(Q0) ** val, cirq.Z(Q1) ** env["a"], cirq.Y(Q0) ** (val + 1))
    elif variant == 1:
        circ = cirq.Circuit(cirq.X(Q0) ** e, cirq.Z(Q1) ** clash)
        ref = cirq.Circuit(cirq.X(Q0) ** val, cirq.Z(Q1) ** clash_val)
        resolver[clash.name] = clash_val
    else:
        circ = cirq.Circuit(cirq.Z(Q1) ** clash, cirq.X(Q0) ** e)
        ref = cirq.Circuit(cirq.Z(Q1) ** clash_val, cirq.X(Q0) ** val)
        resolver[clash.name] = clash_val
    uref = ref.unitary(qubit_order=[Q0, Q1])
    desc = f"flatten({circ!s})".replace("\n", " / ")
    flat, emap = cirq.flatten(circ)
    for op in flat.all_operations():
        for prm in _gate_params(op):
            if isinstance(prm, sympy.Basic) and not isinstance(prm, sympy.Symbol):
                return bad(f"{desc}: flattened circuit still contains the expression {prm!r}", kind="flatten")
    vals = list(emap.values())
    if len(set(vals)) != len(vals):
        return bad(f"{desc}: expression map {emap!r} sends two different expressions to one symbol", kind="flatten_collision")
    for k in emap:
        if not isinstance(k, sympy.Basic):
            return bad(f"{desc}: expression map key {k!r} is not a sympy expression", kind="flatten")

    def check(tag, flat_c, params):
        res = cirq.resolve_parameters(flat_c, params)
        if cirq.is_parameterized(res):
            return bad(f"{desc}: {tag}: resolving the flattened circuit with {params!r} leaves parameters {sorted(cirq.parameter_names(res))}; map {emap!r}", kind="flatten")
        u = res.unitary(qubit_order=[Q0, Q1])
        if not np.allclose(u, uref, atol=1e-8):
            return bad(f"{desc}: {tag}: resolve(flattened, {params!r}) differs from the circuit with numbers substituted "
                       f"({e!s} = {val}); map {emap!r}", kind="flatten_value")
        return None

    r = check("ExpressionMap.transform_params", flat, emap.transform_params(resolver))
    if r:
        return r
    r = check("transform_params(ParamResolver)", flat, emap.transform_params(cirq.ParamResolver(resolver)))
    if r:
        return r
    f2, p2 = cirq.flatten_with_params(circ, resolver)
    r = check("flatten_with_params", f2, p2)
    if r:
        return r
    orig = cirq.resolve_parameters(circ, resolver).unitary(qubit_order=[Q0, Q1])
    if not np.allclose(orig, uref, atol=1e-8):
        return bad(f"resolve_parameters({circ!s}, {resolver}) differs from the circuit with numbers substituted", kind="flatten_value")
    # sweeps: second point moves a
    env2 = dict(env)
    env2["a"] = env["a"] + 0.35
    try:
        val2 = nev(e, env2)
        ok2 = abs(val2.imag) < 1e-12 and abs(val2) < 1e4
    except Hazard:
        ok2 = False
    if ok2:
        fixed = {k: v for k, v in resolver.items() if k != "a"}
        sweep = cirq.Zip(cirq.Points("a", [env["a"], env2["a"]]), *[cirq.Points(k, [v, v]) for k, v in fixed.items()])
        f3, s3 = cirq.flatten_with_sweep(circ, sweep)
        if not isinstance(s3, cirq.Sweep) or len(s3) != 2:
            return bad(f"{desc}: flatten_with_sweep returned {s3!r} for a sweep of 2 assignments", kind="flatten")
        s4 = emap.transform_sweep(list(sweep))
        for tag, sw in (("flatten_with_sweep", s3), ("transform_sweep(list of resolvers)", s4)):
            r = check(tag + "[0]", f3, sw[0])
            if r:
                return r
            res1 = cirq.resolve_parameters(f3, sw[1])
            v2 = val2.real
            if variant == 0:
                ref2 = cirq.Circuit(cirq.X(Q0) ** v2, cirq.Z(Q1) ** env2["a"], cirq.Y(Q0) ** (v2 + 1))
            elif variant == 1:
                ref2 = cirq.Circuit(cirq.X(Q0) ** v2, cirq.Z(Q1) ** clash_val)
            else:
                ref2 = cirq.Circuit(cirq.Z(Q1) ** clash_val, cirq.X(Q0) ** v2)
            if cirq.is_parameterized(res1) or not np.allclose(res1.unitary(qubit_order=[Q0, Q1]), ref2.unitary(qubit_order=[Q0, Q1]), atol=1e-8):
                return bad(f"{desc}: {tag}[1] = {sw[1]!r} does not reproduce the circuit at a={env2['a']} ({e!s} = {v2})", kind="flatten_value")
    return good(nontrivial=not isinstance(e, sympy.Symbol))


def describe_flatten(case):
    which, ei, variant = case
    return {"expr": repr(_EXPRS[which][ei]), "circuit": ["X**e, Z**a, Y**(e+1)", "X**e, Z**Symbol('<e>')", "Z**Symbol('<e>'), X**e"][variant]}


def flatten_cases(tier):
    out = []
    for which in ("E1", "E2"):
        for ei, e in enumerate(_EXPRS[which]):
            if e.free_symbols and not e.has(I):  # gate parameters are real: no complex intermediates
                for v in (0, 1, 2):
                    out.append((which, ei, v))
    return out


# ---------------------------------------------------------------------------------------------

def stages(tier, seed):
    _init(seed, tier)
    reset = lambda: _init(seed, tier)
    return [
        CaseStage("value_of_structure", value_of_structure_cases(tier), run_value_of, reset=reset, describe=describe_value_of),
        CaseStage("value_of_resolvers", value_of_resolver_cases(tier), run_value_of, reset=reset, describe=describe_value_of),
        CaseStage("value_of_histories", history_cases(tier), run_history, reset=reset, describe=describe_history),
        CaseStage("resolver_composition", compose_cases(tier), run_compose, reset=reset, describe=describe_compose),
        CaseStage("objects", object_cases(tier), run_object, reset=reset, describe=describe_object),
        CaseStage("sweep_terms", sweep_term_cases(tier), run_sweep_term, reset=reset, describe=describe_sweep_term),
        CaseStage("sweepable_forms", sweepable_cases(tier), run_sweepable, reset=reset, describe=form_str),
        CaseStage("dict_to_sweep", dict_to_sweep_cases(tier), run_dict_to_sweep, reset=reset),
        CaseStage("list_of_dicts_to_zip", list_of_dicts_cases(tier), run_list_of_dicts, reset=reset),
        CaseStage("simulate_sweep", sim_sweep_cases(tier), run_sim_sweep, reset=reset, describe=describe_sim),
        CaseStage("run_sweep", run_sweep_cases(tier), run_run_sweep, reset=reset),
        CaseStage("flatten", flatten_cases(tier), run_flatten, reset=reset, describe=describe_flatten),
    ]
