"""C10 -- parameter resolution and sweeps commute with everything else.

Stages
  (a) value_of_*      : ParamResolver.value_of / resolve_parameters on sympy expression trees against
                        sympy's generic xreplace substitution (iterated to a fixpoint for recursive
                        resolution), compared AS FUNCTIONS at two numeric probe points; call histories
                        on one resolver object (memo); composition of resolvers.
  (b) objects_*       : every parameterizable gate family / composite object: observe(resolve(x, r)) ==
                        observe(x rebuilt from substituted numbers); is_parameterized / parameter_names.
  (c) sweeps_*        : sweep terms against a list-of-dicts reference; Sweepable conversions.
  (d) simulate_sweep  : simulate_sweep / run_sweep == per-resolver results == substituted circuit.
  (e) flatten         : flatten / flatten_with_params / flatten_with_sweep / ExpressionMap.
"""
from __future__ import annotations

import cmath
import functools
import itertools
import math
import warnings

import numpy as np
import sympy
import cirq

from mc import core
from mc.core import CaseStage, Res, bad, good

PROPERTY = "C10"
LEVEL = "exploration"
RULE = ("(a) every (expression tree, resolver map, recursive flag) of the bounded alphabet: depth<=2 trees (thorough: "
        "+depth 3 on a reduced operator set) over {a,b,c}, 8 constants, {+,*,**,/,neg,cos} x numeric resolvers, and "
        "depth<=1 trees x all 11^3 maps {a,b,c}->{absent,float,int,negative,np.float64,complex,a,b,b+1,2*c,'b'} x "
        "key form x recursive; every ordered pair of (expression, recursive) calls on ONE resolver object; every pair "
        "of resolvers composed by resolve_parameters; a case is non-trivial when the resolver touches a symbol of the "
        "expression; (b) every parameterizable gate family x parameter expressions {a,2a+b,a^2,a*pi} x 10 resolver "
        "shapes; (c) every sweep term of depth<=3 over 15 leaves and Product/Zip/ZipLongest/Concat/+/*, every "
        "Sweepable form; (d) every op sequence (so every unparameterized-prefix length) x simulators; (e) every "
        "expression inside a gate through flatten; distinct = distinct case descriptors")
TECHNIQUE = ("bounded-exhaustive enumeration of expression trees x resolver maps x call histories against sympy's generic "
             "substitution (compared as functions at numeric probe points), of sweep terms against a list-of-dicts "
             "reference, and of parameterized objects against rebuilding from substituted numbers")
LEVEL_TEXT = ("Every expression tree, resolver map (incl. chains, identity, cycles, str/Symbol keys), two-call history on one "
              "resolver object, composed resolver pair, sweep term and Sweepable form inside the stated bounds is executed on "
              "the real code and compared with an independent reference (sympy xreplace to fixpoint; list-of-dicts sweep "
              "semantics; objects rebuilt from substituted numbers). Nothing is sampled; the bound is the tree depth / term "
              "depth / alphabet.")
LEVEL_NOTE = ("trusted: sympy xreplace + construction-time auto-simplification, numpy, cirq.unitary of unparameterized gates "
              "(tied to closed forms by C03/C04); cases whose reference value is not finite or crosses a branch cut "
              "(negative base to fractional power, division by zero) are outside the statement and skipped by the reference")
ASSUMPTIONS = [
    "sympy's xreplace and its construction-time auto-simplification are ordinary algebra (trusted)",
    "cirq.unitary / kraus of unparameterized single gates is correct (C03/C04)",
    "expressions are compared as functions at two generic positive probe points for the remaining symbols (1e-9 relative)",
    "reference-decided skips: values not finite / on a branch cut (negative or zero base to a non-integer or negative power)",
    "recursive composition of resolvers is only demanded where applying r1 then r2 is idempotent (r2 does not re-introduce "
    "a symbol r1 resolves); a resolver containing a cycle may raise RecursionError on composition",
]

SA, SB, SC = sympy.symbols("a b c")
SYMS = {"a": SA, "b": SB, "c": SC}
I = sympy.I
PI = sympy.pi

_SEED = 0
PROBES = []


class Hazard(Exception):
    """The reference value is outside the statement (non-finite / branch cut)."""


# ---------------------------------------------------------------------------------------------
# independent numeric evaluation of a sympy tree (plain Python complex arithmetic)

_FUNCS = {"cos": cmath.cos, "cosh": cmath.cosh, "sin": cmath.sin, "sinh": cmath.sinh, "exp": cmath.exp}


def _safe_pow(bv: complex, xv: complex) -> complex:
    if abs(xv.imag) < 1e-12 and abs(xv.real - round(xv.real)) < 1e-12:
        n = int(round(xv.real))
        if abs(bv) < 1e-9:
            if n < 0:
                raise Hazard("zero to a negative power")
            return 1.0 + 0j if n == 0 else 0j
        if abs(n) > 64:
            raise Hazard("huge power")
        return bv ** n
    if abs(bv) < 1e-9:
        raise Hazard("zero base, non-integer exponent")
    if abs(cmath.phase(bv)) > math.pi - 1e-6:
        raise Hazard("negative base to a non-integer power")
    return cmath.exp(xv * cmath.log(bv))


def nev(e, env) -> complex:
    """Evaluate sympy tree e with symbol values env (name -> complex)."""
    try:
        r = _nev(e, env)
    except (OverflowError, ZeroDivisionError) as ex:
        raise Hazard(str(ex))
    if not (math.isfinite(r.real) and math.isfinite(r.imag)) or abs(r) > 1e12:
        raise Hazard("not finite")
    return r


@functools.lru_cache(maxsize=None)
def _const(e) -> complex:
    if e is I:
        return 1j
    return complex(e.evalf(17))


def _nev(e, env) -> complex:
    if isinstance(e, sympy.Symbol):
        return complex(env[e.name])
    if isinstance(e, sympy.Add):
        s = 0j
        for x in e.args:
            s += _nev(x, env)
        return s
    if isinstance(e, sympy.Mul):
        p = 1 + 0j
        for x in e.args:
            p *= _nev(x, env)
        return p
    if isinstance(e, sympy.Pow):
        r = _safe_pow(_nev(e.args[0], env), _nev(e.args[1], env))
        if abs(r) > 1e12:
            raise Hazard("huge")
        return r
    if not e.args:
        if e is sympy.zoo or e is sympy.nan or e is sympy.oo or e is -sympy.oo:
            raise Hazard("infinite constant")
        return _const(e)
    fn = _FUNCS.get(type(e).__name__)
    if fn is not None and len(e.args) == 1:
        arg = _nev(e.args[0], env)
        if abs(arg.imag) > 1e-12:
            raise Hazard("complex argument of a transcendental function (parameters are real)")
        return fn(arg)
    raise KeyError(f"unsupported node {type(e).__name__}")


def supported(e) -> bool:
    try:
        nev(e, PROBES[0])
    except Hazard:
        return True
    except (KeyError, TypeError):
        return False
    return True


def eval_any(v, env) -> complex:
    """Numeric value of whatever value_of returned (number or sympy expr)."""
    if isinstance(v, sympy.Basic):
        return nev(v, env)
    return complex(v)


def close(x: complex, y: complex) -> bool:
    return abs(x - y) <= 1e-9 * max(1.0, abs(x), abs(y))


# ---------------------------------------------------------------------------------------------
# resolver alphabet

VAL_NAMES = ["-", "1.5", "2(int)", "-0.25", "np.float64(0.5)", "(1+1j)", "a", "b", "b+1", "2*c", "'b'"]
V_ABSENT, V_F, V_INT, V_NEG, V_NPF, V_CPX, V_A, V_B, V_B1, V_2C, V_STR = range(11)
NUMERIC_VALS = (V_F, V_INT, V_NEG, V_NPF, V_CPX)


def cirq_value(vi):
    return [None, 1.5, 2, -0.25, np.float64(0.5), 1 + 1j, SA, SB, SB + 1, 2 * SC, "b"][vi]


def ref_value(vi):
    return [None, sympy.Float(1.5), sympy.Integer(2), sympy.Float(-0.25), sympy.Float(0.5),
            sympy.Float(1.0) + sympy.Float(1.0) * I, SA, SB, SB + 1, 2 * SC, SB][vi]


def make_resolver(spec):
    """spec = (va, vb, vc, keyform); keyform 0: str keys, 1: Symbol keys, 2: mixed."""
    va, vb, vc, kf = spec
    d = {}
    for i, (name, vi) in enumerate(zip("abc", (va, vb, vc))):
        if vi == V_ABSENT:
            continue
        key = name if (kf == 0 or (kf == 2 and i == 1)) else SYMS[name]
        d[key] = cirq_value(vi)
    return cirq.ParamResolver(d)


@functools.lru_cache(maxsize=4096)
def ref_map(spec3):
    va, vb, vc = spec3
    m = {}
    for name, vi in zip("abc", (va, vb, vc)):
        if vi != V_ABSENT:
            m[SYMS[name]] = ref_value(vi)
    return m


def describe_spec(spec):
    va, vb, vc, kf = spec
    d = {n: VAL_NAMES[v] for n, v in zip("abc", (va, vb, vc)) if v != V_ABSENT}
    return f"ParamResolver({d}, keys={['str', 'Symbol', 'mixed'][kf]})"


class RefMap:
    """Reference semantics of one resolver map: plain sympy substitution."""

    def __init__(self, m):
        self.m = {k: v for k, v in m.items()}
        self.active = {k: v for k, v in m.items() if v != k}  # identity entries do nothing
        # symbols from which a cycle is reachable
        graph = {k: [s for s in v.free_symbols if s in self.active] for k, v in self.active.items()}
        self.cyclic = set()
        for k in graph:
            # k reaches a cycle iff DFS from k finds a node on the current stack
            if self._reaches_cycle(k, graph):
                self.cyclic.add(k)

    @staticmethod
    def _reaches_cycle(start, graph):
        color = {}

        def dfs(n):
            color[n] = 1
            for m in graph.get(n, ()):
                cm = color.get(m, 0)
                if cm == 1:
                    return True
                if cm == 0 and dfs(m):
                    return True
            color[n] = 2
            return False

        return dfs(start)

    def once(self, e):
        return e.xreplace(self.active) if self.active else e

    def fix(self, e):
        """Returns (expr or None if no fixpoint within the bound, cycle_reachable)."""
        cyc = any(s in self.cyclic for s in e.free_symbols)
        cur = e
        for _ in range(8):
            if not any(s in self.active for s in cur.free_symbols):
                return cur, cyc
            cur = cur.xreplace(self.active)
        return None, cyc

    def touches(self, e):
        return any(s in self.active for s in e.free_symbols)


@functools.lru_cache(maxsize=4096)
def ref_of(spec3):
    return RefMap(ref_map(spec3))


GROWING_REPS = {(0, V_B1, 0), (0, 0, V_2C), (V_B, V_B1, 0), (V_2C, V_F, V_2C)}


def slow_case(spec3, e, rec, reps=True) -> bool:
    """Recursive resolution of a function node (generic sympy path) through a cycle whose terms GROW (b -> b+1,
    c -> 2*c) only ends when Python's own recursion limit is hit (~1.5 s per call; a RecursionError, i.e. a legal
    outcome).  Only a few representative resolvers of that shape are enumerated."""
    if not rec or isinstance(e, str) or not e.has(sympy.Function):
        return False
    if (reps and tuple(spec3) in GROWING_REPS) or not (V_B1 in spec3 or V_2C in spec3):
        return False
    rm = ref_of(tuple(spec3))
    return any(s in rm.cyclic for s in e.free_symbols)


def as_expr(x):
    return sympy.Symbol(x) if isinstance(x, str) else x


class _Lazy:
    """Label built only when a violation message is formatted (sympy printing is slow)."""

    def __init__(self, fn):
        self.fn = fn

    def __format__(self, spec):
        return self.fn()

    def __str__(self):
        return self.fn()


def check_value_of(label, call, e, rm: RefMap, recursive: bool):
    """Runs call() (a value_of on the real code) and compares with the reference.  Returns Res or None (= held)."""
    e = as_expr(e)
    expect_cycle = False
    if recursive:
        ref, cyc = rm.fix(e)
        if ref is None:
            expect_cycle = True
        may_raise = cyc
    else:
        ref, may_raise = rm.once(e), False
    # reference values at the probe points (hazard => outside the statement)
    refvals = None
    hazard = False
    if ref is not None:
        try:
            refvals = [nev(ref, p) for p in PROBES]
            for p in PROBES:  # also walk the ORIGINAL tree with fully substituted symbols
                _ = walk_original(e, rm, recursive, p)
        except Hazard:
            hazard = True
    try:
        got = call()
    except RecursionError:
        if expect_cycle or may_raise:
            return None
        return bad(f"{label}: RecursionError but the resolver has no cycle reachable from the expression", kind="spurious_recursion_error")
    except Exception as ex:  # noqa
        if hazard:
            return Res(skipped=True, nontrivial=False)
        kind = "exception_" + type(ex).__name__
        if isinstance(ex, TypeError) and "float_power" in str(ex):
            kind = "pow_numeric_base_symbolic_exponent"
        return bad(f"{label}: raised {type(ex).__name__}: {ex}; ordinary substitution gives {ref}", kind=kind)
    if expect_cycle:
        return bad(f"{label}: returned {got!r} but resolution never terminates (cycle): RecursionError expected", kind="missed_cycle")
    if hazard:
        return Res(skipped=True, nontrivial=False)
    for p, rv in zip(PROBES, refvals):
        try:
            gv = eval_any(got, p)
        except Hazard as h:
            return bad(f"{label}: returned {got!r} which is not finite at {p} ({h}); ordinary substitution gives {ref}", kind="value")
        except (KeyError, TypeError, ValueError) as ex:
            return bad(f"{label}: returned {got!r} ({type(got).__name__}) which cannot be evaluated: {ex}; expected {ref}", kind="value")
        if not close(gv, rv):
            return bad(f"{label}: returned {got!r} = {gv} at {p}; ordinary substitution gives {ref} = {rv}", kind="value")
    return None


def walk_original(e, rm: RefMap, recursive: bool, probe):
    """Evaluate the original tree with every symbol replaced by the value of its (recursively) substituted
    reference; only used to detect hazards hidden by sympy's simplification of the substituted tree."""
    env = {}
    for s in e.free_symbols:
        if recursive:
            r, _ = rm.fix(s)
        else:
            r = rm.once(s)
        if r is None:
            raise Hazard("cycle")
        env[s.name] = nev(r, probe)
    return nev(e, env)


# ---------------------------------------------------------------------------------------------
# expression alphabet

def _atoms():
    return [SA, SB, SC, sympy.Integer(0), sympy.Integer(1), sympy.Integer(2), sympy.Integer(-1),
            sympy.Rational(1, 2), sympy.Float(0.5), PI, I]


def _binops():
    return [("+", lambda x, y: x + y), ("*", lambda x, y: x * y), ("**", lambda x, y: x ** y), ("/", lambda x, y: x / y)]


def _unops():
    return [("neg", lambda x: -x), ("cos", lambda x: sympy.cos(x))]


def _ok(e):
    if not isinstance(e, sympy.Expr):
        return False
    if e.has(sympy.zoo, sympy.nan, sympy.oo, -sympy.oo):
        return False
    return supported(e)


def _combine(xs, ys, binops, out):
    for _, f in binops:
        for x in xs:
            for y in ys:
                try:
                    e = f(x, y)
                except Exception:  # noqa  sympy refuses (e.g. 0**-1 variants)
                    continue
                if _ok(e) and e not in out:
                    out[e] = None


def _unary(xs, unops, out):
    for _, f in unops:
        for x in xs:
            e = f(x)
            if _ok(e) and e not in out:
                out[e] = None


_EXPRS = {}


def build_exprs(tier):
    """E1: all trees of depth<=1; E2: depth-2 trees (one side depth<=1, other side an atom; both sides depth 1 over
    a reduced atom set); E3 (thorough): depth-3 trees over the reduced operator set."""
    if _EXPRS.get("tier") == tier:
        return _EXPRS
    A = _atoms()
    d1 = {x: None for x in A}
    _combine(A, A, _binops(), d1)
    _unary(A, _unops(), d1)
    E1 = list(d1)
    red_atoms = [SA, SB, sympy.Integer(2), sympy.Integer(-1), sympy.Rational(1, 2), sympy.Float(0.5)]
    d1r = {x: None for x in red_atoms}
    _combine(red_atoms, red_atoms, _binops(), d1r)
    _unary(red_atoms, _unops(), d1r)
    D1r = list(d1r)
    d2 = dict(d1)
    if tier == "thorough":
        _combine(E1, A, _binops(), d2)
        _combine(A, E1, _binops(), d2)
        _combine(D1r, D1r, _binops(), d2)
        _unary(E1, _unops(), d2)
    else:
        # quick: one side a depth-1 tree over the reduced atoms, other side a reduced atom, c or pi
        side = red_atoms + [SC, PI]
        _combine(D1r, side, _binops(), d2)
        _combine(side, D1r, _binops(), d2)
        _unary(D1r, _unops(), d2)
    E2 = [e for e in d2 if e not in d1]
    E3 = []
    if tier == "thorough":
        ops3 = [o for o in _binops() if o[0] in ("+", "*", "**")]
        at3 = [SA, SB, sympy.Integer(2), sympy.Rational(1, 2)]
        t1 = {x: None for x in at3}
        _combine(at3, at3, ops3, t1)
        t2 = dict(t1)
        _combine(list(t1), list(t1), ops3, t2)
        t3 = dict(t2)
        _combine(list(t2), at3 + [SC, sympy.Float(0.5), PI], ops3, t3)
        _combine(at3 + [SC, sympy.Float(0.5), PI], list(t2), ops3, t3)
        _unary(list(t2), _unops(), t3)
        E3 = [e for e in t3 if e not in d2]
    _EXPRS.clear()
    _EXPRS.update(tier=tier, E1=E1, E2=E2, E3=E3)
    # expression forms used by the resolver-structure / history / composition stages
    _EXPRS["ES"] = [SA, SB, SC, "a", "c", sympy.Integer(2), SA + SB, 2 * SA + SB, SA * SB, SA ** 2, SA * PI, -SA, SA / 2,
                    SB ** SC, SC ** SB, 2 ** SA, SA + SC, SB + 1, sympy.cos(SA), sympy.cos(SB) + SA, SA * SB * SC,
                    sympy.Float(0.5) * SA + SC ** 2]
    _EXPRS["EH"] = [SA, SB, SC, "b", 2 * SA + SB, SA * SC, SB + 1, sympy.cos(SA), sympy.cos(SB + 1)]
    _EXPRS["EC"] = [SA, SB, SC, SA + SB, 2 * SA + SB * SC, sympy.cos(SA)]
    return _EXPRS


def _init(seed, tier):
    global _SEED
    _SEED = seed
    g0, g1, g2 = core.generic(seed, 0), core.generic(seed, 1), core.generic(seed, 2)
    PROBES[:] = [
        {"a": 0.7312 + 0.01 * abs(g0), "b": 1.318 + 0.01 * abs(g1), "c": 2.171 + 0.01 * abs(g2)},
        {"a": 1.9071 - 0.01 * abs(g1), "b": 0.4563 + 0.01 * abs(g2), "c": 1.1327 + 0.01 * abs(g0)},
    ]
    build_exprs(tier)
    ref_of.cache_clear()


# ---------------------------------------------------------------------------------------------
# stage (a1)/(a2): single value_of / resolve_parameters calls

def run_value_of(case):
    va, vb, vc, kf, rec, which, ei, api = case
    e = _EXPRS[which][ei]
    rm = ref_of((va, vb, vc))
    r = make_resolver((va, vb, vc, kf))
    recursive = bool(rec)
    label = _Lazy(lambda: ("resolve_parameters: " if api else "") + f"{describe_spec((va, vb, vc, kf))}.value_of({e!r}, recursive={recursive})")
    if api == 0:
        call = lambda: r.value_of(e, recursive)
    else:
        call = lambda: cirq.resolve_parameters(as_expr(e), r, recursive)
    res = check_value_of(label, call, e, rm, recursive)
    if res is not None:
        return res
    return good(nontrivial=rm.touches(as_expr(e)))


def describe_value_of(case):
    va, vb, vc, kf, rec, which, ei, api = case
    return {"resolver": describe_spec((va, vb, vc, kf)), "recursive": bool(rec), "expr": repr(_EXPRS[which][ei]),
            "api": ["value_of", "resolve_parameters"][api]}


def small_resolver_specs():
    """Numeric resolvers for the expression-structure stage: every subset of {a,b,c} x 3 type patterns + 3 symbolic."""
    pats = [(V_F, V_NPF, V_INT), (V_INT, V_F, V_NEG), (V_NPF, V_CPX, V_F)]
    out = [(0, 0, 0)]
    for mask in range(1, 8):
        for p in pats:
            out.append(tuple(p[i] if mask >> i & 1 else 0 for i in range(3)))
    out += [(V_B1, V_2C, 0), (V_STR, V_F, 0), (V_B, V_2C, V_F)]
    seen = []
    for s in out:
        if s not in seen:
            seen.append(s)
    return seen


def value_of_structure_cases(tier):
    cases = []
    specs = small_resolver_specs()
    # depth-3 trees: unresolved / fully resolved (3 type patterns) / one symbol resolved / symbolic chains
    specs3 = [s for s in specs if s.count(0) in (0, 3) or (s.count(0) == 2 and (V_F in s and s.index(V_F) == 0 or V_NPF in s and s.index(V_NPF) == 1 or V_INT in s and s.index(V_INT) == 2))]
    specs3 += [s for s in specs[-3:] if s not in specs3]
    for which in ("E1", "E2", "E3"):
        n = len(_EXPRS[which])
        for s in (specs3 if which == "E3" else specs):
            for rec in (1, 0):
                for ei in range(n):
                    cases.append((s[0], s[1], s[2], 0, rec, which, ei, 0))
    return cases


def value_of_resolver_cases(tier):
    cases = []
    ES = _EXPRS["ES"]
    nS = len(ES)
    nE1 = len(_EXPRS["E1"])
    core_forms = [i for i in range(nS) if isinstance(ES[i], str) or ES[i] in (SA, SB, SA + SB, 2 * SA + SB, SA ** 2, SB ** SC, sympy.cos(SA))]
    vals = range(11)
    for va in vals:
        for vb in vals:
            for vc in vals:
                for rec in (1, 0):
                    sp = (va, vb, vc)
                    for ei in range(nS):
                        if not slow_case(sp, ES[ei], rec):
                            cases.append((va, vb, vc, 0, rec, "ES", ei, 0))
                    for kf in (1, 2):
                        for ei in (range(nS) if tier == "thorough" else core_forms):
                            if not slow_case(sp, ES[ei], rec):
                                cases.append((va, vb, vc, kf, rec, "ES", ei, 0))
                    for ei in core_forms:
                        if not isinstance(ES[ei], str) and not slow_case(sp, ES[ei], rec):
                            cases.append((va, vb, vc, 1, rec, "ES", ei, 1))
                    if tier == "thorough":
                        E1 = _EXPRS["E1"]
                        for ei in range(nE1):
                            if not slow_case(sp, E1[ei], rec):
                                cases.append((va, vb, vc, 0, rec, "E1", ei, 0))
    return cases


# ---------------------------------------------------------------------------------------------
# stage (a3): call histories on ONE resolver object

def run_history(case):
    va, vb, vc, kf, calls = case
    rm = ref_of((va, vb, vc))
    r = make_resolver((va, vb, vc, kf))
    EH = _EXPRS["EH"]
    hist = []
    nontrivial = False
    for ei, rec in calls:
        e = EH[ei]
        hist.append((e, rec))
        label = _Lazy(lambda: f"{describe_spec((va, vb, vc, kf))} after calls {[_call_str(h) for h in hist[:-1]]}: {_call_str(hist[-1])}")
        res = check_value_of(label, lambda: r.value_of(e, bool(rec)), e, rm, bool(rec))
        if res is not None and not res.ok:
            if len(hist) > 1 and _fresh_ok(va, vb, vc, kf, e, rec, rm):
                res.sig["kind"] = "history_" + str(res.sig.get("kind"))
                res.msg = "[the same call on a fresh resolver object is fine] " + res.msg
            return res
        nontrivial = nontrivial or rm.touches(as_expr(e))
    return good(nontrivial=nontrivial)


def _call_str(h):
    return f"value_of({h[0]!r}, recursive={bool(h[1])})"


def _fresh_ok(va, vb, vc, kf, e, rec, rm):
    """True iff the same call on a FRESH resolver object is fine (=> the failure needs the history)."""
    r = make_resolver((va, vb, vc, kf))
    res = check_value_of("", lambda: r.value_of(e, bool(rec)), e, rm, bool(rec))
    return res is None or res.ok


def describe_history(case):
    va, vb, vc, kf, calls = case
    return {"resolver": describe_spec((va, vb, vc, kf)),
            "calls": [f"value_of({_EXPRS['EH'][ei]!r}, recursive={bool(rec)})" for ei, rec in calls]}


def history_cases(tier):
    cases = []
    n = len(_EXPRS["EH"])
    letters = [(ei, rec) for ei in range(n) for rec in (1, 0)]
    if tier == "quick":
        vals = [V_ABSENT, V_F, V_A, V_B, V_B1, V_2C, V_STR]
        kfs = (0,)
    else:
        vals = list(range(11))
        kfs = (0, 1)
    for va in vals:
        for vb in vals:
            for vc in vals:
                if all(v in (V_ABSENT,) + NUMERIC_VALS for v in (va, vb, vc)):
                    continue  # no symbolic value: the memo is never consulted (covered by the single-call stages)
                ok = [l for l in letters if not slow_case((va, vb, vc), _EXPRS["EH"][l[0]], l[1], reps=False)]
                for kf in kfs:
                    for c1 in ok:
                        for c2 in ok:
                            cases.append((va, vb, vc, kf, (c1, c2)))
    if tier == "thorough":
        vals3 = [V_ABSENT, V_F, V_A, V_B, V_B1, V_2C]
        l3 = [(ei, rec) for ei in (0, 1, 4, 7) for rec in (1, 0)]
        for va in vals3:
            for vb in vals3:
                for vc in vals3:
                    if all(v in (V_ABSENT, V_F) for v in (va, vb, vc)):
                        continue
                    ok3 = [l for l in l3 if not slow_case((va, vb, vc), _EXPRS["EH"][l[0]], l[1], reps=False)]
                    for h in itertools.product(ok3, repeat=3):
                        cases.append((va, vb, vc, 0, h))
    return cases


# ---------------------------------------------------------------------------------------------
# stage (a4): composition resolve_parameters(r1, r2)

def run_compose(case):
    s1, s2, rec = case
    recursive = bool(rec)
    rm1, rm2 = ref_of(tuple(s1)), ref_of(tuple(s2))
    r1, r2 = make_resolver(tuple(s1) + (0,)), make_resolver(tuple(s2) + (1,))
    label = f"resolve_parameters({describe_spec(tuple(s1) + (0,))}, {describe_spec(tuple(s2) + (1,))}, recursive={recursive})"
    any_cycle = bool(rm1.cyclic or rm2.cyclic)
    union = None
    if recursive:
        um = dict(rm2.m)
        um.update(rm1.m)
        union = RefMap(um)
        any_cycle = any_cycle or bool(union.cyclic)
    try:
        comp = cirq.resolve_parameters(r1, r2, recursive)
    except RecursionError:
        if recursive and any_cycle:
            return Res(skipped=True, nontrivial=False)
        return bad(f"{label}: RecursionError without a cycle", kind="compose_spurious_recursion")
    if not isinstance(comp, cirq.ParamResolver):
        return bad(f"{label}: returned {comp!r}, not a ParamResolver", kind="compose_type")
    checked = 0
    for e in _EXPRS["EC"]:
        # reference: apply r1, then r2
        if recursive:
            x1, c1 = rm1.fix(e)
            if x1 is None or c1:
                continue
            ref, c2 = rm2.fix(x1)
            if ref is None or c2:
                continue
            # only demanded where "r1 then r2" is idempotent (r2 does not re-introduce resolved symbols)
            if any(s in rm1.active or s in rm2.active for s in ref.free_symbols) or any_cycle:
                continue
        else:
            ref = rm2.once(rm1.once(e))
        try:
            refvals = [nev(ref, p) for p in PROBES]
        except Hazard:
            continue
        try:
            got = comp.value_of(e, recursive)
        except Exception as ex:  # noqa
            kind = "compose_exception_" + type(ex).__name__
            if isinstance(ex, TypeError) and "float_power" in str(ex):
                kind = "pow_numeric_base_symbolic_exponent"
            return bad(f"{label} = {comp!r}; .value_of({e!r}) raised {type(ex).__name__}: {ex}; r2(r1(e)) = {ref}", kind=kind)
        for p, rv in zip(PROBES, refvals):
            try:
                gv = eval_any(got, p)
            except (Hazard, KeyError, TypeError, ValueError) as ex:
                return bad(f"{label} = {comp!r}; .value_of({e!r}) = {got!r} cannot be evaluated ({ex}); r2(r1(e)) = {ref}", kind="compose_value")
            if not close(gv, rv):
                return bad(f"{label} = {comp!r}; .value_of({e!r}) = {got!r} = {gv} at {p}; r2(r1(e)) = {ref} = {rv}", kind="compose_value")
        checked += 1
    return good(nontrivial=checked > 0 and bool(rm1.active) and bool(rm2.active), compared=checked)


def describe_compose(case):
    s1, s2, rec = case
    return {"r1": describe_spec(tuple(s1) + (0,)), "r2": describe_spec(tuple(s2) + (1,)), "recursive": bool(rec)}


def compose_cases(tier):
    vals = [V_ABSENT, V_F, V_A, V_B, V_B1, V_2C] if tier == "thorough" else [V_ABSENT, V_F, V_B, V_B1, V_2C]
    specs = list(itertools.product(vals, repeat=3))
    return [(s1, s2, rec) for s1 in specs for s2 in specs for rec in (1, 0)]


# ---------------------------------------------------------------------------------------------

def stages(tier, seed):
    _init(seed, tier)
    reset = lambda: _init(seed, tier)
    return [
        CaseStage("value_of_structure", value_of_structure_cases(tier), run_value_of, reset=reset, describe=describe_value_of),
        CaseStage("value_of_resolvers", value_of_resolver_cases(tier), run_value_of, reset=reset, describe=describe_value_of),
        CaseStage("value_of_histories", history_cases(tier), run_history, reset=reset, describe=describe_history),
        CaseStage("resolver_composition", compose_cases(tier), run_compose, reset=reset, describe=describe_compose),
    ]
