"""C07 -- hardware compilation: output is native, equivalent, routable and validated.

Three sub-drivers (DESIGN.md section 4, C07), each a group of stages:

(a) a*_ : every target gateset x option mix applied through cirq.optimize_for_target_gateset to every
          sequence (length <= L) of a placed compilation alphabet; oracle = gateset.validate(out),
          unitary / channel equality computed by mc/ref/embed, measurement + 'nocompile' survival,
          input unchanged.  A membership table (from the class docstrings) pins each gateset.
(b) b*_ : cirq.RouteCQC on every connected graph of the networkx atlas (2..5, thorough 6 nodes) and
          directed variants of paths/stars, circuits = all letter sequences / all canonical
          interaction patterns, every injective placement; oracle = ops on edges, unitary equal up to
          the reported permutation (own permutation matrices), initial map injective,
          routed_circuit_with_mapping agreement; MappingManager driven by all swap sequences.
(c) c*_ : device acceptance: GridDevice built from enumerated DeviceSpecification protos, IonQ, AQT and
          Pasqal devices; validate_operation / validate_circuit against a reference computed from the
          specification (gate table, qubit set, pair set, documented circuit-level rules).
"""
from __future__ import annotations

import collections
import itertools
import signal

import networkx as nx
import numpy as np
import cirq
import cirq_google
import cirq_ionq
import cirq_aqt
import cirq_pasqal
from cirq_aqt import aqt_target_gateset
from cirq_aqt import aqt_device as aqt_device_mod
from cirq_google.api import v2

from mc import core
from mc.core import CaseStage, Res, bad, good
from mc.ref import embed as E

PROPERTY = "C07"
LEVEL = "exploration"
RULE = ("(a) every (target gateset x options x max_num_passes x deep) x every sequence (length<=L) of a placed compilation "
        "alphabet (class representatives of 1/2/3-qubit unitaries, native letters of the target, nocompile-tagged ops, "
        "measurements, sub-circuits); (b) every connected atlas graph (2..5, thorough 6 nodes, directed path/star variants) x "
        "every letter sequence / canonical interaction pattern x every injective placement x lookahead x tagging, plus all "
        "swap sequences (<=3) on MappingManager; (c) every enumerated DeviceSpecification (qubit subsets x pair subsets x "
        "gate-kind subsets) and vendor device x every placed letter and letter pair. A case is non-trivial when the input "
        "contains a non-native op or two ops sharing a wire (a), a two-qubit op (b), at least one accepted and one rejected "
        "placed letter (c); distinct = distinct descriptor")
TECHNIQUE = ("bounded-exhaustive enumeration of circuits x compiler/router/device configurations against matrix-level and "
             "specification-level reference oracles (own embedding, permutation matrices, BFS distances, acceptance tables)")
LEVEL_TEXT = ("Every circuit of a bounded placed alphabet is compiled for every target gateset and option mix, routed on every "
              "small connected device graph from every placement, and offered to devices built from every small device "
              "specification; each result is compared with a reference computed independently (8x8 unitaries / 64x64 "
              "channels by own embedding, permutation matrices, BFS distances, acceptance predicates derived from the "
              "specification). Nothing is sampled; the bound is the alphabet, the sequence length and the graph size.")
LEVEL_NOTE = ("trusted: numpy, networkx graph atlas and BFS; cirq.unitary of single leaf operations (tied to closed forms by "
              "C03/C04); CircuitOperation.mapped_circuit for reading sub-circuits of outputs; Circuit construction (C05)")
ASSUMPTIONS = [
    "cirq.unitary of single leaf operations is correct (tied to closed forms by C03/C04)",
    "CircuitOperation.mapped_circuit(deep=True) correctly expands sub-circuits found in compiler outputs (C12)",
    "networkx graph atlas lists all graphs up to isomorphism; networkx BFS distances",
    "a measurement without its record is a dephasing channel on its qubits (routing: stand-in generic 1-qubit marker)",
    "numpy linear algebra",
]

TOL = 1e-6
ROUTE_TIMEOUT = 4  # CPU seconds; a routing call on these sizes takes about a millisecond
NOCOMPILE = "nocompile"


class _Timeout(Exception):
    pass


def _alarm(_sig, _frm):
    raise _Timeout()


def _with_timeout(seconds, fn):
    """Runs fn(); a call that does not return within `seconds` raises _Timeout (non-termination is a violation)."""
    # user-mode CPU time of this process: robust against a loaded machine and against memory pressure (page-fault
    # handling is system time and does not count)
    old = signal.signal(signal.SIGVTALRM, _alarm)
    signal.setitimer(signal.ITIMER_VIRTUAL, seconds)
    try:
        return fn()
    finally:
        signal.setitimer(signal.ITIMER_VIRTUAL, 0)
        signal.signal(signal.SIGVTALRM, old)


# =============================================================================================
# (a) target gatesets
# =============================================================================================

QA = cirq.LineQubit.range(3)
_A = {}  # per-process cache: alphabets/gatesets for the seed


def _u(op):
    u = cirq.unitary(op, None)
    if u is None:
        raise core.HarnessError(f"no unitary for leaf op {op!r}")
    return u


def _leaf_ops(circuit_or_ops):
    """Flat list of leaf operations; CircuitOperations are expanded (trusted: mapped_circuit)."""
    out = []
    ops = circuit_or_ops.all_operations() if isinstance(circuit_or_ops, cirq.AbstractCircuit) else circuit_or_ops
    for op in ops:
        if isinstance(op.untagged, cirq.CircuitOperation):
            out.extend(_leaf_ops(op.untagged.mapped_circuit(deep=True)))
        else:
            out.append(op)
    return out


def _semantics(leaf_ops, qubits):
    """('U', 2^n x 2^n unitary) for measurement-free lists, else ('S', superoperator with measurements as dephasing)."""
    n = len(qubits)
    shape = (2,) * n
    idx = {q: i for i, q in enumerate(qubits)}
    has_m = any(cirq.is_measurement(op) for op in leaf_ops)
    D = 2 ** n
    if not has_m:
        T = np.eye(D, dtype=np.complex128).reshape(shape + (D,))
        for op in leaf_ops:
            T = _left_apply(T, _u(op), [idx[q] for q in op.qubits], n)  # own contraction, cross-checked against mc.ref.embed
        return "U", T.reshape(D, D)
    S = np.eye(D * D, dtype=np.complex128)
    for op in leaf_ops:
        if cirq.is_measurement(op):
            mask = 0
            for q in op.qubits:
                mask |= 1 << (n - 1 - idx[q])
            keep = np.array([1.0 if ((i ^ j) & mask) == 0 else 0.0 for i in range(D) for j in range(D)])
            S = keep[:, None] * S
        else:
            U = E.embed(_u(op), [idx[q] for q in op.qubits], shape)
            S = np.kron(U, U.conj()) @ S
    return "S", S


def _sem_equal(ref, got, tol=TOL):
    if ref[0] != got[0]:
        return False
    if ref[0] == "U":
        return E.eq_up_to_phase(ref[1], got[1], tol)
    return E.eq_exact(ref[1], got[1], tol)


def _alphabet_a(seed):
    """Placed compilation letters: (name, op, reference leaf ops or None)."""
    a, b, c = QA
    g = core.generic(seed)
    g2 = core.generic(seed, 1)
    U1 = E.generic_unitary(2, seed)
    U1b = E.generic_unitary(2, seed + 1)
    U1c = E.generic_unitary(2, seed + 2)
    U2 = E.generic_unitary(4, seed)
    U3 = E.generic_unitary(8, seed)
    sub1_ops = [cirq.H(a), cirq.CNOT(a, b), cirq.T(b)]
    sub2_ops = [cirq.ISWAP(b, c) ** g, cirq.X(c)]
    L = [
        ("X(a)", cirq.X(a), None),
        ("Y(c)^.5", cirq.Y(c) ** 0.5, None),
        ("Z(a)^g", cirq.Z(a) ** g, None),
        ("H(b)", cirq.H(b), None),
        ("PhXZ(b)", cirq.PhasedXZGate(x_exponent=0.2, z_exponent=g, axis_phase_exponent=0.1)(b), None),
        ("M1(c)", cirq.MatrixGate(U1)(c), None),
        ("I2(a,b)", cirq.IdentityGate(2)(a, b), None),
        ("CZ^2(b,c)", cirq.CZ(b, c) ** 2.0, None),
        ("M1xM1(a,b)", cirq.MatrixGate(np.kron(U1, U1b))(a, b), None),
        ("CNOT(a,b)", cirq.CNOT(a, b), None),
        ("CNOT(b,a)", cirq.CNOT(b, a), None),
        ("ISWAP(a,b)", cirq.ISWAP(a, b), None),
        ("SWAP(b,c)", cirq.SWAP(b, c), None),
        ("SQRT_ISWAP(b,c)", cirq.SQRT_ISWAP(b, c), None),
        ("CZ(a,b)", cirq.CZ(a, b), None),
        ("CZ(b,c)^g", cirq.CZ(b, c) ** g, None),
        ("FSim(a,c)", cirq.FSimGate(g, g2)(a, c), None),
        ("M2(a,c)", cirq.MatrixGate(U2)(a, c), None),
        ("ZZ(a,b)^g", cirq.ZZ(a, b) ** g, None),
        ("CCZ", cirq.CCZ(a, b, c), None),
        ("CCZ^g(c,a,b)", cirq.CCZ(c, a, b) ** g, None),
        ("CSWAP", cirq.CSWAP(a, b, c), None),
        ("M3", cirq.MatrixGate(U3)(a, b, c), None),
        ("nc:ISWAP(a,b)^g", (cirq.ISWAP(a, b) ** g).with_tags(NOCOMPILE), None),
        ("nc:M1(b)", cirq.MatrixGate(U1c)(b).with_tags(NOCOMPILE), None),
        ("meas(a,b;m)", cirq.measure(a, b, key="m"), None),
        ("meas(c;k,inv)", cirq.measure(c, key="k", invert_mask=(True,)), None),
        ("SUB[H,CNOT,T]", cirq.CircuitOperation(cirq.FrozenCircuit(sub1_ops)), sub1_ops),
        ("SUB[ISWAP^g,X]x2", cirq.CircuitOperation(cirq.FrozenCircuit(sub2_ops), repetitions=2), sub2_ops * 2),
    ]
    return L


_SUB_NAMES = ("SUB[H,CNOT,T]", "SUB[ISWAP^g,X]x2")
_HEAVY_NAMES = ("CCZ", "CCZ^g(c,a,b)", "CSWAP", "M3")
# letters of the length-3 core (old-vs-new two-qubit count choice, partial CZ, ignored tag, measurement)
_CORE3_NAMES = ("H(b)", "CNOT(a,b)", "CZ(a,b)", "CZ(b,c)^g", "nc:ISWAP(a,b)^g", "meas(a,b;m)")
_CORE3_MORE = ("X(a)", "Y(c)^.5", "M1xM1(a,b)", "CNOT(b,a)", "ISWAP(a,b)", "SWAP(b,c)", "SQRT_ISWAP(b,c)", "FSim(a,c)", "ZZ(a,b)^g",
               "meas(c;k,inv)")


def _idx(names):
    pos = {l[0]: i for i, l in enumerate(_A["L"])}
    return [pos[n] for n in names]


def _gatesets(seed):
    """(name, gateset, native extra letters, slow?) -- every target x option mix of the design."""
    a, b, c = QA
    g = core.generic(seed, 2)
    out = []
    # (pms, reorder) legal combos: (T,F) and (F,T) are full members (whole alphabet); (F,F) runs in the option lattice (a4)
    for partial in (False, True):
        for pms, ro in ((True, False), (False, True)):
            out.append((f"CZ(partial={partial},pms={pms},reorder={ro})",
                        cirq.CZTargetGateset(allow_partial_czs=partial, preserve_moment_structure=pms, reorder_operations=ro),
                        [cirq.CZ(b, a), cirq.PhasedXZGate(x_exponent=g, z_exponent=0.3, axis_phase_exponent=0.2)(a)], False))
    for cnt in (None, 2, 3):
        for inv in (False, True):
            nat = cirq.SQRT_ISWAP_INV if inv else cirq.SQRT_ISWAP
            out.append((f"SqrtIswap(count={cnt},inv={inv})",
                        cirq.SqrtIswapTargetGateset(required_sqrt_iswap_count=cnt, use_sqrt_iswap_inv=inv),
                        [nat(a, b), nat(c, b)], False))
    out.append(("Sycamore", cirq_google.SycamoreTargetGateset(), [cirq_google.SYC(a, b), cirq.PhasedXPowGate(phase_exponent=g)(c)], True))
    out.append(("GoogleCZ(eject=F)", cirq_google.GoogleCZTargetGateset(eject_paulis=False), [cirq.CZ(b, a)], False))
    out.append(("GoogleCZ(eject=T,+paulis)",
                cirq_google.GoogleCZTargetGateset(
                    eject_paulis=True,
                    additional_gates=[cirq.XPowGate, cirq.YPowGate, cirq.ZPowGate, cirq.PhasedXPowGate]),
                [cirq.CZ(b, a), cirq.Z(b), cirq.PhasedXPowGate(phase_exponent=g)(a)], False))
    out.append(("IonQ", cirq_ionq.IonQTargetGateset(), [cirq.XX(a, b) ** g, cirq.YY(b, c) ** g, cirq.SWAP(a, c)], False))
    out.append(("Aria", cirq_ionq.AriaNativeGateset(),
                [cirq_ionq.GPIGate(phi=g)(a), cirq_ionq.GPI2Gate(phi=g)(b), cirq_ionq.MSGate(phi0=g, phi1=0.1)(a, b)], True))
    out.append(("Forte", cirq_ionq.ForteNativeGateset(),
                [cirq_ionq.GPIGate(phi=g)(a), cirq_ionq.ZZGate(theta=0.1)(b, c)], True))
    out.append(("AQT", aqt_target_gateset.AQTTargetGateset(),
                [cirq.XX(a, b) ** g, cirq.PhasedXPowGate(phase_exponent=g, exponent=0.3)(c)], False))
    for add in (True, False):
        nat = [cirq.CZ(b, a), cirq.ParallelGate(cirq.H, 2)(a, c)]
        if add:
            nat.append(cirq.CCX(c, a, b))
        out.append((f"Pasqal(add={add})", cirq_pasqal.PasqalGateset(include_additional_controlled_ops=add), nat, False))
    # option lattice of the constructors (stage a4, reduced alphabet): CZTargetGateset(allow_partial_czs x (pms, reorder)
    # legal combos x additional_gates x atol), SqrtIswapTargetGateset(count x inv x additional_gates x atol),
    # GoogleCZTargetGateset(eject_paulis x additional_gates x atol; eject only together with the Pauli families)
    paulis = [cirq.XPowGate, cirq.YPowGate, cirq.ZPowGate, cirq.PhasedXPowGate]
    for partial in (False, True):
        for pms, ro in ((True, False), (False, False), (False, True)):
            for an, add_g in (("none", ()), ("CNOT", (cirq.CNOT,)), ("ISwapPow+H", (cirq.ISwapPowGate, cirq.H))):
                for atol in (1e-8, 1e-6):
                    out.append((f"CZ(partial={partial},pms={pms},reorder={ro},add={an},atol={atol})",
                                cirq.CZTargetGateset(atol=atol, allow_partial_czs=partial, additional_gates=add_g,
                                                     preserve_moment_structure=pms, reorder_operations=ro),
                                [], "lattice"))
    for cnt in (None, 2, 3):
        for inv in (False, True):
            for an, add_g in (("none", ()), ("CZPow+H", (cirq.CZPowGate, cirq.H))):
                for atol in (1e-8, 1e-6):
                    out.append((f"SqrtIswap(count={cnt},inv={inv},add={an},atol={atol})",
                                cirq.SqrtIswapTargetGateset(atol=atol, required_sqrt_iswap_count=cnt, use_sqrt_iswap_inv=inv,
                                                            additional_gates=add_g), [], "lattice"))
    for eject in (False, True):
        for an, add_g in (("none", ()), ("paulis", tuple(paulis)), ("paulis+SQRT_ISWAP", tuple(paulis) + (cirq.SQRT_ISWAP,))):
            if eject and an == "none":
                continue  # outside the statement: ejected Pauli gates are deliberately left in the output
            for atol in (1e-8, 1e-6):
                out.append((f"GoogleCZ(eject={eject},add={an},atol={atol})",
                            cirq_google.GoogleCZTargetGateset(atol=atol, eject_paulis=eject, additional_gates=list(add_g)),
                            [], "lattice"))
    return out


# letters of the option-lattice stage: two-qubit letters on the overlapping pairs (a,b) / (b,c) in both orders, one-qubit
# letters on the shared and on the outer qubits, a generic (a,c) gate, a measurement and an ignored-tag op
_LATTICE_NAMES = ("H(b)", "X(a)", "Y(c)^.5", "CNOT(a,b)", "CNOT(b,a)", "CZ(a,b)", "CZ(b,c)^g", "SWAP(b,c)", "ISWAP(a,b)",
                  "SQRT_ISWAP(b,c)", "M2(a,c)", "meas(a,b;m)", "nc:ISWAP(a,b)^g")


def _cases_lattice(tier, seed):
    _init_a(seed)
    idxs = _idx(_LATTICE_NAMES)
    seqs = [(i,) for i in idxs] + list(itertools.product(idxs, repeat=2))
    seqs3 = list(itertools.product(idxs, repeat=3)) if tier == "thorough" else []
    cases = []
    for seq in seqs + seqs3:
        for gi, (gname, gs, nat, flag) in enumerate(_A["GS"]):
            if flag != "lattice":
                continue
            if len(seq) == 3 and not getattr(gs, "_reorder_operations", False):
                continue  # length 3 only where the operation-sorting preprocess runs
            for pi in ((0, 1) if (tier == "thorough" and len(seq) < 3) else (0,)):
                cases.append((gi, pi, 0, tuple(seq)))
    return cases


PASSES = (1, None)


def _init_a(seed):
    if _A.get("seed") == seed:
        return
    _A["seed"] = seed
    _A["L"] = _alphabet_a(seed)
    _A["V"] = _variants_a(seed)
    _A["GS"] = _gatesets(seed)


_VBASE = 1000  # indices >= _VBASE address the fast-path variant letters


def _variants_a(seed):
    """Inverse / negative-exponent / out-of-period / special-angle variants of every gate kind that some target handles by a
    known-gate fast path (Sycamore's known_2q_op table and SWAP+ZZ merge, AQT's Hadamard case, the CCZ decompositions, the
    KAK special cases of the matrix-based targets).  All two-qubit variants sit on (a, b) so that c stays free."""
    a, b, c = QA
    g = core.generic(seed)
    pi = np.pi
    V = []

    def add(name, op):
        V.append((name, op, None))

    for e in (-1.0, 3.0, 0.5, -0.5, 1.5, g):
        add(f"ISWAP^{e}(a,b)", cirq.ISWAP(a, b) ** e)
    for e in (1.0, -1.0, 3.0, 0.5, -0.5, g):
        add(f"SWAP^{e}(a,b)", cirq.SWAP(a, b) ** e)
    for e in (-1.0, 3.0, -0.5, 1.5):
        add(f"CZ^{e}(a,b)", cirq.CZ(a, b) ** e)
    for e in (-1.0, 3.0, 0.5, g):
        add(f"CNOT^{e}(a,b)", cirq.CNOT(a, b) ** e)
    for nm, gate in (("ZZ", cirq.ZZ), ("XX", cirq.XX), ("YY", cirq.YY)):
        for e in (1.0, -1.0, 0.5, 3.0):
            add(f"{nm}^{e}(a,b)", gate(a, b) ** e)
    for th, ph in ((pi / 2, pi / 6), (-pi / 2, -pi / 6), (pi / 2, 0.0), (-pi / 2, 0.0), (pi / 4, 0.0), (-pi / 4, 0.0), (0.0, pi),
                   (0.0, -pi), (0.0, pi / 2), (pi / 2, pi)):
        add(f"FSim({th:.4f},{ph:.4f})(a,b)", cirq.FSimGate(th, ph)(a, b))
    add("SYC^-1(a,b)", cirq_google.SYC(a, b) ** -1)
    for pe in (0.25, -0.25, 0.0, g):
        for e in (1.0, -1.0, g):
            add(f"PhISwap(p={pe},e={e})(a,b)", cirq.PhasedISwapPowGate(phase_exponent=pe, exponent=e)(a, b))
    add("givens(g)(a,b)", cirq.givens(g)(a, b))
    add("givens(-pi/4)(a,b)", cirq.givens(-pi / 4)(a, b))
    for e in (-1.0, 3.0, 0.5):
        add(f"H^{e}(a)", cirq.H(a) ** e)
    add("X^-1(a)", cirq.X(a) ** -1.0)
    add("Y^-.5(b)", cirq.Y(b) ** -0.5)
    add("Z^3(a)", cirq.Z(a) ** 3.0)
    add("CCZ^-1", cirq.CCZ(a, b, c) ** -1.0)
    add("CCX^-1(c,a,b)", cirq.CCX(c, a, b) ** -1.0)
    return V


def _variant_circuits():
    """Index sequences: every variant alone; isolated next to an unrelated 1-qubit op on the third qubit (both orders);
    SWAP next to a ZZ power on the same pair (the SWAP+ZZ merge path), alone and with the unrelated op."""
    V = _A["V"]
    w = _idx(("M1(c)",))[0]
    seqs = []
    for vi, (name, op, _r) in enumerate(V):
        seqs.append((_VBASE + vi,))
        if c_free(op):
            seqs.append((_VBASE + vi, w))
            seqs.append((w, _VBASE + vi))
    pos = {l[0]: _VBASE + i for i, l in enumerate(V)}
    sw = pos["SWAP^1.0(a,b)"]
    for zn in ("ZZ^1.0(a,b)", "ZZ^-1.0(a,b)", "ZZ^0.5(a,b)", "ZZ^3.0(a,b)"):
        for pair in ((sw, pos[zn]), (pos[zn], sw)):
            seqs.append(pair)
            seqs.append(pair + (w,))
            seqs.append((w,) + pair)
    return seqs


def c_free(op):
    return QA[2] not in op.qubits


def _letter_a(gi, li):
    """Letter index li: < len(L) -> general alphabet, >= _VBASE -> fast-path variant, else native extra letter of gateset gi."""
    L = _A["L"]
    if li >= _VBASE:
        return _A["V"][li - _VBASE]
    if li < len(L):
        return L[li]
    op = _A["GS"][gi][2][li - len(L)]
    return (f"native:{op}", op, None)


def _run_compile(case):
    gi, pi, deep, seq = case
    seed = core.seed_from_env()
    _init_a(seed)
    gname, gs, _nat, _slow = _A["GS"][gi]
    letters = [_letter_a(gi, li) for li in seq]
    in_ops = [l[1] for l in letters]
    circuit = cirq.Circuit(in_ops)
    snapshot = circuit.copy()
    snap_repr = repr(circuit)
    ctx = cirq.TransformerContext(deep=bool(deep), tags_to_ignore=(NOCOMPILE,))
    desc = f"{gname} passes={PASSES[pi]} deep={bool(deep)} letters={[l[0] for l in letters]}"
    try:
        out = _with_timeout(120, lambda: cirq.optimize_for_target_gateset(
            circuit, gateset=gs, context=ctx, max_num_passes=PASSES[pi]))
    except ValueError as e:
        if "cannot be decomposed into exactly" in str(e) and getattr(gs, "required_sqrt_iswap_count", None) is not None:
            return Res(skipped=True, nontrivial=False)  # documented: required count too small for this unitary
        raise
    except _Timeout:
        return bad(f"optimize_for_target_gateset did not terminate within 120 s of CPU time: {desc}", kind="compile_timeout")
    # input unchanged
    if circuit != snapshot or repr(circuit) != snap_repr:
        return bad(f"input circuit was modified: {desc}", kind="input_modified")
    # nocompile ops survive untouched
    nc_in = collections.Counter(op for op in in_ops if NOCOMPILE in op.tags)
    nc_out = collections.Counter(op for op in out.all_operations() if NOCOMPILE in op.tags)
    if nc_in != nc_out:
        return bad(f"ops tagged '{NOCOMPILE}' did not survive untouched: {desc}\nin={dict(nc_in)}\nout={dict(nc_out)}\n{out}",
                   kind="nocompile_changed")
    # native: gateset.validate on the output minus ignored-tag ops
    rest = cirq.Circuit(op for op in out.all_operations() if NOCOMPILE not in op.tags)
    has_sub_out = any(isinstance(op.untagged, cirq.CircuitOperation) for op in rest.all_operations())
    out_leaves = _leaf_ops(out)
    if deep and has_sub_out and not gs._unroll_circuit_op:
        # the target does not look inside sub-circuits; with deep=True the structure is kept by contract, so the
        # leaves are what has to be native
        rest_v = cirq.Circuit(op for op in out_leaves if NOCOMPILE not in op.tags)
    else:
        rest_v = rest
    if not gs.validate(rest_v):
        offenders = [op for op in rest_v.all_operations() if not gs.validate(op)]
        return bad(f"output is not accepted by the target gateset: {desc}\noffending ops: {offenders[:4]}\n{out}",
                   kind="not_native", gateset=gname.split("(")[0])
    # measurements keep key / qubits / invert mask
    m_in = collections.Counter(op.untagged for l in letters for op in (l[2] or [l[1]]) if cirq.is_measurement(op))
    m_out = collections.Counter(op.untagged for op in out_leaves if cirq.is_measurement(op))
    if m_in != m_out:
        return bad(f"measurements changed: {desc}\nin={dict(m_in)}\nout={dict(m_out)}", kind="measurement_changed")
    # same unitary (channel when measurements are present)
    ref_leaves = [op for l in letters for op in (l[2] or [l[1]])]
    ref = _semantics(ref_leaves, QA)
    got = _semantics(out_leaves, QA)
    tol = max(TOL, 100 * getattr(gs, "atol", 0.0))  # the gateset's own atol bounds the error of each decomposition
    if not _sem_equal(ref, got, tol):
        return bad(f"compiled circuit is not equivalent to the input (tolerance {tol}): {desc}\n{out}",
                   kind="not_equivalent", gateset=gname.split("(")[0])
    nontrivial = len(seq) >= 2 or any(not gs.validate(op) for op in in_ops)
    return good(nontrivial=nontrivial, compiled=1, out_ops=len(out_leaves))


def _describe_compile(case):
    gi, pi, deep, seq = case
    _init_a(core.seed_from_env())
    return {"gateset": _A["GS"][gi][0], "max_num_passes": PASSES[pi], "deep": bool(deep),
            "letters": [_letter_a(gi, li)[0] for li in seq]}


def _cases_compile(tier, seed, slow):
    _init_a(seed)
    nL = len(_A["L"])
    cases = []
    for gi, (gname, gs, nat, is_slow) in enumerate(_A["GS"]):
        if is_slow != slow:
            continue
        idxs = list(range(nL + len(nat)))
        seqs = [()] + [(i,) for i in idxs] + list(itertools.product(idxs, repeat=2))
        if tier == "quick":
            # the three-qubit letters cost 30-70 ms per call: in the quick tier they are paired with the core letters only
            heavy = set(_idx(_HEAVY_NAMES))
            partners = heavy | set(_idx(_CORE3_NAMES)) | {nL}
            seqs = [q for q in seqs if len(q) < 2 or not (set(q) & heavy) or set(q) <= partners]
        if not is_slow:
            core3 = _idx(_CORE3_NAMES) + [nL]
            if tier == "thorough":
                core3 = sorted(set(core3) | set(_idx(_CORE3_MORE)) | {nL + k for k in range(len(nat))})
            seqs += list(itertools.product(core3, repeat=3))
        sub_letters = set(_idx(_SUB_NAMES))
        for seq in seqs:
            has_sub = any(i in sub_letters for i in seq)
            for pi in range(len(PASSES)):
                for deep in ((0, 1) if has_sub else (0,)):
                    cases.append((gi, pi, deep, tuple(seq)))
    cases.sort(key=lambda c: (len(c[3]), c[0]))
    return cases


# --- membership table: pins every gateset against its class docstring ----------------------------------------


def _membership_table(seed):
    """(letter op, {gateset family name: expected membership}) for unambiguous letters."""
    a, b, c = QA
    g = core.generic(seed)
    U1 = E.generic_unitary(2, seed)
    U2 = E.generic_unitary(4, seed)
    F = ("CZ", "CZp", "Sqrt", "SqrtInv", "Syc", "GCZ", "GCZe", "IonQ", "Aria", "Forte", "AQT", "PasT", "PasF")

    def row(op, yes):
        return (op, {f: (f in yes) for f in F})

    allf = set(F)
    rows = [
        row(cirq.CZ(a, b), {"CZ", "CZp", "GCZ", "GCZe", "PasT", "PasF"}),
        row(cirq.CZ(a, b) ** g, {"CZp"}),
        row(cirq.SQRT_ISWAP(a, b), {"Sqrt"}),
        row(cirq.SQRT_ISWAP_INV(a, b), {"SqrtInv"}),
        row(cirq.ISWAP(a, b), set()),
        row(cirq_google.SYC(a, b), {"Syc"}),
        row(cirq.CNOT(a, b), {"IonQ", "PasT"}),
        row(cirq.SWAP(a, b), {"IonQ"}),
        row(cirq.XX(a, b) ** g, {"IonQ", "AQT"}),
        row(cirq.YY(a, b) ** g, {"IonQ"}),
        row(cirq.ZZ(a, b) ** g, {"IonQ"}),
        row(cirq.MatrixGate(U2)(a, b), set()),
        row(cirq.MatrixGate(U1)(a), set()),
        row(cirq.CCZ(a, b, c), {"PasT"}),
        row(cirq.CCX(a, b, c), {"PasT"}),
        row(cirq.CSWAP(a, b, c), set()),
        row(cirq.PhasedXZGate(x_exponent=0.2, z_exponent=g, axis_phase_exponent=0.1)(a), {"CZ", "CZp", "Sqrt", "SqrtInv", "Syc", "GCZ", "GCZe"}),
        row(cirq.Z(a) ** g, {"Syc", "GCZe", "IonQ", "AQT", "PasT", "PasF"}),
        row(cirq.X(a) ** g, {"Syc", "GCZe", "IonQ", "PasT", "PasF"}),
        row(cirq.Y(a) ** g, {"Syc", "GCZe", "IonQ", "PasT", "PasF"}),
        row(cirq.H(a), {"IonQ", "PasT", "PasF"}),
        row(cirq.H(a) ** g, set()),
        row(cirq.PhasedXPowGate(phase_exponent=g, exponent=0.3)(a), {"Syc", "GCZe", "AQT", "PasT", "PasF"}),
        row(cirq.measure(a, b, key="m"), allf),
        row(cirq_ionq.GPIGate(phi=g)(a), {"Aria", "Forte"}),
        row(cirq_ionq.GPI2Gate(phi=g)(a), {"Aria", "Forte"}),
        row(cirq_ionq.MSGate(phi0=g, phi1=0.1)(a, b), {"Aria"}),
        row(cirq_ionq.ZZGate(theta=0.1)(a, b), {"Forte"}),
        row(cirq.ParallelGate(cirq.X, 2)(a, b), {"PasT", "PasF"}),
        row(cirq.CZ(a, b) ** 3.0, {"CZ", "CZp", "GCZ", "GCZe", "PasT", "PasF"}),
        row(cirq.CZ(a, b) ** 2.0, {"CZp", "PasT", "PasF"}),
        row(cirq.CZ(a, b) ** 0.5, {"CZp"}),
        row(cirq.ResetChannel()(a), set()),
    ]
    return rows


_FAMILY_OF = {
    "CZ(partial=False": "CZ", "CZ(partial=True": "CZp", "SqrtIswap(count=None,inv=False": "Sqrt",
    "SqrtIswap(count=2,inv=False": "Sqrt", "SqrtIswap(count=3,inv=False": "Sqrt",
    "SqrtIswap(count=None,inv=True": "SqrtInv", "SqrtIswap(count=2,inv=True": "SqrtInv",
    "SqrtIswap(count=3,inv=True": "SqrtInv", "Sycamore": "Syc", "GoogleCZ(eject=F": "GCZ", "GoogleCZ(eject=T": "GCZe",
    "IonQ": "IonQ", "Aria": "Aria", "Forte": "Forte", "AQT": "AQT", "Pasqal(add=True": "PasT", "Pasqal(add=False": "PasF",
}


def _family_of(gname):
    for k, v in _FAMILY_OF.items():
        if gname.startswith(k):
            return v
    raise core.HarnessError(f"no family for gateset {gname}")


def _run_membership(case):
    gi, ri = case
    seed = core.seed_from_env()
    _init_a(seed)
    gname, gs, _nat, _slow = _A["GS"][gi]
    op, exp = _membership_table(seed)[ri]
    want = exp[_family_of(gname)]
    got_in = op in gs
    got_val = gs.validate(op)
    got_circ = gs.validate(cirq.Circuit(op))
    if not (got_in == got_val == got_circ == want):
        return bad(f"gateset {gname}: membership of {op!r}: `op in gateset`={got_in}, validate(op)={got_val}, "
                   f"validate(Circuit(op))={got_circ}; the class documentation implies {want}", kind="membership",
                   gateset=_family_of(gname))
    # the intermediate-result tag must never be accepted
    tagged = op.with_tags(gs._intermediate_result_tag)
    if gs.validate(tagged):
        return bad(f"gateset {gname} accepts an op carrying its intermediate-result tag: {tagged!r}", kind="membership_tag")
    return good(nontrivial=True, accepted=int(want), rejected=int(not want))



class _LazyCases(list):
    """A case list that is decoded on demand (the thorough routing stages have millions of descriptors).

    blocks: list of (prefix data, inner count); decode(prefix, j) -> case descriptor for 0 <= j < inner count.
    It is a list subclass only so that the runner keeps it as it is; the runner uses len() and [i]."""

    def __init__(self, blocks, decode):
        super().__init__()
        self._blocks = blocks
        self._decode = decode
        self._starts = []
        n = 0
        for _pfx, cnt in blocks:
            self._starts.append(n)
            n += cnt
        self._n = n

    def __len__(self):
        return self._n

    def __bool__(self):
        return self._n > 0

    def __getitem__(self, i):
        import bisect
        if isinstance(i, slice):
            return [self[j] for j in range(*i.indices(self._n))]
        if i < 0:
            i += self._n
        if not 0 <= i < self._n:
            raise IndexError(i)
        b = bisect.bisect_right(self._starts, i) - 1
        return self._decode(self._blocks[b][0], i - self._starts[b])

    def __iter__(self):
        for pfx, cnt in self._blocks:
            for j in range(cnt):
                yield self._decode(pfx, j)


# =============================================================================================
# (b) routing
# =============================================================================================

_B = {}


def _atlas(nmin, nmax):
    """All connected graphs with nmin..nmax nodes up to isomorphism (networkx graph atlas), as (n, edge list)."""
    key = ("atlas", nmin, nmax)
    if key not in _B:
        out = []
        for G in nx.graph_atlas_g():
            n = G.number_of_nodes()
            if nmin <= n <= nmax and n >= 2 and nx.is_connected(G):
                out.append((n, tuple(sorted(tuple(sorted(e)) for e in G.edges()))))
        _B[key] = out
    return _B[key]


def _directed_variants(nmax):
    """Paths and stars on 2..nmax nodes with every edge oriented ->, <- or <-> ((n, arcs) with arcs ordered pairs)."""
    out = []
    seen = set()
    for n in range(2, nmax + 1):
        shapes = [[(i, i + 1) for i in range(n - 1)]]
        if n >= 4:
            shapes.append([(0, i) for i in range(1, n)])
        for edges in shapes:
            for orient in itertools.product((0, 1, 2), repeat=len(edges)):
                arcs = []
                for (u, v), o in zip(edges, orient):
                    if o in (0, 2):
                        arcs.append((u, v))
                    if o in (1, 2):
                        arcs.append((v, u))
                key = (n, tuple(sorted(arcs)))
                if key not in seen:
                    seen.add(key)
                    out.append(key)
    return out


def _phys(style, i):
    """Node i of a graph as a physical qubit: style 0 LineQubit, style 1 GridQubit with a different sort order."""
    return cirq.LineQubit(i) if style == 0 else cirq.GridQubit(i % 2, i // 2)


def _logical(style, j):
    return cirq.LineQubit(j) if style == 0 else cirq.NamedQubit(f"l{j}")


def _device_graph(n, edges, directed, style):
    G = nx.DiGraph() if directed else nx.Graph()
    G.add_nodes_from(_phys(style, i) for i in range(n))
    G.add_edges_from((_phys(style, u), _phys(style, v)) for u, v in edges)
    return G


def _route_letters(k, seed):
    """Placed routing letters on k logical qubit indices: (name, kind, qubit indices)."""
    L = []
    for i, j in itertools.combinations(range(k), 2):
        L.append((f"CZ({i},{j})", "CZ", (i, j)))
        L.append((f"CNOT({i},{j})", "CNOT", (i, j)))
        L.append((f"CNOT({j},{i})", "CNOT", (j, i)))
        L.append((f"SWAP({i},{j})", "SWAP", (i, j)))
        L.append((f"ISWAP^g({i},{j})", "ISWAPg", (i, j)))
    L.append(("H(0)", "H", (0,)))
    L.append((f"H({k - 1})", "H", (k - 1,)))
    L.append(("measure(all)", "M", tuple(range(k))))
    return L


def _mk_op(kind, qs, seed):
    g = core.generic(seed)
    if kind == "CZ":
        return cirq.CZ(*qs)
    if kind == "CNOT":
        return cirq.CNOT(*qs)
    if kind == "SWAP":
        return cirq.SWAP(*qs)
    if kind == "ISWAPg":
        return (cirq.ISWAP ** g)(*qs)
    if kind == "H":
        return cirq.H(*qs)
    if kind == "M":
        return cirq.measure(*qs)
    raise core.HarnessError(kind)


_PATTERN_KINDS = ("CNOT", "ISWAPg", "CZ", "SWAP")


def _patterns(maxlen, kmax):
    """Canonical (first-appearance labelled) sequences of ORDERED logical pairs, length 1..maxlen, <= kmax qubits."""
    key = ("pat", maxlen, kmax)
    if key in _B:
        return _B[key]
    out = []

    def rec(seq, used):
        if seq:
            out.append(tuple(seq))
        if len(seq) == maxlen:
            return
        cand = list(range(min(used + 2, kmax)))
        for i in cand:
            for j in cand:
                if i == j:
                    continue
                # first-appearance canonical form: a new label must be the smallest unused one, introduced in order
                new = [x for x in (i, j) if x >= used]
                if new and new != list(range(used, used + len(new))):
                    continue
                rec(seq + [(i, j)], max(used, i + 1, j + 1))

    rec([], 0)
    out.sort(key=lambda s: (len(s), s))
    _B[key] = out
    return out


def _marker(seed):
    if ("marker", seed) not in _B:
        _B[("marker", seed)] = E.generic_unitary(2, seed + 77)
    return _B[("marker", seed)]


def _left_apply(T, mat, targets, n):
    """T: tensor of shape (2,)*n + (D,) holding a 2^n x D matrix (big-endian rows); returns (mat on wires `targets`) @ T.
    Own implementation (tensor contraction), cross-checked against mc.ref.embed at import time."""
    k = len(targets)
    m = np.asarray(mat, dtype=np.complex128).reshape((2,) * (2 * k))
    out = np.tensordot(m, T, axes=(list(range(k, 2 * k)), list(targets)))  # new axes 0..k-1 = output wires `targets`
    return np.moveaxis(out, list(range(k)), list(targets))


_UCACHE = {}


def _u_cached(op):
    g = op.gate
    try:
        return _UCACHE[g]
    except KeyError:
        u = _UCACHE[g] = _u(op)
        return u
    except TypeError:
        return _u(op)


def _route_unitary(ops, wires, seed):
    """Unitary of a list of ops on `wires`; measurements are replaced by a generic 1-qubit marker on each measured qubit."""
    n = len(wires)
    idx = {q: i for i, q in enumerate(wires)}
    D = 2 ** n
    T = np.eye(D, dtype=np.complex128).reshape((2,) * n + (D,))
    mk = _marker(seed)
    for op in ops:
        if cirq.is_measurement(op):
            for q in op.qubits:
                T = _left_apply(T, mk, [idx[q]], n)
        else:
            T = _left_apply(T, _u_cached(op), [idx[q] for q in op.qubits], n)
    return T.reshape(D, D)


def _self_test_left_apply():
    n = 4
    ops = [(E.generic_unitary(4, 1), [2, 0]), (E.generic_unitary(2, 2), [3]), (E.generic_unitary(8, 3), [1, 3, 0]),
           (E.generic_unitary(4, 4), [1, 2])]
    ref = E.apply_ops(ops, (2,) * n)
    T = np.eye(2 ** n, dtype=np.complex128).reshape((2,) * n + (2 ** n,))
    for mat, tg in ops:
        T = _left_apply(T, mat, tg, n)
    if not np.allclose(T.reshape(2 ** n, 2 ** n), ref, atol=1e-12):
        raise core.HarnessError("_left_apply disagrees with mc.ref.embed")


_self_test_left_apply()


def _check_routing(G, directed, circuit, la, tag, mapper, mapper_desc, seed, n_logical_2q):
    """Runs RouteCQC and checks the routing clause of the property; returns Res."""
    router = cirq.RouteCQC(G)
    snap = circuit.copy()
    res = []  # routed results, for the lazily built description

    def _d():
        t = (f"graph nodes={sorted(G.nodes)} edges={sorted(G.edges)} directed={directed} lookahead_radius={la} "
             f"tag_inserted_swaps={tag} mapper={mapper_desc}\ncircuit:\n{circuit}")
        if res:
            t += f"\nrouted:\n{res[0]}\ninitial_map={res[1]}\nswap_map={res[2]}"
        return t
    try:
        routed, imap, smap = _with_timeout(ROUTE_TIMEOUT, lambda: router.route_circuit(
            circuit, lookahead_radius=la, tag_inserted_swaps=tag, initial_mapper=mapper))
    except _Timeout:
        return bad(f"route_circuit did not terminate within {ROUTE_TIMEOUT} s of CPU time (typical: 1 ms): {_d()}", kind="route_timeout")
    except IndexError as e:
        return bad(f"route_circuit raised IndexError ({e}) on a routable input: {_d()}", kind="route_indexerror")
    if circuit != snap:
        return bad(f"route_circuit modified its input: {_d()}", kind="route_input_modified")
    res.extend([routed, imap, smap])
    # initial map: injective, covers the circuit's qubits, lands on device nodes
    if not set(circuit.all_qubits()) <= set(imap.keys()):
        return bad(f"initial map does not cover the circuit's qubits: {_d()}", kind="initial_map")
    if len(set(imap.values())) != len(imap) or not set(imap.values()) <= set(G.nodes):
        return bad(f"initial map is not an injection into the device nodes: {_d()}", kind="initial_map")
    # swap map: a permutation of the mapped physical qubits
    if set(smap.keys()) != set(imap.values()) or set(smap.values()) != set(imap.values()):
        return bad(f"swap map is not a permutation of the mapped physical qubits: {_d()}", kind="swap_map")
    # every >=2-qubit non-measurement op on a device edge (arc direction respected for digraphs)
    nswaps = 0
    for op in routed.all_operations():
        if not set(op.qubits) <= set(imap.values()):
            return bad(f"routed op {op!r} uses a qubit outside the mapped device qubits: {_d()}", kind="off_device")
        if len(op.qubits) >= 2 and not cirq.is_measurement(op):
            if len(op.qubits) != 2 or not G.has_edge(op.qubits[0], op.qubits[1]):
                return bad(f"routed op {op!r} is not on a device edge: {_d()}", kind="not_on_edge")
        if cirq.RoutingSwapTag() in op.tags:
            nswaps += 1
    # U(routed) == P(swap_map) . U(circuit mapped by initial_map)
    wires = sorted(imap.values())
    mapped_ops = [op.transform_qubits(imap) for op in circuit.all_operations()]
    Uref = _route_unitary(mapped_ops, wires, seed)
    Ugot = _route_unitary(list(routed.all_operations()), wires, seed)
    widx = {q: i for i, q in enumerate(wires)}
    perm = [widx[smap[q]] for q in wires]
    P = E.permute_wires(perm, (2,) * len(wires))
    if not E.eq_up_to_phase(P @ Uref, Ugot, TOL):
        return bad(f"routed circuit is not equal to the mapped input followed by the reported permutation: {_d()}",
                   kind="route_not_equivalent")
    # measurements: same multiset of measured (physical) qubits, keys kept unless the documented split applied
    mq_ref = sorted(q for op in mapped_ops if cirq.is_measurement(op) for q in op.qubits)
    # (a measured logical qubit may have been moved by swaps before the measurement: compare counts only)
    mq_got = [q for op in routed.all_operations() if cirq.is_measurement(op) for q in op.qubits]
    if len(mq_ref) != len(mq_got):
        return bad(f"number of measured qubits changed: {_d()}", kind="route_measurement")
    # routed_circuit_with_mapping agrees with the reported swap map (tagged swaps, undirected swaps only)
    if tag and all(isinstance(op.gate, cirq.SwapPowGate) for op in routed.all_operations() if cirq.RoutingSwapTag() in op.tags):
        viz = cirq.routed_circuit_with_mapping(routed, imap)
        last = None
        for op in viz.all_operations():
            if type(op.gate).__name__ == "_SwapPrintGate":
                last = op
        if last is None:
            return bad(f"routed_circuit_with_mapping produced no mapping column: {_d()}", kind="viz")
        inv = {v: k for k, v in imap.items()}
        for pos, (content_phys, logical) in zip(last.qubits, last.gate.qubits):
            # `content_phys` = physical qubit whose initial content now sits at `pos`
            if smap[content_phys] != pos or inv[content_phys] != logical:
                return bad(f"routed_circuit_with_mapping disagrees with the swap map at {pos}: shows ({content_phys},{logical}): "
                           f"{_d()}", kind="viz")
    if la == 2:
        again = router(circuit, lookahead_radius=la, tag_inserted_swaps=tag, initial_mapper=mapper)
        if again != routed:
            return bad(f"RouteCQC.__call__ and route_circuit()[0] differ:\n{again}\n{_d()}", kind="route_call_differs")
    return good(nontrivial=n_logical_2q > 0, routed=1, inserted_swaps_tagged=nswaps,
                with_swaps=int(len(list(routed.all_operations())) > len(list(circuit.all_operations()))))


def _placements(n, k, limit=120):
    """Every injective placement of k logical indices into n nodes when there are <= limit, else the placements of the
    canonical logical qubit 0 on every node (rest filled in node order)."""
    key = ("placements", n, k, limit)
    if key not in _B:
        _B[key] = _placements_uncached(n, k, limit)
    return _B[key]


def _placements_uncached(n, k, limit):
    total = 1
    for i in range(k):
        total *= n - i
    if total <= limit:
        return list(itertools.permutations(range(n), k))
    out = []
    for v in range(n):
        rest = [w for w in range(n) if w != v]
        out.append(tuple([v] + rest[:k - 1]))
    return out


def _valid_unpadded(n, edges, placement, pairs):
    """Initial-mapper precondition: interacting logical qubits lie in one component of the induced device subgraph."""
    H = nx.Graph()
    H.add_nodes_from(placement)
    H.add_edges_from((u, v) for u, v in edges if u in placement and v in placement)
    comp = {}
    for ci, c in enumerate(nx.connected_components(H)):
        for v in c:
            comp[v] = ci
    return all(comp[placement[i]] == comp[placement[j]] for i, j in pairs)


def _hardcoded(n, k, placement, pad, style):
    m = {_logical(style, j): _phys(style, placement[j]) for j in range(k)}
    if pad:
        rest = [v for v in range(n) if v not in placement]
        for t, v in enumerate(rest):
            m[_logical(style, k + t)] = _phys(style, v)
    return m


def _graph_of(case_graph):
    kind, gi = case_graph
    if kind == "u":
        n, edges = _B["graphs"][gi]
        return n, edges, False
    n, arcs = _B["digraphs"][gi]
    return n, arcs, True


def _init_b(tier):
    if _B.get("tier") == tier:
        return
    _B["tier"] = tier
    _B["graphs"] = _atlas(2, 6 if tier == "thorough" else 5)
    _B["digraphs"] = _directed_variants(5 if tier == "thorough" else 4)


def _run_route_letters(case):
    # case = (graph ref, k, seq of letter indices, mapper id, la, tag)
    gref, k, seq, mid, la, tag = case
    seed = core.seed_from_env()
    n, edges, directed = _graph_of(gref)
    style = gref[1] % 2
    G = _device_graph(n, edges, directed, style)
    L = _route_letters(k, seed)
    lq = [_logical(style, j) for j in range(k)]
    ops = [_mk_op(L[i][1], [lq[t] for t in L[i][2]], seed) for i in seq]
    circuit = cirq.Circuit(ops)
    # documented rejection: intermediate >2-qubit measurements are split only with the default key (we use it)
    if mid == 0:
        mapper, mdesc = None, "default LineInitialMapper"
    else:
        m = _hardcoded(n, k, tuple(range(k)) if mid == 1 else tuple(range(n - 1, n - 1 - k, -1)), True, style)
        mapper, mdesc = cirq.HardCodedInitialMapper(m), f"HardCoded{m}"
    n2 = sum(1 for i in seq if len(L[i][2]) == 2)
    return _check_routing(G, directed, circuit, la, bool(tag), mapper, mdesc, seed, n2)


def _run_route_placements(case):
    # case = (graph ref, k, pattern index, placement, pad, la, tag, with_measure)
    gref, k, pi, placement, pad, la, tag, wm = case
    seed = core.seed_from_env()
    n, edges, directed = _graph_of(gref)
    style = gref[1] % 2
    pat = _B["patterns"][pi]
    G = _device_graph(n, edges, directed, style)
    lq = [_logical(style, j) for j in range(k)]
    ops = []
    for pos, (i, j) in enumerate(pat):
        ops.append(_mk_op(_PATTERN_KINDS[(pos + pi) % 4], [lq[i], lq[j]], seed))
        if pos == 0:
            ops.append(cirq.H(lq[i]))
    if wm:
        ops.append(cirq.measure(*lq))
    circuit = cirq.Circuit(ops)
    und = [tuple(e) for e in edges]
    if not pad and not _valid_unpadded(n, und, placement, pat):
        return Res(skipped=True, nontrivial=False)  # initial-mapper precondition (documented in AbstractInitialMapper)
    m = _hardcoded(n, k, placement, bool(pad), style)
    return _check_routing(G, directed, circuit, la, bool(tag), cirq.HardCodedInitialMapper(m), f"HardCoded{m}", seed, len(pat))


def _k_of_pattern(pat):
    return 1 + max(max(p) for p in pat)


_B1_COMBOS_QUICK = ((0, 8, 0), (0, 1, 1), (1, 2, 1), (2, 8, 0))  # (mapper id, lookahead_radius, tag)
_B1_COMBOS_FULL = tuple((m, la, t) for m in (0, 1, 2) for la in (1, 2, 8) for t in (0, 1))
_B1_COMBOS_L3 = ((0, 8, 0), (1, 1, 1))


def _decode_b1(pfx, j):
    gi, k, nl, L, combos, mids = pfx
    j, ci = divmod(j, len(combos))
    mid, la, tag = combos[ci]
    if mids is not None:  # (x, m, y) with m one of the single-qubit / measurement letters
        j, y = divmod(j, nl)
        x, mi = divmod(j, len(mids))
        return (("u", gi), k, (x, mids[mi], y), mid, la, tag)
    seq = []
    for _ in range(L):
        j, d = divmod(j, nl)
        seq.append(d)
    return (("u", gi), k, tuple(reversed(seq)), mid, la, tag)


def _cases_route_letters(tier):
    _init_b(tier)
    blocks = []
    Lmax = 3 if tier == "thorough" else 2
    for L in range(0, Lmax + 1):
        for gi, (n, edges) in enumerate(_B["graphs"]):
            if n > 5:
                continue
            k = min(4, n)
            nl = len(_route_letters(k, 0))
            combos = _B1_COMBOS_L3 if L == 3 else (_B1_COMBOS_QUICK if tier == "quick" else _B1_COMBOS_FULL)
            blocks.append(((gi, k, nl, L, combos, None), nl ** L * len(combos)))
    if tier == "quick":
        # length 3 with a single-qubit gate or the measurement in the middle (order of 1-qubit ops between 2-qubit ops)
        for gi, (n, edges) in enumerate(_B["graphs"]):
            if n > 4:
                continue
            k = min(4, n)
            nl = len(_route_letters(k, 0))
            mids = (nl - 3, nl - 2, nl - 1)
            blocks.append(((gi, k, nl, 3, _B1_COMBOS_L3, mids), nl * len(mids) * nl * len(_B1_COMBOS_L3)))
    return _LazyCases(blocks, _decode_b1)


def _decode_b2(pfx, j):
    kind, gi, n, k, pi, pads = pfx
    pls = _placements(n, k)
    j, li = divmod(j, 3)
    qi, pdi = divmod(j, len(pads))
    la = (1, 2, 8)[li]
    tag = (qi + pi + la) % 2
    wm = (qi + pi) % 3 == 0
    return ((kind, gi), k, pi, tuple(pls[qi]), pads[pdi], la, tag, int(wm))


def _cases_route_placements(tier, directed):
    _init_b(tier)
    thorough = tier == "thorough"
    _B["patterns"] = _patterns(4 if thorough else 3, 4)
    pats = _B["patterns"]
    blocks = []
    graphs = _B["digraphs"] if directed else _B["graphs"]
    for pi, pat in enumerate(pats):  # patterns are sorted by length: simplest first
        k = _k_of_pattern(pat)
        plen = len(pat)
        for gi, (n, edges) in enumerate(graphs):
            if k > n:
                continue
            if directed:
                if plen > (3 if (thorough and n <= 4) else 2):
                    continue
            elif n == 6:
                if plen > 2:
                    continue
            elif n == 5:
                if plen > (3 if thorough else 2):
                    continue
            else:
                if plen > (4 if thorough else 3):
                    continue
            pads = (1,) if (k == n or (directed and n == 5)) else (1, 0)
            blocks.append((("d" if directed else "u", gi, n, k, pi, pads), len(_placements(n, k)) * len(pads) * 3))
    return _LazyCases(blocks, _decode_b2)


def _run_route_default_directed(case):
    """Default LineInitialMapper on digraphs (strongly connected or not)."""
    gi, pi, la = case
    seed = core.seed_from_env()
    n, arcs = _B["digraphs"][gi]
    style = gi % 2
    pat = _B["patterns"][pi]
    k = _k_of_pattern(pat)
    G = _device_graph(n, arcs, True, style)
    lq = [_logical(style, j) for j in range(k)]
    ops = [_mk_op(_PATTERN_KINDS[(pos + pi) % 4], [lq[i], lq[j]], seed) for pos, (i, j) in enumerate(pat)]
    circuit = cirq.Circuit(ops)
    try:
        return _check_routing(G, True, circuit, la, True, None, "default LineInitialMapper", seed, len(pat))
    except nx.NetworkXError as e:
        return bad(f"RouteCQC with its default initial mapper raised NetworkXError ({e}) on a weakly connected directed device "
                   f"graph nodes={sorted(G.nodes)} arcs={sorted(G.edges)} (the class documents that directed graphs are routed "
                   f"as if undirected)\ncircuit:\n{circuit}", kind="default_mapper_digraph")
    except ValueError as e:
        if "No available physical qubits" in str(e):
            return bad(f"default LineInitialMapper found no physical qubit ({e}) on a weakly connected directed device graph "
                       f"nodes={sorted(G.nodes)} arcs={sorted(G.edges)} with {k} logical qubits\ncircuit:\n{circuit}",
                       kind="default_mapper_digraph")
        raise


# --- MappingManager driven directly by all swap sequences ------------------------------------------------------


def _bfs_dist(adj, s, t):
    if s == t:
        return 0
    seen = {s}
    frontier = [s]
    d = 0
    while frontier:
        d += 1
        nxt = []
        for u in frontier:
            for v in adj.get(u, ()):
                if v not in seen:
                    if v == t:
                        return d
                    seen.add(v)
                    nxt.append(v)
        frontier = nxt
    return float("inf")


def _run_mapping_manager(case):
    gref, placement, maxdepth = case
    n, edges, directed = _graph_of(gref)
    style = gref[1] % 2
    G = _device_graph(n, edges, directed, style)
    k = len(placement)
    lq = [_logical(style, j) for j in range(k)]
    init = {lq[j]: _phys(style, placement[j]) for j in range(k)}
    mm = cirq.transformers.routing.mapping_manager.MappingManager(G, dict(init))
    pset = set(placement)
    adj_d = collections.defaultdict(set)  # directed adjacency in the induced subgraph
    adj_u = collections.defaultdict(set)
    for u, v in edges:
        if u in pset and v in pset:
            adj_d[u].add(v)
            adj_u[u].add(v)
            adj_u[v].add(u)
            if not directed:
                adj_d[v].add(u)
    node_of = {_phys(style, v): v for v in range(n)}
    l2p = {j: placement[j] for j in range(k)}  # model: logical index -> node
    li = {q: mm.logical_qid_to_int[q] for q in lq}
    counters = {"states": 0, "swaps": 0, "rejected_swaps": 0}

    def check_state(path):
        counters["states"] += 1
        where = f"graph n={n} edges={edges} directed={directed} placement={placement} swaps={path}"
        # maps mutually inverse and equal to the model
        for j in range(k):
            pj = mm.logical_to_physical[li[lq[j]]]
            if mm.physical_to_logical[pj] != li[lq[j]]:
                return f"logical_to_physical / physical_to_logical are not mutually inverse at logical {lq[j]}: {where}"
            if node_of[mm.int_to_physical_qid[pj]] != l2p[j]:
                return f"logical {lq[j]} is mapped to {mm.int_to_physical_qid[pj]} but the swaps put it on node {l2p[j]}: {where}"
            op = mm.mapped_op(cirq.X(lq[j]))
            if node_of[op.qubits[0]] != l2p[j]:
                return f"mapped_op sends {lq[j]} to {op.qubits[0]}, expected node {l2p[j]}: {where}"
        for i in range(k):
            for j in range(k):
                if i == j:
                    continue
                a, b = li[lq[i]], li[lq[j]]
                want = _bfs_dist(adj_d, l2p[i], l2p[j])
                got = mm.dist_on_device(a, b)
                if got != want:
                    return f"dist_on_device({lq[i]},{lq[j]})={got}, BFS distance in the induced subgraph={want}: {where}"
                want_u = _bfs_dist(adj_u, l2p[i], l2p[j])
                got_u = mm.dist_on_device(a, b, undirected=True)
                if got_u != want_u:
                    return f"dist_on_device({lq[i]},{lq[j]},undirected=True)={got_u}, BFS={want_u}: {where}"
                if bool(mm.is_adjacent(a, b)) != (l2p[j] in adj_d[l2p[i]]):
                    return f"is_adjacent({lq[i]},{lq[j]})={mm.is_adjacent(a, b)} but adjacency is {l2p[j] in adj_d[l2p[i]]}: {where}"
                if want_u != float("inf"):
                    sp = list(mm.shortest_path(a, b, undirected=True))
                    nodes = [l2p[[li[q] for q in lq].index(x)] for x in sp]
                    ok = (len(sp) == want_u + 1 and nodes[0] == l2p[i] and nodes[-1] == l2p[j]
                          and all(nodes[t + 1] in adj_u[nodes[t]] for t in range(len(nodes) - 1)))
                    if not ok:
                        return f"shortest_path({lq[i]},{lq[j]},undirected=True)={sp} (nodes {nodes}) is not a shortest path: {where}"
        return None

    def rec(path, depth):
        msg = check_state(path)
        if msg:
            return msg
        if depth == maxdepth:
            return None
        for i, j in itertools.combinations(range(k), 2):
            a, b = li[lq[i]], li[lq[j]]
            adjacent = l2p[j] in adj_u[l2p[i]]
            before = (tuple(mm.logical_to_physical), tuple(mm.physical_to_logical))
            try:
                mm.apply_swap(a, b)
                raised = False
            except ValueError:
                raised = True
            if raised == adjacent:
                return (f"apply_swap({lq[i]},{lq[j]}) {'raised' if raised else 'did not raise'} although the qubits are "
                        f"{'adjacent' if adjacent else 'not adjacent'}: graph n={n} edges={edges} placement={placement} swaps={path}")
            if raised:
                counters["rejected_swaps"] += 1
                if (tuple(mm.logical_to_physical), tuple(mm.physical_to_logical)) != before:
                    return f"rejected apply_swap changed the mapping: graph n={n} edges={edges} placement={placement} swaps={path}"
                continue
            counters["swaps"] += 1
            l2p[i], l2p[j] = l2p[j], l2p[i]
            msg = rec(path + [(i, j)], depth + 1)
            if msg:
                return msg
            mm.apply_swap(a, b)  # a swap is an involution: undo
            l2p[i], l2p[j] = l2p[j], l2p[i]
        return None

    msg = rec([], 0)
    if msg:
        return bad(msg, kind="mapping_manager")
    return good(nontrivial=counters["swaps"] > 0, mm_states=counters["states"], mm_swaps=counters["swaps"],
                mm_rejected_swaps=counters["rejected_swaps"])


def _cases_mapping_manager(tier):
    _init_b(tier)
    cases = []
    for kind, graphs in (("u", _B["graphs"]), ("d", _B["digraphs"])):
        for gi, (n, edges) in enumerate(graphs):
            ks = [n] if n >= 5 else list(range(2, n + 1))
            for k in ks:
                # MappingManager does not depend on which logical qubit sits where beyond relabelling: every placement for
                # <= 24, else the placements of the canonical logical qubit
                for pl in _placements(n, k, limit=24):
                    cases.append(((kind, gi), tuple(pl), 3 if n <= 5 else 2))
    return cases


# =============================================================================================
# (c) device acceptance
# =============================================================================================

_C = {}

# --- GridDevice from enumerated DeviceSpecification protos ----------------------------------------------------

GRID_KINDS = ("syc", "sqrt_iswap", "sqrt_iswap_inv", "cz", "cz_pow_gate", "phased_xz", "virtual_zpow", "physical_zpow",
              "coupler_pulse", "meas", "wait", "fsim_via_model", "two_pulse_fsim", "internal_gate", "reset",
              "analog_detune_qubit", "analog_detune_coupler_only", "wait_gate_with_unit")

GRIDS = {
    0: (2, 2),
    1: (2, 3),
}


def _grid_nodes(grid):
    r, c = GRIDS[grid]
    return [(i, j) for i in range(r) for j in range(c)]


def _grid_edges(grid):
    nodes = _grid_nodes(grid)
    out = []
    for (i, j) in nodes:
        if (i, j + 1) in nodes:
            out.append(((i, j), (i, j + 1)))
        if (i + 1, j) in nodes:
            out.append(((i, j), (i + 1, j)))
    return out


def _grid_letters(seed):
    """(name, gate/op factory on qubits, arity, variadic?, set of spec gate kinds that accept it) -- the acceptance table is
    written from the DeviceSpecification / GridDevice documentation, not computed by Cirq."""
    g = core.generic(seed)
    g2 = core.generic(seed, 1)
    pz = cirq_google.PhysicalZTag()
    L = [
        ("X", lambda q: cirq.X(*q), 1, False, {"phased_xz"}),
        ("X^g", lambda q: (cirq.X ** g)(*q), 1, False, {"phased_xz"}),
        ("Y^.5", lambda q: (cirq.Y ** 0.5)(*q), 1, False, {"phased_xz"}),
        ("H", lambda q: cirq.H(*q), 1, False, {"phased_xz"}),
        ("I", lambda q: cirq.I(*q), 1, False, {"phased_xz"}),
        ("PhX", lambda q: cirq.PhasedXPowGate(phase_exponent=g, exponent=0.3)(*q), 1, False, {"phased_xz"}),
        ("PhXZ", lambda q: cirq.PhasedXZGate(x_exponent=0.2, z_exponent=g, axis_phase_exponent=0.1)(*q), 1, False, {"phased_xz"}),
        ("Z^g", lambda q: (cirq.Z ** g)(*q), 1, False, {"virtual_zpow"}),
        ("Z^g[PhysicalZ]", lambda q: (cirq.Z ** g)(*q).with_tags(pz), 1, False, {"physical_zpow"}),
        ("X[PhysicalZ]", lambda q: cirq.X(*q).with_tags(pz), 1, False, {"phased_xz"}),
        ("M1", lambda q: cirq.MatrixGate(E.generic_unitary(2, seed))(*q), 1, False, set()),
        ("reset", lambda q: cirq.ResetChannel()(*q), 1, False, {"reset"}),
        ("meas1", lambda q: cirq.measure(*q, key="a"), 1, True, {"meas"}),
        ("wait1", lambda q: cirq.WaitGate(cirq.Duration(nanos=10))(*q), 1, True, {"wait"}),
        ("internal1", lambda q: cirq_google.InternalGate(gate_name="G", gate_module="m", num_qubits=1)(*q), 1, False, {"internal_gate"}),
        ("CZ", lambda q: cirq.CZ(*q), 2, False, {"cz", "cz_pow_gate"}),
        ("CZ^.5", lambda q: (cirq.CZ ** 0.5)(*q), 2, False, {"cz_pow_gate"}),
        ("CZ^g", lambda q: (cirq.CZ ** g)(*q), 2, False, {"cz_pow_gate"}),
        ("FSim(0,pi)", lambda q: cirq.FSimGate(0, np.pi)(*q), 2, False, {"cz"}),
        ("SQRT_ISWAP", lambda q: cirq.SQRT_ISWAP(*q), 2, False, {"sqrt_iswap"}),
        ("FSim(-pi/4,0)", lambda q: cirq.FSimGate(-np.pi / 4, 0)(*q), 2, False, {"sqrt_iswap"}),
        ("SQRT_ISWAP_INV", lambda q: cirq.SQRT_ISWAP_INV(*q), 2, False, {"sqrt_iswap_inv"}),
        ("SYC", lambda q: cirq_google.SYC(*q), 2, False, {"syc"}),
        ("FSim(pi/2,pi/6)", lambda q: cirq.FSimGate(np.pi / 2, np.pi / 6)(*q), 2, False, {"syc"}),
        ("ISWAP", lambda q: cirq.ISWAP(*q), 2, False, set()),
        ("CNOT", lambda q: cirq.CNOT(*q), 2, False, set()),
        ("FSim(g,g')", lambda q: cirq.FSimGate(g, g2)(*q), 2, False, set()),
        ("FSim(g,g')[via_model]", lambda q: cirq.FSimGate(g, g2)(*q).with_tags(cirq_google.FSimViaModelTag()), 2, False, {"fsim_via_model"}),
        ("FSim(g,g')[two_pulse]", lambda q: cirq.FSimGate(g, g2)(*q).with_tags(cirq_google.TwoPulseFSimTag()), 2, False, {"two_pulse_fsim"}),
        ("meas2", lambda q: cirq.measure(*q, key="b"), 2, True, {"meas"}),
        ("wait2", lambda q: cirq.WaitGate(cirq.Duration(nanos=10), num_qubits=2)(*q), 2, True, {"wait"}),
        ("meas3", lambda q: cirq.measure(*q, key="c"), 3, True, {"meas"}),
        ("CCZ", lambda q: cirq.CCZ(*q), 3, False, set()),
    ]
    return L


def _kind_sets(tier):
    """Enumerated gate-kind subsets (as tuples of indices into GRID_KINDS)."""
    nk = len(GRID_KINDS)
    small = [()] + [(i,) for i in range(nk)] + list(itertools.combinations(range(nk), 2)) + [tuple(range(nk))]
    return small


def _make_spec(grid, qmask, pmask, kinds):
    nodes = _grid_nodes(grid)
    edges = _grid_edges(grid)
    qs = [nodes[i] for i in range(len(nodes)) if qmask >> i & 1]
    pairs = [edges[i] for i in range(len(edges)) if pmask >> i & 1]
    spec = v2.device_pb2.DeviceSpecification()
    # valid_qubits listed in a scrambled order (order must not matter)
    order = sorted(qs, key=lambda q: ((q[0] * 7 + q[1] * 3) % 5, q))
    spec.valid_qubits.extend(f"{r}_{c}" for r, c in order)
    ts = spec.valid_targets.add()
    ts.name = "2_qubit_targets"
    ts.target_ordering = v2.device_pb2.TargetSet.SYMMETRIC
    for i, (u, v) in enumerate(pairs):
        t = ts.targets.add()
        a, b = (u, v) if i % 2 == 0 else (v, u)  # id order inside a SYMMETRIC target must not matter
        t.ids.extend([f"{a[0]}_{a[1]}", f"{b[0]}_{b[1]}"])
    ms = spec.valid_targets.add()
    ms.name = "meas_targets"
    ms.target_ordering = v2.device_pb2.TargetSet.SUBSET_PERMUTATION
    for q in qs:
        t = ms.targets.add()
        t.ids.append(f"{q[0]}_{q[1]}")
    for ki in kinds:
        gsp = spec.valid_gates.add()
        getattr(gsp, GRID_KINDS[ki]).SetInParent()
        gsp.gate_duration_picos = 1000 * (ki + 1)
    return spec, qs, pairs


def _grid_placements(grid, arity):
    """Qubit tuples a letter of the arity is placed on: all grid nodes / ordered node pairs, plus an off-grid qubit."""
    nodes = _grid_nodes(grid)
    off = (5, 5)
    if arity == 1:
        return [(q,) for q in nodes] + [(off,)]
    if arity == 2:
        return list(itertools.permutations(nodes, 2)) + [(nodes[0], off), (off, nodes[-1])]
    n3 = nodes[:3]
    return [tuple(n3), (nodes[-1], nodes[0], nodes[1]), (nodes[0], nodes[1], off)]


def _accepts(fn):
    try:
        fn()
        return True, None
    except (ValueError, NotImplementedError) as e:  # the documented rejection signals
        return False, e


def _run_grid_device(case):
    grid, qmask, pmask, ksi = case
    seed = core.seed_from_env()
    kinds = _C["kind_sets"][ksi]
    spec, qs, pairs = _make_spec(grid, qmask, pmask, kinds)
    spec_bytes = spec.SerializeToString()
    dev = cirq_google.GridDevice.from_proto(spec)
    if spec.SerializeToString() != spec_bytes:
        return bad("GridDevice.from_proto modified the specification", kind="grid_spec_modified")
    kindnames = {GRID_KINDS[k] for k in kinds}
    qset = set(qs)
    pset = {frozenset(p) for p in pairs}
    where = f"spec: qubits={sorted(qs)} pairs={pairs} gates={sorted(kindnames)}"
    # metadata agrees with the spec
    md = dev.metadata
    if set(md.qubit_set) != {cirq.GridQubit(*q) for q in qs}:
        return bad(f"metadata.qubit_set {sorted(md.qubit_set)} differs from the specification: {where}", kind="grid_metadata")
    if set(md.qubit_pairs) != {frozenset(cirq.GridQubit(*q) for q in p) for p in pset}:
        return bad(f"metadata.qubit_pairs {md.qubit_pairs} differs from the specification: {where}", kind="grid_metadata")
    L = _C["grid_letters"]
    n_acc = n_rej = 0
    placed = []  # (op, expected) for the circuit-level check
    for name, mk, arity, variadic, by in L:
        gate_ok = bool(by & kindnames)
        for pl in _grid_placements(grid, arity):
            op = mk([cirq.GridQubit(*q) for q in pl])
            on_dev = all(q in qset for q in pl)
            pair_ok = True
            if arity == 2 and not variadic:
                pair_ok = frozenset(pl) in pset
            want = gate_ok and on_dev and pair_ok
            got, err = _accepts(lambda: dev.validate_operation(op))
            if got != want:
                return bad(f"GridDevice.validate_operation({op!r}) {'accepted' if got else f'rejected ({err})'}; reference: gate in "
                           f"gateset={gate_ok}, qubits on device={on_dev}, pair allowed={pair_ok}: {where}", kind="grid_validate_op",
                           letter=name)
            in_gs = op in md.gateset
            if in_gs != gate_ok:
                return bad(f"`{op!r} in metadata.gateset` is {in_gs}, the specification implies {gate_ok}: {where}",
                           kind="grid_gateset", letter=name)
            n_acc += got
            n_rej += not got
            placed.append((op, want, name))
    # validate_circuit <=> all ops accepted.  Reduced list: every letter once accepted / once rejected; circuits = each
    # reduced op alone, and before / after every op of a small accepted core (first accepted op of each arity)
    red = {}
    for op, want, name in placed:
        red.setdefault((name, want), (op, want))
    red = list(red.values())
    acc_core = {}
    for op, want, name in placed:
        if want:
            acc_core.setdefault(len(op.qubits), (op, want))
    acc_core = list(acc_core.values())
    rej_core = {}
    for op, want, name in placed:
        if not want:
            rej_core.setdefault(len(op.qubits), (op, want))
    circs = [((o, w),) for o, w in red]
    for o, w in red:
        for o2, w2 in acc_core + list(rej_core.values())[:1]:
            circs.append(((o, w), (o2, w2)))
            circs.append(((o2, w2), (o, w)))
    n_circ = 0
    for items in circs:
        circ = cirq.Circuit(o for o, _w in items)
        want = all(w for _o, w in items)
        got, err = _accepts(lambda: dev.validate_circuit(circ))
        n_circ += 1
        if got != want:
            return bad(f"GridDevice.validate_circuit {'accepted' if got else f'rejected ({err})'} a circuit whose ops are "
                       f"individually {[w for _o, w in items]}:\n{circ}\n{where}", kind="grid_validate_circuit")
    for o1, w1 in red:
        got_m, err = _accepts(lambda: dev.validate_moment(cirq.Moment(o1)))
        if got_m != w1:
            return bad(f"GridDevice.validate_moment(Moment({o1!r})) gave {got_m}, expected {w1}: {where}", kind="grid_validate_moment")
    return good(nontrivial=n_acc > 0 and n_rej > 0, ops_accepted=n_acc, ops_rejected=n_rej, circuits=n_circ)


def _cases_grid(tier):
    _C["kind_sets"] = _kind_sets(tier)
    ks = _C["kind_sets"]
    nk = len(GRID_KINDS)
    full = len(ks) - 1
    cases = []
    grids = (0,) if tier == "quick" else (0, 1)
    for grid in grids:
        nodes = _grid_nodes(grid)
        edges = _grid_edges(grid)
        for qmask in range(1, 1 << len(nodes)):
            inside = [i for i, (u, v) in enumerate(edges)
                      if qmask >> nodes.index(u) & 1 and qmask >> nodes.index(v) & 1]
            for sub in range(1 << len(inside)):
                pmask = 0
                for t, ei in enumerate(inside):
                    if sub >> t & 1:
                        pmask |= 1 << ei
                if grid == 0 and qmask == 0b1111 and sub == (1 << len(inside)) - 1:
                    ksel = range(len(ks))  # full 2x2 grid: also every pair of gate kinds
                else:
                    # topology enumeration with the empty, singleton and full gate sets
                    ksel = list(range(0, nk + 1)) + [full]
                for ksi in ksel:
                    cases.append((grid, qmask, pmask, ksi))
    if tier == "thorough":
        # every subset of a 12-kind core on one fixed topology (full 2x2 grid, three of its four pairs)
        core12 = (0, 1, 2, 3, 4, 5, 6, 7, 9, 10, 11, 14)
        base = len(ks)
        for m in range(1 << len(core12)):
            sel = tuple(core12[i] for i in range(len(core12)) if m >> i & 1)
            if len(sel) <= 2:
                continue  # already in the small list
            ks.append(sel)
        for ksi in range(base, len(ks)):
            cases.append((0, 0b1111, 0b0111, ksi))
    return cases


# --- vendor devices ----------------------------------------------------------------------------------------------


def _vendor_letters(seed):
    """(name, factory(qubits)->op, arity, is_measurement, docs: which vendor gatesets accept)."""
    g = core.generic(seed)
    U1 = E.generic_unitary(2, seed)
    L = [
        ("X^g", lambda q: (cirq.X ** g)(*q), 1, {"ionq", "pasqal", "pasqal_virtual"}),
        ("Z^g", lambda q: (cirq.Z ** g)(*q), 1, {"ionq", "aqt", "pasqal", "pasqal_virtual"}),
        ("H", lambda q: cirq.H(*q), 1, {"ionq", "pasqal", "pasqal_virtual"}),
        ("PhX", lambda q: cirq.PhasedXPowGate(phase_exponent=g, exponent=0.3)(*q), 1, {"aqt", "pasqal", "pasqal_virtual"}),
        ("M1", lambda q: cirq.MatrixGate(U1)(*q), 1, set()),
        ("PhXZ", lambda q: cirq.PhasedXZGate(x_exponent=0.2, z_exponent=g, axis_phase_exponent=0.1)(*q), 1, set()),
        ("meas1(a)", lambda q: cirq.measure(*q, key="a"), 1, {"ionq", "aqt", "pasqal", "pasqal_virtual"}),
        ("meas1(b)", lambda q: cirq.measure(*q, key="b"), 1, {"ionq", "aqt", "pasqal", "pasqal_virtual"}),
        ("XX^g", lambda q: (cirq.XX ** g)(*q), 2, {"ionq", "aqt"}),
        ("ZZ^g", lambda q: (cirq.ZZ ** g)(*q), 2, {"ionq"}),
        ("CNOT", lambda q: cirq.CNOT(*q), 2, {"ionq", "pasqal"}),
        ("SWAP", lambda q: cirq.SWAP(*q), 2, {"ionq"}),
        ("CZ", lambda q: cirq.CZ(*q), 2, {"pasqal", "pasqal_virtual"}),
        ("CZ^-1", lambda q: (cirq.CZ ** -1.0)(*q), 2, {"pasqal", "pasqal_virtual"}),
        ("CZ^.5", lambda q: (cirq.CZ ** 0.5)(*q), 2, set()),
        ("ISWAP", lambda q: cirq.ISWAP(*q), 2, set()),
        ("meas2(a)", lambda q: cirq.measure(*q, key="a"), 2, {"ionq", "aqt", "pasqal", "pasqal_virtual"}),
        ("CCZ", lambda q: cirq.CCZ(*q), 3, {"pasqal"}),
        ("CSWAP", lambda q: cirq.CSWAP(*q), 3, set()),
    ]
    return L


def _vendor_devices():
    """(name, family, device factory, on-device qubits, off-device qubits (same type), controlled-pair rule or None)."""
    out = []
    for n in (1, 2, 3):
        qs = cirq.LineQubit.range(n)
        out.append((f"IonQAPIDevice({n})", "ionq", lambda n=n: cirq_ionq.IonQAPIDevice(n), qs, [cirq.LineQubit(7)], None))
        out.append((f"get_aqt_device({n})", "aqt", lambda n=n: aqt_device_mod.get_aqt_device(n)[0], qs, [cirq.LineQubit(7)], None))
        nq = [cirq.NamedQubit(f"q{i}") for i in range(n)]
        out.append((f"PasqalDevice({n} named)", "pasqal", lambda nq=nq: cirq_pasqal.PasqalDevice(nq), nq, [cirq.NamedQubit("zz")], None))
    line = cirq.LineQubit.range(4)
    for r in (0.0, 1.0, 2.0, 3.0):
        out.append((f"PasqalVirtualDevice(r={r}, line4)", "pasqal_virtual",
                    lambda r=r: cirq_pasqal.PasqalVirtualDevice(r, line), line, [cirq.LineQubit(9)],
                    (r, lambda p, q: abs(p.x - q.x))))
    grid = cirq.GridQubit.rect(2, 2)
    for r in (1.0, 1.5, 2.0):
        out.append((f"PasqalVirtualDevice(r={r}, grid2x2)", "pasqal_virtual",
                    lambda r=r: cirq_pasqal.PasqalVirtualDevice(r, grid), grid, [cirq.GridQubit(4, 4)],
                    (r, lambda p, q: ((p.row - q.row) ** 2 + (p.col - q.col) ** 2) ** 0.5)))
    td = [cirq_pasqal.TwoDQubit(0, 0), cirq_pasqal.TwoDQubit(1, 0), cirq_pasqal.TwoDQubit(0, 2)]
    for r in (1.0, 2.0, 2.5, 3.0):
        out.append((f"PasqalVirtualDevice(r={r}, 2D)", "pasqal_virtual",
                    lambda r=r: cirq_pasqal.PasqalVirtualDevice(r, td), td, [cirq_pasqal.TwoDQubit(9, 9)],
                    (r, lambda p, q: ((p.x - q.x) ** 2 + (p.y - q.y) ** 2) ** 0.5)))
    return out


def _vendor_expected_op(fam, accepted_by, op, qs_on, rule, pl):
    gate_ok = fam in accepted_by
    on_dev = all(q in qs_on for q in pl)
    pair_ok = True
    if rule is not None and isinstance(op.gate, cirq.CZPowGate) and gate_ok and on_dev:
        r, dist = rule
        pair_ok = all(dist(p, q) <= r for p in pl for q in pl)
    return gate_ok, on_dev, pair_ok


def _run_vendor_device(case):
    di = case
    seed = core.seed_from_env()
    name, fam, mk_dev, qs_on, qs_off, rule = _vendor_devices()[di]
    dev = mk_dev()
    L = _vendor_letters(seed)
    allq = list(qs_on) + list(qs_off)
    gateset = dev.metadata.gateset if fam == "aqt" else dev.gateset
    placed = []
    n_acc = n_rej = 0
    for lname, mk, arity, by in L:
        if arity > len(allq):
            continue
        for pl in itertools.permutations(allq, arity):
            op = mk(list(pl))
            gate_ok, on_dev, pair_ok = _vendor_expected_op(fam, by, op, qs_on, rule, pl)
            want = gate_ok and on_dev and pair_ok
            got, err = _accepts(lambda: dev.validate_operation(op))
            if (op in gateset) != gate_ok:
                return bad(f"{name}: `{op!r} in device gateset` is {op in gateset}; the device documentation implies {gate_ok}",
                           kind="vendor_gateset", device=fam, letter=lname)
            if got != want:
                return bad(f"{name}.validate_operation({op!r}) {'accepted' if got else f'rejected ({err})'}; reference: gate in gateset="
                           f"{gate_ok}, all qubits on device={on_dev} (device qubits {list(qs_on)}), pair allowed={pair_ok}",
                           kind="vendor_validate_op", device=fam, reason=("gate" if not gate_ok else "qubits" if not on_dev else "pair"))
            n_acc += got
            n_rej += not got
            placed.append((op, want, lname))
    # documented extra op-level rules
    if fam in ("pasqal", "pasqal_virtual"):
        op = cirq.measure(qs_on[0], key="a", invert_mask=(True,))
        got, err = _accepts(lambda: dev.validate_operation(op))
        if got or not isinstance(err, NotImplementedError):
            return bad(f"{name}: measurement with invert_mask must raise NotImplementedError (documented), got accepted={got} err={err!r}",
                       kind="vendor_rule", device=fam)
    if fam == "ionq":
        got, err = _accepts(lambda: dev.validate_operation(cirq.CircuitOperation(cirq.FrozenCircuit(cirq.X(qs_on[0])))))
        if got:
            return bad(f"{name} accepted an operation without a gate", kind="vendor_rule", device=fam)
    # circuits: every ordered pair from a reduced list (each letter once accepted / once rejected per reason), two layouts:
    # (0) both ops appended with EARLIEST, (1) one op per moment
    red = {}
    for op, want, lname in placed:
        red.setdefault((lname, want, len(op.qubits) if not want else 0), (op, want))
    red = list(red.values())
    n_circ = 0
    for (o1, w1), (o2, w2) in itertools.product(red, repeat=2):
        for layout in (0, 1):
            try:
                circ = cirq.Circuit(o1, o2) if layout == 0 else cirq.Circuit(cirq.Moment(o1), cirq.Moment(o2))
            except ValueError:
                continue
            want = w1 and w2
            why = "all ops individually accepted" if want else "an op is individually rejected"
            if want:
                m1, m2 = cirq.is_measurement(o1), cirq.is_measurement(o2)
                if fam == "aqt" and m1 and m2 and cirq.measurement_key_name(o1) == cirq.measurement_key_name(o2):
                    want, why = False, "AQT: measurement keys must be unique"
                if fam in ("pasqal", "pasqal_virtual"):
                    # a non-empty moment after a moment holding a measurement is invalid
                    seen_m = False
                    for mom in circ:
                        if seen_m and len(mom) > 0:
                            want, why = False, "Pasqal: non-empty moment after a measurement"
                        if any(cirq.is_measurement(o) for o in mom):
                            seen_m = True
                if fam == "pasqal_virtual":
                    for mom in circ:
                        if len(mom) > 1 and not all(cirq.is_measurement(o) for o in mom):
                            want, why = False, "PasqalVirtualDevice: simultaneous non-measurement gates"
            got, err = _accepts(lambda: dev.validate_circuit(circ))
            n_circ += 1
            if got != want:
                return bad(f"{name}.validate_circuit {'accepted' if got else f'rejected ({err})'}; reference says "
                           f"{'accept' if want else 'reject'} ({why}):\n{circ}", kind="vendor_validate_circuit", device=fam)
    return good(nontrivial=n_acc > 0 and n_rej > 0, ops_accepted=n_acc, ops_rejected=n_rej, circuits=n_circ)


def _init_c(seed):
    if _C.get("seed") != seed:
        _C["seed"] = seed
        _C["grid_letters"] = _grid_letters(seed)


# =============================================================================================


def _timed(fn):
    """Adds the CPU seconds of each case as a counter (the machine is shared: wall time says little)."""
    import time

    def run(case):
        t0 = time.process_time()
        r = fn(case)
        dt = time.process_time() - t0
        if r is None:
            r = good()
        if isinstance(r, Res):
            r.counters = dict(r.counters or {})
            r.counters["cpu_s"] = dt
        return r

    return run


def stages(tier, seed):
    _init_a(seed)
    _init_b(tier)
    _init_c(seed)
    st = []
    nrows = len(_membership_table(seed))
    st.append(CaseStage("a0_gateset_membership", [(gi, ri) for gi in range(len(_A["GS"])) if _A["GS"][gi][3] != "lattice" for ri in range(nrows)],
                        _timed(_run_membership)))
    # small chunks: the cost of a case varies from 0.3 ms to 100 ms
    st.append(CaseStage("a1_compile_fast_targets", _cases_compile(tier, seed, slow=False), _timed(_run_compile),
                        describe=_describe_compile, chunk=48))
    st.append(CaseStage("a2_compile_slow_targets", _cases_compile(tier, seed, slow=True), _timed(_run_compile),
                        describe=_describe_compile, chunk=16))
    vcases = [(gi, pi, 0, seq) for seq in _variant_circuits() for gi in range(len(_A["GS"])) if _A["GS"][gi][3] != "lattice"
              for pi in range(len(PASSES))]
    st.append(CaseStage("a3_compile_fastpath_variants", vcases, _timed(_run_compile), describe=_describe_compile, chunk=32))
    st.append(CaseStage("a4_compile_option_lattice", _cases_lattice(tier, seed), _timed(_run_compile),
                        describe=_describe_compile, chunk=32))
    st.append(CaseStage("b1_route_letter_sequences", _cases_route_letters(tier), _timed(_run_route_letters)))
    st.append(CaseStage("b2_route_all_placements", _cases_route_placements(tier, False), _timed(_run_route_placements)))
    st.append(CaseStage("b3_route_directed_graphs", _cases_route_placements(tier, True), _timed(_run_route_placements)))
    pats2 = [pi for pi, p in enumerate(_B["patterns"]) if len(p) <= 2]
    st.append(CaseStage("b4_route_directed_default_mapper",
                        [(gi, pi, la) for gi, (n, _a) in enumerate(_B["digraphs"]) for pi in pats2
                         if _k_of_pattern(_B["patterns"][pi]) <= n for la in (1, 8)],
                        _timed(_run_route_default_directed)))
    st.append(CaseStage("b5_mapping_manager_swap_sequences", _cases_mapping_manager(tier), _timed(_run_mapping_manager)))
    st.append(CaseStage("c1_grid_device_specs", _cases_grid(tier), _timed(_run_grid_device)))
    st.append(CaseStage("c2_vendor_devices", list(range(len(_vendor_devices()))), _timed(_run_vendor_device)))
    return st
