"""C07 -- hardware compilation: output is native, equivalent, routable and validated.

Three sub-drivers (DESIGN.md section 4, C07), each a group of stages:

(a) a*_ : every target gateset x option mix applied through cirq.optimize_for_target_gateset to every
          sequence (length <= L) of a placed compilation alphabet; oracle = gateset.validate(out),
          unitary / channel equality computed by mc/ref/embed, measurement + 'nocompile' survival,
          input unchanged.  A membership table (from the class docstrings) pins each gateset.
(b) b*_ : cirq.RouteCQC on every connected graph of the networkx atlas (2..5, thorough 6 nodes) and
          directed variants of paths/stars, circuits = all letter sequences / all canonical
          interaction patterns, every injective placement; oracle = ops on edges, unitary equal up to
          the reported permutation (own permutation matrices), initial map injective,
          routed_circuit_with_mapping agreement; MappingManager driven by all swap sequences.
(c) c*_ : device acceptance: GridDevice built from enumerated DeviceSpecification protos, IonQ, AQT and
          Pasqal devices; validate_operation / validate_circuit against a reference computed from the
          specification (gate table, qubit set, pair set, documented circuit-level rules).
"""
from __future__ import annotations

import collections
import itertools
import signal

import networkx as nx
import numpy as np
import cirq
import cirq_google
import cirq_ionq
import cirq_aqt
import cirq_pasqal
from cirq_aqt import aqt_target_gateset
from cirq_aqt import aqt_device as aqt_device_mod
from cirq_google.api import v2

from mc import core
from mc.core import CaseStage, Res, bad, good
from mc.ref import embed as E

PROPERTY = "C07"
LEVEL = "exploration"
RULE = ("(a) every (target gateset x options x max_num_passes x deep) x every sequence (length<=L) of a placed compilation "
        "alphabet (class representatives of 1/2/3-qubit unitaries, native letters of the target, nocompile-tagged ops, "
        "measurements, sub-circuits); (b) every connected atlas graph (2..5, thorough 6 nodes, directed path/star variants) x "
        "every letter sequence / canonical interaction pattern x every injective placement x lookahead x tagging, plus all "
        "swap sequences (<=3) on MappingManager; (c) every enumerated DeviceSpecification (qubit subsets x pair subsets x "
        "gate-kind subsets) and vendor device x every placed letter and letter pair. A case is non-trivial when the input "
        "contains a non-native op or two ops sharing a wire (a), a two-qubit op (b), at least one accepted and one rejected "
        "placed letter (c); distinct = distinct descriptor")
TECHNIQUE = ("bounded-exhaustive enumeration of circuits x compiler/router/device configurations against matrix-level and "
             "specification-level reference oracles (own embedding, permutation matrices, BFS distances, acceptance tables)")
LEVEL_TEXT = ("Every circuit of a bounded placed alphabet is compiled for every target gateset and option mix, routed on every "
              "small connected device graph from every placement, and offered to devices built from every small device "
              "specification; each result is compared with a reference computed independently (8x8 unitaries / 64x64 "
              "channels by own embedding, permutation matrices, BFS distances, acceptance predicates derived from the "
              "specification). Nothing is sampled; the bound is the alphabet, the sequence length and the graph size.")
LEVEL_NOTE = ("trusted: numpy, networkx graph atlas and BFS; cirq.unitary of single leaf operations (tied to closed forms by "
              "C03/C04); CircuitOperation.mapped_circuit for reading sub-circuits of outputs; Circuit construction (C05)")
ASSUMPTIONS = [
    "cirq.unitary of single leaf operations is correct (tied to closed forms by C03/C04)",
    "CircuitOperation.mapped_circuit(deep=True) correctly expands sub-circuits found in compiler outputs (C12)",
    "networkx graph atlas lists all graphs up to isomorphism; networkx BFS distances",
    "a measurement without its record is a dephasing channel on its qubits (routing: stand-in generic 1-qubit marker)",
    "numpy linear algebra",
]

TOL = 1e-6
NOCOMPILE = "nocompile"


class _Timeout(Exception):
    pass


def _alarm(_sig, _frm):
    raise _Timeout()


def _with_timeout(seconds, fn):
    """Runs fn(); a call that does not return within `seconds` raises _Timeout (non-termination is a violation)."""
    old = signal.signal(signal.SIGALRM, _alarm)
    signal.setitimer(signal.ITIMER_REAL, seconds)
    try:
        return fn()
    finally:
        signal.setitimer(signal.ITIMER_REAL, 0)
        signal.signal(signal.SIGALRM, old)


# =============================================================================================
# (a) target gatesets
# =============================================================================================

QA = cirq.LineQubit.range(3)
_A = {}  # per-process cache: alphabets/gatesets for the seed


def _u(op):
    u = cirq.unitary(op, None)
    if u is None:
        raise core.HarnessError(f"no unitary for leaf op {op!r}")
    return u


def _leaf_ops(circuit_or_ops):
    """Flat list of leaf operations; CircuitOperations are expanded (trusted: mapped_circuit)."""
    out = []
    ops = circuit_or_ops.all_operations() if isinstance(circuit_or_ops, cirq.AbstractCircuit) else circuit_or_ops
    for op in ops:
        if isinstance(op.untagged, cirq.CircuitOperation):
            out.extend(_leaf_ops(op.untagged.mapped_circuit(deep=True)))
        else:
            out.append(op)
    return out


def _semantics(leaf_ops, qubits):
    """('U', 2^n x 2^n unitary) for measurement-free lists, else ('S', superoperator with measurements as dephasing)."""
    n = len(qubits)
    shape = (2,) * n
    idx = {q: i for i, q in enumerate(qubits)}
    has_m = any(cirq.is_measurement(op) for op in leaf_ops)
    D = 2 ** n
    if not has_m:
        U = np.eye(D, dtype=np.complex128)
        for op in leaf_ops:
            U = E.embed(_u(op), [idx[q] for q in op.qubits], shape) @ U
        return "U", U
    S = np.eye(D * D, dtype=np.complex128)
    for op in leaf_ops:
        if cirq.is_measurement(op):
            mask = 0
            for q in op.qubits:
                mask |= 1 << (n - 1 - idx[q])
            keep = np.array([1.0 if ((i ^ j) & mask) == 0 else 0.0 for i in range(D) for j in range(D)])
            S = keep[:, None] * S
        else:
            U = E.embed(_u(op), [idx[q] for q in op.qubits], shape)
            S = np.kron(U, U.conj()) @ S
    return "S", S


def _sem_equal(ref, got):
    if ref[0] != got[0]:
        return False
    if ref[0] == "U":
        return E.eq_up_to_phase(ref[1], got[1], TOL)
    return E.eq_exact(ref[1], got[1], TOL)


def _alphabet_a(seed):
    """Placed compilation letters: (name, op, reference leaf ops or None)."""
    a, b, c = QA
    g = core.generic(seed)
    g2 = core.generic(seed, 1)
    U1 = E.generic_unitary(2, seed)
    U1b = E.generic_unitary(2, seed + 1)
    U1c = E.generic_unitary(2, seed + 2)
    U2 = E.generic_unitary(4, seed)
    U3 = E.generic_unitary(8, seed)
    sub1_ops = [cirq.H(a), cirq.CNOT(a, b), cirq.T(b)]
    sub2_ops = [cirq.ISWAP(b, c) ** g, cirq.X(c)]
    L = [
        ("X(a)", cirq.X(a), None),
        ("Y(b)^.5", cirq.Y(b) ** 0.5, None),
        ("Z(a)^g", cirq.Z(a) ** g, None),
        ("H(b)", cirq.H(b), None),
        ("S(c)", cirq.S(c), None),
        ("PhXZ(b)", cirq.PhasedXZGate(x_exponent=0.2, z_exponent=g, axis_phase_exponent=0.1)(b), None),
        ("M1(c)", cirq.MatrixGate(U1)(c), None),
        ("I2(a,b)", cirq.IdentityGate(2)(a, b), None),
        ("CZ^2(b,c)", cirq.CZ(b, c) ** 2.0, None),
        ("M1xM1(a,b)", cirq.MatrixGate(np.kron(U1, U1b))(a, b), None),
        ("CNOT(a,b)", cirq.CNOT(a, b), None),
        ("CNOT(b,a)", cirq.CNOT(b, a), None),
        ("ISWAP(a,b)", cirq.ISWAP(a, b), None),
        ("SWAP(b,c)", cirq.SWAP(b, c), None),
        ("SQRT_ISWAP(b,c)", cirq.SQRT_ISWAP(b, c), None),
        ("CZ(a,b)", cirq.CZ(a, b), None),
        ("CZ(b,c)^g", cirq.CZ(b, c) ** g, None),
        ("CZ(a,b)^.5", cirq.CZ(a, b) ** 0.5, None),
        ("FSim(a,c)", cirq.FSimGate(g, g2)(a, c), None),
        ("M2(a,c)", cirq.MatrixGate(U2)(a, c), None),
        ("ZZ(a,b)^g", cirq.ZZ(a, b) ** g, None),
        ("CCZ", cirq.CCZ(a, b, c), None),
        ("CSWAP", cirq.CSWAP(a, b, c), None),
        ("M3", cirq.MatrixGate(U3)(a, b, c), None),
        ("nc:ISWAP(a,b)^g", (cirq.ISWAP(a, b) ** g).with_tags(NOCOMPILE), None),
        ("nc:M1(b)", cirq.MatrixGate(U1c)(b).with_tags(NOCOMPILE), None),
        ("meas(a,b;m)", cirq.measure(a, b, key="m"), None),
        ("meas(c;k,inv)", cirq.measure(c, key="k", invert_mask=(True,)), None),
        ("SUB[H,CNOT,T]", cirq.CircuitOperation(cirq.FrozenCircuit(sub1_ops)), sub1_ops),
        ("SUB[ISWAP^g,X]x2", cirq.CircuitOperation(cirq.FrozenCircuit(sub2_ops), repetitions=2), sub2_ops * 2),
    ]
    return L


_SUB_LETTERS = (28, 29)
_CORE3 = (0, 3, 10, 15, 17, 12, 16, 24, 26)  # letters of the length-3 core (old-vs-new 2q count choice, tags, measurement)


def _gatesets(seed):
    """(name, gateset, native extra letters, slow?) -- every target x option mix of the design."""
    a, b, c = QA
    g = core.generic(seed, 2)
    out = []
    for partial in (False, True):
        for pms in (True, False):
            out.append((f"CZ(partial={partial},pms={pms})",
                        cirq.CZTargetGateset(allow_partial_czs=partial, preserve_moment_structure=pms),
                        [cirq.CZ(b, a), cirq.PhasedXZGate(x_exponent=g, z_exponent=0.3, axis_phase_exponent=0.2)(a)], False))
    for cnt in (None, 2, 3):
        for inv in (False, True):
            nat = cirq.SQRT_ISWAP_INV if inv else cirq.SQRT_ISWAP
            out.append((f"SqrtIswap(count={cnt},inv={inv})",
                        cirq.SqrtIswapTargetGateset(required_sqrt_iswap_count=cnt, use_sqrt_iswap_inv=inv),
                        [nat(a, b), nat(c, b)], False))
    out.append(("Sycamore", cirq_google.SycamoreTargetGateset(), [cirq_google.SYC(a, b), cirq.PhasedXPowGate(phase_exponent=g)(c)], True))
    out.append(("GoogleCZ(eject=F)", cirq_google.GoogleCZTargetGateset(eject_paulis=False), [cirq.CZ(b, a)], False))
    out.append(("GoogleCZ(eject=T,+paulis)",
                cirq_google.GoogleCZTargetGateset(
                    eject_paulis=True,
                    additional_gates=[cirq.XPowGate, cirq.YPowGate, cirq.ZPowGate, cirq.PhasedXPowGate]),
                [cirq.CZ(b, a), cirq.Z(b), cirq.PhasedXPowGate(phase_exponent=g)(a)], False))
    out.append(("IonQ", cirq_ionq.IonQTargetGateset(), [cirq.XX(a, b) ** g, cirq.YY(b, c) ** g, cirq.SWAP(a, c)], False))
    out.append(("Aria", cirq_ionq.AriaNativeGateset(),
                [cirq_ionq.GPIGate(phi=g)(a), cirq_ionq.GPI2Gate(phi=g)(b), cirq_ionq.MSGate(phi0=g, phi1=0.1)(a, b)], True))
    out.append(("Forte", cirq_ionq.ForteNativeGateset(),
                [cirq_ionq.GPIGate(phi=g)(a), cirq_ionq.ZZGate(theta=0.1)(b, c)], True))
    out.append(("AQT", aqt_target_gateset.AQTTargetGateset(),
                [cirq.XX(a, b) ** g, cirq.PhasedXPowGate(phase_exponent=g, exponent=0.3)(c)], False))
    for add in (True, False):
        nat = [cirq.CZ(b, a), cirq.ParallelGate(cirq.H, 2)(a, c)]
        if add:
            nat.append(cirq.CCX(c, a, b))
        out.append((f"Pasqal(add={add})", cirq_pasqal.PasqalGateset(include_additional_controlled_ops=add), nat, False))
    return out


PASSES = (1, None)


def _init_a(seed):
    if _A.get("seed") == seed:
        return
    _A["seed"] = seed
    _A["L"] = _alphabet_a(seed)
    _A["GS"] = _gatesets(seed)


def _letter_a(gi, li):
    """Letter index li: < len(L) -> general alphabet, else native extra letter of gateset gi."""
    L = _A["L"]
    if li < len(L):
        return L[li]
    op = _A["GS"][gi][2][li - len(L)]
    return (f"native:{op}", op, None)


def _run_compile(case):
    gi, pi, deep, seq = case
    seed = core.seed_from_env()
    _init_a(seed)
    gname, gs, _nat, _slow = _A["GS"][gi]
    letters = [_letter_a(gi, li) for li in seq]
    in_ops = [l[1] for l in letters]
    circuit = cirq.Circuit(in_ops)
    snapshot = circuit.copy()
    snap_repr = repr(circuit)
    ctx = cirq.TransformerContext(deep=bool(deep), tags_to_ignore=(NOCOMPILE,))
    desc = f"{gname} passes={PASSES[pi]} deep={bool(deep)} letters={[l[0] for l in letters]}"
    try:
        out = _with_timeout(120, lambda: cirq.optimize_for_target_gateset(
            circuit, gateset=gs, context=ctx, max_num_passes=PASSES[pi]))
    except ValueError as e:
        if "cannot be decomposed into exactly" in str(e) and getattr(gs, "required_sqrt_iswap_count", None) is not None:
            return Res(skipped=True, nontrivial=False)  # documented: required count too small for this unitary
        raise
    except _Timeout:
        return bad(f"optimize_for_target_gateset did not terminate within 120 s: {desc}", kind="compile_timeout")
    # input unchanged
    if circuit != snapshot or repr(circuit) != snap_repr:
        return bad(f"input circuit was modified: {desc}", kind="input_modified")
    # nocompile ops survive untouched
    nc_in = collections.Counter(op for op in in_ops if NOCOMPILE in op.tags)
    nc_out = collections.Counter(op for op in out.all_operations() if NOCOMPILE in op.tags)
    if nc_in != nc_out:
        return bad(f"ops tagged '{NOCOMPILE}' did not survive untouched: {desc}\nin={dict(nc_in)}\nout={dict(nc_out)}\n{out}",
                   kind="nocompile_changed")
    # native: gateset.validate on the output minus ignored-tag ops
    rest = cirq.Circuit(op for op in out.all_operations() if NOCOMPILE not in op.tags)
    has_sub_out = any(isinstance(op.untagged, cirq.CircuitOperation) for op in rest.all_operations())
    out_leaves = _leaf_ops(out)
    if deep and has_sub_out and not gs._unroll_circuit_op:
        # the target does not look inside sub-circuits; with deep=True the structure is kept by contract, so the
        # leaves are what has to be native
        rest_v = cirq.Circuit(op for op in out_leaves if NOCOMPILE not in op.tags)
    else:
        rest_v = rest
    if not gs.validate(rest_v):
        offenders = [op for op in rest_v.all_operations() if not gs.validate(op)]
        return bad(f"output is not accepted by the target gateset: {desc}\noffending ops: {offenders[:4]}\n{out}",
                   kind="not_native", gateset=gname.split("(")[0])
    # measurements keep key / qubits / invert mask
    m_in = collections.Counter(op.untagged for l in letters for op in (l[2] or [l[1]]) if cirq.is_measurement(op))
    m_out = collections.Counter(op.untagged for op in out_leaves if cirq.is_measurement(op))
    if m_in != m_out:
        return bad(f"measurements changed: {desc}\nin={dict(m_in)}\nout={dict(m_out)}", kind="measurement_changed")
    # same unitary (channel when measurements are present)
    ref_leaves = [op for l in letters for op in (l[2] or [l[1]])]
    ref = _semantics(ref_leaves, QA)
    got = _semantics(out_leaves, QA)
    if not _sem_equal(ref, got):
        return bad(f"compiled circuit is not equivalent to the input (tolerance {TOL}): {desc}\n{out}",
                   kind="not_equivalent", gateset=gname.split("(")[0])
    nontrivial = len(seq) >= 2 or any(not gs.validate(op) for op in in_ops)
    return good(nontrivial=nontrivial, compiled=1, out_ops=len(out_leaves))


def _describe_compile(case):
    gi, pi, deep, seq = case
    _init_a(core.seed_from_env())
    return {"gateset": _A["GS"][gi][0], "max_num_passes": PASSES[pi], "deep": bool(deep),
            "letters": [_letter_a(gi, li)[0] for li in seq]}


def _cases_compile(tier, seed, slow):
    _init_a(seed)
    nL = len(_A["L"])
    cases = []
    for gi, (gname, gs, nat, is_slow) in enumerate(_A["GS"]):
        if is_slow != slow:
            continue
        idxs = list(range(nL + len(nat)))
        seqs = [()] + [(i,) for i in idxs] + list(itertools.product(idxs, repeat=2))
        if not is_slow:
            core3 = list(_CORE3) + [nL + k for k in range(len(nat))]
            if tier == "thorough":
                core3 = sorted(set(core3) | {1, 9, 11, 13, 14, 18, 20, 27})
            seqs += list(itertools.product(core3, repeat=3))
        for seq in seqs:
            has_sub = any(i in _SUB_LETTERS for i in seq)
            for pi in range(len(PASSES)):
                for deep in ((0, 1) if has_sub else (0,)):
                    cases.append((gi, pi, deep, tuple(seq)))
    cases.sort(key=lambda c: (len(c[3]), c[0]))
    return cases


# --- membership table: pins every gateset against its class docstring ----------------------------------------


def _membership_table(seed):
    """(letter op, {gateset family name: expected membership}) for unambiguous letters."""
    a, b, c = QA
    g = core.generic(seed)
    U1 = E.generic_unitary(2, seed)
    U2 = E.generic_unitary(4, seed)
    F = ("CZ", "CZp", "Sqrt", "SqrtInv", "Syc", "GCZ", "GCZe", "IonQ", "Aria", "Forte", "AQT", "PasT", "PasF")

    def row(op, yes):
        return (op, {f: (f in yes) for f in F})

    allf = set(F)
    rows = [
        row(cirq.CZ(a, b), {"CZ", "CZp", "GCZ", "GCZe", "PasT", "PasF"}),
        row(cirq.CZ(a, b) ** g, {"CZp"}),
        row(cirq.SQRT_ISWAP(a, b), {"Sqrt"}),
        row(cirq.SQRT_ISWAP_INV(a, b), {"SqrtInv"}),
        row(cirq.ISWAP(a, b), set()),
        row(cirq_google.SYC(a, b), {"Syc"}),
        row(cirq.CNOT(a, b), {"IonQ", "PasT"}),
        row(cirq.SWAP(a, b), {"IonQ"}),
        row(cirq.XX(a, b) ** g, {"IonQ", "AQT"}),
        row(cirq.YY(a, b) ** g, {"IonQ"}),
        row(cirq.ZZ(a, b) ** g, {"IonQ"}),
        row(cirq.MatrixGate(U2)(a, b), set()),
        row(cirq.MatrixGate(U1)(a), set()),
        row(cirq.CCZ(a, b, c), {"PasT"}),
        row(cirq.CCX(a, b, c), {"PasT"}),
        row(cirq.CSWAP(a, b, c), set()),
        row(cirq.PhasedXZGate(x_exponent=0.2, z_exponent=g, axis_phase_exponent=0.1)(a), {"CZ", "CZp", "Sqrt", "SqrtInv", "Syc", "GCZ", "GCZe"}),
        row(cirq.Z(a) ** g, {"Syc", "GCZe", "IonQ", "AQT", "PasT", "PasF"}),
        row(cirq.X(a) ** g, {"Syc", "GCZe", "IonQ", "PasT", "PasF"}),
        row(cirq.Y(a) ** g, {"Syc", "GCZe", "IonQ", "PasT", "PasF"}),
        row(cirq.H(a), {"IonQ", "PasT", "PasF"}),
        row(cirq.H(a) ** g, set()),
        row(cirq.PhasedXPowGate(phase_exponent=g, exponent=0.3)(a), {"Syc", "GCZe", "AQT", "PasT", "PasF"}),
        row(cirq.measure(a, b, key="m"), allf),
        row(cirq_ionq.GPIGate(phi=g)(a), {"Aria", "Forte"}),
        row(cirq_ionq.GPI2Gate(phi=g)(a), {"Aria", "Forte"}),
        row(cirq_ionq.MSGate(phi0=g, phi1=0.1)(a, b), {"Aria"}),
        row(cirq_ionq.ZZGate(theta=0.1)(a, b), {"Forte"}),
        row(cirq.ParallelGate(cirq.X, 2)(a, b), {"PasT", "PasF"}),
        row(cirq.CZ(a, b) ** 3.0, {"CZ", "CZp", "GCZ", "GCZe", "PasT", "PasF"}),
        row(cirq.CZ(a, b) ** 2.0, {"CZp", "PasT", "PasF"}),
        row(cirq.CZ(a, b) ** 0.5, {"CZp"}),
        row(cirq.ResetChannel()(a), set()),
    ]
    return rows


_FAMILY_OF = {
    "CZ(partial=False": "CZ", "CZ(partial=True": "CZp", "SqrtIswap(count=None,inv=False": "Sqrt",
    "SqrtIswap(count=2,inv=False": "Sqrt", "SqrtIswap(count=3,inv=False": "Sqrt",
    "SqrtIswap(count=None,inv=True": "SqrtInv", "SqrtIswap(count=2,inv=True": "SqrtInv",
    "SqrtIswap(count=3,inv=True": "SqrtInv", "Sycamore": "Syc", "GoogleCZ(eject=F": "GCZ", "GoogleCZ(eject=T": "GCZe",
    "IonQ": "IonQ", "Aria": "Aria", "Forte": "Forte", "AQT": "AQT", "Pasqal(add=True": "PasT", "Pasqal(add=False": "PasF",
}


def _family_of(gname):
    for k, v in _FAMILY_OF.items():
        if gname.startswith(k):
            return v
    raise core.HarnessError(f"no family for gateset {gname}")


def _run_membership(case):
    gi, ri = case
    seed = core.seed_from_env()
    _init_a(seed)
    gname, gs, _nat, _slow = _A["GS"][gi]
    op, exp = _membership_table(seed)[ri]
    want = exp[_family_of(gname)]
    got_in = op in gs
    got_val = gs.validate(op)
    got_circ = gs.validate(cirq.Circuit(op))
    if not (got_in == got_val == got_circ == want):
        return bad(f"gateset {gname}: membership of {op!r}: `op in gateset`={got_in}, validate(op)={got_val}, "
                   f"validate(Circuit(op))={got_circ}; the class documentation implies {want}", kind="membership",
                   gateset=_family_of(gname))
    # the intermediate-result tag must never be accepted
    tagged = op.with_tags(gs._intermediate_result_tag)
    if gs.validate(tagged):
        return bad(f"gateset {gname} accepts an op carrying its intermediate-result tag: {tagged!r}", kind="membership_tag")
    return good(nontrivial=True, accepted=int(want), rejected=int(not want))


def stages(tier, seed):
    _init_a(seed)
    st = []
    nrows = len(_membership_table(seed))
    st.append(CaseStage("a0_gateset_membership", [(gi, ri) for gi in range(len(_A["GS"])) for ri in range(nrows)],
                        _run_membership))
    st.append(CaseStage("a1_compile_fast_targets", _cases_compile(tier, seed, slow=False), _run_compile,
                        describe=_describe_compile))
    st.append(CaseStage("a2_compile_slow_targets", _cases_compile(tier, seed, slow=True), _run_compile,
                        describe=_describe_compile))
    return st
