"""C17 -- vendor job payloads mean the same as the circuit they were built from.

Bounded-exhaustive enumeration (E1) with INDEPENDENT payload interpreters (mc/ref/ionq.py, mc/ref/aqt.py: plain
numpy implementations of the vendors' documented gate definitions, qubit order and result formats):

  IonQ  * every placed letter of the QIS / native alphabet alone (all special exponents, +-1e-9 / +-1e-6 around
          them, global shifts, every Pauli string of length <=3 for pauliexp, rejected content), dense and sparse
          qubit placements, through serialize_single_circuit AND serialize_many_circuits,
        * all sequences of <=2 (quick) / <=3 (thorough) letters of a representative placed alphabet x measurement
          layouts, native sequences, mixed native/QIS,
        * measurement-key layouts (one key/many targets, many keys, unsorted targets, odd characters, metadata length
          straddling the 40-character chunking and the 9-chunk limit, separators, repeated keys, invert masks),
        * batches (all ordered tuples of a circuit pool: shared qubit count, per-circuit metadata, mixed gatesets),
        * settings pass-through,
        * results: QPUResult / SimulatorResult from ALL histograms over <=3 qubits with counts in {0,1,2} /
          weights k/4 x every measurement-key layout (ordered disjoint subsets), Job.results() on API dictionaries
          (little-endian keys, metadata unpacking, batches), SimulatorResult.to_cirq_result under a scripted PRNG
          (exact sampling distribution),
        * closed loop: cirq_ionq.Service / Sampler against an in-process ideal IonQ API (requests-level fake that
          runs the reference interpreter and answers little-endian histograms): exact distribution of the returned
          cirq.Result vs the Born distribution of the circuit.
  AQT   * AQTSampler._generate_json -> legacy list -> reference interpreter, and _parse_legacy_circuit_json ->
          Arnica operation list -> reference interpreter; measurement placement rules; AQTSamplerLocalSimulator
          (ideal) under a scripted numpy PRNG: exact distribution of the sampled rows.
  Pasqal* request body = cirq JSON of the resolved circuit (round trip equality + unitary), results decoded into the
          right keys (requests-level fake).
"""
from __future__ import annotations

import collections
import itertools
import json
import math

import numpy as np
import sympy
import cirq
import cirq_ionq
import cirq_aqt
import cirq_pasqal
import requests as _real_requests
from cirq_ionq import ionq_client as _ionq_client_mod
from cirq_ionq.ionq_exceptions import IonQSerializerMixedGatesetsException, NotSupportedPauliexpParameters
from cirq_aqt import aqt_sampler as _aqt_sampler_mod
from cirq_pasqal import pasqal_sampler as _pasqal_sampler_mod

from mc import core
from mc.core import CaseStage, Res, bad, good
from mc.choices import explore
from mc.scripted_random import ScriptedRandomState
from mc.ref import embed as E
from mc.ref import ionq as RI
from mc.ref import aqt as RA

PROPERTY = "C17"
LEVEL = "exploration"
RULE = ("IonQ: every placed letter (X/Y/Z powers at 14 special exponents, each +-1e-9 and +-1e-6, a generic one, "
        "global_shift 0/-0.5; H/CNOT/SWAP powers; XX/YY/ZZ powers; PauliStringPhasorGate over ALL Pauli strings of "
        "length<=3 x coefficient +-1 x 8 exponent pairs; GPI/GPI2/MS/ZZ grids; 20 kinds of unsupported content) x every "
        "placement (dense, reversed, sparse up to qubit 5) alone, then all sequences of <=2 (quick) / <=3 (thorough) "
        "letters of a representative placed alphabet x measurement layouts, native sequences, all mixed pairs; 40+ "
        "measurement layouts; all ordered pairs/triples of a circuit pool as batches; results: ALL histograms over <=3 "
        "qubits with counts in {0,1,2} (weights k/4 for the simulator) x every layout of ordered disjoint target "
        "subsets; closed loop Service/Sampler runs against an in-process reference IonQ API. AQT: all sequences of "
        "<=2/<=3 letters over Z/PhasedX/XX grids (+ rejected X/Y/CZ, measurement positions) x resolver. Pasqal: sequences "
        "over the device gate set x resolver. non-trivial = payload accepted and containing >=1 gate or measurement "
        "(serializers), histogram with >=2 outcomes or >=2 shots (results), distribution with >=2 outcomes (loops); "
        "distinct = distinct case descriptor")
TECHNIQUE = ("bounded-exhaustive enumeration of circuits / histograms; each payload is executed by an independent plain-numpy "
             "interpreter of the vendor's documented format and compared with the circuit's unitary / Born distribution")
LEVEL_TEXT = ("Every circuit of the bounded alphabets is serialized by the real vendor code and the resulting job description "
              "is interpreted by an independent implementation of the vendor's documented gate semantics, qubit order and "
              "measurement/metadata conventions; the unitary must be proportional to the circuit's and every key must map to "
              "its targets; rejected inputs must raise. Result conversion is decided on all small histograms and layouts, with "
              "a scripted PRNG giving exact sampling distributions. Bounded by alphabet, sequence length 3, 6 qubits.")
LEVEL_NOTE = ("trusted: numpy; cirq.unitary of circuits over the letters (C01/C03); the vendor formats as documented in the "
              "vendor packages' docstrings/comments (IonQ pauliexp term strings little-endian; native zz angle field name "
              "as emitted by cirq_ionq)")
ASSUMPTIONS = [
    "cirq.Circuit.unitary of circuits over the letters is correct (decided by C01/C03)",
    "the vendor formats are as documented in the vendor packages (docstrings, comments, TypedDicts): IonQ QIS/native gate "
    "definitions, pauliexp term strings little-endian w.r.t. the targets, little-endian histogram keys; AQT RZ/R/RXX in units of pi",
    "the name of the angle field of IonQ's native zz gate could not be checked offline; the interpreter accepts 'angle' or 'phase'",
    "numpy linear algebra",
]

ATOL = 1e-7
LQ = cirq.LineQubit
SER = cirq_ionq.Serializer()
IONQ_REJECT = (ValueError, TypeError, NotSupportedPauliexpParameters, IonQSerializerMixedGatesetsException)

# ------------------------------------------------------------------------------------------------------------------
# IonQ alphabets

SPECIAL_EXPS = [1, -1, 3, 0.5, -0.5, 2.5, 1.5, -1.5, 0.25, -0.25, 1.75, 2.25, 0, 2]
OFFSETS = [0.0, 1e-9, -1e-9, 1e-6, -1e-6]

P1 = [(0,), (2,), (5,)]
P2 = [(0, 1), (1, 0), (0, 3), (3, 1), (2, 5), (5, 0)]
P3 = [(0, 1, 2), (2, 0, 1), (3, 1, 0), (0, 2, 5), (5, 2, 0)]
PLACEMENTS = {1: P1, 2: P2, 3: P3}

_G = {}  # alphabets, rebuilt per seed by _init


class Letter:
    """name, arity, make(qubits)->op, must (True: documented as supported => has to be accepted)."""
    __slots__ = ("name", "arity", "make", "must")

    def __init__(self, name, arity, make, must):
        self.name, self.arity, self.make, self.must = name, arity, make, must


def _gate_letter(name, gate, must=True):
    return Letter(name, cirq.num_qubits(gate), lambda qs, g=gate: g.on(*qs), must)


def _exp_name(s, off):
    return f"{s}" if off == 0 else f"{s}{off:+.0e}"


def build_qis_letters(seed):
    g = core.generic(seed)
    g2 = core.generic(seed, 3)
    L = []
    # X / Y / Z powers
    for cls, nm in ((cirq.XPowGate, "X"), (cirq.YPowGate, "Y"), (cirq.ZPowGate, "Z")):
        for shift in (0, -0.5):
            for s in SPECIAL_EXPS:
                for off in OFFSETS:
                    L.append(_gate_letter(f"{nm}**{_exp_name(s, off)}/s{shift}", cls(exponent=s + off, global_shift=shift)))
            L.append(_gate_letter(f"{nm}**g/s{shift}", cls(exponent=g, global_shift=shift)))
    L.append(_gate_letter("rx(g)", cirq.rx(g2)))
    L.append(_gate_letter("ry(g)", cirq.ry(g2)))
    L.append(_gate_letter("rz(g)", cirq.rz(g2)))
    L.append(Letter("X.tagged", 1, lambda qs: cirq.X(qs[0]).with_tags("tag"), True))
    # H / CNOT / SWAP powers: exponent 1 mod 2 is supported, the rest must not be altered
    for cls, nm in ((cirq.HPowGate, "H"), (cirq.CNotPowGate, "CNOT"), (cirq.SwapPowGate, "SWAP")):
        for shift in (0, -0.5):
            for e, must in ((1, True), (-1, True), (3, True), (1 + 1e-9, False), (1 - 1e-9, False), (1 + 1e-6, False),
                            (1 - 1e-6, False), (0.5, False), (-0.5, False), (2, False), (0, False), (g, False)):
                L.append(_gate_letter(f"{nm}**{e}/s{shift}", cls(exponent=e, global_shift=shift), must))
    # parity gates
    for cls, nm in ((cirq.XXPowGate, "XX"), (cirq.YYPowGate, "YY"), (cirq.ZZPowGate, "ZZ")):
        for shift in (0, -0.5):
            for e in (1, 0.5, -0.5, 0.25, 2.5, 0, g, -g2, 1 + 1e-6):
                L.append(_gate_letter(f"{nm}**{e}/s{shift}", cls(exponent=e, global_shift=shift)))
    L.append(_gate_letter("ms(g)", cirq.ms(g2)))
    return L


PHASOR_EXPS = None


def build_phasor_letters(seed):
    g = core.generic(seed, 1)
    # (exponent_neg, exponent_pos): positive time, negative time (documented rejection), zero time (no-op), ...
    exps = [(0.3, -0.1), (-0.1, 0.3), (0.25, 0.25), (1, 0), (0, 1), (abs(g) % 1 or 0.37, 0), (0.5, -0.5), (1, -0.75), (0, 0)]
    L = []
    for n in (1, 2, 3):
        for chars in itertools.product("IXYZ", repeat=n):
            s = "".join(chars)
            for coef in (1, -1):
                for en, ep in exps:
                    gate = cirq.PauliStringPhasorGate(cirq.DensePauliString(s, coefficient=coef), exponent_neg=en, exponent_pos=ep)
                    # after canonicalisation cirq stores coefficient +1 and possibly swapped exponents
                    t = gate.exponent_neg - gate.exponent_pos
                    L.append(_gate_letter(f"phasor({'+' if coef == 1 else '-'}{s};{en},{ep})", gate, must=(t >= 0)))
    return L


def build_unsupported_letters(seed):
    a = sympy.Symbol("a")
    sub = cirq.FrozenCircuit(cirq.X(LQ(0)))
    L = [
        _gate_letter("CZ", cirq.CZ, False),
        _gate_letter("I", cirq.I, False),
        _gate_letter("PhasedX", cirq.PhasedXPowGate(phase_exponent=0.25, exponent=0.5), False),
        _gate_letter("ISWAP", cirq.ISWAP, False),
        _gate_letter("CCX", cirq.CCX, False),
        _gate_letter("C(X)", cirq.ControlledGate(cirq.X), False),
        Letter("X.controlled_by", 2, lambda qs: cirq.X(qs[1]).controlled_by(qs[0]), False),
        Letter("CircuitOp", 1, lambda qs: cirq.CircuitOperation(sub).with_qubits(qs[0]), False),
        _gate_letter("depolarize", cirq.depolarize(0.1), False),
        _gate_letter("reset", cirq.ResetChannel(), False),
        _gate_letter("Matrix(X)", cirq.MatrixGate(np.array([[0, 1], [1, 0]])), False),
        _gate_letter("X**a", cirq.X ** a, False),
        _gate_letter("Z**(a+1)", cirq.Z ** (a + 1), False),
        _gate_letter("XX**a", cirq.XX ** a, False),
        _gate_letter("rx(a)", cirq.rx(a), False),
        _gate_letter("H**a", cirq.H ** a, False),
        _gate_letter("CNOT**a", cirq.CNOT ** a, False),
        _gate_letter("phasor(XZ;a)", cirq.PauliStringPhasorGate(cirq.DensePauliString("XZ"), exponent_neg=a), False),
        _gate_letter("GPI(a)", cirq_ionq.GPIGate(phi=a), False),
        _gate_letter("MS(a)", cirq_ionq.MSGate(phi0=a, phi1=0), False),
        _gate_letter("FSim", cirq.FSimGate(0.1, 0.2), False),
        _gate_letter("global_phase", cirq.GlobalPhaseGate(1j), False),
    ]
    return L


def build_native_letters(seed):
    g = core.generic(seed, 2)
    L = []
    for phi in (0, 0.25, 0.5, -0.25, 1.3, -2.75, g, 1):
        L.append(_gate_letter(f"GPI({phi})", cirq_ionq.GPIGate(phi=phi)))
        L.append(_gate_letter(f"GPI2({phi})", cirq_ionq.GPI2Gate(phi=phi)))
    for p0 in (0, 0.25, -0.6, 1.2):
        for p1 in (0, 0.125, -1.1):
            for th in (0.25, 0.1, -0.25, 1.3, 0):
                L.append(_gate_letter(f"MS({p0},{p1},{th})", cirq_ionq.MSGate(phi0=p0, phi1=p1, theta=th)))
    L.append(_gate_letter("MS(g,default)", cirq_ionq.MSGate(phi0=g, phi1=-g / 2)))
    for th in (0, 0.25, -0.4, 1.6, g, 0.5):
        L.append(_gate_letter(f"ZZ({th})", cirq_ionq.ZZGate(theta=th)))
    return L


# --- measurement layouts: list of (key, targets, invert_mask | None); `must`: documented as supported ---------------


class Layout:
    __slots__ = ("name", "meas", "must")

    def __init__(self, name, meas, must=True):
        self.name, self.meas, self.must = name, [(k, tuple(t), (tuple(i) if i else None)) for k, t, i in meas], must

    def ops(self):
        out = []
        for key, targets, inv in self.meas:
            kw = {"key": key}
            if inv:
                kw["invert_mask"] = inv
            out.append(cirq.measure(*[LQ(t) for t in targets], **kw))
        return out


def _one(key, targets=(0,)):
    return [(key, targets, None)]


def build_layouts():
    L = [
        Layout("none", []),
        Layout("m:0", _one("m")),
        Layout("all:0123", _one("all", (0, 1, 2, 3))),
        Layout("r:310", _one("r", (3, 1, 0))),
        Layout("a:1|b:0|c:2", [("a", (1,), None), ("b", (0,), None), ("c", (2,), None)]),
        Layout("odd characters", [("a b,c", (2, 0), None), ("x:y", (1,), None), ("\x1d \x20", (3,), None)]),
        Layout("sparse s:52", _one("s", (5, 2))),
        Layout("z:3|y:02|x:1", [("z", (3,), None), ("y", (0, 2), None), ("x", (1,), None)]),
        Layout("digits key", [("12", (1, 2), None), ("0", (0,), None)]),
        Layout("unicode", [("é中", (1,), None)]),
    ]
    # total metadata length = sum(len(key) + 1 + len(csv)) + (#keys - 1)
    for total in (39, 40, 41, 79, 80, 81, 120, 121, 359, 360):
        L.append(Layout(f"len{total}", _one("k" * (total - 2))))
    for total in (361, 362, 400):
        L.append(Layout(f"len{total}", _one("k" * (total - 2)), must=False))  # documented: more than 9 chunks -> ValueError
    for klen in (35, 36, 37, 38, 39, 40, 41):  # separators falling on / next to the chunk boundary
        L.append(Layout(f"boundary{klen}", [("a" * klen, (1, 0), None), ("b", (2,), None)]))
    L.append(Layout("4keys len360", [("p" * 87, (0,), None), ("q" * 87, (1,), None), ("r" * 87, (2,), None), ("s" * 87, (3,), None)]))
    L.append(Layout("4keys len361", [("p" * 87, (0,), None), ("q" * 87, (1,), None), ("r" * 87, (2,), None), ("s" * 88, (3,), None)], must=False))
    L.append(Layout("unit separator in key", _one("a\x1fb"), must=False))
    L.append(Layout("record separator in key", _one("a\x1eb"), must=False))
    L.append(Layout("repeated key", [("a", (0,), None), ("a", (1,), None)], must=False))
    L.append(Layout("repeated key 3", [("a", (0,), None), ("b", (2,), None), ("a", (1,), None)], must=False))
    L.append(Layout("invert mask", [("i", (0, 1), (True, False))], must=False))
    L.append(Layout("invert mask second key", [("a", (2,), None), ("i", (1, 0), (False, True))], must=False))
    L.append(Layout("all-false invert mask", [("i", (0, 1), None)]))
    return L


def _init(seed):
    if _G.get("seed") == seed:
        return
    _G.clear()
    _G["seed"] = seed
    _G["qis"] = build_qis_letters(seed)
    _G["phasor"] = build_phasor_letters(seed)
    _G["unsup"] = build_unsupported_letters(seed)
    _G["native"] = build_native_letters(seed)
    _G["layouts"] = build_layouts()
    _G["letters"] = _G["qis"] + _G["phasor"] + _G["unsup"] + _G["native"]
    _G["seq_qis"], _G["seq_native"] = build_seq_alphabets(seed)
    _G["pool"] = build_pool(seed)
    _G["aqt"] = build_aqt_letters(seed)
    _G["pasqal"] = build_pasqal_letters(seed)


# ------------------------------------------------------------------------------------------------------------------
# IonQ oracle


def _n_qubits(circuit):
    return max(q.x for q in circuit.all_qubits()) + 1


def _ref_unitary(gate_ops, n):
    if not gate_ops:
        return np.eye(2 ** n, dtype=np.complex128)
    return cirq.Circuit(gate_ops).unitary(qubit_order=LQ.range(n))


def _json_roundtrip(x):
    """What actually travels: requests.post(json=...) serialises with json.dumps."""
    return json.loads(json.dumps(x))


def _check_measurement_metadata(md, expected, where):
    """md: metadata dict of ONE circuit; expected: [(key, targets, invert)] in circuit order.  Returns error or None."""
    exp_pairs = [(k, list(t)) for k, t, _ in expected]
    try:
        dec = RI.decode_measurement_metadata(md)
    except RI.PayloadRejected as e:
        return f"{where}: measurement metadata does not follow the documented format: {e}"
    if dec != exp_pairs:
        return f"{where}: documented decoding of the metadata gives {dec!r}, circuit measures {exp_pairs!r}"
    keys = [k for k, _ in exp_pairs]
    if len(set(keys)) != len(keys):
        return (f"{where}: accepted a circuit that measures key(s) {sorted(k for k in set(keys) if keys.count(k) > 1)} more than once; "
                f"results carry one entry per key, so all but the last measurement are silently lost (metadata {md!r})")
    if any(inv and any(inv) for _, _, inv in expected):
        return (f"{where}: accepted a measurement with a non-trivial invert_mask {[(k, inv) for k, _, inv in expected if inv]}; the payload "
                f"has no place for it and results are returned un-inverted (silently altered)")
    # the way cirq_ionq decodes it (what the user will see), after the JSON trip through the API
    for variant, m2 in (("as sent", dict(md)), ("keys sorted", dict(sorted(md.items())))):
        m2 = _json_roundtrip({**m2, "shots": "7"})
        job = cirq_ionq.Job(None, {"id": "j", "status": "completed", "backend": "simulator", "metadata": m2, "stats": {"qubits": "9"}})
        got = job.measurement_dict()
        if list(got.items()) != [(k, t) for k, t in exp_pairs] and dict(got) != dict(exp_pairs):
            return f"{where}: Job.measurement_dict() ({variant}) gives {got!r}, circuit measures {exp_pairs!r}"
        if dict(got) != dict(exp_pairs) or any(list(got[k]) != t for k, t in exp_pairs):
            return f"{where}: Job.measurement_dict() ({variant}) gives {got!r}, circuit measures {exp_pairs!r}"
    return None


def ionq_check_single(circuit, gate_ops, meas, must, n=None):
    """Serialise `circuit` (= gate_ops + measurements `meas`) and decide the property.  Returns Res."""
    try:
        prog = SER.serialize_single_circuit(circuit)
    except IONQ_REJECT as e:
        if must:
            return bad(f"supported circuit rejected: {type(e).__name__}: {e}\n{circuit!r}", kind="rejected_supported")
        return Res(skipped=True, nontrivial=False, counters={"rejected": 1})
    n = _n_qubits(circuit)
    inp = prog.input
    try:
        wire = _json_roundtrip(inp)
    except (TypeError, ValueError) as e:
        if must:
            return bad(f"payload of a supported circuit is not JSON serialisable: {e}\n{inp!r}", kind="not_json")
        return Res(skipped=True, nontrivial=False, counters={"rejected_not_json": 1})
    if wire.get("qubits") != n:
        return bad(f"payload declares {wire.get('qubits')!r} qubits, circuit uses LineQubits up to {n - 1} (needs {n})\n{circuit!r}\n{wire!r}",
                   kind="qubit_count")
    want_gateset = "native" if gate_ops and all(isinstance(op.gate, (cirq_ionq.GPIGate, cirq_ionq.GPI2Gate, cirq_ionq.MSGate, cirq_ionq.ZZGate))
                                                  for op in gate_ops) else None
    try:
        U = RI.program_unitary(wire)
    except RI.PayloadRejected as e:
        if must:
            return bad(f"payload of a supported circuit violates the documented format: {e}\n{circuit!r}\n{wire!r}", kind="bad_payload")
        return Res(skipped=True, nontrivial=False, counters={"api_would_reject": 1})
    if want_gateset and wire.get("gateset") != want_gateset:
        return bad(f"all-native circuit sent with gateset {wire.get('gateset')!r}\n{wire!r}", kind="gateset")
    Uref = _ref_unitary(gate_ops, n)
    if not E.eq_up_to_phase(Uref, U, ATOL):
        return bad(f"payload unitary differs from the circuit's (beyond global phase)\ncircuit: {circuit!r}\npayload: {wire!r}\n"
                   f"max |diff| = {np.max(np.abs(Uref - E.phase_of(Uref, U) * U)):.3g}", kind="unitary")
    err = _check_measurement_metadata(prog.metadata, meas, "single")
    if err:
        return bad(f"{err}\ncircuit: {circuit!r}", kind="measurement")
    if any(k != "shots" and not (k.startswith("measurement") and k[11:].isdigit()) for k in prog.metadata):
        return bad(f"unexpected metadata keys {list(prog.metadata)}", kind="metadata_keys")
    if prog.settings or prog.compilation or prog.error_mitigation or prog.noise or prog.dry_run:
        return bad(f"settings invented: {prog!r}", kind="settings")
    return good(nontrivial=bool(wire["circuit"]) or bool(meas), circuits=1, accepted=1, payload_ops=len(wire["circuit"]))


def ionq_check_many(circuits, gate_ops_list, meas_list, must):
    """serialize_many_circuits on a list of circuits."""
    try:
        prog = SER.serialize_many_circuits(list(circuits))
    except IONQ_REJECT as e:
        if must:
            return bad(f"supported batch rejected: {type(e).__name__}: {e}\n{circuits!r}", kind="rejected_supported")
        return Res(skipped=True, nontrivial=False, counters={"rejected": 1})
    ns = [_n_qubits(c) for c in circuits]
    n = max(ns)
    try:
        wire = _json_roundtrip(prog.input)
        md = _json_roundtrip(prog.metadata)
    except (TypeError, ValueError) as e:
        if must:
            return bad(f"batch payload not JSON serialisable: {e}", kind="not_json")
        return Res(skipped=True, nontrivial=False, counters={"rejected_not_json": 1})
    if wire.get("qubits") != n:
        return bad(f"batch payload declares {wire.get('qubits')!r} qubits, circuits need {ns} -> {n}\n{wire!r}", kind="qubit_count")
    try:
        Us = RI.program_unitaries(wire)
    except RI.PayloadRejected as e:
        if must:
            return bad(f"batch payload violates the documented format: {e}\n{wire!r}", kind="bad_payload")
        return Res(skipped=True, nontrivial=False, counters={"api_would_reject": 1})
    if len(Us) != len(circuits):
        return bad(f"{len(circuits)} circuits submitted, payload holds {len(Us)}", kind="batch_len")
    for i, (U, gops) in enumerate(zip(Us, gate_ops_list)):
        Uref = _ref_unitary(gops, n)
        if not E.eq_up_to_phase(Uref, U, ATOL):
            return bad(f"batch entry {i}: payload unitary differs from the circuit's\ncircuit: {circuits[i]!r}\npayload: {wire['circuits'][i]!r}",
                       kind="unitary")
    try:
        mlist = json.loads(md["measurements"])
        qn = json.loads(md["qubit_numbers"])
    except Exception as e:
        return bad(f"batch metadata lacks the documented measurements / qubit_numbers JSON lists: {md!r} ({e})", kind="measurement")
    if qn != ns:
        return bad(f"qubit_numbers {qn} != per-circuit qubit counts {ns}", kind="qubit_numbers")
    if not isinstance(mlist, list) or len(mlist) != len(circuits):
        return bad(f"measurements list has wrong length: {mlist!r}", kind="measurement")
    job = cirq_ionq.Job(None, {"id": "j", "status": "completed", "backend": "simulator", "metadata": {**md, "shots": "3"},
                               "stats": {"qubits": str(n)}})
    for i, meas in enumerate(meas_list):
        err = _check_measurement_metadata(mlist[i], meas, f"batch entry {i}")
        if err:
            return bad(f"{err}\ncircuits: {circuits!r}", kind="measurement")
        got = job.measurement_dict(circuit_index=i)
        if dict(got) != {k: list(t) for k, t, _ in meas}:
            return bad(f"Job.measurement_dict(circuit_index={i}) = {got!r}, circuit measures {meas!r}", kind="measurement")
        if job.num_qubits(i) != ns[i]:
            return bad(f"Job.num_qubits({i}) = {job.num_qubits(i)} != {ns[i]}", kind="qubit_numbers")
    return good(nontrivial=any(c["circuit"] for c in wire["circuits"]) or any(meas_list), circuits=len(circuits), accepted=1)


# --- stage: every letter alone -------------------------------------------------------------------------------------


def letter_cases():
    out = []
    for li, lt in enumerate(_G["letters"]):
        for pi in range(len(PLACEMENTS[lt.arity])):
            out.append((li, pi))
    return out


def run_letter(case):
    li, pi = case
    lt = _G["letters"][li]
    qs = [LQ(x) for x in PLACEMENTS[lt.arity][pi]]
    op = lt.make(qs)
    circuit = cirq.Circuit(op)
    r1 = ionq_check_single(circuit, [op], [], lt.must)
    if not r1.ok:
        r1.msg = f"letter {lt.name} on {qs}: " + r1.msg
        return r1
    # the same op followed by a measurement of everything in reverse order, through the batch serializer
    meas = [("out", tuple(q.x for q in reversed(qs)), None)]
    mop = cirq.measure(*reversed(qs), key="out")
    c2 = cirq.Circuit(op, mop)
    r2 = ionq_check_many([c2], [[op]], [meas], lt.must)
    if not r2.ok:
        r2.msg = f"letter {lt.name} on {qs} (batch of one): " + r2.msg
        return r2
    if r1.skipped != r2.skipped:
        return bad(f"letter {lt.name} on {qs}: single-circuit and batch serializers disagree on acceptance", kind="accept_mismatch")
    if r1.skipped:
        return r1
    return good(nontrivial=r1.nontrivial, circuits=2, accepted=1)


def describe_letter(case):
    li, pi = case
    lt = _G["letters"][li]
    return {"letter": lt.name, "qubits": PLACEMENTS[lt.arity][pi]}


# --- stage: sequences ------------------------------------------------------------------------------------------------


def build_seq_alphabets(seed):
    """Placed representatives of every serializer branch on qubits 0..3 -> [(name, op, must)]."""
    g = core.generic(seed)
    g1 = core.generic(seed, 1)
    q = LQ.range(4)
    A = []

    def add(name, op, must=True):
        A.append((name, op, must))

    one_q = [("X", cirq.X), ("V", cirq.X ** 0.5), ("Vi", cirq.X ** -0.5), ("X^g", cirq.X ** g), ("rx", cirq.rx(g1)),
             ("Y", cirq.Y), ("Y^g", cirq.Y ** g1), ("Z", cirq.Z), ("S", cirq.S), ("Si", cirq.S ** -1), ("T", cirq.T),
             ("Ti", cirq.T ** -1), ("Z^g", cirq.Z ** g), ("H", cirq.H), ("X^1.5", cirq.X ** 1.5), ("Z^(0.5+1e-6)", cirq.Z ** (0.5 + 1e-6))]
    for nm, gt in one_q:
        for x in (0, 1, 3):
            add(f"{nm}({x})", gt.on(q[x]))
    for c, t in ((0, 1), (1, 0), (3, 0), (1, 2)):
        add(f"CNOT({c},{t})", cirq.CNOT(q[c], q[t]))
    for a_, b_ in ((0, 1), (2, 1)):
        add(f"SWAP({a_},{b_})", cirq.SWAP(q[a_], q[b_]))
    for nm, gt in (("XX", cirq.XX), ("YY", cirq.YY), ("ZZ", cirq.ZZ)):
        for a_, b_ in ((0, 1), (3, 1)):
            add(f"{nm}^g({a_},{b_})", (gt ** g).on(q[a_], q[b_]))
    ph = cirq.PauliStringPhasorGate
    dps = cirq.DensePauliString
    add("phasor(XZ)(0,1)", ph(dps("XZ"), exponent_neg=0.3, exponent_pos=-0.1).on(q[0], q[1]))
    add("phasor(XZ)(2,0)", ph(dps("XZ"), exponent_neg=0.3, exponent_pos=-0.1).on(q[2], q[0]))
    add("phasor(YIZ)(0,1,2)", ph(dps("YIZ"), exponent_neg=0.7).on(q[0], q[1], q[2]))
    add("phasor(YIZ)(3,0,1)", ph(dps("YIZ"), exponent_neg=0.7).on(q[3], q[0], q[1]))
    add("phasor(-ZY)(1,3)", ph(dps("ZY", coefficient=-1), exponent_neg=-0.2, exponent_pos=0.3).on(q[1], q[3]))
    add("H^0.5(1)", (cirq.H ** 0.5).on(q[1]), False)
    add("CZ(0,1)", cirq.CZ(q[0], q[1]), False)
    N = []

    def addn(name, op, must=True):
        N.append((name, op, must))

    for x in (0, 2):
        addn(f"GPI(0.3)({x})", cirq_ionq.GPIGate(phi=0.3).on(q[x]))
        addn(f"GPI2(-0.2)({x})", cirq_ionq.GPI2Gate(phi=-0.2).on(q[x]))
    addn("GPI2(g)(1)", cirq_ionq.GPI2Gate(phi=g).on(q[1]))
    for a_, b_ in ((0, 1), (1, 0), (2, 0)):
        addn(f"MS(.1,.35,.2)({a_},{b_})", cirq_ionq.MSGate(phi0=0.1, phi1=0.35, theta=0.2).on(q[a_], q[b_]))
    addn("MS(g,0)(1,2)", cirq_ionq.MSGate(phi0=g, phi1=0).on(q[1], q[2]))
    for a_, b_ in ((0, 1), (2, 1)):
        addn(f"ZZ(.15)({a_},{b_})", cirq_ionq.ZZGate(theta=0.15).on(q[a_], q[b_]))
    return A, N


SEQ_LAYOUTS_1 = list(range(10))  # for sequences of length <= 1 (filtered by qubits below)
SEQ_LAYOUTS_2 = [0, 3, 4]
SEQ_LAYOUTS_3 = [3]


def run_seq(case):
    kind, seq, layouts = case
    A = _G["seq_qis"] if kind == "q" else (_G["seq_native"] if kind == "n" else _G["seq_qis"] + _G["seq_native"])
    ops = [A[i][1] for i in seq]
    must_ops = all(A[i][2] for i in seq)
    if kind == "m":
        native = [isinstance(op.gate, (cirq_ionq.GPIGate, cirq_ionq.GPI2Gate, cirq_ionq.MSGate, cirq_ionq.ZZGate)) for op in ops]
        if any(native) and not all(native):
            must_ops = False  # mixing gatesets is left to the API to refuse
    tot = Res(ok=True, nontrivial=False)
    n_circ = 0
    acc = 0
    for li in layouts:
        lay = _G["layouts"][li]
        mops = lay.ops()
        circuit = cirq.Circuit(ops + mops)
        if len(circuit) == 0:
            continue
        r = ionq_check_single(circuit, ops, lay.meas, must_ops and lay.must)
        n_circ += 1
        if not r.ok:
            r.msg = f"sequence {[A[i][0] for i in seq]} + layout {lay.name!r}: " + r.msg
            return r
        if not r.skipped:
            acc += 1
            tot.nontrivial = tot.nontrivial or (len(ops) + len(mops) >= 2)
    if acc == 0:
        return Res(skipped=True, nontrivial=False, counters={"circuits": n_circ})
    tot.counters = {"circuits": n_circ, "accepted": acc}
    return tot


def describe_seq(case):
    kind, seq, layouts = case
    A = _G["seq_qis"] if kind == "q" else (_G["seq_native"] if kind == "n" else _G["seq_qis"] + _G["seq_native"])
    return {"letters": [A[i][0] for i in seq], "layouts": [_G["layouts"][i].name for i in layouts]}


def seq_cases(tier):
    nq, nn = len(_G["seq_qis"]), len(_G["seq_native"])
    L1 = tuple(i for i in SEQ_LAYOUTS_1 if all(t <= 3 for _, ts, _ in _G["layouts"][i].meas for t in ts))
    out = [("q", (), L1)]
    for kind, n in (("q", nq), ("n", nn)):
        for i in range(n):
            out.append((kind, (i,), L1))
    for kind, n in (("q", nq), ("n", nn)):
        for s in itertools.product(range(n), repeat=2):
            out.append((kind, s, tuple(SEQ_LAYOUTS_2)))
    # mixed native / QIS pairs (both orders)
    for i in range(nq):
        for j in range(nq, nq + nn):
            out.append(("m", (i, j), (0, 3)))
            out.append(("m", (j, i), (0, 3)))
    if tier == "thorough":
        for kind, n in (("q", nq), ("n", nn)):
            for s in itertools.product(range(n), repeat=3):
                out.append((kind, s, tuple(SEQ_LAYOUTS_3)))
    else:
        # quick: length-3 sequences over a core sub-alphabet (one representative per payload gate kind)
        names = ["V(0)", "X^g(1)", "Si(0)", "Z^g(3)", "H(1)", "Y^g(0)", "CNOT(1,0)", "CNOT(3,0)", "SWAP(2,1)", "XX^g(0,1)",
                 "ZZ^g(3,1)", "phasor(XZ)(2,0)", "phasor(YIZ)(3,0,1)", "phasor(-ZY)(1,3)"]
        idx = [i for i, a in enumerate(_G["seq_qis"]) if a[0] in names]
        for s in itertools.product(idx, repeat=3):
            out.append(("q", s, tuple(SEQ_LAYOUTS_3)))
        for s in itertools.product(range(nn), repeat=3):
            if len(set(s)) == 3:
                out.append(("n", s, tuple(SEQ_LAYOUTS_3)))
    return out


# --- stage: measurement layouts ----------------------------------------------------------------------------------------


def layout_cases():
    out = []
    for li in range(len(_G["layouts"])):
        for prefix in range(4):
            out.append((li, prefix))
    return out


def _layout_prefix(prefix, lay):
    used = sorted({t for _, ts, _ in lay.meas for t in ts}) or [0]
    q0 = LQ(used[0])
    if prefix == 0:
        return []
    if prefix == 1:
        return [cirq.X(q0) ** 0.5]
    if prefix == 2:
        return [cirq.H(LQ(used[-1])), cirq.CNOT(LQ(used[-1]), LQ(used[-1] + 1))]  # extends the register past the measured qubits
    return [cirq_ionq.GPI2Gate(phi=0.1).on(q0)]


def run_layout(case):
    li, prefix = case
    lay = _G["layouts"][li]
    ops = _layout_prefix(prefix, lay)
    mops = lay.ops()
    if not ops and not mops:
        try:
            SER.serialize_single_circuit(cirq.Circuit())
        except ValueError:
            return Res(skipped=True, nontrivial=False)
        return bad("empty circuit accepted although documented to raise ValueError", kind="empty")
    # measurements inserted as ONE moment after the gates (user style) and, second variant, one moment each
    for variant in (0, 1):
        if variant == 0:
            circuit = cirq.Circuit(ops + mops)
        else:
            circuit = cirq.Circuit([cirq.Moment([o]) for o in ops + mops])
        r = ionq_check_single(circuit, ops, lay.meas, lay.must)
        if not r.ok:
            r.msg = f"layout {lay.name!r} prefix {prefix} variant {variant}: " + r.msg
            return r
        r2 = ionq_check_many([circuit, cirq.Circuit(cirq.X(LQ(1)))], [ops, [cirq.X(LQ(1))]], [lay.meas, []], lay.must)
        if not r2.ok:
            r2.msg = f"layout {lay.name!r} prefix {prefix} variant {variant} (batch): " + r2.msg
            return r2
        if r.skipped != r2.skipped:
            return bad(f"layout {lay.name!r}: single and batch serializers disagree on acceptance", kind="accept_mismatch")
    if r.skipped:
        return r
    return good(nontrivial=bool(mops), circuits=4)


# --- stage: non-terminal measurement / settings pass-through / empty ---------------------------------------------------


def misc_cases():
    return [("nonterminal", i) for i in range(3)] + [("settings", i) for i in range(4)] + [("badqubits", i) for i in range(3)] + [("atol", i) for i in range(4)]


def run_misc(case):
    kind, i = case
    q = LQ.range(3)
    if kind == "nonterminal":
        circs = [cirq.Circuit(cirq.measure(q[0], key="a"), cirq.X(q[0])),
                 cirq.Circuit(cirq.measure(q[0], key="a"), cirq.measure(q[0], key="b")),
                 cirq.Circuit(cirq.X(q[1]), cirq.measure(q[0], q[1], key="a"), cirq.CNOT(q[1], q[2]))]
        for fn in (SER.serialize_single_circuit, lambda c: SER.serialize_many_circuits([cirq.Circuit(cirq.X(q[0])), c])):
            try:
                prog = fn(circs[i])
            except ValueError:
                continue
            return bad(f"circuit with a non-terminal measurement accepted (documented ValueError): {circs[i]!r} -> {prog!r}", kind="nonterminal")
        return good(nontrivial=True)
    if kind == "settings":
        circuit = cirq.Circuit(cirq.X(q[0]) ** 0.5, cirq.measure(q[1], q[0], key="k"))
        meas = [("k", (1, 0), None)]
        kws = [dict(job_settings={"x": 1}, compilation={"opt": 1, "precision": "1E-3"}, error_mitigation={"debiasing": True},
                    noise={"model": "aria-1", "seed": 5}, metadata={"user": "u"}, dry_run=True),
               dict(metadata={"zz_user": "1", "a": "b"}),
               dict(noise={"model": "ideal"}),
               dict()][i]
        for many in (False, True):
            kw = {k: (dict(v) if isinstance(v, dict) else v) for k, v in kws.items()}
            prog = SER.serialize_many_circuits([circuit], **kw) if many else SER.serialize_single_circuit(circuit, **kw)
            exp = {"settings": kws.get("job_settings", {}), "compilation": kws.get("compilation", {}),
                   "error_mitigation": kws.get("error_mitigation", {}), "noise": kws.get("noise", {}), "dry_run": kws.get("dry_run", False)}
            for f, v in exp.items():
                if getattr(prog, f) != v:
                    return bad(f"{f} not passed through: {getattr(prog, f)!r} != {v!r}", kind="settings")
            for k, v in kws.get("metadata", {}).items():
                if prog.metadata.get(k) != v:
                    return bad(f"user metadata {k!r} lost: {prog.metadata!r}", kind="settings")
            md = {k: v for k, v in prog.metadata.items() if k not in kws.get("metadata", {})}
            if many:
                err = _check_measurement_metadata(json.loads(md["measurements"])[0], meas, "settings/batch")
            else:
                err = _check_measurement_metadata(md, meas, "settings/single")
            if err:
                return bad(err, kind="measurement")
        return good(nontrivial=True)
    if kind == "badqubits":
        circs = [cirq.Circuit(cirq.X(cirq.GridQubit(0, 0))), cirq.Circuit(cirq.X(cirq.NamedQubit("a"))), cirq.Circuit(cirq.X(LQ(-1)), cirq.X(LQ(1)))]
        for fn in (SER.serialize_single_circuit, lambda c: SER.serialize_many_circuits([c])):
            try:
                prog = fn(circs[i])
            except ValueError:
                continue
            return bad(f"circuit on non-LineQubit / negative qubits accepted (documented ValueError): {circs[i]!r} -> {prog!r}", kind="badqubits")
        return good(nontrivial=True)
    if kind == "atol":
        # a user-chosen atol: inside -> named gate allowed, outside -> must stay exact
        ser = cirq_ionq.Serializer(atol=1e-3)
        e = [0.5 + 5e-4, 0.5 + 5e-3, 1 - 5e-4, 0.25 - 5e-3][i]
        for gate in (cirq.X, cirq.Z):
            op = (gate ** e).on(q[1])
            prog = ser.serialize_single_circuit(cirq.Circuit(op))
            U = RI.program_unitary(_json_roundtrip(prog.input))
            Uref = _ref_unitary([op], 2)
            tol = 1e-2 if abs(e - round(e * 4) / 4) < 1e-3 else ATOL
            if not E.eq_up_to_phase(Uref, U, tol):
                return bad(f"Serializer(atol=1e-3): {op!r} -> {prog.input!r} differs by more than {tol}", kind="atol")
        return good(nontrivial=True)
    raise core.HarnessError(f"unknown misc case {case}")


# --- stage: batches ---------------------------------------------------------------------------------------------------


def build_pool(seed):
    """[(name, gate ops, layout index)] small circuits with different qubit counts / layouts / gatesets."""
    g = core.generic(seed)
    q = LQ.range(6)
    ph = cirq.PauliStringPhasorGate(cirq.DensePauliString("XIY"), exponent_neg=0.4)
    return [
        ("V(0)+m:0", [cirq.X(q[0]) ** 0.5], 1),
        ("X^g(2)", [cirq.X(q[2]) ** g], 0),
        ("H(1)CNOT(1,3)+r:310", [cirq.H(q[1]), cirq.CNOT(q[1], q[3])], 3),
        ("CNOT(1,0)+abc", [cirq.CNOT(q[1], q[0])], 4),
        ("phasor(XIY)(2,1,0)+odd", [ph.on(q[2], q[1], q[0])], 5),
        ("ZZ^g(0,5)+s:52", [(cirq.ZZ ** g).on(q[0], q[5])], 6),
        ("only measure all", [], 2),
        ("SWAP(0,1)T(1)+boundary39", [cirq.SWAP(q[0], q[1]), cirq.T(q[1])], [i for i, l in enumerate(build_layouts()) if l.name == "boundary39"][0]),
        ("GPI2(0)MS(0,1)+m:0", [cirq_ionq.GPI2Gate(phi=0.2).on(q[0]), cirq_ionq.MSGate(phi0=0.1, phi1=0.2).on(q[0], q[1])], 1),
        ("ZZn(2,1)", [cirq_ionq.ZZGate(theta=0.3).on(q[2], q[1])], 0),
        ("GPI(3)+r:310", [cirq_ionq.GPIGate(phi=0.4).on(q[3])], 3),
        ("H^0.5(0) unsupported", [(cirq.H ** 0.5).on(q[0])], 0),
    ]


def _is_native_ops(ops):
    return all(isinstance(op.gate, (cirq_ionq.GPIGate, cirq_ionq.GPI2Gate, cirq_ionq.MSGate, cirq_ionq.ZZGate)) for op in ops)


def run_batch(case):
    pool = _G["pool"]
    circs, gops, meas = [], [], []
    must = True
    kinds = set()
    for i in case:
        name, ops, li = pool[i]
        lay = _G["layouts"][li]
        circs.append(cirq.Circuit(ops + lay.ops()))
        gops.append(ops)
        meas.append(lay.meas)
        must = must and lay.must and "unsupported" not in name
        kinds.add("native" if _is_native_ops(ops) else "qis")
    if len(kinds) > 1:
        must = False  # documented IonQSerializerMixedGatesetsException
    r = ionq_check_many(circs, gops, meas, must)
    if not r.ok:
        r.msg = f"batch {[pool[i][0] for i in case]}: " + r.msg
        return r
    if len(kinds) > 1 and not r.skipped and any(g for g in gops):
        # accepted a mixed batch: only fine if the interpreter could run it faithfully, which ionq_check_many just verified
        pass
    return r


def batch_cases(tier):
    n = len(build_pool(0))
    out = [(i,) for i in range(n)]
    out += list(itertools.product(range(n), repeat=2))
    if tier == "thorough":
        out += list(itertools.product(range(n), repeat=3))
    else:
        out += [s for s in itertools.product(range(0, n, 2), repeat=3)]
    return out


def describe_batch(case):
    return [_G["pool"][i][0] for i in case]
