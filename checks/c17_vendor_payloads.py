"""C17 -- vendor job payloads mean the same as the circuit they were built from.

Bounded-exhaustive enumeration (E1) with INDEPENDENT payload interpreters (mc/ref/ionq.py, mc/ref/aqt.py: plain
numpy implementations of the vendors' documented gate definitions, qubit order and result formats):

  IonQ  * every placed letter of the QIS / native alphabet alone (all special exponents, +-1e-9 / +-1e-6 around
          them, global shifts, every Pauli string of length <=3 for pauliexp, rejected content), dense and sparse
          qubit placements, through serialize_single_circuit AND serialize_many_circuits,
        * all sequences of <=2 (quick) / <=3 (thorough) letters of a representative placed alphabet x measurement
          layouts, native sequences, mixed native/QIS,
        * measurement-key layouts (one key/many targets, many keys, unsorted targets, odd characters, metadata length
          straddling the 40-character chunking and the 9-chunk limit, separators, repeated keys, invert masks),
        * batches (all ordered tuples of a circuit pool: shared qubit count, per-circuit metadata, mixed gatesets),
        * settings pass-through,
        * results: QPUResult / SimulatorResult from ALL histograms over <=3 qubits with counts in {0,1,2} /
          weights k/4 x every measurement-key layout (ordered disjoint subsets), Job.results() on API dictionaries
          (little-endian keys, metadata unpacking, batches), SimulatorResult.to_cirq_result under a scripted PRNG
          (exact sampling distribution); every table / API histogram is also listed in descending and rotated
          insertion order (ascending little-endian order is already non-ascending big-endian order),
        * every ordered target layout (all permutations of all subsets of 4 qubits; <=3 targets on 5 qubits) x every
          basis outcome for QPUResult / SimulatorResult / Job.results(),
        * batch closed loop: all ordered pairs/triples of circuits with different qubit counts, layouts and histograms
          through Service.run_batch / create_batch_job with the child job ids in EVERY order,
        * closed loop: cirq_ionq.Service / Sampler against an in-process ideal IonQ API (requests-level fake that
          runs the reference interpreter and answers little-endian histograms): exact distribution of the returned
          cirq.Result vs the Born distribution of the circuit.
  AQT   * AQTSampler._generate_json -> legacy list -> reference interpreter, and _parse_legacy_circuit_json ->
          Arnica operation list -> reference interpreter; measurement placement rules; AQTSamplerLocalSimulator
          (ideal) under a scripted numpy PRNG: exact distribution of the sampled rows (key 'm' over the whole register,
          column i = qubit i), padded circuits and un-padded ones with idle first / middle / last / all qubits, sweeps.
  Pasqal* request body = cirq JSON of the resolved circuit (round trip equality + unitary), results decoded into the
          right keys (requests-level fake).
"""
from __future__ import annotations

import collections
import itertools
import json
import math

import numpy as np
import sympy
import cirq
import cirq_ionq
import cirq_aqt
import cirq_pasqal
import requests as _real_requests
from cirq_ionq import ionq_client as _ionq_client_mod
from cirq_ionq.ionq_exceptions import IonQSerializerMixedGatesetsException, NotSupportedPauliexpParameters
from cirq_aqt import aqt_sampler as _aqt_sampler_mod
from cirq_pasqal import pasqal_sampler as _pasqal_sampler_mod

from mc import core
from mc.core import CaseStage, Res, bad, good
from mc.choices import explore
from mc.scripted_random import ScriptedRandomState
from mc.ref import embed as E
from mc.ref import ionq as RI
from mc.ref import aqt as RA

PROPERTY = "C17"
LEVEL = "exploration"
RULE = ("IonQ: every placed letter (X/Y/Z powers at 14 special exponents, each +-1e-9 and +-1e-6, a generic one, "
        "global_shift 0/-0.5; H/CNOT/SWAP powers; XX/YY/ZZ powers; PauliStringPhasorGate over ALL Pauli strings of "
        "length<=3 x coefficient +-1 x 9 exponent pairs (quick: 4 of the 9 for length 3); GPI/GPI2/MS/ZZ grids; 22 kinds of unsupported content) x every "
        "placement (dense, reversed, sparse up to qubit 5) alone, then all sequences of <=2 (quick) / <=3 (thorough) "
        "letters of a representative placed alphabet x measurement layouts, native sequences, all mixed pairs; 39 "
        "measurement layouts x 4 gate prefixes x 2 moment structures; all ordered pairs/triples of a circuit pool as batches; results: ALL histograms over <=3 "
        "qubits with counts in {0,1,2} (weights k/4 for the simulator) x every layout of ordered disjoint target "
        "subsets x table/API-histogram insertion order (ascending, descending, rotated); every ordered target subset of 4 (<=3 of 5) qubits x every basis outcome; batches of 2/3 different circuits x "
        "every permutation of the child job ids x qpu/simulator; closed loop Service/Sampler runs against an in-process reference IonQ API. AQT: all sequences of "
        "<=2/<=3 letters over Z/PhasedX/XX grids (+ rejected X/Y/CZ, measurement positions) x resolver. Pasqal: sequences "
        "over the device gate set x resolver. non-trivial = payload accepted and containing >=1 gate or measurement "
        "(serializers), histogram with >=2 outcomes or >=2 shots (results), distribution with >=2 outcomes (loops); "
        "distinct = distinct case descriptor")
TECHNIQUE = ("bounded-exhaustive enumeration of circuits / histograms; each payload is executed by an independent plain-numpy "
             "interpreter of the vendor's documented format and compared with the circuit's unitary / Born distribution")
LEVEL_TEXT = ("Every circuit of the bounded alphabets is serialized by the real vendor code and the resulting job description "
              "is interpreted by an independent implementation of the vendor's documented gate semantics, qubit order and "
              "measurement/metadata conventions; the unitary must be proportional to the circuit's and every key must map to "
              "its targets; rejected inputs must raise. Result conversion is decided on all small histograms and layouts, with "
              "a scripted PRNG giving exact sampling distributions. Bounded by alphabet, sequence length 3, 6 qubits.")
LEVEL_NOTE = ("trusted: numpy; cirq.unitary of circuits over the letters (C01/C03); the vendor formats as documented in the "
              "vendor packages' docstrings/comments (IonQ pauliexp term strings little-endian; native zz angle field name "
              "as emitted by cirq_ionq)")
ASSUMPTIONS = [
    "cirq.Circuit.unitary of circuits over the letters is correct (decided by C01/C03)",
    "the vendor formats are as documented in the vendor packages (docstrings, comments, TypedDicts): IonQ QIS/native gate "
    "definitions, pauliexp term strings little-endian w.r.t. the targets, little-endian histogram keys; AQT RZ/R/RXX in units of pi",
    "the name of the angle field of IonQ's native zz gate could not be checked offline; the interpreter accepts 'angle' or 'phase'",
    "numpy linear algebra",
]

ATOL = 1e-7
LQ = cirq.LineQubit
SER = cirq_ionq.Serializer()
IONQ_REJECT = (ValueError, TypeError, NotSupportedPauliexpParameters, IonQSerializerMixedGatesetsException)

# ------------------------------------------------------------------------------------------------------------------
# IonQ alphabets

SPECIAL_EXPS = [1, -1, 3, 0.5, -0.5, 2.5, 1.5, -1.5, 0.25, -0.25, 1.75, 2.25, 0, 2]
OFFSETS = [0.0, 1e-9, -1e-9, 1e-6, -1e-6]

P1 = [(0,), (2,), (5,)]
P2 = [(0, 1), (1, 0), (0, 3), (3, 1), (2, 5), (5, 0)]
P3 = [(0, 1, 2), (2, 0, 1), (3, 1, 0), (0, 2, 5), (5, 2, 0)]
PLACEMENTS = {0: [()], 1: P1, 2: P2, 3: P3}

_G = {}  # alphabets, rebuilt per seed by _init


class Letter:
    """name, arity, make(qubits)->op, must (True: documented as supported => has to be accepted)."""
    __slots__ = ("name", "arity", "make", "must")

    def __init__(self, name, arity, make, must):
        self.name, self.arity, self.make, self.must = name, arity, make, must


def _gate_letter(name, gate, must=True):
    return Letter(name, cirq.num_qubits(gate), lambda qs, g=gate: g.on(*qs), must)


def _exp_name(s, off):
    return f"{s}" if off == 0 else f"{s}{off:+.0e}"


def build_qis_letters(seed):
    g = core.generic(seed)
    g2 = core.generic(seed, 3)
    L = []
    # X / Y / Z powers
    for cls, nm in ((cirq.XPowGate, "X"), (cirq.YPowGate, "Y"), (cirq.ZPowGate, "Z")):
        for shift in (0, -0.5):
            for s in SPECIAL_EXPS:
                for off in OFFSETS:
                    L.append(_gate_letter(f"{nm}**{_exp_name(s, off)}/s{shift}", cls(exponent=s + off, global_shift=shift)))
            L.append(_gate_letter(f"{nm}**g/s{shift}", cls(exponent=g, global_shift=shift)))
    L.append(_gate_letter("rx(g)", cirq.rx(g2)))
    L.append(_gate_letter("ry(g)", cirq.ry(g2)))
    L.append(_gate_letter("rz(g)", cirq.rz(g2)))
    L.append(Letter("X.tagged", 1, lambda qs: cirq.X(qs[0]).with_tags("tag"), True))
    # H / CNOT / SWAP powers: exponent 1 mod 2 is supported, the rest must not be altered
    for cls, nm in ((cirq.HPowGate, "H"), (cirq.CNotPowGate, "CNOT"), (cirq.SwapPowGate, "SWAP")):
        for shift in (0, -0.5):
            for e, must in ((1, True), (-1, True), (3, True), (1 + 1e-9, False), (1 - 1e-9, False), (1 + 1e-6, False),
                            (1 - 1e-6, False), (0.5, False), (-0.5, False), (2, False), (0, False), (g, False)):
                L.append(_gate_letter(f"{nm}**{e}/s{shift}", cls(exponent=e, global_shift=shift), must))
    # parity gates
    for cls, nm in ((cirq.XXPowGate, "XX"), (cirq.YYPowGate, "YY"), (cirq.ZZPowGate, "ZZ")):
        for shift in (0, -0.5):
            for e in (1, 0.5, -0.5, 0.25, 2.5, 0, g, -g2, 1 + 1e-6):
                L.append(_gate_letter(f"{nm}**{e}/s{shift}", cls(exponent=e, global_shift=shift)))
    L.append(_gate_letter("ms(g)", cirq.ms(g2)))
    return L


PHASOR_EXPS = None


def build_phasor_letters(seed):
    g = core.generic(seed, 1)
    # (exponent_neg, exponent_pos): positive time, negative time (documented rejection), zero time (no-op), ...
    exps = [(0.3, -0.1), (-0.1, 0.3), (0.25, 0.25), (1, 0), (0, 1), (abs(g) % 1 or 0.37, 0), (0.5, -0.5), (1, -0.75), (0, 0)]
    L = []
    for n in (1, 2, 3):
        for chars in itertools.product("IXYZ", repeat=n):
            s = "".join(chars)
            for coef in (1, -1):
                for en, ep in exps:
                    gate = cirq.PauliStringPhasorGate(cirq.DensePauliString(s, coefficient=coef), exponent_neg=en, exponent_pos=ep)
                    # after canonicalisation cirq stores coefficient +1 and possibly swapped exponents
                    t = gate.exponent_neg - gate.exponent_pos
                    L.append(_gate_letter(f"phasor({'+' if coef == 1 else '-'}{s};{en},{ep})", gate, must=(t >= 0)))
    return L


def build_unsupported_letters(seed):
    a = sympy.Symbol("a")
    sub = cirq.FrozenCircuit(cirq.X(LQ(0)))
    L = [
        _gate_letter("CZ", cirq.CZ, False),
        _gate_letter("I", cirq.I, False),
        _gate_letter("PhasedX", cirq.PhasedXPowGate(phase_exponent=0.25, exponent=0.5), False),
        _gate_letter("ISWAP", cirq.ISWAP, False),
        _gate_letter("CCX", cirq.CCX, False),
        _gate_letter("C(X)", cirq.ControlledGate(cirq.X), False),
        Letter("X.controlled_by", 2, lambda qs: cirq.X(qs[1]).controlled_by(qs[0]), False),
        Letter("CircuitOp", 1, lambda qs: cirq.CircuitOperation(sub).with_qubits(qs[0]), False),
        _gate_letter("depolarize", cirq.depolarize(0.1), False),
        _gate_letter("reset", cirq.ResetChannel(), False),
        _gate_letter("Matrix(X)", cirq.MatrixGate(np.array([[0, 1], [1, 0]])), False),
        _gate_letter("X**a", cirq.X ** a, False),
        _gate_letter("Z**(a+1)", cirq.Z ** (a + 1), False),
        _gate_letter("XX**a", cirq.XX ** a, False),
        _gate_letter("rx(a)", cirq.rx(a), False),
        _gate_letter("H**a", cirq.H ** a, False),
        _gate_letter("CNOT**a", cirq.CNOT ** a, False),
        _gate_letter("phasor(XZ;a)", cirq.PauliStringPhasorGate(cirq.DensePauliString("XZ"), exponent_neg=a), False),
        _gate_letter("GPI(a)", cirq_ionq.GPIGate(phi=a), False),
        _gate_letter("MS(a)", cirq_ionq.MSGate(phi0=a, phi1=0), False),
        _gate_letter("FSim", cirq.FSimGate(0.1, 0.2), False),
        _gate_letter("global_phase", cirq.GlobalPhaseGate(1j), False),
    ]
    return L


def build_native_letters(seed):
    g = core.generic(seed, 2)
    L = []
    for phi in (0, 0.25, 0.5, -0.25, 1.3, -2.75, g, 1):
        L.append(_gate_letter(f"GPI({phi})", cirq_ionq.GPIGate(phi=phi)))
        L.append(_gate_letter(f"GPI2({phi})", cirq_ionq.GPI2Gate(phi=phi)))
    for p0 in (0, 0.25, -0.6, 1.2):
        for p1 in (0, 0.125, -1.1):
            for th in (0.25, 0.1, -0.25, 1.3, 0):
                L.append(_gate_letter(f"MS({p0},{p1},{th})", cirq_ionq.MSGate(phi0=p0, phi1=p1, theta=th)))
    L.append(_gate_letter("MS(g,default)", cirq_ionq.MSGate(phi0=g, phi1=-g / 2)))
    for th in (0, 0.25, -0.4, 1.6, g, 0.5):
        L.append(_gate_letter(f"ZZ({th})", cirq_ionq.ZZGate(theta=th)))
    return L


# --- measurement layouts: list of (key, targets, invert_mask | None); `must`: documented as supported ---------------


class Layout:
    __slots__ = ("name", "meas", "must")

    def __init__(self, name, meas, must=True):
        self.name, self.meas, self.must = name, [(k, tuple(t), (tuple(i) if i else None)) for k, t, i in meas], must

    def ops(self):
        out = []
        for key, targets, inv in self.meas:
            kw = {"key": key}
            if inv:
                kw["invert_mask"] = inv
            out.append(cirq.measure(*[LQ(t) for t in targets], **kw))
        return out


def _one(key, targets=(0,)):
    return [(key, targets, None)]


def build_layouts():
    L = [
        Layout("none", []),
        Layout("m:0", _one("m")),
        Layout("all:0123", _one("all", (0, 1, 2, 3))),
        Layout("r:310", _one("r", (3, 1, 0))),
        Layout("a:1|b:0|c:2", [("a", (1,), None), ("b", (0,), None), ("c", (2,), None)]),
        Layout("odd characters", [("a b,c", (2, 0), None), ("x;y", (1,), None), ("\x1d \x20", (3,), None)]),
        Layout("sparse s:52", _one("s", (5, 2))),
        Layout("z:3|y:02|x:1", [("z", (3,), None), ("y", (0, 2), None), ("x", (1,), None)]),
        Layout("digits key", [("12", (1, 2), None), ("0", (0,), None)]),
        Layout("unicode", [("é中", (1,), None)]),
    ]
    # total metadata length = sum(len(key) + 1 + len(csv)) + (#keys - 1)
    for total in (39, 40, 41, 79, 80, 81, 120, 121, 359, 360):
        L.append(Layout(f"len{total}", _one("k" * (total - 2))))
    for total in (361, 362, 400):
        L.append(Layout(f"len{total}", _one("k" * (total - 2)), must=False))  # documented: more than 9 chunks -> ValueError
    for klen in (35, 36, 37, 38, 39, 40, 41):  # separators falling on / next to the chunk boundary
        L.append(Layout(f"boundary{klen}", [("a" * klen, (1, 0), None), ("b", (2,), None)]))
    L.append(Layout("4keys len360", [("p" * 87, (0,), None), ("q" * 87, (1,), None), ("r" * 87, (2,), None), ("s" * 87, (3,), None)]))
    L.append(Layout("4keys len361", [("p" * 87, (0,), None), ("q" * 87, (1,), None), ("r" * 87, (2,), None), ("s" * 88, (3,), None)], must=False))
    L.append(Layout("unit separator in key", _one("a\x1fb"), must=False))
    L.append(Layout("record separator in key", _one("a\x1eb"), must=False))
    L.append(Layout("repeated key", [("a", (0,), None), ("a", (1,), None)], must=False))
    L.append(Layout("repeated key 3", [("a", (0,), None), ("b", (2,), None), ("a", (1,), None)], must=False))
    L.append(Layout("invert mask", [("i", (0, 1), (True, False))], must=False))
    L.append(Layout("invert mask second key", [("a", (2,), None), ("i", (1, 0), (False, True))], must=False))
    L.append(Layout("all-false invert mask", [("i", (0, 1), None)]))
    # keys whose first and last target span exactly len-1 qubits without being an ascending run (appended last: indices above stay)
    L.append(Layout("perm p:0213", _one("p", (0, 2, 1, 3))))
    L.append(Layout("perm p:032|o:1", [("p", (0, 3, 2), None), ("o", (1,), None)]))
    L.append(Layout("perm o:2|p:103", [("o", (2,), None), ("p", (1, 0, 3), None)]))
    return L


def _init(seed):
    if _G.get("seed") == seed:
        return
    _G.clear()
    _G["seed"] = seed
    _G["qis"] = build_qis_letters(seed)
    _G["phasor"] = build_phasor_letters(seed)
    _G["unsup"] = build_unsupported_letters(seed)
    _G["native"] = build_native_letters(seed)
    _G["layouts"] = build_layouts()
    _G["letters"] = _G["qis"] + _G["phasor"] + _G["unsup"] + _G["native"]
    _G["seq_qis"], _G["seq_native"] = build_seq_alphabets(seed)
    _G["pool"] = build_pool(seed)
    _G["aqt"] = build_aqt_letters(seed)
    _G["pasqal"] = build_pasqal_letters(seed)


# ------------------------------------------------------------------------------------------------------------------
# IonQ oracle


def _n_qubits(circuit):
    return max(q.x for q in circuit.all_qubits()) + 1


def _ref_unitary(gate_ops, n):
    if not gate_ops:
        return np.eye(2 ** n, dtype=np.complex128)
    return cirq.Circuit(gate_ops).unitary(qubit_order=LQ.range(n))


def _json_roundtrip(x):
    """What actually travels: requests.post(json=...) serialises with json.dumps."""
    return json.loads(json.dumps(x))


def _check_measurement_metadata(md, expected, where):
    """md: metadata dict of ONE circuit; expected: [(key, targets, invert)] in circuit order.  Returns error or None."""
    exp_pairs = [(k, list(t)) for k, t, _ in expected]
    try:
        dec = RI.decode_measurement_metadata(md)
    except RI.PayloadRejected as e:
        return f"{where}: measurement metadata does not follow the documented format: {e}"
    if sorted(dec) != sorted(exp_pairs):  # the order of the records carries no meaning (keys are looked up by name)
        return f"{where}: documented decoding of the metadata gives {dec!r}, circuit measures {exp_pairs!r}"
    keys = [k for k, _ in exp_pairs]
    if len(set(keys)) != len(keys):
        return ("REPEATED_KEY " f"{where}: accepted a circuit that measures key(s) {sorted(k for k in set(keys) if keys.count(k) > 1)} more than once; "
                f"results carry one entry per key, so all but the last measurement are silently lost (metadata {md!r})")
    if any(inv and any(inv) for _, _, inv in expected):
        return ("INVERT_MASK " f"{where}: accepted a measurement with a non-trivial invert_mask {[(k, inv) for k, _, inv in expected if inv]}; the payload "
                f"has no place for it and results are returned un-inverted (silently altered)")
    # the way cirq_ionq decodes it (what the user will see), after the JSON trip through the API
    for variant, m2 in (("as sent", dict(md)), ("keys sorted", dict(sorted(md.items())))):
        m2 = _json_roundtrip({**m2, "shots": "7"})
        job = cirq_ionq.Job(None, {"id": "j", "status": "completed", "backend": "simulator", "metadata": m2, "stats": {"qubits": "9"}})
        got = job.measurement_dict()
        if dict(got) != dict(exp_pairs) or any(list(got[k]) != t for k, t in exp_pairs):
            return f"{where}: Job.measurement_dict() ({variant}) gives {got!r}, circuit measures {exp_pairs!r}"
    return None


def _meas_kind(err):
    if err.startswith("REPEATED_KEY"):
        return "ionq_repeated_measurement_key"
    if err.startswith("INVERT_MASK"):
        return "ionq_invert_mask_dropped"
    return "measurement"


def ionq_check_single(circuit, gate_ops, meas, must, n=None):
    """Serialise `circuit` (= gate_ops + measurements `meas`) and decide the property.  Returns Res."""
    try:
        prog = SER.serialize_single_circuit(circuit)
    except IONQ_REJECT as e:
        if must:
            return bad(f"supported circuit rejected: {type(e).__name__}: {e}\n{circuit!r}", kind="rejected_supported")
        return Res(skipped=True, nontrivial=False, counters={"rejected": 1})
    n = _n_qubits(circuit)
    inp = prog.input
    try:
        wire = _json_roundtrip(inp)
    except (TypeError, ValueError) as e:
        if must:
            return bad(f"payload of a supported circuit is not JSON serialisable: {e}\n{inp!r}", kind="not_json")
        return Res(skipped=True, nontrivial=False, counters={"rejected_not_json": 1})
    if wire.get("qubits") != n:
        return bad(f"payload declares {wire.get('qubits')!r} qubits, circuit uses LineQubits up to {n - 1} (needs {n})\n{circuit!r}\n{wire!r}",
                   kind="qubit_count")
    want_gateset = "native" if gate_ops and all(isinstance(op.gate, (cirq_ionq.GPIGate, cirq_ionq.GPI2Gate, cirq_ionq.MSGate, cirq_ionq.ZZGate))
                                                  for op in gate_ops) else None
    try:
        U = RI.program_unitary(wire)
    except RI.PayloadRejected as e:
        if must:
            return bad(f"payload of a supported circuit violates the documented format: {e}\n{circuit!r}\n{wire!r}", kind="bad_payload")
        return Res(skipped=True, nontrivial=False, counters={"api_would_reject": 1})
    if want_gateset and wire.get("gateset") != want_gateset:
        return bad(f"all-native circuit sent with gateset {wire.get('gateset')!r}\n{wire!r}", kind="gateset")
    Uref = _ref_unitary(gate_ops, n)
    if not E.eq_up_to_phase(Uref, U, ATOL):
        return bad(f"payload unitary differs from the circuit's (beyond global phase)\ncircuit: {circuit!r}\npayload: {wire!r}\n"
                   f"max |diff| = {np.max(np.abs(Uref - E.phase_of(Uref, U) * U)):.3g}", kind="unitary")
    err = _check_measurement_metadata(prog.metadata, meas, "single")
    if err:
        return bad(f"{err}\ncircuit: {circuit!r}", kind=_meas_kind(err))
    if any(k != "shots" and not (k.startswith("measurement") and k[11:].isdigit()) for k in prog.metadata):
        return bad(f"unexpected metadata keys {list(prog.metadata)}", kind="metadata_keys")
    if prog.settings or prog.compilation or prog.error_mitigation or prog.noise or prog.dry_run:
        return bad(f"settings invented: {prog!r}", kind="settings")
    return good(nontrivial=bool(wire["circuit"]) or bool(meas), circuits=1, accepted=1, payload_ops=len(wire["circuit"]))


def ionq_check_many(circuits, gate_ops_list, meas_list, must):
    """serialize_many_circuits on a list of circuits."""
    try:
        prog = SER.serialize_many_circuits(list(circuits))
    except IONQ_REJECT as e:
        if must:
            return bad(f"supported batch rejected: {type(e).__name__}: {e}\n{circuits!r}", kind="rejected_supported")
        return Res(skipped=True, nontrivial=False, counters={"rejected": 1})
    ns = [_n_qubits(c) for c in circuits]
    n = max(ns)
    try:
        wire = _json_roundtrip(prog.input)
        md = _json_roundtrip(prog.metadata)
    except (TypeError, ValueError) as e:
        if must:
            return bad(f"batch payload not JSON serialisable: {e}", kind="not_json")
        return Res(skipped=True, nontrivial=False, counters={"rejected_not_json": 1})
    if wire.get("qubits") != n:
        return bad(f"batch payload declares {wire.get('qubits')!r} qubits, circuits need {ns} -> {n}\n{wire!r}", kind="qubit_count")
    try:
        Us = RI.program_unitaries(wire)
    except RI.PayloadRejected as e:
        if must:
            return bad(f"batch payload violates the documented format: {e}\n{wire!r}", kind="bad_payload")
        return Res(skipped=True, nontrivial=False, counters={"api_would_reject": 1})
    if len(Us) != len(circuits):
        return bad(f"{len(circuits)} circuits submitted, payload holds {len(Us)}", kind="batch_len")
    for i, (U, gops) in enumerate(zip(Us, gate_ops_list)):
        Uref = _ref_unitary(gops, n)
        if not E.eq_up_to_phase(Uref, U, ATOL):
            return bad(f"batch entry {i}: payload unitary differs from the circuit's\ncircuit: {circuits[i]!r}\npayload: {wire['circuits'][i]!r}",
                       kind="unitary")
    try:
        mlist = json.loads(md["measurements"])
        qn = json.loads(md["qubit_numbers"])
    except Exception as e:
        return bad(f"batch metadata lacks the documented measurements / qubit_numbers JSON lists: {md!r} ({e})", kind="measurement")
    if qn != ns:
        return bad(f"qubit_numbers {qn} != per-circuit qubit counts {ns}", kind="qubit_numbers")
    if not isinstance(mlist, list) or len(mlist) != len(circuits):
        return bad(f"measurements list has wrong length: {mlist!r}", kind="measurement")
    job = cirq_ionq.Job(None, {"id": "j", "status": "completed", "backend": "simulator", "metadata": {**md, "shots": "3"},
                               "stats": {"qubits": str(n)}})
    for i, meas in enumerate(meas_list):
        err = _check_measurement_metadata(mlist[i], meas, f"batch entry {i}")
        if err:
            return bad(f"{err}\ncircuits: {circuits!r}", kind=_meas_kind(err))
        got = job.measurement_dict(circuit_index=i)
        if dict(got) != {k: list(t) for k, t, _ in meas}:
            return bad(f"Job.measurement_dict(circuit_index={i}) = {got!r}, circuit measures {meas!r}", kind="measurement")
        if job.num_qubits(i) != ns[i]:
            return bad(f"Job.num_qubits({i}) = {job.num_qubits(i)} != {ns[i]}", kind="qubit_numbers")
    return good(nontrivial=any(c["circuit"] for c in wire["circuits"]) or any(meas_list), circuits=len(circuits), accepted=1)


# --- stage: every letter alone -------------------------------------------------------------------------------------


def letter_cases(tier="thorough"):
    out = []
    base = len(_G["qis"])
    nph = len(_G["phasor"])
    for li, lt in enumerate(_G["letters"]):
        if tier == "quick" and base <= li < base + nph and lt.arity == 3 and (li - base) % 9 not in (0, 1, 2, 7):
            continue  # quick: length-3 Pauli strings with 4 of the 9 exponent pairs (positive / negative / zero time, wrap-around)
        for pi in range(len(PLACEMENTS[lt.arity])):
            out.append((li, pi))
    return out


def run_letter(case):
    li, pi = case
    lt = _G["letters"][li]
    qs = [LQ(x) for x in PLACEMENTS[lt.arity][pi]]
    op = lt.make(qs)
    pre = []
    if not qs:  # zero-qubit op: give the circuit a qubit
        qs = [LQ(1)]
        pre = [cirq.X(qs[0])]
    circuit = cirq.Circuit(pre + [op])
    r1 = ionq_check_single(circuit, pre + [op], [], lt.must)
    if not r1.ok:
        r1.msg = f"letter {lt.name} on {qs}: " + r1.msg
        return r1
    # the same op followed by a measurement of everything in reverse order, through the batch serializer
    meas = [("out", tuple(q.x for q in reversed(qs)), None)]
    mop = cirq.measure(*reversed(qs), key="out")
    c2 = cirq.Circuit(pre + [op, mop])
    r2 = ionq_check_many([c2], [pre + [op]], [meas], lt.must)
    if not r2.ok:
        r2.msg = f"letter {lt.name} on {qs} (batch of one): " + r2.msg
        return r2
    if r1.skipped != r2.skipped:
        return bad(f"letter {lt.name} on {qs}: single-circuit and batch serializers disagree on acceptance", kind="accept_mismatch")
    if r1.skipped:
        return r1
    return good(nontrivial=r1.nontrivial, circuits=2, accepted=1)


def describe_letter(case):
    li, pi = case
    lt = _G["letters"][li]
    return {"letter": lt.name, "qubits": PLACEMENTS[lt.arity][pi]}


# --- stage: sequences ------------------------------------------------------------------------------------------------


def build_seq_alphabets(seed):
    """Placed representatives of every serializer branch on qubits 0..3 -> [(name, op, must)]."""
    g = core.generic(seed)
    g1 = core.generic(seed, 1)
    q = LQ.range(4)
    A = []

    def add(name, op, must=True):
        A.append((name, op, must))

    one_q = [("X", cirq.X), ("V", cirq.X ** 0.5), ("Vi", cirq.X ** -0.5), ("X^g", cirq.X ** g), ("rx", cirq.rx(g1)),
             ("Y", cirq.Y), ("Y^g", cirq.Y ** g1), ("Z", cirq.Z), ("S", cirq.S), ("Si", cirq.S ** -1), ("T", cirq.T),
             ("Ti", cirq.T ** -1), ("Z^g", cirq.Z ** g), ("H", cirq.H), ("X^1.5", cirq.X ** 1.5), ("Z^(0.5+1e-6)", cirq.Z ** (0.5 + 1e-6))]
    for nm, gt in one_q:
        for x in (0, 1, 3):
            add(f"{nm}({x})", gt.on(q[x]))
    for c, t in ((0, 1), (1, 0), (3, 0), (1, 2)):
        add(f"CNOT({c},{t})", cirq.CNOT(q[c], q[t]))
    for a_, b_ in ((0, 1), (2, 1)):
        add(f"SWAP({a_},{b_})", cirq.SWAP(q[a_], q[b_]))
    for nm, gt in (("XX", cirq.XX), ("YY", cirq.YY), ("ZZ", cirq.ZZ)):
        for a_, b_ in ((0, 1), (3, 1)):
            add(f"{nm}^g({a_},{b_})", (gt ** g).on(q[a_], q[b_]))
    ph = cirq.PauliStringPhasorGate
    dps = cirq.DensePauliString
    add("phasor(XZ)(0,1)", ph(dps("XZ"), exponent_neg=0.3, exponent_pos=-0.1).on(q[0], q[1]))
    add("phasor(XZ)(2,0)", ph(dps("XZ"), exponent_neg=0.3, exponent_pos=-0.1).on(q[2], q[0]))
    add("phasor(YIZ)(0,1,2)", ph(dps("YIZ"), exponent_neg=0.7).on(q[0], q[1], q[2]))
    add("phasor(YIZ)(3,0,1)", ph(dps("YIZ"), exponent_neg=0.7).on(q[3], q[0], q[1]))
    add("phasor(-ZY)(1,3)", ph(dps("ZY", coefficient=-1), exponent_neg=-0.2, exponent_pos=0.3).on(q[1], q[3]))
    add("H^0.5(1)", (cirq.H ** 0.5).on(q[1]), False)
    add("CZ(0,1)", cirq.CZ(q[0], q[1]), False)
    N = []

    def addn(name, op, must=True):
        N.append((name, op, must))

    for x in (0, 2):
        addn(f"GPI(0.3)({x})", cirq_ionq.GPIGate(phi=0.3).on(q[x]))
        addn(f"GPI2(-0.2)({x})", cirq_ionq.GPI2Gate(phi=-0.2).on(q[x]))
    addn("GPI2(g)(1)", cirq_ionq.GPI2Gate(phi=g).on(q[1]))
    for a_, b_ in ((0, 1), (1, 0), (2, 0)):
        addn(f"MS(.1,.35,.2)({a_},{b_})", cirq_ionq.MSGate(phi0=0.1, phi1=0.35, theta=0.2).on(q[a_], q[b_]))
    addn("MS(g,0)(1,2)", cirq_ionq.MSGate(phi0=g, phi1=0).on(q[1], q[2]))
    for a_, b_ in ((0, 1), (2, 1)):
        addn(f"ZZ(.15)({a_},{b_})", cirq_ionq.ZZGate(theta=0.15).on(q[a_], q[b_]))
    return A, N


SEQ_LAYOUTS_1 = list(range(10))  # for sequences of length <= 1 (filtered by qubits below)
SEQ_LAYOUTS_2 = [0, 3, 4]
SEQ_LAYOUTS_3 = [3]


def run_seq(case):
    kind, seq, layouts = case
    A = _G["seq_qis"] if kind == "q" else (_G["seq_native"] if kind == "n" else _G["seq_qis"] + _G["seq_native"])
    ops = [A[i][1] for i in seq]
    must_ops = all(A[i][2] for i in seq)
    if kind == "m":
        native = [isinstance(op.gate, (cirq_ionq.GPIGate, cirq_ionq.GPI2Gate, cirq_ionq.MSGate, cirq_ionq.ZZGate)) for op in ops]
        if any(native) and not all(native):
            must_ops = False  # mixing gatesets is left to the API to refuse
    tot = Res(ok=True, nontrivial=False)
    n_circ = 0
    acc = 0
    for li in layouts:
        lay = _G["layouts"][li]
        mops = lay.ops()
        circuit = cirq.Circuit(ops + mops)
        if len(circuit) == 0:
            continue
        r = ionq_check_single(circuit, ops, lay.meas, must_ops and lay.must)
        n_circ += 1
        if not r.ok:
            r.msg = f"sequence {[A[i][0] for i in seq]} + layout {lay.name!r}: " + r.msg
            return r
        if not r.skipped:
            acc += 1
            tot.nontrivial = tot.nontrivial or (len(ops) + len(mops) >= 2)
    if acc == 0:
        return Res(skipped=True, nontrivial=False, counters={"circuits": n_circ})
    tot.counters = {"circuits": n_circ, "accepted": acc}
    return tot


def describe_seq(case):
    kind, seq, layouts = case
    A = _G["seq_qis"] if kind == "q" else (_G["seq_native"] if kind == "n" else _G["seq_qis"] + _G["seq_native"])
    return {"letters": [A[i][0] for i in seq], "layouts": [_G["layouts"][i].name for i in layouts]}


def seq_cases(tier):
    nq, nn = len(_G["seq_qis"]), len(_G["seq_native"])
    L1 = tuple(i for i in SEQ_LAYOUTS_1 if all(t <= 3 for _, ts, _ in _G["layouts"][i].meas for t in ts))
    out = [("q", (), L1)]
    for kind, n in (("q", nq), ("n", nn)):
        for i in range(n):
            out.append((kind, (i,), L1))
    for kind, n in (("q", nq), ("n", nn)):
        for s in itertools.product(range(n), repeat=2):
            out.append((kind, s, tuple(SEQ_LAYOUTS_2)))
    # mixed native / QIS pairs (both orders)
    for i in range(nq):
        for j in range(nq, nq + nn):
            out.append(("m", (i, j), (0, 3)))
            out.append(("m", (j, i), (0, 3)))
    if tier == "thorough":
        for kind, n in (("q", nq), ("n", nn)):
            for s in itertools.product(range(n), repeat=3):
                out.append((kind, s, (3, 4)))
    else:
        # quick: length-3 sequences over a core sub-alphabet (one representative per payload gate kind)
        names = ["V(0)", "X^g(1)", "Si(0)", "Z^g(3)", "H(1)", "Y^g(0)", "CNOT(1,0)", "CNOT(3,0)", "SWAP(2,1)", "XX^g(0,1)",
                 "ZZ^g(3,1)", "phasor(XZ)(2,0)", "phasor(YIZ)(3,0,1)", "phasor(-ZY)(1,3)"]
        idx = [i for i, a in enumerate(_G["seq_qis"]) if a[0] in names]
        for s in itertools.product(idx, repeat=3):
            out.append(("q", s, tuple(SEQ_LAYOUTS_3)))
        for s in itertools.product(range(nn), repeat=3):
            if len(set(s)) == 3:
                out.append(("n", s, tuple(SEQ_LAYOUTS_3)))
    return out


# --- stage: measurement layouts ----------------------------------------------------------------------------------------


def layout_cases():
    out = []
    for li in range(len(_G["layouts"])):
        for prefix in range(4):
            out.append((li, prefix))
    return out


def _layout_prefix(prefix, lay):
    used = sorted({t for _, ts, _ in lay.meas for t in ts}) or [0]
    q0 = LQ(used[0])
    if prefix == 0:
        return []
    if prefix == 1:
        return [cirq.X(q0) ** 0.5]
    if prefix == 2:
        return [cirq.H(LQ(used[-1])), cirq.CNOT(LQ(used[-1]), LQ(used[-1] + 1))]  # extends the register past the measured qubits
    return [cirq_ionq.GPI2Gate(phi=0.1).on(q0)]


def run_layout(case):
    li, prefix = case
    lay = _G["layouts"][li]
    ops = _layout_prefix(prefix, lay)
    mops = lay.ops()
    if not ops and not mops:
        try:
            SER.serialize_single_circuit(cirq.Circuit())
        except ValueError:
            return Res(skipped=True, nontrivial=False)
        return bad("empty circuit accepted although documented to raise ValueError", kind="empty")
    # measurements inserted as ONE moment after the gates (user style) and, second variant, one moment each
    for variant in (0, 1):
        if variant == 0:
            circuit = cirq.Circuit(ops + mops)
        else:
            circuit = cirq.Circuit([cirq.Moment([o]) for o in ops + mops])
        r = ionq_check_single(circuit, ops, lay.meas, lay.must)
        if not r.ok:
            r.msg = f"layout {lay.name!r} prefix {prefix} variant {variant}: " + r.msg
            return r
        other = cirq_ionq.GPIGate(phi=0.2).on(LQ(1)) if (prefix == 3 or not ops) else cirq.X(LQ(1))  # same gateset as `circuit`
        r2 = ionq_check_many([circuit, cirq.Circuit(other)], [ops, [other]], [lay.meas, []], lay.must)
        if not r2.ok:
            r2.msg = f"layout {lay.name!r} prefix {prefix} variant {variant} (batch): " + r2.msg
            return r2
        if r.skipped != r2.skipped:
            return bad(f"layout {lay.name!r}: single and batch serializers disagree on acceptance", kind="accept_mismatch")
    if r.skipped:
        return r
    return good(nontrivial=bool(mops), circuits=4)


# --- stage: non-terminal measurement / settings pass-through / empty ---------------------------------------------------


def misc_cases():
    return [("nonterminal", i) for i in range(3)] + [("settings", i) for i in range(4)] + [("badqubits", i) for i in range(3)] + [("atol", i) for i in range(4)]


def run_misc(case):
    kind, i = case
    q = LQ.range(3)
    if kind == "nonterminal":
        circs = [cirq.Circuit(cirq.measure(q[0], key="a"), cirq.X(q[0])),
                 cirq.Circuit(cirq.measure(q[0], key="a"), cirq.measure(q[0], key="b")),
                 cirq.Circuit(cirq.X(q[1]), cirq.measure(q[0], q[1], key="a"), cirq.CNOT(q[1], q[2]))]
        for fn in (SER.serialize_single_circuit, lambda c: SER.serialize_many_circuits([cirq.Circuit(cirq.X(q[0])), c])):
            try:
                prog = fn(circs[i])
            except ValueError:
                continue
            return bad(f"circuit with a non-terminal measurement accepted (documented ValueError): {circs[i]!r} -> {prog!r}", kind="nonterminal")
        return good(nontrivial=True)
    if kind == "settings":
        circuit = cirq.Circuit(cirq.X(q[0]) ** 0.5, cirq.measure(q[1], q[0], key="k"))
        meas = [("k", (1, 0), None)]
        kws = [dict(job_settings={"x": 1}, compilation={"opt": 1, "precision": "1E-3"}, error_mitigation={"debiasing": True},
                    noise={"model": "aria-1", "seed": 5}, metadata={"user": "u"}, dry_run=True),
               dict(metadata={"zz_user": "1", "a": "b"}),
               dict(noise={"model": "ideal"}),
               dict()][i]
        for many in (False, True):
            kw = {k: (dict(v) if isinstance(v, dict) else v) for k, v in kws.items()}
            prog = SER.serialize_many_circuits([circuit], **kw) if many else SER.serialize_single_circuit(circuit, **kw)
            exp = {"settings": kws.get("job_settings", {}), "compilation": kws.get("compilation", {}),
                   "error_mitigation": kws.get("error_mitigation", {}), "noise": kws.get("noise", {}), "dry_run": kws.get("dry_run", False)}
            for f, v in exp.items():
                if getattr(prog, f) != v:
                    return bad(f"{f} not passed through: {getattr(prog, f)!r} != {v!r}", kind="settings")
            for k, v in kws.get("metadata", {}).items():
                if prog.metadata.get(k) != v:
                    return bad(f"user metadata {k!r} lost: {prog.metadata!r}", kind="settings")
            md = {k: v for k, v in prog.metadata.items() if k not in kws.get("metadata", {})}
            if many:
                err = _check_measurement_metadata(json.loads(md["measurements"])[0], meas, "settings/batch")
            else:
                err = _check_measurement_metadata(md, meas, "settings/single")
            if err:
                return bad(err, kind="measurement")
        return good(nontrivial=True)
    if kind == "badqubits":
        circs = [cirq.Circuit(cirq.X(cirq.GridQubit(0, 0))), cirq.Circuit(cirq.X(cirq.NamedQubit("a"))), cirq.Circuit(cirq.X(LQ(-1)), cirq.X(LQ(1)))]
        for fn in (SER.serialize_single_circuit, lambda c: SER.serialize_many_circuits([c])):
            try:
                prog = fn(circs[i])
            except ValueError:
                continue
            return bad(f"circuit on non-LineQubit / negative qubits accepted (documented ValueError): {circs[i]!r} -> {prog!r}", kind="badqubits")
        return good(nontrivial=True)
    if kind == "atol":
        # a user-chosen atol: inside -> named gate allowed, outside -> must stay exact
        ser = cirq_ionq.Serializer(atol=1e-3)
        e = [0.5 + 5e-4, 0.5 + 5e-3, 1 - 5e-4, 0.25 - 5e-3][i]
        for gate in (cirq.X, cirq.Z):
            op = (gate ** e).on(q[1])
            prog = ser.serialize_single_circuit(cirq.Circuit(op))
            U = RI.program_unitary(_json_roundtrip(prog.input))
            Uref = _ref_unitary([op], 2)
            tol = 1e-2 if abs(e - round(e * 4) / 4) < 1e-3 else ATOL
            if not E.eq_up_to_phase(Uref, U, tol):
                return bad(f"Serializer(atol=1e-3): {op!r} -> {prog.input!r} differs by more than {tol}", kind="atol")
        return good(nontrivial=True)
    raise core.HarnessError(f"unknown misc case {case}")


# --- stage: batches ---------------------------------------------------------------------------------------------------


def build_pool(seed):
    """[(name, gate ops, layout index)] small circuits with different qubit counts / layouts / gatesets."""
    g = core.generic(seed)
    q = LQ.range(6)
    ph = cirq.PauliStringPhasorGate(cirq.DensePauliString("XIY"), exponent_neg=0.4)
    return [
        ("V(0)+m:0", [cirq.X(q[0]) ** 0.5], 1),
        ("X^g(2)", [cirq.X(q[2]) ** g], 0),
        ("H(1)CNOT(1,3)+r:310", [cirq.H(q[1]), cirq.CNOT(q[1], q[3])], 3),
        ("CNOT(1,0)+abc", [cirq.CNOT(q[1], q[0])], 4),
        ("phasor(XIY)(2,1,0)+odd", [ph.on(q[2], q[1], q[0])], 5),
        ("ZZ^g(0,5)+s:52", [(cirq.ZZ ** g).on(q[0], q[5])], 6),
        ("only measure all", [], 2),
        ("SWAP(0,1)T(1)+boundary39", [cirq.SWAP(q[0], q[1]), cirq.T(q[1])], [i for i, l in enumerate(build_layouts()) if l.name == "boundary39"][0]),
        ("GPI2(0)MS(0,1)+m:0", [cirq_ionq.GPI2Gate(phi=0.2).on(q[0]), cirq_ionq.MSGate(phi0=0.1, phi1=0.2).on(q[0], q[1])], 1),
        ("ZZn(2,1)", [cirq_ionq.ZZGate(theta=0.3).on(q[2], q[1])], 0),
        ("GPI(3)+r:310", [cirq_ionq.GPIGate(phi=0.4).on(q[3])], 3),
        ("H^0.5(0) unsupported", [(cirq.H ** 0.5).on(q[0])], 0),
    ]


def _is_native_ops(ops):
    return all(isinstance(op.gate, (cirq_ionq.GPIGate, cirq_ionq.GPI2Gate, cirq_ionq.MSGate, cirq_ionq.ZZGate)) for op in ops)


def run_batch(case):
    pool = _G["pool"]
    circs, gops, meas = [], [], []
    must = True
    kinds = set()
    for i in case:
        name, ops, li = pool[i]
        lay = _G["layouts"][li]
        circs.append(cirq.Circuit(ops + lay.ops()))
        gops.append(ops)
        meas.append(lay.meas)
        must = must and lay.must and "unsupported" not in name
        kinds.add("native" if _is_native_ops(ops) else "qis")
    if len(kinds) > 1:
        must = False  # documented IonQSerializerMixedGatesetsException
    r = ionq_check_many(circs, gops, meas, must)
    if not r.ok:
        r.msg = f"batch {[pool[i][0] for i in case]}: " + r.msg
        return r
    if len(kinds) > 1 and not r.skipped and any(g for g in gops):
        # accepted a mixed batch: only fine if the interpreter could run it faithfully, which ionq_check_many just verified
        pass
    return r


def batch_cases(tier):
    n = len(build_pool(0))
    out = [(i,) for i in range(n)]
    out += list(itertools.product(range(n), repeat=2))
    if tier == "thorough":
        out += list(itertools.product(range(n), repeat=3))
    else:
        out += [s for s in itertools.product(range(0, n, 2), repeat=3)]
    return out


def describe_batch(case):
    return [_G["pool"][i][0] for i in case]


# ------------------------------------------------------------------------------------------------------------------
# IonQ results


def result_layouts(n):
    """Every list of <=3 pairwise disjoint, ordered, non-empty target subsets of range(n) (+ the empty layout)."""
    subsets = [p for r in range(1, n + 1) for p in itertools.permutations(range(n), r)]
    out = [[]]
    out += [[a] for a in subsets]
    for a in subsets:
        for b in subsets:
            if set(a) & set(b):
                continue
            out.append([a, b])
            for c in subsets:
                if (set(a) | set(b)) & set(c):
                    continue
                out.append([a, b, c])
    return out


_RL = {n: result_layouts(n) for n in (1, 2, 3)}


ORDERS = ("ascending", "descending", "rotated")


def _reorder(items, mode):
    """items sorted ascending by key -> the same items in insertion order `mode` (dicts keep insertion order;
    nothing documents that the API / the caller lists outcomes in ascending order)."""
    items = list(items)
    if mode == 1:
        return items[::-1]
    if mode == 2:
        return items[1:] + items[:1]
    return items


def _api_dict(pairs, mode):
    """pairs: (little-endian integer key, value) -> API histogram listed in the given order of the LITTLE-endian keys
    (ascending little-endian order is already a non-ascending big-endian order for >= 2 qubits)."""
    return {str(k): v for k, v in _reorder(sorted(pairs), mode)}


def _bits_be(v, n):
    """Independent re-derivation: format the big-endian integer as an n-character binary string, qubit j = s[j]."""
    s = format(v, "b").zfill(n)
    if len(s) != n:
        raise core.HarnessError("value out of range")
    return tuple(int(c) for c in s)


def _key_value(bits, targets):
    s = "".join(str(bits[t]) for t in targets)
    return int(s, 2)


class _FakeResultsClient:
    """Stands for cirq_ionq.ionq_client._IonQClient in Job: only get_results is reached for completed jobs."""

    def __init__(self, payload):
        self.payload = payload

    def get_results(self, job_id, sharpen=None, extra_query_params=None):
        return self.payload

    def get_job(self, job_id):
        raise core.HarnessError("completed job must not be refreshed")


def _job_dict(backend, n, md, shots):
    return {"id": "job-1", "status": "completed", "backend": backend, "name": "n", "stats": {"qubits": str(n)},
            "metadata": _json_roundtrip({**md, "shots": str(shots)})}


def _check_qpu_views(res, n, shots_bits, layout, tag):
    """res: QPUResult; shots_bits: list of per-shot bit tuples (multiset semantics)."""
    total = len(shots_bits)
    if res.repetitions() != total or res.num_qubits() != n:
        return f"{tag}: repetitions/num_qubits = {res.repetitions()}/{res.num_qubits()}, expected {total}/{n}"
    full = res.ordered_results()
    exp_full = sorted(_key_value(b, range(n)) for b in shots_bits)
    if sorted(full) != exp_full:
        return f"{tag}: ordered_results() = {full}, expected multiset {exp_full}"
    if {k: v for k, v in res.counts().items() if v} != dict(collections.Counter(exp_full)):
        return f"{tag}: counts() = {dict(res.counts())}, expected {dict(collections.Counter(exp_full))}"
    keys = [f"k{j}" for j in range(len(layout))]
    per_key = {}
    for key, targets in zip(keys, layout):
        got = res.ordered_results(key)
        if len(got) != total:
            return f"{tag}: ordered_results({key}) has {len(got)} entries for {total} shots"
        # "arbitrarily but consistently ordered": entry i of every view belongs to the same shot
        exp = [_key_value(_bits_be(v, n), targets) for v in full]
        if list(got) != exp:
            return f"{tag}: ordered_results({key}) = {list(got)} for targets {targets}; from ordered_results() = {full} expected {exp}"
        cnt = res.counts(key)
        if {k: v for k, v in cnt.items() if v} != dict(collections.Counter(exp)):
            return f"{tag}: counts({key}) = {dict(cnt)} for targets {targets}, expected {dict(collections.Counter(exp))}"
        per_key[key] = exp
    try:
        res.ordered_results("nokey")
        return f"{tag}: unknown key accepted by ordered_results"
    except ValueError:
        pass
    try:
        res.counts("nokey")
        return f"{tag}: unknown key accepted by counts"
    except ValueError:
        pass
    if not layout:
        try:
            res.to_cirq_result()
        except ValueError:
            return None
        return f"{tag}: to_cirq_result without measurement keys must raise ValueError"
    cr = res.to_cirq_result()
    if set(cr.measurements) != set(keys):
        return f"{tag}: to_cirq_result keys {set(cr.measurements)} != {set(keys)}"
    rows = []
    for i in range(total):
        row = []
        for key, targets in zip(keys, layout):
            m = cr.measurements[key]
            if m.shape != (total, len(targets)):
                return f"{tag}: to_cirq_result()[{key}] has shape {m.shape}, expected {(total, len(targets))}"
            row.append(tuple(int(x) for x in m[i]))
        rows.append(tuple(row))
    exp_rows = [tuple(tuple(b[t] for t in targets) for targets in layout) for b in shots_bits]
    if sorted(rows) != sorted(exp_rows):
        return f"{tag}: to_cirq_result joint rows {sorted(rows)} != expected {sorted(exp_rows)} (layout {layout})"
    return None


def run_qpu_hist(case):
    n, hist, zero_entries = case
    total = sum(hist)
    shots_bits = []
    for v, c in enumerate(hist):
        shots_bits += [_bits_be(v, n)] * c
    counts_items = [(v, c) for v, c in enumerate(hist) if c or zero_entries]
    # the API's answer for the same experiment: little-endian keys, relative frequencies (strings or floats)
    api_pairs = []
    for v, c in enumerate(hist):
        if c:
            k = RI.bits_to_le_key(_bits_be(v, n))
            api_pairs.append((k, (str(c / total) if (v % 2) else c / total)))
    nl = 0
    for mode in range(3):
        counts_be = dict(_reorder(counts_items, mode))
        api = _api_dict(api_pairs, mode)
        # every layout for the ascending tables; a fixed stride of the layouts for the other insertion orders
        layouts = _RL[n] if mode == 0 else _RL[n][mode::5]
        for layout in layouts:
            md_dict = {f"k{j}": list(t) for j, t in enumerate(layout)}
            res = cirq_ionq.QPUResult(dict(counts_be), n, md_dict)
            err = _check_qpu_views(res, n, shots_bits, layout, f"QPUResult(counts={counts_be} [{ORDERS[mode]}], n={n}, layout={layout})")
            if err:
                return bad(err, kind="qpu_result")
            md = RI.encode_measurement_metadata([(f"k{j}", t) for j, t in enumerate(layout)])
            job = cirq_ionq.Job(_FakeResultsClient(dict(api)), _job_dict("qpu.aria-1", n, md, total))
            jr = job.results()
            if not isinstance(jr, cirq_ionq.QPUResult):
                return bad(f"Job.results() on a qpu backend returned {type(jr)}", kind="job_results")
            if dict(jr.measurement_dict()) != md_dict:
                return bad(f"Job.results().measurement_dict() = {jr.measurement_dict()!r} != {md_dict!r}", kind="job_results")
            err = _check_qpu_views(jr, n, shots_bits, layout, f"Job.results() for API histogram {api} (little-endian, listed {ORDERS[mode]}), n={n}, layout={layout}")
            if err:
                return bad(err, kind="job_results")
            nl += 1
    return good(nontrivial=(total >= 2 or sum(1 for c in hist if c) >= 2), layouts=nl)


def qpu_cases(tier):
    out = []
    for n in (1, 2, 3):
        for hist in itertools.product((0, 1, 2), repeat=2 ** n):
            if sum(hist) == 0:
                continue
            if n == 3 and tier == "quick" and sum(1 for c in hist if c) > 4:
                continue
            out.append((n, hist, 0))
            if n <= 2:
                out.append((n, hist, 1))
    return out


def _compositions(total, parts):
    if parts == 1:
        yield (total,)
        return
    for i in range(total + 1):
        for rest in _compositions(total - i, parts - 1):
            yield (i,) + rest


def _sim_distribution(res, layout, reps, override):
    """Exact distribution of SimulatorResult.to_cirq_result over ALL scripted PRNG paths."""
    keys = [f"k{j}" for j in range(len(layout))]
    dist = collections.defaultdict(float)
    npaths = 0

    def run(ch):
        prng = ScriptedRandomState(ch)
        prng.vector_mode = "dfs"
        if override:
            return res.to_cirq_result(seed=prng, override_repetitions=reps)
        return res.to_cirq_result(seed=prng)

    for ch, cr in explore(run, max_paths=5000):
        rec = []
        for i in range(reps):
            rec.append(tuple(tuple(int(x) for x in cr.measurements[k][i]) for k in keys))
        for k, t in zip(keys, layout):
            if cr.measurements[k].shape != (reps, len(t)):
                raise core.HarnessError(f"shape {cr.measurements[k].shape}")
        dist[tuple(rec)] += ch.weight
        npaths += 1
    return dict(dist), npaths


def run_sim_hist(case):
    n, quarters = case
    probs = {v: k / 4 for v, k in enumerate(quarters) if k}
    paths = 0
    nl = 0
    for mode in range(3):
        if mode and len(probs) < 2:
            continue
        table = dict(_reorder(sorted(probs.items()), mode))  # same table, other insertion order
        layouts = _RL[n] if mode == 0 else _RL[n][mode::3]
        for layout in layouts:
            nl += 1
            md_dict = {f"k{j}": list(t) for j, t in enumerate(layout)}
            keys = list(md_dict)
            api = _api_dict([(RI.bits_to_le_key(_bits_be(v, n)), (p if v % 2 else str(p))) for v, p in probs.items()], mode)
            md = RI.encode_measurement_metadata([(k, t) for k, t in md_dict.items()])
            direct = cirq_ionq.SimulatorResult(dict(table), n, md_dict, repetitions=2)
            job = cirq_ionq.Job(_FakeResultsClient(api), _job_dict("simulator", n, md, 2))
            via_job = job.results()
            if not isinstance(via_job, cirq_ionq.SimulatorResult):
                return bad(f"Job.results() on the simulator backend returned {type(via_job)}", kind="job_results")
            for tag, res in ((f"SimulatorResult(table listed {ORDERS[mode]}: {table})", direct),
                             (f"Job.results() for API probabilities {api} (little-endian, listed {ORDERS[mode]})", via_job)):
                tag = f"{tag} probs={probs} n={n} layout={layout}"
                if res.num_qubits() != n or res.repetitions() != 2 or dict(res.measurement_dict()) != md_dict:
                    return bad(f"{tag}: num_qubits/repetitions/measurement_dict wrong: {res.num_qubits()} {res.repetitions()} {res.measurement_dict()}", kind="sim_result")
                if {k: v for k, v in res.probabilities().items() if v} != probs:
                    return bad(f"{tag}: probabilities() = {res.probabilities()}", kind="sim_result")
                joint = collections.defaultdict(float)
                for v, p in probs.items():
                    b = _bits_be(v, n)
                    joint[tuple(tuple(b[t] for t in tg) for tg in layout)] += p
                for key, tg in md_dict.items():
                    exp = collections.defaultdict(float)
                    for v, p in probs.items():
                        exp[_key_value(_bits_be(v, n), tg)] += p
                    got = res.probabilities(key)
                    if set(got) != set(exp) or any(abs(got[k] - exp[k]) > 1e-12 for k in exp):
                        return bad(f"{tag}: probabilities({key}) = {got} for targets {tg}, expected {dict(exp)}", kind="sim_result")
                try:
                    res.probabilities("nokey")
                    return bad(f"{tag}: unknown key accepted", kind="sim_result")
                except ValueError:
                    pass
                if not layout:
                    try:
                        res.to_cirq_result(seed=1)
                        return bad(f"{tag}: to_cirq_result without keys must raise ValueError", kind="sim_result")
                    except ValueError:
                        continue
                for reps, override in ((2, False), (1, True)):
                    dist, npaths = _sim_distribution(res, layout, reps, override)
                    paths += npaths
                    exp = collections.defaultdict(float)
                    for combo in itertools.product(joint.items(), repeat=reps):
                        w = 1.0
                        for _, p in combo:
                            w *= p
                        exp[tuple(r for r, _ in combo)] += w
                    if set(dist) != set(exp) or any(abs(dist[k] - exp[k]) > 1e-12 for k in exp):
                        return bad(f"{tag}: exact sampling distribution of to_cirq_result (repetitions={reps}) = {dist}, expected {dict(exp)}", kind="sim_sampling")
    return good(nontrivial=len(probs) >= 2, paths=paths, layouts=nl)


def sim_cases(tier):
    out = []
    for n in (1, 2, 3):
        for comp in _compositions(4, 2 ** n):
            if n == 3 and tier == "quick" and sum(1 for c in comp if c) > 2:
                continue
            out.append((n, comp))
    return out


def job_batch_cases():
    """Batches of two / three sub-results with different qubit counts, layouts and backends."""
    items = [(1, (1, 2), [(0,)]), (2, (0, 1, 2, 1), [(1, 0)]), (2, (2, 0, 0, 2), [(1,), (0,)]), (3, (0, 1, 0, 0, 2, 0, 1, 0), [(2, 0), (1,)]),
             (3, (1, 0, 0, 1, 0, 0, 0, 2), [(0, 1, 2)]), (3, (0, 0, 0, 0, 0, 0, 4, 0), [])]
    out = []
    for backend in ("qpu", "sim"):
        for r in (2, 3):
            for combo in itertools.product(range(len(items)), repeat=r):
                for mode in range(3):
                    for pi in range(math.factorial(r)):
                        out.append((backend, combo, mode, pi))
    return out, items


_JB_ITEMS = job_batch_cases()[1]


def run_job_batch(case):
    backend, combo, mode, pi = case
    subs = [_JB_ITEMS[i] for i in combo]
    shots = 4
    api = {}
    # child job ids are opaque: sub-result j (submission order = response order) gets the pi-th permutation of the ids
    ids = [f"child-{x:04d}" for x in list(itertools.permutations(range(len(subs))))[pi]]
    mlist = []
    qn = []
    for j, (n, hist, layout) in enumerate(subs):
        tot = sum(hist)
        # sub-histogram j lists its little-endian keys in insertion order (mode + j) % 3
        h = _api_dict([(RI.bits_to_le_key(_bits_be(v, n)), c / tot) for v, c in enumerate(hist) if c], (mode + j) % 3)
        api[ids[j]] = h
        mlist.append(RI.encode_measurement_metadata([(f"k{i}", t) for i, t in enumerate(layout)]))
        qn.append(n)
    md = {"measurements": json.dumps(mlist), "qubit_numbers": json.dumps(qn)}
    job = cirq_ionq.Job(_FakeResultsClient(api), _job_dict("qpu.forte-1" if backend == "qpu" else "simulator", max(qn), md, shots))
    rs = job.results()
    if not isinstance(rs, list) or len(rs) != len(subs):
        return bad(f"batch of {len(subs)} returned {type(rs)} of length {len(rs) if isinstance(rs, list) else '-'}", kind="job_batch")
    for j, ((n, hist, layout), res) in enumerate(zip(subs, rs)):
        tot = sum(hist)
        tag = f"batch result {j} of {case}: API {api[ids[j]]} (child ids in response order: {ids}) n={n} layout={layout}"
        md_dict = {f"k{i}": list(t) for i, t in enumerate(layout)}
        if res.num_qubits() != n or dict(res.measurement_dict()) != md_dict:
            return bad(f"{tag}: num_qubits {res.num_qubits()} / measurement_dict {res.measurement_dict()}", kind="job_batch")
        if backend == "qpu":
            shots_bits = []
            for v, c in enumerate(hist):
                shots_bits += [_bits_be(v, n)] * round(shots * c / tot)
            err = _check_qpu_views(res, n, shots_bits, layout, tag)
            if err:
                return bad(err, kind="job_batch")
        else:
            for key, tg in md_dict.items():
                exp = collections.defaultdict(float)
                for v, c in enumerate(hist):
                    if c:
                        exp[_key_value(_bits_be(v, n), tg)] += c / tot
                got = res.probabilities(key)
                if set(got) != set(exp) or any(abs(got[k] - exp[k]) > 1e-12 for k in exp):
                    return bad(f"{tag}: probabilities({key}) = {got}, expected {dict(exp)}", kind="job_batch")
            if res.repetitions() != shots:
                return bad(f"{tag}: repetitions {res.repetitions()}", kind="job_batch")
            if layout:
                dist, _ = _sim_distribution(res, layout, 1, True)
                exp = collections.defaultdict(float)
                for v, c in enumerate(hist):
                    if c:
                        b = _bits_be(v, n)
                        exp[(tuple(tuple(b[t] for t in tg) for tg in layout),)] += c / tot
                if set(dist) != set(exp) or any(abs(dist[k] - exp[k]) > 1e-12 for k in exp):
                    return bad(f"{tag}: exact sampling distribution of to_cirq_result = {dist}, expected {dict(exp)}", kind="job_batch")
    return good(nontrivial=True)


def run_sim_normalisation(case):
    """Documented: weights within 1e-5 of 1 are normalised; otherwise numpy's own ValueError."""
    i = case
    eps = [4e-6, -4e-6, 1e-3][i]
    probs = {0: 0.5 + eps, 3: 0.25, 1: 0.25}
    res = cirq_ionq.SimulatorResult(probs, 2, {"k0": [1, 0]}, repetitions=1)
    try:
        dist, _ = _sim_distribution(res, [(1, 0)], 1, False)
    except ValueError:
        if i == 2:
            return Res(skipped=True, nontrivial=False)
        return bad(f"weights summing to 1{eps:+g} must be normalised (documented atol 1e-5)", kind="sim_norm")
    if i == 2:
        return bad("weights summing to 1.001 were silently accepted", kind="sim_norm")
    tot = sum(probs.values())
    exp = {(((0, 0),),): (0.5 + eps) / tot, (((1, 1),),): 0.25 / tot, (((1, 0),),): 0.25 / tot}
    if set(dist) != set(exp) or any(abs(dist[k] - exp[k]) > 1e-12 for k in exp):
        return bad(f"normalised sampling distribution {dist} != {exp}", kind="sim_norm")
    return good(nontrivial=True)


# ------------------------------------------------------------------------------------------------------------------
# closed loop: Service / Sampler against an in-process reference IonQ API


class _Resp:
    def __init__(self, payload, status=200):
        self._p = payload
        self.status_code = status
        self.ok = status == 200
        self.reason = "fake"
        self.text = payload if isinstance(payload, str) else json.dumps(payload)

    def json(self):
        return self._p

    def raise_for_status(self):
        if not self.ok:
            raise _real_requests.HTTPError(self.reason)


class FakeIonQApi:
    """requests-level stand-in for https://api.ionq.co/v0.4 that EXECUTES the submitted program with mc.ref.ionq."""
    codes = _real_requests.codes
    RequestException = _real_requests.RequestException

    def __init__(self, order_base=0, child_perm=None):
        self.jobs = {}
        self.bodies = []
        # child job ids are opaque strings: circuit i (submission order = response order) is given the id number
        # child_perm[i]; by default the ids happen to sort in submission order
        self.child_perm = child_perm
        # circuit i of job number j lists its histogram in insertion order (order_base + j + i) % 3 of the
        # little-endian keys: ascending, descending, rotated (nothing documents a particular order)
        self.order_base = order_base

    def _listed(self, hist, jid, i):
        mode = (self.order_base + int(jid.split("-")[1]) + i) % 3
        return _api_dict([(int(k), v) for k, v in hist.items()], mode)

    def post(self, url, json=None, headers=None, **kw):
        if not url.endswith("/v0.4/jobs"):
            raise core.HarnessError(f"unexpected POST {url}")
        body = _json_roundtrip(json)
        self.bodies.append(body)
        jid = f"job-{len(self.jobs)}"
        typ = body.get("type")
        inp = body["input"]
        gateset, n = RI.check_header(inp)
        if typ == "ionq.circuit.v1":
            hists = [RI.ideal_histogram(RI.program_unitary(inp), n)]
        elif typ == "ionq.multi-circuit.v1":
            hists = [RI.ideal_histogram(U, n) for U in RI.program_unitaries(inp)]
        else:
            raise RI.PayloadRejected(f"unknown job type {typ!r}")
        if body.get("backend") not in ("simulator", "qpu") and not str(body.get("backend")).startswith("qpu."):
            raise RI.PayloadRejected(f"unknown backend {body.get('backend')!r}")
        if not isinstance(body.get("metadata"), dict) or any(not isinstance(v, str) for v in body["metadata"].values()):
            raise RI.PayloadRejected(f"metadata must map strings to strings: {body.get('metadata')!r}")
        self.jobs[jid] = {"body": body, "hists": hists, "multi": typ == "ionq.multi-circuit.v1", "n": n}
        return _Resp({"id": jid, "status": "ready"})

    def get(self, url, headers=None, params=None, **kw):
        parts = url.split("/v0.4/jobs/")[1].split("/")
        j = self.jobs[parts[0]]
        if len(parts) == 1:
            b = j["body"]
            return _Resp({"id": parts[0], "status": "completed", "backend": b["backend"], "name": b.get("name", ""),
                          "metadata": b["metadata"], "stats": {"qubits": j["n"]}})
        if parts[1:] == ["results", "probabilities"] and not j["multi"]:
            return _Resp(self._listed(j["hists"][0], parts[0], 0))
        if parts[1:] == ["results", "probabilities", "aggregated"] and j["multi"]:
            perm = self.child_perm or tuple(range(len(j["hists"])))
            return _Resp({f"{parts[0]}-child-{perm[i]:03d}": self._listed(h, parts[0], i) for i, h in enumerate(j["hists"])})
        raise core.HarnessError(f"unexpected GET {url}")


class _Patched:
    def __init__(self, mod, name, value):
        self.mod, self.name, self.value = mod, name, value

    def __enter__(self):
        self.old = getattr(self.mod, self.name)
        setattr(self.mod, self.name, self.value)
        return self.value

    def __exit__(self, *a):
        setattr(self.mod, self.name, self.old)


def _born_records(gate_ops, n, meas):
    """Reference distribution over records ((bits of key 1), (bits of key 2), ...) of the circuit run from |0..0>."""
    U = _ref_unitary(gate_ops, n)
    psi = U[:, 0]
    dist = collections.defaultdict(float)
    for i in range(2 ** n):
        p = float(abs(psi[i]) ** 2)
        if p > 1e-12:
            b = _bits_be(i, n)
            dist[tuple(tuple(b[t] for t in ts) for _, ts, _ in meas)] += p
    return dict(dist)


def _dist_from_recorded(prng, idx, result, keys, reps):
    """With the covering sample of ScriptedRandomState, row j of the result is supported outcome j (probability pv[opts[j]])."""
    nvals, pv, k = prng.recorded[idx]
    opts = [i for i in range(nvals) if pv[i] > 1e-12]
    if k != reps or reps < len(opts):
        raise core.HarnessError(f"covering sample too short: {reps} repetitions for {len(opts)} outcomes")
    dist = collections.defaultdict(float)
    for j, o in enumerate(opts):
        rec = tuple(tuple(int(x) for x in result.measurements[key][j]) for key in keys)
        dist[rec] += float(pv[o])
    return dict(dist)


def _cmp_dist(got, exp, atol=1e-7):
    for k in set(got) | set(exp):
        if abs(got.get(k, 0.0) - exp.get(k, 0.0)) > atol:
            return False
    return True


LOOP_LAYOUTS = [1, 3, 4, 7]


def _perm_layouts():
    return [i for i, l in enumerate(_G["layouts"]) if l.name.startswith("perm ")]



def loop_cases(tier):
    A = _G["seq_qis"]
    nq = len(A)
    names1 = None
    out = []
    core_names = ["X(0)", "V(1)", "X^g(3)", "H(0)", "H(1)", "Y^g(0)", "S(1)", "CNOT(0,1)", "CNOT(1,0)", "CNOT(3,0)", "SWAP(2,1)",
                  "XX^g(3,1)", "ZZ^g(0,1)", "phasor(XZ)(2,0)", "phasor(YIZ)(3,0,1)", "phasor(-ZY)(1,3)", "rx(3)", "Vi(0)"]
    idx = [i for i, a in enumerate(A) if a[0] in core_names]
    for li in LOOP_LAYOUTS + _perm_layouts()[:1]:
        for i in range(nq):
            if A[i][2]:
                out.append(("sim", "q", (i,), li))
        for s in itertools.product(idx, repeat=2):
            out.append(("sim", "q", s, li))
    if tier == "thorough":
        for s in itertools.product(idx, repeat=3):
            out.append(("sim", "q", s, 3))
    N = _G["seq_native"]
    for s in itertools.product(range(len(N)), repeat=2):
        out.append(("sim", "n", s, 3))
    # qpu target: dyadic circuits (probabilities k/4) so that round(repetitions * p) is exact
    dy = [i for i, a in enumerate(A) if a[0] in ("X(0)", "X(1)", "X(3)", "H(0)", "H(1)", "V(3)", "CNOT(0,1)", "CNOT(1,0)", "SWAP(2,1)", "Y(1)", "Z(0)",
                                                 "CNOT(3,0)", "CNOT(1,2)")]
    for li in LOOP_LAYOUTS + _perm_layouts():
        for s in itertools.product(dy, repeat=2):
            out.append(("qpu", "q", s, li))
    return out


def run_loop(case):
    target, kind, seq, li = case
    A = _G["seq_qis"] if kind == "q" else _G["seq_native"]
    ops = [A[i][1] for i in seq]
    lay = _G["layouts"][li]
    circuit = cirq.Circuit(ops + lay.ops())
    n = _n_qubits(circuit)
    keys = [k for k, _, _ in lay.meas]
    exp = _born_records(ops, n, lay.meas)
    api = FakeIonQApi(order_base=li + len(seq))
    with _Patched(_ionq_client_mod, "requests", api):
        service = cirq_ionq.Service(remote_host="http://example.com", api_key="key")
        if target == "sim":
            reps = 2 ** n
            prng = ScriptedRandomState(None)
            res = service.run(circuit, repetitions=reps, target="simulator", seed=prng, name="c17")
            got = _dist_from_recorded(prng, 0, res, keys, reps)
            if not _cmp_dist(got, exp):
                return bad(f"Service.run on the reference IonQ API: record distribution {got} != Born distribution {exp}\ncircuit {circuit!r}\n"
                           f"request body {api.bodies[-1]!r}", kind="loop")
            # batch of [circuit, circuit reversed gate order] through run_batch
            ops2 = list(reversed(ops))
            c2 = cirq.Circuit(ops2 + lay.ops())
            prng = ScriptedRandomState(None)
            rs = service.run_batch([circuit, c2], repetitions=reps, target="simulator", seed=prng)
            if len(rs) != 2:
                return bad(f"run_batch returned {len(rs)} results for 2 circuits", kind="loop")
            for j, (r_, o_) in enumerate(zip(rs, (ops, ops2))):
                got = _dist_from_recorded(prng, j, r_, keys, reps)
                e_ = _born_records(o_, n, lay.meas)
                if not _cmp_dist(got, e_):
                    return bad(f"Service.run_batch entry {j}: record distribution {got} != Born distribution {e_}\nbody {api.bodies[-1]!r}", kind="loop")
            return good(nontrivial=len(exp) >= 2, runs=3)
        else:
            reps = 4
            res = service.run(circuit, repetitions=reps, target="qpu", name="c17")
            got = collections.Counter(tuple(tuple(int(x) for x in res.measurements[k][i]) for k in keys) for i in range(reps))
            want = {r: round(p * reps) for r, p in exp.items()}
            if any(abs(p * reps - round(p * reps)) > 1e-9 for p in exp.values()):
                raise core.HarnessError("non-dyadic circuit in the qpu loop")
            if dict(got) != {k: v for k, v in want.items() if v}:
                return bad(f"Service.run(target=qpu): shot records {dict(got)} != expected counts {want}\ncircuit {circuit!r}\nbody {api.bodies[-1]!r}", kind="loop")
            return good(nontrivial=len(exp) >= 2, runs=1)


# --- closed loop for batches: different qubit counts / layouts / histograms, child job ids in every order --------------


def build_batch_loop_pool():
    """Dyadic circuits (probabilities k/4 or k/2) with pairwise different qubit counts, layouts and histograms."""
    q = LQ.range(4)
    return [
        ("X(0)|m:0", [cirq.X(q[0])], [("m", (0,), None)]),
        ("H(1)CNOT(1,3)|r:310", [cirq.H(q[1]), cirq.CNOT(q[1], q[3])], [("r", (3, 1, 0), None)]),
        ("X(2)CNOT(2,0)|a:1,b:0,c:2", [cirq.X(q[2]), cirq.CNOT(q[2], q[0])], [("a", (1,), None), ("b", (0,), None), ("c", (2,), None)]),
        ("X(1)H(3)|p:0213", [cirq.X(q[1]), cirq.H(q[3])], [("p", (0, 2, 1, 3), None)]),
        ("V(0)X(1)|z:1,y:0", [cirq.X(q[0]) ** 0.5, cirq.X(q[1])], [("z", (1,), None), ("y", (0,), None)]),
    ]


_BL_POOL = None


def batch_loop_cases(tier):
    n = len(build_batch_loop_pool())
    out = []
    for target in ("sim", "qpu"):
        for r in (2, 3):
            for combo in itertools.permutations(range(n), r):
                for perm in itertools.permutations(range(r)):
                    out.append((target, combo, perm))
    return out


def run_batch_loop(case):
    global _BL_POOL
    if _BL_POOL is None:
        _BL_POOL = build_batch_loop_pool()
    target, combo, perm = case
    items = [_BL_POOL[i] for i in combo]
    circuits = [cirq.Circuit(ops + [cirq.measure(*[LQ(t) for t in ts], key=k) for k, ts, _ in meas]) for _, ops, meas in items]
    ns = [_n_qubits(c) for c in circuits]
    api = FakeIonQApi(order_base=len(combo) + perm[0], child_perm=tuple(perm))
    names = [it[0] for it in items]
    with _Patched(_ionq_client_mod, "requests", api):
        service = cirq_ionq.Service(remote_host="http://example.com", api_key="key")
        if target == "sim":
            reps = 2 ** max(ns)
            prng = ScriptedRandomState(None)
            rs = service.run_batch(circuits, repetitions=reps, target="simulator", seed=prng)
        else:
            reps = 4
            rs = service.run_batch(circuits, repetitions=reps, target="qpu")
            job = service.create_batch_job(circuits, repetitions=reps, target="qpu")
            direct = job.results()
    if len(rs) != len(circuits):
        return bad(f"run_batch of {names} returned {len(rs)} results", kind="batch_loop")
    for j, ((name, ops, meas), res, n) in enumerate(zip(items, rs, ns)):
        keys = [k for k, _, _ in meas]
        exp = _born_records(ops, n, meas)
        tag = f"run_batch({names}, target={target}) with child job ids numbered {list(perm)} in submission order, result {j} ({name})"
        if set(res.measurements) != set(keys):
            return bad(f"{tag}: keys {sorted(res.measurements)} != {sorted(keys)}", kind="batch_loop")
        for k, ts, _ in meas:
            if res.measurements[k].shape != (reps, len(ts)):
                return bad(f"{tag}: key {k} has shape {res.measurements[k].shape}, expected {(reps, len(ts))}", kind="batch_loop")
        if target == "sim":
            got = _dist_from_recorded(prng, j, res, keys, reps)
            if not _cmp_dist(got, exp):
                return bad(f"{tag}: record distribution {got} != the circuit's own Born distribution {exp}", kind="batch_loop")
        else:
            got = collections.Counter(tuple(tuple(int(x) for x in res.measurements[k][i]) for k in keys) for i in range(reps))
            want = {r_: round(p * reps) for r_, p in exp.items()}
            if dict(got) != {k: v for k, v in want.items() if v}:
                return bad(f"{tag}: shot records {dict(got)} != the circuit's own counts {want}", kind="batch_loop")
            d = direct[j]
            if d.num_qubits() != n or dict(d.measurement_dict()) != {k: list(ts) for k, ts, _ in meas}:
                return bad(f"{tag}: Job.results()[{j}] has num_qubits {d.num_qubits()} / measurement_dict {d.measurement_dict()}", kind="batch_loop")
            for k, ts, _ in meas:
                wantc = collections.Counter()
                for r_, p in exp.items():
                    wantc[int("".join(str(b) for b in r_[keys.index(k)]), 2)] += round(p * reps)
                if {a: b for a, b in d.counts(k).items() if b} != {a: b for a, b in wantc.items() if b}:
                    return bad(f"{tag}: Job.results()[{j}].counts({k!r}) = {dict(d.counts(k))} != {dict(wantc)}", kind="batch_loop")
    return good(nontrivial=True, runs=1)


# --- every ordered target layout x every basis outcome -----------------------------------------------------------------


def _ordered_subsets(n, rmax):
    return [p for r in range(1, rmax + 1) for p in itertools.permutations(range(n), r)]


_TL = {4: _ordered_subsets(4, 4), 5: _ordered_subsets(5, 3)}


def target_layout_cases():
    return [(n, v) for n in (4, 5) for v in range(2 ** n)]


def run_target_layouts(case):
    """One-hot histogram |v> on n qubits x every ordered subset of targets (all permutations of all subsets; for 5
    qubits keys of <= 3 targets): QPUResult / SimulatorResult built directly and through Job.results()."""
    n, v = case
    bits = _bits_be(v, n)
    le = RI.bits_to_le_key(bits)
    nl = 0
    for targets in _TL[n]:
        rest = tuple(t for t in reversed(range(n)) if t not in targets)
        layout = [targets] + ([rest] if rest else [])
        md_dict = {f"k{j}": list(t) for j, t in enumerate(layout)}
        md = RI.encode_measurement_metadata([(k, t) for k, t in md_dict.items()])
        want = _key_value(bits, targets)
        want_rows = tuple(tuple(bits[t] for t in tg) for tg in layout)
        qpus = [("QPUResult", cirq_ionq.QPUResult({v: 2}, n, md_dict)),
                ("Job.results() [qpu]", cirq_ionq.Job(_FakeResultsClient({str(le): "1.0"}), _job_dict("qpu.aria-1", n, md, 2)).results())]
        for tag, res in qpus:
            tag = f"{tag} for outcome {bits} (qubit 0 first) on {n} qubits, key targets {list(targets)}"
            err = _check_qpu_views(res, n, [bits, bits], layout, tag)
            if err:
                return bad(err, kind="target_layout")
            if dict(res.counts("k0")) != {want: 2} or list(res.ordered_results("k0")) != [want, want]:
                return bad(f"{tag}: counts = {dict(res.counts('k0'))}, ordered_results = {res.ordered_results('k0')}, expected value {want}", kind="target_layout")
        sims = [("SimulatorResult", cirq_ionq.SimulatorResult({v: 1.0}, n, md_dict, repetitions=2)),
                ("Job.results() [simulator]", cirq_ionq.Job(_FakeResultsClient({str(le): 1.0}), _job_dict("simulator", n, md, 2)).results())]
        for tag, res in sims:
            tag = f"{tag} for outcome {bits} (qubit 0 first) on {n} qubits, key targets {list(targets)}"
            if dict(res.probabilities("k0")) != {want: 1.0}:
                return bad(f"{tag}: probabilities(k0) = {res.probabilities('k0')}, expected {{{want}: 1.0}}", kind="target_layout")
            dist, _ = _sim_distribution(res, layout, 2, False)
            if dist != {(want_rows, want_rows): 1.0}:
                return bad(f"{tag}: to_cirq_result rows {dist}, expected {want_rows} twice", kind="target_layout")
        nl += 1
    return good(nontrivial=0 < v < 2 ** n - 1, layouts=nl)


def run_loop_sampler(case):
    """cirq_ionq.Sampler.run_sweep with a parameterised circuit: one job per resolver, results in resolver order."""
    i = case
    a, b = sympy.Symbol("a"), sympy.Symbol("b")
    q = LQ.range(3)
    circuits = [
        (cirq.Circuit(cirq.X(q[0]) ** a, cirq.CNOT(q[0], q[2]), cirq.measure(q[2], q[0], key="m")), [("m", (2, 0), None)]),
        (cirq.Circuit(cirq.Y(q[1]) ** a, (cirq.XX ** b).on(q[1], q[0]), cirq.measure(q[0], key="x"), cirq.measure(q[1], key="y")), [("x", (0,), None), ("y", (1,), None)]),
        (cirq.Circuit(cirq.PauliStringPhasorGate(cirq.DensePauliString("XY"), exponent_neg=a).on(q[1], q[0]), cirq.measure(q[1], q[0], key="p")), [("p", (1, 0), None)]),
    ]
    circuit, meas = circuits[i]
    sweep = [{"a": 0.5, "b": 0.25}, {"a": 1.0, "b": 0.5}, {"a": 0.3, "b": 1.3}]
    n = _n_qubits(circuit)
    reps = 2 ** n
    api = FakeIonQApi(order_base=i)
    with _Patched(_ionq_client_mod, "requests", api):
        service = cirq_ionq.Service(remote_host="http://example.com", api_key="key")
        prng = ScriptedRandomState(None)
        sampler = service.sampler(target="simulator", seed=prng)
        rs = sampler.run_sweep(circuit, params=sweep, repetitions=reps)
    if len(rs) != len(sweep):
        return bad(f"run_sweep returned {len(rs)} results for {len(sweep)} resolvers", kind="loop_sampler")
    keys = [k for k, _, _ in meas]
    for j, (res, pr) in enumerate(zip(rs, sweep)):
        resolved = cirq.resolve_parameters(circuit, pr)
        gops = [op for op in resolved.all_operations() if not cirq.is_measurement(op)]
        exp = _born_records(gops, n, meas)
        got = _dist_from_recorded(prng, j, res, keys, reps)
        if not _cmp_dist(got, exp):
            return bad(f"Sampler.run_sweep resolver {pr}: record distribution {got} != {exp}", kind="loop_sampler")
        if {str(k): v for k, v in res.params.param_dict.items()} != pr:
            return bad(f"result {j} carries params {res.params} instead of {pr}", kind="loop_sampler")
    return good(nontrivial=True, runs=len(sweep))


# ------------------------------------------------------------------------------------------------------------------
# AQT


def build_aqt_letters(seed):
    """[(name, op, accepted: documented as supported by get_op_string / the sampler)] on LineQubits 0..2."""
    g = core.generic(seed)
    g1 = core.generic(seed, 1)
    a, b = sympy.Symbol("a"), sympy.Symbol("b")
    q = LQ.range(3)
    L = []

    def lab(v):
        return "g" if v is g else ("g1" if v is g1 else str(v))

    for e in (0.25, -0.5, 1, g, 2.5):
        for x in (0, 1, 2):
            L.append((f"Z^{lab(e)}({x})", (cirq.Z ** e).on(q[x]), True))
    L.append(("rz(g)(1)", cirq.rz(g1).on(q[1]), True))
    for e in (0.5, 1, -0.25, g):
        for p in (0, 0.5, 0.25, -0.5, g1):
            if (e, p) in ((0.5, 0.25), (g, g1)):
                xs = (0, 1, 2)
            else:
                xs = (2,) if p == 0.5 else (0,)
            for x in xs:
                L.append((f"PhX({lab(e)},{lab(p)})({x})", cirq.PhasedXPowGate(exponent=e, phase_exponent=p).on(q[x]), True))
    L.append(("PhX(g,g1;shift)(1)", cirq.PhasedXPowGate(exponent=g, phase_exponent=g1, global_shift=-0.5).on(q[1]), True))
    for e in (0.5, -0.25, g, 1):
        for x, y in ((0, 1), (1, 0), (0, 2), (2, 1)):
            L.append((f"XX^{lab(e)}({x},{y})", (cirq.XX ** e).on(q[x], q[y]), True))
    L.append(("ms(g)(0,1)", cirq.ms(g1).on(q[0], q[1]), True))
    L.append(("XX^g/shift(1,2)", cirq.XXPowGate(exponent=g, global_shift=-0.5).on(q[1], q[2]), True))
    # parameterised (resolved by the resolver handed to _generate_json)
    L.append(("Z^a(0)", (cirq.Z ** a).on(q[0]), True))
    L.append(("PhX(a,b)(1)", cirq.PhasedXPowGate(exponent=a, phase_exponent=b).on(q[1]), True))
    L.append(("XX^b(2,0)", (cirq.XX ** b).on(q[2], q[0]), True))
    # not in the AQT vocabulary: documented ValueError of get_op_string
    L.append(("X^g(0)", (cirq.X ** g).on(q[0]), False))
    L.append(("Y^g(1)", (cirq.Y ** g).on(q[1]), False))
    L.append(("X(2)", cirq.X(q[2]), False))
    L.append(("CZ(0,1)", cirq.CZ(q[0], q[1]), False))
    L.append(("YY^g(0,1)", (cirq.YY ** g).on(q[0], q[1]), False))
    L.append(("H(0)", cirq.H(q[0]), False))
    # measurements
    L.append(("M(0,1,2;m)", cirq.measure(q[0], q[1], q[2], key="m"), True))
    L.append(("M(1;x)", cirq.measure(q[1], key="x"), True))
    return L


AQT_RESOLVERS = [{"a": 0.3, "b": 0.7}, {"a": -1.25, "b": 0.5}]


def _aqt_sampler():
    return _aqt_sampler_mod.AQTSampler("workspace", "resource", "token")


def _aqt_core_indices():
    names = ("Z^0.25(0)", "Z^2.5(2)", "rz(g)(1)", "PhX(0.5,0.25)(0)", "PhX(0.5,0.25)(2)", "PhX(1,0)(0)", "PhX(-0.25,0.5)(2)", "XX^0.5(0,1)", "XX^0.5(1,0)",
             "XX^-0.25(2,1)", "ms(g)(0,1)", "Z^a(0)", "PhX(a,b)(1)", "XX^b(2,0)", "X^g(0)", "M(0,1,2;m)", "M(1;x)")
    L = _G["aqt"]
    idx = [i for i, l in enumerate(L) if l[0] in names or l[0].startswith("PhX(g,g1)") or l[0].startswith("Z^g") or l[0].startswith("XX^g(")]
    return idx


def aqt_cases(tier):
    n = len(_G["aqt"])
    out = [(s, r, pad) for pad in (0, 1) for r in range(len(AQT_RESOLVERS)) for s in [()] + [(i,) for i in range(n)]]
    out += [(s, 0, pad) for pad in (0, 1) for s in itertools.product(range(n), repeat=2)]
    idx = _aqt_core_indices()
    if tier == "thorough":
        out += [(s, 1, 1) for s in itertools.product(range(n), repeat=2)]
        out += [(s, 0, 1) for s in itertools.product(idx, repeat=3)]
    else:
        out += [(s, 0, 1) for s in itertools.product(idx[::2], repeat=3)]
    return out


def describe_aqt(case):
    seq, r, pad = case
    return {"letters": [_G["aqt"][i][0] for i in seq], "resolver": (AQT_RESOLVERS if r == 2 else AQT_RESOLVERS[r]), "padded": pad}


def _aqt_pad():
    """A generic layer touching qubits 0..2, so that the circuit uses a dense register (the AQT sampler declares
    number_of_qubits = len(circuit.all_qubits()))."""
    return [cirq.PhasedXPowGate(exponent=0.5, phase_exponent=0.25 * (x + 1)).on(LQ(x)) for x in range(3)]


def run_aqt(case):
    seq, ri, pad = case
    L = _G["aqt"]
    ops = (_aqt_pad() if pad else []) + [L[i][1] for i in seq]
    supported = all(L[i][2] for i in seq)
    resolver = AQT_RESOLVERS[ri]
    # keep program order: one op per moment (a measurement must stay where the user put it)
    circuit = cirq.Circuit([cirq.Moment([o]) for o in ops])
    is_meas = [cirq.is_measurement(o) for o in ops]
    n_meas = sum(is_meas)
    sampler = _aqt_sampler()
    names = (["pad"] if pad else []) + [L[i][0] for i in seq]
    try:
        js = sampler._generate_json(circuit, resolver)
    except ValueError as e:
        if supported:
            return bad(f"AQT: supported circuit {names} rejected by _generate_json: {e}", kind="aqt_rejected")
        return Res(skipped=True, nontrivial=False, counters={"rejected": 1})
    except RuntimeError as e:
        if not ops:
            return Res(skipped=True, nontrivial=False, counters={"rejected": 1})  # documented: empty circuit
        return bad(f"AQT: RuntimeError for non-empty circuit {names}: {e}", kind="aqt_rejected")
    except AttributeError as e:
        if n_meas:
            return bad(f"AQT: _generate_json crashes on a circuit containing a measurement ({names}): AttributeError: {e}. get_op_string documents "
                       f"MeasurementGate as supported, the 'Meas' op string is part of the documented JSON format and the AQT docs allow exactly "
                       f"one measurement at the end of the circuit.", kind="aqt_measurement_crash")
        raise
    if not supported:
        return bad(f"AQT: circuit {names} with a gate outside the AQT vocabulary was serialised: {js}", kind="aqt_altered")
    try:
        legacy = json.loads(js)
        lops, lmeas = RA.legacy_ops(legacy)
    except RA.PayloadRejected as e:
        if n_meas >= 2 or (n_meas == 1 and not is_meas[-1]):
            # the legacy list faithfully shows the misplaced measurement; the converter below has to refuse it
            lops, lmeas = None, n_meas
        else:
            return bad(f"AQT: legacy JSON {js} of {names} violates the documented format: {e}", kind="aqt_payload")
    nq = len(circuit.all_qubits())
    resolved = cirq.resolve_parameters(circuit, resolver)
    gate_ops = [o for o in resolved.all_operations() if not cirq.is_measurement(o)]
    legal_meas = n_meas == 0 or (n_meas == 1 and is_meas[-1])
    if lmeas != n_meas:
        return bad(f"AQT: legacy JSON {js} holds {lmeas} measurement entries, circuit has {n_meas}", kind="aqt_payload")
    try:
        arn = sampler._parse_legacy_circuit_json(js)
    except ValueError as e:
        if legal_meas:
            return bad(f"AQT: _parse_legacy_circuit_json refused {js} ({e}) although the measurement placement is legal", kind="aqt_parse")
        return Res(skipped=True, nontrivial=False, counters={"rejected_measurement_placement": 1})
    if not legal_meas:
        return bad(f"AQT: circuit {names} with {n_meas} measurement(s) not (only) at the end was converted to {arn} "
                   f"(documented ValueError)", kind="aqt_parse")
    max_idx = max(q.x for q in circuit.all_qubits())
    if max_idx >= nq:
        # the sampler declares number_of_qubits = len(all_qubits): the API / local simulator refuses the out-of-range index
        try:
            for m, w in lops:
                RI.expand(m, w, nq)
        except RI.PayloadRejected:
            return Res(skipped=True, nontrivial=False, counters={"api_would_reject_sparse": 1})
        # only the measurement touches the out-of-range qubit; AQT measures the whole (dense) register anyway
        return Res(skipped=True, nontrivial=False, counters={"sparse_measurement_only": 1})
    Uref = _ref_unitary(gate_ops, nq)
    U1 = RA.unitary(lops, nq)
    if not E.eq_up_to_phase(Uref, U1, ATOL):
        return bad(f"AQT: legacy JSON {js} does not implement {names} (resolver {resolver}): unitaries differ beyond phase", kind="aqt_unitary")
    try:
        aops = RA.arnica_ops(_json_roundtrip(arn))
    except RA.PayloadRejected as e:
        return bad(f"AQT: Arnica operation list {arn} violates the documented format: {e}", kind="aqt_payload")
    U2 = RA.unitary(aops, nq)
    if not E.eq_up_to_phase(Uref, U2, ATOL):
        return bad(f"AQT: Arnica operation list {arn} does not implement {names} (resolver {resolver})", kind="aqt_unitary")
    return good(nontrivial=len(gate_ops) >= 1, circuits=1)


# --- the legacy -> Arnica converter on hand-written legacy lists (the documented input of the old API) -----------------

LEGACY_ENTRIES = [["Z", 0.3, [0]], ["Z", -1.5, [2]], ["R", 0.5, 0.25, [1]], ["R", 1.0, 0.0, [0]], ["MS", 0.5, [0, 1]], ["MS", -0.2, [2, 0]],
                  ["Meas"], ["A", 1.0, [0]]]


def aqt_legacy_cases(tier):
    n = len(LEGACY_ENTRIES)
    out = []
    for r in (1, 2, 3) if tier == "quick" else (1, 2, 3, 4):
        out += list(itertools.product(range(n), repeat=r))
    return out


def run_aqt_legacy(case):
    seq = [LEGACY_ENTRIES[i] for i in case]
    js = json.dumps(seq)
    unknown = any(e[0] == "A" for e in seq)
    meas_pos = [i for i, e in enumerate(seq) if e[0] == "Meas"]
    legal = (not meas_pos or meas_pos == [len(seq) - 1])
    # an unknown op after a measurement may raise either documented ValueError
    try:
        arn = _aqt_sampler()._parse_legacy_circuit_json(js)
    except ValueError:
        if legal and not unknown:
            return bad(f"AQT: legal legacy list {js} refused", kind="aqt_parse")
        return Res(skipped=True, nontrivial=False)
    if not legal or unknown:
        return bad(f"AQT: legacy list {js} (misplaced measurement / unknown op) converted to {arn}", kind="aqt_parse")
    try:
        aops = RA.arnica_ops(_json_roundtrip(arn))
    except RA.PayloadRejected as e:
        return bad(f"AQT: converter output {arn} violates the documented Arnica format: {e}", kind="aqt_payload")
    lops, _ = RA.legacy_ops(seq)
    if not E.eq_up_to_phase(RA.unitary(lops, 3), RA.unitary(aops, 3), ATOL):
        return bad(f"AQT: converter changed the meaning of {js}: {arn}", kind="aqt_unitary")
    return good(nontrivial=len(lops) >= 1)


# --- local simulator sampler: exact distribution of the sampled rows under a scripted numpy PRNG ---------------------


class _ScriptedNumpyChoice:
    """Replaces numpy.random.choice while the AQT local simulator samples (it uses the global numpy PRNG): every
    draw becomes a choice point of the explorer, weighted with the probability vector the simulator itself computed."""

    def __init__(self, chooser):
        self.ch = chooser
        self.calls = 0

    def __call__(self, a, size=None, replace=True, p=None):
        n = int(a) if isinstance(a, (int, np.integer)) else len(a)
        if p is None:
            raise core.HarnessError("unexpected un-weighted numpy.random.choice call")
        pv = np.asarray(p, dtype=float)
        k = 1 if size is None else int(np.prod(size))
        if k != 1:
            raise core.HarnessError(f"vectorised draw of size {size}")
        self.calls += 1
        opts = [i for i in range(n) if pv[i] > 1e-9]
        c = self.ch.choose(len(opts), f"npchoice{n}", weights=[pv[i] for i in opts])
        i = opts[c]
        v = i if isinstance(a, (int, np.integer)) else a[i]
        return v if size is None else np.array([v]).reshape(size)


def aqt_local_cases(tier):
    L = _G["aqt"]
    gate_idx = [i for i, l in enumerate(L) if l[2] and not cirq.is_measurement(l[1])]
    idx = [i for i in _aqt_core_indices() if i in gate_idx]
    out = [((i,), r, pad) for pad in (0, 1) for i in gate_idx for r in range(len(AQT_RESOLVERS))]
    out += [(s, 0, pad) for pad in (0, 1) for s in itertools.product(idx, repeat=2)]
    # an explicit terminal measurement (documented as allowed): the result is still key 'm' over the whole register
    meas_idx = [i for i, l in enumerate(L) if cirq.is_measurement(l[1])]
    out += [((i, mi), 0, 1) for i in idx for mi in meas_idx]
    # UN-padded circuits whose register (qubits 0..2) is spanned only by the explicit terminal measurement of all
    # qubits: qubits without any gate (idle first / middle / last qubit, the all-idle register) must still be
    # reported -- key 'm' over the whole register, column i = qubit i.  Resolver index 2 = sweep over both resolvers.
    m_all = [i for i in meas_idx if len(L[i][1].qubits) == 3][0]
    out += [((m_all,), r, 0) for r in (0, 2)]
    out += [((i, m_all), r, 0) for i in gate_idx for r in (0, 1, 2)]
    out += [((i, j, m_all), 2, 0) for i in idx for j in idx]
    if tier == "thorough":
        out += [(s, 1, 1) for s in itertools.product(gate_idx, repeat=2)]
        out += [(s, 0, 1) for s in itertools.product(idx[::2], repeat=3)]
    return out


def run_aqt_local(case):
    seq, ri, pad = case
    L = _G["aqt"]
    ops = (_aqt_pad() if pad else []) + [L[i][1] for i in seq]
    names = (["pad"] if pad else []) + [L[i][0] for i in seq]
    resolvers = list(AQT_RESOLVERS) if ri == 2 else [AQT_RESOLVERS[ri]]
    circuit = cirq.Circuit(ops)
    nq = len(circuit.all_qubits())
    dense = max(q.x for q in circuit.all_qubits()) < nq
    sampler = _aqt_sampler_mod.AQTSamplerLocalSimulator(simulate_ideal=True)
    has_meas = any(cirq.is_measurement(o) for o in ops)

    def run(ch):
        with _Patched(np.random, "choice", _ScriptedNumpyChoice(ch)):
            try:
                return sampler.run_sweep(circuit, params=resolvers, repetitions=1)
            except (AttributeError, KeyError) as e:
                if has_meas:
                    return e
                raise

    if not dense:
        try:
            run(None)
        except IndexError:
            return Res(skipped=True, nontrivial=False, counters={"sparse_rejected": 1})
        return bad(f"AQT local simulator ran circuit {names} whose qubit indices exceed the declared qubit count {nq}", kind="aqt_local")
    got = [collections.defaultdict(float) for _ in resolvers]
    npaths = 0
    for ch, results in explore(run, max_paths=4096):
        npaths += 1
        if isinstance(results, Exception):
            return bad(f"AQT local simulator crashes on a circuit with one terminal measurement ({names}): {type(results).__name__}: {results}. "
                       f"The AQT docs allow exactly one measurement at the end of the circuit.", kind="aqt_measurement_crash")
        if len(results) != len(resolvers):
            return bad(f"AQT local simulator: {len(resolvers)} resolvers -> {len(results)} results", kind="aqt_local")
        for j, res in enumerate(results):
            if set(res.measurements) != {"m"}:
                return bad(f"AQT local simulator: expected exactly the key 'm', got {set(res.measurements)} for {names}", kind="aqt_local")
            m = res.measurements["m"]
            if m.shape != (1, nq):
                return bad(f"AQT local simulator: 'm' has shape {m.shape} for circuit {names} on a register of {nq} qubits; the documented contract "
                           f"is one column per qubit of the register (column i = qubit i), expected {(1, nq)}", kind="aqt_local")
            got[j][tuple(int(x) for x in m[0])] += ch.weight  # marginal of resolver j over the other resolvers' draws
            if dict(res.params.param_dict) and {str(k_): v for k_, v in res.params.param_dict.items()} != resolvers[j]:
                return bad(f"AQT local simulator: result {j} carries params {res.params}, expected {resolvers[j]}", kind="aqt_local")
    nontrivial = False
    for j, resolver in enumerate(resolvers):
        resolved = cirq.resolve_parameters(circuit, resolver)
        U = _ref_unitary([o for o in resolved.all_operations() if not cirq.is_measurement(o)], nq)
        exp = {}
        for i in range(2 ** nq):
            p = float(abs(U[i, 0]) ** 2)
            if p > 1e-9:
                exp[_bits_be(i, nq)] = p
        if not _cmp_dist(dict(got[j]), exp, atol=2e-5):
            return bad(f"AQT local simulator: distribution of sampled rows (column i = qubit i) {dict(got[j])} != Born distribution {exp} "
                       f"for {names} / {resolver}", kind="aqt_local")
        nontrivial = nontrivial or len(exp) >= 2
    return good(nontrivial=nontrivial or len(resolvers) > 1, paths=npaths)


# ------------------------------------------------------------------------------------------------------------------
# Pasqal


def build_pasqal_letters(seed):
    g = core.generic(seed)
    a = sympy.Symbol("a")
    q3 = [cirq_pasqal.ThreeDQubit(0, 0, 0), cirq_pasqal.ThreeDQubit(1, 0, 0), cirq_pasqal.ThreeDQubit(0, 1, 1)]
    q2 = [cirq_pasqal.TwoDQubit(0, 0), cirq_pasqal.TwoDQubit(1, 0), cirq_pasqal.TwoDQubit(0, 1)]
    qn = [cirq.NamedQubit("q0"), cirq.NamedQubit("q1"), cirq.NamedQubit("q2")]
    out = {}
    for tag, q in (("3d", q3), ("2d", q2), ("named", qn)):
        L = [
            ("X^g(0)", (cirq.X ** g).on(q[0])), ("Y^0.5(1)", (cirq.Y ** 0.5).on(q[1])), ("Z^a(2)", (cirq.Z ** a).on(q[2])), ("H(0)", cirq.H(q[0])),
            ("PhX(a,.3)(1)", cirq.PhasedXPowGate(exponent=a, phase_exponent=0.3).on(q[1])), ("CZ(0,1)", cirq.CZ(q[0], q[1])),
            ("CZ(2,0)", cirq.CZ(q[2], q[0])), ("CNOT(1,2)", cirq.CNOT(q[1], q[2])), ("CCX(0,1,2)", cirq.CCX(q[0], q[1], q[2])),
            ("CCZ(2,1,0)", cirq.CCZ(q[2], q[1], q[0])), ("I(1)", cirq.I(q[1])), ("par(X^g)(0,2)", cirq.ParallelGate(cirq.X ** g, 2).on(q[0], q[2])),
            ("M(2,0;m)", cirq.measure(q[2], q[0], key="m")), ("M(1;b)", cirq.measure(q[1], key="b")),
        ]
        out[tag] = (q, L)
    return out


PASQAL_RESOLVERS = [{"a": 0.25}, {"a": -1.5}]


class FakePasqalApi:
    """requests-level fake: records the submitted body/headers and answers with a result that encodes, for every
    measurement key of the submitted circuit, the (row, column) of each bit."""

    def __init__(self):
        self.bodies = []
        self.headers = []
        self.results = {}
        self.polls = 0

    def post(self, url, headers=None, data=None, **kw):
        self.bodies.append(data)
        self.headers.append(dict(headers or {}))
        tid = f"task{len(self.bodies)}"
        circuit = cirq.read_json(json_text=data)
        reps = int(headers["Repetitions"])
        meas = {}
        for op in circuit.all_operations():
            if cirq.is_measurement(op):
                key = cirq.measurement_key_name(op)
                k = len(op.qubits)
                meas[key] = np.array([[(r + c + len(key)) % 2 for c in range(k)] for r in range(reps)], dtype=np.int8)
        self.results[tid] = cirq.to_json(cirq.ResultDict(params=cirq.ParamResolver({}), measurements=meas))
        return _Resp(tid)

    def get(self, url, headers=None, **kw):
        tid = url.rsplit("/", 1)[1]
        self.polls += 1
        if self.polls % 2 == 1:
            return _Resp("")  # not ready yet: the sampler polls again
        return _Resp(self.results[tid])


def pasqal_cases(tier):
    out = []
    n = 14
    for tag in ("3d", "2d", "named"):
        for r in range(len(PASQAL_RESOLVERS)):
            for i in range(n):
                out.append((tag, (i,), r))
        for s in itertools.product(range(n), repeat=2):
            out.append((tag, s, 0))
        if tier == "thorough":
            for s in itertools.product(range(n), repeat=3):
                out.append((tag, s, 1))
    return out


def run_pasqal(case):
    tag, seq, ri = case
    qubits, L = _G["pasqal"][tag]
    ops = [L[i][1] for i in seq]
    names = [L[i][0] for i in seq]
    resolver = PASQAL_RESOLVERS[ri]
    is_meas = [cirq.is_measurement(o) for o in ops]
    n_gates = len(ops) - sum(is_meas)
    trailing = all(is_meas[n_gates:]) and not any(is_meas[:n_gates])
    distinct = len(set(seq[n_gates:])) == len(seq[n_gates:])
    if trailing and distinct and n_gates < len(ops):
        circuit = cirq.Circuit([cirq.Moment([o]) for o in ops[:n_gates]] + [cirq.Moment(ops[n_gates:])])
    else:
        circuit = cirq.Circuit([cirq.Moment([o]) for o in ops])
    if tag == "named":
        device = cirq_pasqal.PasqalDevice(qubits)
        gates_ok = True
    else:
        device = cirq_pasqal.PasqalVirtualDevice(control_radius=2.0, qubits=qubits)
        gates_ok = not any(n.startswith(("CNOT", "CCX", "CCZ")) for n in names)
    legal = trailing and distinct and gates_ok
    sampler = cirq_pasqal.PasqalSampler(remote_host="http://pasqal.example", access_token="tok", device=device)
    body = sampler._serialize_circuit(circuit, resolver)
    back = cirq.read_json(json_text=body)
    resolved = cirq.resolve_parameters(circuit, resolver)
    if back != resolved:
        return bad(f"Pasqal: request body does not read back as the resolved circuit\nsent: {resolved!r}\nread: {back!r}", kind="pasqal_body")
    if cirq.is_parameterized(back):
        return bad(f"Pasqal: request body still parameterised: {back!r}", kind="pasqal_body")
    gate_ops = [o for o in back.all_operations() if not cirq.is_measurement(o)]
    ref_ops = [o for o in resolved.all_operations() if not cirq.is_measurement(o)]
    if gate_ops:
        U1 = cirq.Circuit(gate_ops).unitary(qubit_order=qubits)
        U2 = cirq.Circuit(ref_ops).unitary(qubit_order=qubits)
        if not E.eq_exact(U2, U1, 1e-9):
            return bad(f"Pasqal: unitary of the request body differs from the circuit's: {names}", kind="pasqal_body")
    meas_ops = [o for o in ops if cirq.is_measurement(o)]
    api = FakePasqalApi()
    reps = 3
    with _Patched(_pasqal_sampler_mod, "requests", api), _Patched(_pasqal_sampler_mod.time, "sleep", lambda s: None):
        try:
            rs = sampler.run_sweep(circuit, params=[resolver, PASQAL_RESOLVERS[1 - ri]], repetitions=reps)
        except ValueError as e:
            if legal:
                return bad(f"Pasqal: legal circuit {names} refused by the device validation: {e}", kind="pasqal_validate")
            return Res(skipped=True, nontrivial=False, counters={"rejected": 1})
    if len(rs) != 2 or len(api.bodies) != 2:
        return bad(f"Pasqal: 2 resolvers -> {len(rs)} results / {len(api.bodies)} submissions", kind="pasqal_sweep")
    for j, r_ in enumerate((resolver, PASQAL_RESOLVERS[1 - ri])):
        if cirq.read_json(json_text=api.bodies[j]) != cirq.resolve_parameters(circuit, r_):
            return bad(f"Pasqal: submission {j} is not the circuit resolved with {r_}", kind="pasqal_sweep")
        if api.headers[j].get("Repetitions") != str(reps) or api.headers[j].get("Authorization") != "tok":
            return bad(f"Pasqal: headers {api.headers[j]}", kind="pasqal_sweep")
        want = {}
        for o in meas_ops:
            key = cirq.measurement_key_name(o)
            want[key] = [[(r + c + len(key)) % 2 for c in range(len(o.qubits))] for r in range(reps)]
        got = {k: np.asarray(v).tolist() for k, v in rs[j].measurements.items()}
        if got != want:
            return bad(f"Pasqal: decoded result {got} != what the API sent {want}", kind="pasqal_result")
    return good(nontrivial=len(ops) >= 1, circuits=2)


# ------------------------------------------------------------------------------------------------------------------


def stages(tier, seed):
    _init(seed)
    reset = lambda: _init(seed)
    jb_cases, _ = job_batch_cases()
    return [
        CaseStage("ionq_letters", letter_cases(tier), run_letter, reset=reset, describe=describe_letter),
        CaseStage("ionq_measurement_layouts", layout_cases(), run_layout, reset=reset,
                  describe=lambda c: {"layout": _G["layouts"][c[0]].name, "prefix": c[1]}),
        CaseStage("ionq_misc_contracts", misc_cases(), run_misc, reset=reset),
        CaseStage("ionq_sequences", seq_cases(tier), run_seq, reset=reset, describe=describe_seq),
        CaseStage("ionq_batches", batch_cases(tier), run_batch, reset=reset, describe=describe_batch),
        CaseStage("ionq_qpu_results", qpu_cases(tier), run_qpu_hist, reset=reset),
        CaseStage("ionq_simulator_results", sim_cases(tier), run_sim_hist, reset=reset),
        CaseStage("ionq_simulator_normalisation", [0, 1, 2], run_sim_normalisation, reset=reset),
        CaseStage("ionq_job_batches", jb_cases, run_job_batch, reset=reset),
        CaseStage("ionq_service_loop", loop_cases(tier), run_loop, reset=reset,
                  describe=lambda c: {"target": c[0], "letters": [(_G["seq_qis"] if c[1] == "q" else _G["seq_native"])[i][0] for i in c[2]],
                                      "layout": _G["layouts"][c[3]].name}),
        CaseStage("ionq_sampler_sweep_loop", [0, 1, 2], run_loop_sampler, reset=reset),
        CaseStage("ionq_batch_loop", batch_loop_cases(tier), run_batch_loop, reset=reset,
                  describe=lambda c: {"target": c[0], "circuits": [build_batch_loop_pool()[i][0] for i in c[1]], "child_id_order": c[2]}),
        CaseStage("ionq_target_layouts", target_layout_cases(), run_target_layouts, reset=reset),
        CaseStage("aqt_payloads", aqt_cases(tier), run_aqt, reset=reset, describe=describe_aqt),
        CaseStage("aqt_legacy_converter", aqt_legacy_cases(tier), run_aqt_legacy, reset=reset),
        CaseStage("aqt_local_simulator", aqt_local_cases(tier), run_aqt_local, reset=reset, describe=describe_aqt),
        CaseStage("pasqal_body_and_results", pasqal_cases(tier), run_pasqal, reset=reset),
    ]
