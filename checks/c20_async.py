"""C20 -- asynchronous job orchestration resolves every job exactly once.

All drivers run the REAL coroutines single-threaded under schedulers owned by the explorer:

A  Collector.collect_async on the real duet scheduler: at every quiescent point (duet flushes the
   BufferedFutures the tasks wait on) the explorer picks the next environment event (complete /
   fail one of the pending sampler jobs; deviations: two completions in one quiescent point,
   completion arriving while the dispatch loop is mid-iteration).
B  StreamManager on a virtual asyncio loop (mc.vloop) against a stateful model Quantum Engine
   server: events = submit / server processes a received request / deliver a ready response /
   retryable or fatal stream break / server-sent non-retryable StreamError / cancel / stop, at
   quiescent points, and (deviation) between any two loop handles.
C  retry-protocol closure: explicit-state BFS to a fixpoint over (server, client) states of one job.
D  Sampler.run_batch_async / ProcessorSampler.run_batch_async on duet with explorer-owned completions.
E  ResponseDemux call sequences and the retry table, enumerated exhaustively.
Every schedule is executed on the implementation itself (traces_validated_against_impl = schedules).
"""
from __future__ import annotations

import asyncio
import collections
import gc
import hashlib
import inspect
import itertools

import duet
import duet.impl as duet_impl
from duet.futuretools import BufferedFuture
import google.api_core.exceptions as gex

import cirq
import cirq_google
from cirq_google.cloud import quantum
from cirq_google.engine import stream_manager as sm
from cirq_google.engine.asyncio_executor import AsyncioExecutor

from mc import core
from mc.core import CaseStage, CustomStage, Res, StageResult, bad, good
from mc.choices import Chooser, explore
from mc import vloop

PROPERTY = "C20"
LEVEL = "model_checking"
TECHNIQUE = ("stateless DFS over ALL schedules/fault placements of the real coroutines under controlled schedulers "
             "(virtual asyncio loop, duet quiescence hook), deviation-bounded; explicit-state BFS closure of the retry protocol")
LEVEL_TEXT = ("The real Collector / StreamManager / run_batch coroutines are executed single-threaded; the explorer owns every "
              "source of nondeterminism (which pending job completes, which request the model server handles, which response is "
              "delivered, where the stream breaks, where cancel/stop land, between which two loop handles an event is injected) and "
              "enumerates all choice sequences within the stated budgets; invariants (exactly-once delivery to the right party, "
              "concurrency/budget limits, convergence after retryable faults, surfacing of non-retryable ones, cancel semantics, "
              "no deadlock/livelock, no leaked task) are evaluated on every execution. The retry protocol of one job is closed "
              "to a fixpoint. Bounded by jobs/fault/deviation budgets; OS-thread data races are outside (cooperative schedulers).")
LEVEL_NOTE = ("environment contract of the stream = the repo's own FakeQuantumRunStream (requests are read until the sentinel, a raised "
              "exception ends the response iterator); model server answers per the documented create/get semantics; duet and asyncio "
              "are trusted; the production asyncio thread is replaced by a virtual loop stepped by the explorer")
RULE = ("schedules = all sequences of environment choices at quiescent points (+ deviation-bounded injections between handles); "
        "a schedule is non-trivial when >=2 environment choice points had >=2 options; distinct = distinct choice sequences; "
        "states = distinct canonical (server, client) snapshots at choice points; transitions = environment events executed")
ASSUMPTIONS = [
    "stream environment contract as in cirq_google/engine/stream_manager_test.FakeQuantumRunStream",
    "cooperative scheduling at asyncio-handle / duet-tick granularity (no bytecode-level thread interleavings)",
    "duet, asyncio, protobuf are trusted",
]

Code = quantum.StreamError.Code
PROJECT = "projects/p"
PROGRAM = "projects/p/programs/prog"


def job_name(k):
    return f"{PROGRAM}/jobs/j{k}"


# =============================================================================================
# Driver B: StreamManager under the virtual loop


class Stream:
    def __init__(self, n):
        self.n = n
        self.inbox = []
        self.outbox = []
        self.q = None
        self.alive = True
        self.reader = None
        self.ended = False
        self.ids = []


class ModelServer:
    """Boring reference model of the Quantum Engine streaming service."""

    def __init__(self, pre_prog=False, pre_jobs=(), failing=()):
        self.progs = set()
        self.jobs = {}
        self.streams = []
        self.cancels = []
        self.creates = collections.Counter()
        self.requests_seen = collections.Counter()  # job name -> number of requests read (any stream)
        self.lost = 0
        self.orphans = []  # requests received before a stream break, still to be processed by the service (no response)
        self.failing = set(failing)
        if pre_prog:
            self.progs.add(PROGRAM)
        for k in pre_jobs:
            self.progs.add(PROGRAM)
            self.jobs[job_name(k)] = "created"

    async def quantum_run_stream(self, requests, **kw):
        st = Stream(len(self.streams))
        st.q = asyncio.Queue()
        self.streams.append(st)

        async def reader():
            async for r in requests:
                st.ids.append(r.message_id)
                self.requests_seen[_req_job(r)] += 1
                if st.alive:
                    st.inbox.append(r)
                else:
                    self.lost += 1
            st.ended = True
            if st.alive:
                st.q.put_nowait(None)

        async def responses():
            st.reader = asyncio.get_running_loop().create_task(reader())
            while True:
                m = await st.q.get()
                if m is None:
                    st.alive = False
                    return
                if isinstance(m, BaseException):
                    st.alive = False
                    raise m
                yield m

        return responses()

    async def cancel_quantum_job(self, req):
        self.cancels.append(req.name)

    def process(self, st, i, forced_error=None, choose=None, orphan=False):
        r = self.orphans.pop(i) if orphan else st.inbox.pop(i)
        kind = r._pb.WhichOneof("request")
        R = quantum.QuantumRunStreamResponse

        def err(c):
            return R(message_id=r.message_id, error=quantum.StreamError(code=c, message=f"{Code(c).name}"))

        def done(jn):
            if jn in self.failing:
                return R(message_id=r.message_id, job=quantum.QuantumJob(name=jn))
            return R(message_id=r.message_id, result=quantum.QuantumResult(parent=jn))

        if forced_error is not None:
            out = err(forced_error)
        elif kind == "create_quantum_program_and_job":
            pn = r.create_quantum_program_and_job.quantum_program.name
            jn = r.create_quantum_program_and_job.quantum_job.name
            if pn in self.progs:
                # when both exist the service may name either: the explorer decides
                if jn in self.jobs and choose is not None and choose(2, "srv-both-exist") == 1:
                    out = err(Code.JOB_ALREADY_EXISTS)
                else:
                    out = err(Code.PROGRAM_ALREADY_EXISTS)
            else:
                self.progs.add(pn)
                self.jobs[jn] = "created"
                self.creates[jn] += 1
                out = done(jn)
        elif kind == "create_quantum_job":
            pn = r.create_quantum_job.parent
            jn = r.create_quantum_job.quantum_job.name
            if pn not in self.progs:
                out = err(Code.PROGRAM_DOES_NOT_EXIST)
            elif jn in self.jobs:
                out = err(Code.JOB_ALREADY_EXISTS)
            else:
                self.jobs[jn] = "created"
                self.creates[jn] += 1
                out = done(jn)
        elif kind == "get_quantum_result":
            jn = r.get_quantum_result.parent
            out = done(jn) if jn in self.jobs else err(Code.JOB_DOES_NOT_EXIST)
        else:
            raise core.HarnessError(f"unknown request kind {kind}")
        if not orphan:
            st.outbox.append(out)
        return kind


def _req_job(r):
    kind = r._pb.WhichOneof("request")
    if kind == "create_quantum_program_and_job":
        return r.create_quantum_program_and_job.quantum_job.name
    if kind == "create_quantum_job":
        return r.create_quantum_job.quantum_job.name
    return r.get_quantum_result.parent


def _req_kind(r):
    return {"create_quantum_program_and_job": "CPJ", "create_quantum_job": "CJ", "get_quantum_result": "GR"}[r._pb.WhichOneof("request")]


RETRYABLE = [gex.ServiceUnavailable, gex.InternalServerError, gex.Unknown]


ORIG_DEMUX = sm.ResponseDemux


class RecordingDemux(ORIG_DEMUX):
    """Same behaviour; additionally remembers which task subscribed to which future (harness bookkeeping only:
    lets the harness tell whether an execution coroutine had a live subscription when stop() was called)."""

    instances = []

    def __init__(self):
        super().__init__()
        self.by_task = {}
        RecordingDemux.instances.append(self)

    def subscribe(self, message_id):
        fut = super().subscribe(message_id)
        try:
            self.by_task[asyncio.current_task()] = fut
        except RuntimeError:
            pass
        return fut


class Scenario:
    def __init__(self, njobs=1, pre_prog=False, pre_jobs=(), failing=(), breaks=1, fatal=0, srverr=0, cancel=0, stop=0,
                 deviations=0, resubmit_after_stop=False, retry_exc=0, submit_all_first=False, late=False):
        self.__dict__.update(locals())
        del self.__dict__["self"]

    def key(self):
        return tuple(sorted((k, v) for k, v in self.__dict__.items()))


class StreamRun:
    """One execution of the StreamManager harness under a Chooser."""

    HORIZON = 60

    def __init__(self, sc: Scenario, ch: Chooser):
        self.sc = sc
        self.ch = ch
        self.loop = vloop.VLoop()
        vloop.install(self.loop)
        AsyncioExecutor._instance = vloop.VExecutor(self.loop)
        self.loop_excs = []
        self.loop.set_exception_handler(lambda l, ctx: self.loop_excs.append(ctx))
        self.srv = ModelServer(sc.pre_prog, sc.pre_jobs, sc.failing)
        RecordingDemux.instances = []
        sm.ResponseDemux = RecordingDemux
        self.mgr = sm.StreamManager(self.srv)
        self.futs = {}
        self.expected = {}  # k -> 'result' | 'cancelled' | 'fatal' | 'streamerror' | 'fatal_or_result' | 'streamerror_or_cancelled'...
        self.cancel_strict = {}  # k -> True when cancel landed at a quiescent point
        self.budget = dict(breaks=sc.breaks, fatal=sc.fatal, srverr=sc.srverr, cancel=sc.cancel, stop=sc.stop)
        self.next_submit = 0
        self.total_jobs = sc.njobs
        self.stopped = False
        self.events = []
        self.snapshots = set()
        self.violation = None
        self.max_manage_tasks = 0
        self.forced_error_responses = {}  # id(response) -> job name, for server-sent non-retryable errors
        self.stop_raced = set()  # jobs whose execution coroutine had not started when stop() was called
        self.program = quantum.QuantumProgram(name=PROGRAM)

    # -- events -------------------------------------------------------------------------------
    def live_stream(self):
        if self.srv.streams and self.srv.streams[-1].alive:
            return self.srv.streams[-1]
        return None

    def pending(self):
        return [k for k, f in self.futs.items() if not f.done()]

    def enabled(self, quiescent=True):
        ev = []
        st = self.live_stream()
        if self.next_submit < self.total_jobs and (quiescent or True):
            ev.append(("submit", self.next_submit))
        if self.sc.submit_all_first and self.next_submit < self.total_jobs:
            return ev, []
        if st is not None:
            ev += [("proc", i) for i in range(len(st.inbox))]
            ev += [("deliver", i) for i in range(len(st.outbox))]
        opt = []
        if self.sc.late:
            opt += [("proc_orphan", i) for i in range(len(self.srv.orphans))]
        if st is not None and self.pending():
            if self.budget["breaks"] > 0:
                opt.append(("break", 0))
            if self.budget["fatal"] > 0:
                opt.append(("fatal", 0))
            if self.budget["srverr"] > 0:
                opt += [("srverr", i) for i in range(len(st.inbox))]
        if self.budget["cancel"] > 0:
            opt += [("cancel", k) for k in self.pending()]
        if self.budget["stop"] > 0 and self.futs and not self.stopped:
            opt.append(("stop", 0))
        return ev, opt

    def fire(self, e, quiescent):
        kind, arg = e
        self.events.append(e if quiescent else ("dev",) + e)
        st = self.live_stream()
        if kind == "submit":
            k = arg
            self.futs[k] = self.mgr.submit(PROJECT, self.program, quantum.QuantumJob(name=job_name(k)))
            self.expected[k] = "result"
            self.next_submit += 1
        elif kind == "proc":
            self.srv.process(st, arg, choose=self.ch.choose)
        elif kind == "proc_orphan":
            self.srv.process(None, arg, choose=self.ch.choose, orphan=True)
        elif kind == "deliver":
            resp = st.outbox.pop(arg)
            jn = self.forced_error_responses.pop(id(resp), None)
            if jn is not None:
                for k in self.futs:
                    if job_name(k) == jn and self.expected[k] == "result":
                        self.expected[k] = "streamerror" if quiescent else "streamerror_or_result"
            st.q.put_nowait(resp)
        elif kind == "break":
            self.budget["breaks"] -= 1
            exc = RETRYABLE[self.sc.retry_exc % 3]("stream broke")
            st.q.put_nowait(exc)
            st.alive = False
            self.srv.lost += len(st.inbox) + len(st.outbox)
            if self.sc.late:
                self.srv.orphans.extend(st.inbox)  # received before the break: may still be processed later
            st.inbox.clear()
            st.outbox.clear()
        elif kind == "fatal":
            self.budget["fatal"] -= 1
            st.q.put_nowait(gex.PermissionDenied("no"))
            st.alive = False
            st.inbox.clear()
            st.outbox.clear()
            for k in self.pending():
                if self.expected[k] == "result":
                    self.expected[k] = "fatal" if quiescent else "fatal_or_result"
        elif kind == "srverr":
            self.budget["srverr"] -= 1
            r = st.inbox[arg]
            jn = _req_job(r)
            self.srv.process(st, arg, forced_error=Code.INVALID_ARGUMENT)
            # the error only reaches the client if this response is delivered (a stream break may lose it)
            self.forced_error_responses[id(st.outbox[-1])] = jn
        elif kind == "cancel":
            self.budget["cancel"] -= 1
            self.futs[arg].cancel()
            self.expected[arg] = "cancelled"
            self.cancel_strict[arg] = quiescent
        elif kind == "stop":
            self.budget["stop"] -= 1
            pend = self.pending()
            for k in pend:
                task = self.futs[k].task
                subscribed = any((f := d.by_task.get(task)) is not None and not f.done() for d in RecordingDemux.instances)
                if inspect.getcoroutinestate(task.get_coro()) == inspect.CORO_CREATED or not subscribed:
                    # stop() cannot reach an execution coroutine that has no live subscription (not started yet,
                    # or between a received response and its retry request): the known submit/stop finding
                    self.stop_raced.add(k)
            self.mgr.stop()
            self.stopped = True
            for k in pend:
                if self.expected[k] in ("result", "streamerror"):
                    # a response may already be on its way to the coroutine (deviation): either outcome then
                    self.expected[k] = "cancelled" if quiescent else "cancelled_or_" + self.expected[k]
                elif self.expected[k] in ("fatal", "fatal_or_result"):
                    self.expected[k] = "cancelled_or_fatal"
                self.cancel_strict.setdefault(k, quiescent)
            if self.sc.resubmit_after_stop:
                self.total_jobs += 1
        else:
            raise core.HarnessError(f"unknown event {e}")

    # -- snapshots / invariants at choice points -------------------------------------------------
    def snapshot(self):
        st = self.live_stream()
        snap = (
            tuple(sorted(self.srv.progs)), tuple(sorted(self.srv.jobs.items())),
            tuple((_req_kind(r), _req_job(r)[-2:]) for r in st.inbox) if st else None,
            tuple((o._pb.WhichOneof("response"), o.message_id) for o in st.outbox) if st else None,
            tuple(sorted((k, f.done()) for k, f in self.futs.items())),
            tuple(sorted(self.budget.items())), self.next_submit, self.stopped, len(self.srv.streams),
            tuple(_req_kind(r) for r in self.srv.orphans),
        )
        self.snapshots.add(hashlib.blake2b(repr(snap).encode(), digest_size=8).digest())
        n_manage = sum(1 for t in self.loop.live_tasks() if getattr(t.get_coro(), "__name__", "") == "_manage_stream")
        self.max_manage_tasks = max(self.max_manage_tasks, n_manage)
        if n_manage > 1 and self.violation is None:
            self.violation = f"{n_manage} _manage_stream tasks alive at once"

    # -- main loop -------------------------------------------------------------------------------
    def run(self):
        dev_left = self.sc.deviations
        steps = 0
        # the first submission is not a choice
        self.fire(("submit", 0), True)
        while True:
            # run the loop to quiescence; with deviation budget, an environment event may be injected between handles
            while True:
                if dev_left > 0 and self.loop.ready_count() > 0:
                    must, opt = self.enabled(quiescent=False)
                    cand = must + opt
                    # option 0 = run the next handle (no deviation); others cost one deviation
                    c = self.ch.choose(1 + len(cand), "handle", costs=[0] + [1] * len(cand))
                    if c == 0:
                        self.loop.step()
                    else:
                        dev_left -= 1
                        self.fire(cand[c - 1], False)
                else:
                    if not self.loop.step():
                        break
                steps += 1
                if steps > 20000:
                    return self.finish("LIVELOCK: loop never quiesces")
            self.snapshot()
            if self.next_submit >= self.total_jobs and not self.pending():
                return self.finish(None)
            must, opt = self.enabled(quiescent=True)
            if not must:
                # nothing in flight but a future is still pending: lost request / lost wake-up
                pat = "stop_before_execution_started" if set(self.pending()) <= self.stop_raced else "deadlock"
                return self.finish(f"DEADLOCK: futures {self.pending()} pending, no request in flight, nothing to deliver "
                                   f"(only fault events {opt} remain)", pattern=pat)
            cand = must + opt
            c = self.ch.choose(len(cand), "env")
            self.fire(cand[c], True)
            if len(self.events) > self.HORIZON:
                return self.finish("HORIZON: no termination within event horizon (livelock)")

    def finish(self, problem, pattern=None):
        out = {"problem": problem, "events": list(self.events), "pattern": pattern or "invariant"}
        if problem is None:
            problem = self.check_outcomes()
        # teardown: stop must leave no live task
        try:
            self.mgr.stop()
            self.loop.quiesce()
        except Exception as e:  # noqa
            problem = problem or f"stop() at teardown raised {type(e).__name__}: {e}"
        live = self.loop.live_tasks()
        if live and problem is None:
            names = [getattr(t.get_coro(), "__qualname__", "?") for t in live]
            problem = f"tasks still pending after stop(): {names}"
        # retrieve results so that nothing is reported as never-retrieved, then collect garbage
        for f in self.futs.values():
            if f.done() and not f.cancelled():
                f.exception()
        gc.collect(1)
        if self.loop_excs and problem is None:
            problem = f"asyncio exception handler saw: {[str(c.get('message')) + ' ' + repr(c.get('exception')) for c in self.loop_excs][:3]}"
        if self.violation and problem is None:
            problem = self.violation
        vloop.uninstall()
        try:
            self.loop.close()
        except Exception:
            pass
        out["problem"] = problem
        out["snapshots"] = self.snapshots
        out["outcomes"] = self.outcome_summary()
        return out

    def outcome_of(self, k):
        f = self.futs[k]
        if not f.done():
            return ("pending",)
        if f.cancelled():
            return ("cancelled",)
        e = f.exception()
        if e is not None:
            if isinstance(e, sm.StreamError):
                return ("streamerror", str(e))
            if isinstance(e, gex.GoogleAPICallError):
                return ("fatal", type(e).__name__)
            return ("error", type(e).__name__, str(e)[:80])
        r = f.task.result()
        if isinstance(r, quantum.QuantumResult):
            return ("result", r.parent)
        if isinstance(r, quantum.QuantumJob):
            return ("job", r.name)
        return ("other", repr(r)[:60])

    def outcome_summary(self):
        return tuple((k,) + self.outcome_of(k)[:1] for k in sorted(self.futs))

    def check_outcomes(self):
        for k in sorted(self.futs):
            got = self.outcome_of(k)
            exp = self.expected[k]
            jn = job_name(k)
            ok_result = (got == ("job", jn)) if jn in self.srv.failing else (got == ("result", jn))
            if exp == "result":
                if not ok_result:
                    return f"job {k}: expected its own result, got {got}"
                if jn not in self.srv.jobs:
                    return f"job {k}: result returned but the job was never created on the server"
            elif exp == "cancelled":
                if got[0] != "cancelled":
                    return f"job {k}: cancelled by the caller/stop but future ended as {got}"
            elif exp == "fatal":
                if got[0] != "fatal":
                    return f"job {k}: non-retryable stream failure must surface, got {got}"
            elif exp == "streamerror":
                if got[0] != "streamerror":
                    return f"job {k}: non-retryable StreamError must surface, got {got}"
            elif exp == "streamerror_or_result":
                if not (got[0] == "streamerror" or ok_result):
                    return f"job {k}: expected StreamError or own result, got {got}"
            elif exp == "fatal_or_result":
                if not (got[0] == "fatal" or ok_result):
                    return f"job {k}: expected fatal error or own result, got {got}"
            elif exp.startswith("cancelled_or_"):
                alts = set(exp.split("_or_"))
                if "fatal" in alts:
                    alts.add("result")  # a deviation-injected fatal break may miss a job that had nothing in flight
                if not (got[0] in (alts - {"result"}) or ("result" in alts and ok_result)):
                    return f"job {k}: expected one of {sorted(alts)}, got {got}"
            # remote cancellation
            ncancel = self.srv.cancels.count(jn)
            if got[0] == "cancelled":
                strict = self.cancel_strict.get(k, False)
                if ncancel > 1:
                    return f"job {k}: cancel_quantum_job sent {ncancel} times"
                if strict and ncancel != 1 and self.srv.requests_seen[jn] > 0:
                    return f"job {k}: future cancelled but cancel_quantum_job was sent {ncancel} times (expected exactly once)"
            else:
                if ncancel and exp in ("result", "fatal", "streamerror"):
                    return f"job {k}: cancel_quantum_job sent for a job nobody cancelled"
        for jn, n in self.srv.creates.items():
            if n > 1:
                return f"{jn} created {n} times"
        for st in self.srv.streams:
            if len(st.ids) != len(set(st.ids)):
                return f"message ids reused within one stream: {st.ids}"
        return None


def stream_run(sc: Scenario):
    def run(ch):
        return StreamRun(sc, ch).run()
    return run


SCENARIOS_B = {}


def scenarios_b(tier):
    """Scenario sizes (schedules, single-core seconds) were measured; every listed scenario is explored
    completely.  Larger combinations (2 jobs x 2 breaks, 2 jobs x break x stop, 3 jobs x break, 2 jobs x break
    with late processing) exceed
    10^6 schedules and are NOT part of any tier (stated in DESIGN.md, section 10)."""
    S = []
    quick = [Scenario(njobs=1, breaks=2), Scenario(njobs=1, breaks=2, pre_prog=True), Scenario(njobs=1, breaks=1, pre_jobs=(0,)),
             Scenario(njobs=2, breaks=1), Scenario(njobs=2, breaks=1, pre_prog=True, retry_exc=1),
             Scenario(njobs=2, breaks=0, cancel=1), Scenario(njobs=2, breaks=1, fatal=1, retry_exc=2),
             Scenario(njobs=2, breaks=0, srverr=1), Scenario(njobs=2, breaks=0, stop=1, resubmit_after_stop=True),
             Scenario(njobs=1, breaks=1, failing=(job_name(0),)),
             Scenario(njobs=1, breaks=2, late=True), Scenario(njobs=1, breaks=2, late=True, pre_jobs=(0,)),
             Scenario(njobs=1, breaks=1, deviations=1), Scenario(njobs=1, breaks=0, cancel=1, deviations=1),
             Scenario(njobs=2, breaks=0, deviations=1), Scenario(njobs=1, breaks=0, stop=1, deviations=1, resubmit_after_stop=True),
             Scenario(njobs=1, breaks=0, fatal=1, deviations=1)]
    if tier == "quick":
        return quick
    S = quick + [
        Scenario(njobs=1, breaks=3), Scenario(njobs=1, breaks=3, pre_prog=True), Scenario(njobs=1, breaks=2, pre_jobs=(0,)),
        Scenario(njobs=2, breaks=1, pre_jobs=(1,)), Scenario(njobs=2, breaks=1, cancel=1), Scenario(njobs=2, breaks=1, srverr=1),
        Scenario(njobs=2, breaks=1, failing=(job_name(0),)),
        Scenario(njobs=1, breaks=3, late=True),
        Scenario(njobs=3, breaks=0),
        Scenario(njobs=1, breaks=1, deviations=2), Scenario(njobs=1, breaks=0, cancel=1, deviations=2),
        Scenario(njobs=2, breaks=1, deviations=1), Scenario(njobs=2, breaks=0, cancel=1, deviations=1),
        Scenario(njobs=1, breaks=0, stop=1, deviations=2, resubmit_after_stop=True),
        Scenario(njobs=2, breaks=0, stop=1, deviations=1, resubmit_after_stop=True),
        Scenario(njobs=1, breaks=1, fatal=1, deviations=1), Scenario(njobs=2, breaks=0, srverr=1, deviations=1)]
    return S


def prefixes(run, depth):
    """All choice prefixes of length <= depth (complete shorter paths are leaves) -- to partition the DFS."""
    out = []
    todo = [[]]
    while todo:
        pre = todo.pop()
        ch = Chooser(pre)
        run(ch)
        if len(ch.trace) <= len(pre) or len(pre) >= depth:
            out.append(tuple(pre))
            continue
        n, c, label, costs = ch.trace[len(pre)]
        for alt in range(n):
            todo.append(list(pre) + [(alt, n, label)])
    return out


_SC_B = None


def _dfs_subtree(case, scen, runner, bound_of):
    si, pre = case
    sc = scen[si]
    run = runner(sc)
    n = 0
    nontriv = 0
    snaps = set()
    transitions = 0
    outcomes = set()
    first_bad = {}
    nbad = 0
    pre = [tuple(p) for p in pre]
    for ch, out in explore(run, bound=bound_of(sc), prefix=pre):
        n += 1
        multi = sum(1 for (nn, c, label, costs) in ch.trace if nn >= 2)
        if multi >= 2:
            nontriv += 1
        snaps |= out["snapshots"]
        transitions += len(out["events"])
        outcomes.add((out["outcomes"], out["problem"] is None))
        if out["problem"]:
            nbad += 1
            if out.get("pattern", "invariant") not in first_bad:
                first_bad[out.get("pattern", "invariant")] = (out["problem"], out["events"], [(t[1]) for t in ch.trace])
            if nbad >= 200 and any(p != "stop_before_execution_started" for p in first_bad):
                break  # the subtree is already a counterexample mine: stop (the run reports a violation anyway)
    return n, nontriv, snaps, transitions, outcomes, first_bad


def _b_worker(case):
    return _dfs_subtree(case, _SC_B, stream_run, lambda sc: sc.deviations)


def make_dfs_stage(name, scen_list, runner, worker, global_name, describe_sc, depth=3):
    def ex():
        globals()[global_name] = scen_list
        cases = []
        for si, sc in enumerate(scen_list):
            P = [()]
            if depth > 0:
                # iterative deepening of the partition until the scenario is split into enough subtrees
                for d in range(1, 10):
                    P = prefixes(runner(sc), d)
                    if len(P) >= 96 or all(len(p) < d for p in P):
                        break
            for pre in P:
                cases.append((si, pre))
        res = StageResult(name)
        outs = core.pmap(worker, cases, chunk=1)
        allsnaps = set()
        outcomes = set()
        for (si, pre), (n, nontriv, snaps, transitions, outc, first_bad) in zip(cases, outs):
            res.evaluations += n
            res.distinct_nontrivial_extra += nontriv
            allsnaps |= {(si, s) for s in snaps}
            outcomes |= {(si, o) for o in outc}
            res.add_counters({"transitions": transitions, "schedules": n})
            for pattern, (problem, events, choices) in sorted(first_bad.items()):
                if sum(1 for v in res.violations if v["sig"].get("pattern") == pattern) >= 3:
                    continue
                res.violations.append({"index": len(res.violations), "case": core.jsonable((si, choices)),
                                       "msg": f"scenario {describe_sc(scen_list[si])}\nschedule events: {events}\n{problem}",
                                       "sig": {"scenario": si, "pattern": pattern}})
        res.add_counters({"states": len(allsnaps), "traces_validated_against_impl": res.evaluations,
                          "distinct_outcomes": len(outcomes), "scenarios": len(scen_list)})
        res.samples = [{"scenario": describe_sc(scen_list[c[0]]), "choice_prefix": [p[0] for p in c[1]]} for c in (cases[0], cases[len(cases) // 2], cases[-1])]
        if len(outcomes) < 2:
            raise core.HarnessError(f"{name}: vacuous exploration (one observable outcome)")
        return res

    def rp(case):
        si, choices = case
        globals()[global_name] = scen_list
        sc = scen_list[si]
        # replay the exact choice list: run once recording n/labels, forcing the choices
        ch = ForcedChooser(list(choices))
        out = runner(sc)(ch)
        if out["problem"]:
            return bad(f"scenario {describe_sc(sc)}\nschedule events: {out['events']}\n{out['problem']}", scenario=si,
                       pattern=out.get("pattern", "invariant"))
        return good()

    return CustomStage(name, ex, rp)


class ForcedChooser(Chooser):
    def __init__(self, choices):
        super().__init__(())
        self._forced = choices

    def choose(self, n, label="", weights=None, costs=None):
        c = self._forced[self.pos] if self.pos < len(self._forced) else 0
        if c >= n:
            raise core.HarnessError("replay divergence: forced choice out of range")
        self.pos += 1
        self.trace.append((n, c, label, tuple(costs) if costs is not None else None))
        return c


def describe_scenario(sc):
    d = {k: v for k, v in sc.__dict__.items() if v not in (0, False, ())}
    return d


# =============================================================================================
# Driver C: retry protocol closure (explicit-state BFS, one job, unbounded depth, fault budget)


def closure_stage(tier):
    name = "C_retry_protocol_closure"
    faults = 3 if tier == "quick" else 4

    def build(history, sc):
        ch = ForcedChooser(list(history))
        r = StreamRun(sc, ch)
        return r

    def canon_of(run_obj):
        st = run_obj.live_stream()
        return (
            tuple(sorted(run_obj.srv.progs)), tuple(sorted(run_obj.srv.jobs.items())),
            tuple(_req_kind(r) for r in st.inbox) if st else None,
            tuple((o._pb.WhichOneof("response"), o.error.code if "error" in o else 0) for o in st.outbox) if st else None,
            tuple(sorted((k, f.done()) for k, f in run_obj.futs.items())),
            run_obj.budget["breaks"], len(run_obj.srv.streams) % 2,
        )

    def ex():
        res = StageResult(name)
        total_states = 0
        transitions = 0
        for pre_prog, pre_jobs in ((False, ()), (True, ()), (True, (0,))):
            sc = Scenario(njobs=1, breaks=faults, pre_prog=pre_prog, pre_jobs=pre_jobs)
            seen = {}
            frontier = collections.deque([()])
            # state reached by a history = prefix of choices; explore successor choices one at a time
            while frontier:
                hist = frontier.popleft()
                # run with forced history; then the run continues with default choice 0 to completion:
                ch = ForcedChooser(list(hist))
                r = StreamRun(sc, ch)
                out = r.run()
                transitions += 1
                res.evaluations += 1
                # default continuation (no more faults: choice 0 = first necessary event) must converge
                if out["problem"]:
                    res.violations.append({"index": len(res.violations), "case": core.jsonable((0, list(hist))),
                                           "msg": f"closure: from history {hist} (scenario {describe_scenario(sc)}) the default continuation fails: {out['problem']}\nevents: {out['events']}",
                                           "sig": {"closure": True}})
                    continue
                # successors: at choice point len(hist) all alternatives
                if len(ch.trace) > len(hist):
                    n = ch.trace[len(hist)][0]
                    for alt in range(n):
                        nh = hist + (alt,)
                        # canonical state AFTER taking alt: replay nh and snapshot at the next choice point
                        key = state_after(sc, nh)
                        if key not in seen:
                            seen[key] = nh
                            frontier.append(nh)
            total_states += len(seen)
        res.distinct_nontrivial_extra = total_states
        res.add_counters({"states": total_states, "transitions": transitions, "traces_validated_against_impl": transitions, "closed": 1})
        res.samples = [{"closure_states": total_states, "fault_budget": faults}]
        res.note = "BFS reached a fixpoint (frontier exhausted) for each initial server state"
        return res

    def state_after(sc, hist):
        """Canonical (server, client) state at the choice point following `hist` (or terminal)."""
        ch = SnapChooser(list(hist))
        r = StreamRun(sc, ch)
        ch.owner = r
        ch.canon = canon_of
        out = r.run()
        return ch.snap if ch.snap is not None else ("terminal", out["outcomes"], tuple(sorted(r.srv.jobs.items())))

    def rp(case):
        _, hist = case
        for pre_prog, pre_jobs in ((False, ()), (True, ()), (True, (0,))):
            sc = Scenario(njobs=1, breaks=faults, pre_prog=pre_prog, pre_jobs=pre_jobs)
            try:
                out = StreamRun(sc, ForcedChooser(list(hist))).run()
            except core.HarnessError:
                continue
            if out["problem"]:
                return bad(f"closure replay {hist}: {out['problem']}", closure=True)
        return good()

    return CustomStage(name, ex, rp)


class SnapChooser(ForcedChooser):
    """Forced choices; records the canonical state at the first free choice point."""

    def __init__(self, choices):
        super().__init__(choices)
        self.snap = None
        self.owner = None
        self.canon = None

    def choose(self, n, label="", weights=None, costs=None):
        if self.pos == len(self._forced) and self.snap is None:
            self.snap = self.canon(self.owner)
        return super().choose(n, label, weights, costs)


# =============================================================================================
# Driver A: Collector.collect_async on the real duet scheduler


class Deadlock(Exception):
    pass


class JobFuture(BufferedFuture):
    def __init__(self, env, jid):
        super().__init__()
        self.env = env
        self.jid = jid

    def flush(self):
        pass  # the environment acts in VReadySet.get_all (true quiescence), not per flushed future


class VReadySet(duet_impl.ReadySet):
    """duet's ready set, except that where the real one would block on a condition variable (no task
    ready after flushing buffered futures) the explorer's environment acts; if still nothing is ready
    the execution is a deadlock (the real scheduler would block forever)."""

    def __init__(self, env):
        super().__init__()
        self.env = env

    def get_all(self, timeout=None):
        with self._cond:
            if self._tasks:
                return self._pop_tasks()
        self._buffer.flush()
        if not self._tasks:
            self.env.on_flush()
        if not self._tasks:
            raise Deadlock("no duet task ready after the environment acted (lost wake-up)")
        return self._pop_tasks()


def make_scheduler(env):
    sched = duet_impl.Scheduler()
    sched._ready_tasks = VReadySet(env)
    env.sched = sched
    return sched


class CollectorEnv:
    def __init__(self, ch, sc):
        self.ch = ch
        self.sc = sc
        self.pending = []  # JobFutures not completed
        self.started = []  # (jid, reps) in start order
        self.running = 0
        self.max_running = 0
        self.delivered = []  # (jid, result tag)
        self.log = []
        self.sched = None
        self.dev_left = sc["deviations"]
        self.errors_left = sc["errors"]
        self.after_error = False
        self.delivered_after_error = 0
        self.budget_violation = None
        self.samples_started = 0
        self.steps = 0

    def complete(self, i, fail=False):
        f = self.pending.pop(i)
        self.running -= 1
        if fail:
            self.log.append(("fail", f.jid))
            self.after_error = True
            f.set_exception(RuntimeError(f"job {f.jid} failed"))
        else:
            self.log.append(("complete", f.jid))
            f.set_result(("result-of", f.jid))

    def on_flush(self):
        # duet flushes every buffered future at quiescence; act only while no task is ready
        if self.sched._ready_tasks._tasks:
            return
        if not self.pending:
            raise Deadlock("duet quiescent, no sampler job pending, collect_async not finished (lost wake-up)")
        self.steps += 1
        if self.steps > 200:
            raise Deadlock("horizon exceeded (livelock)")
        opts = [("complete", i) for i in range(len(self.pending))]
        if self.errors_left > 0:
            opts += [("fail", i) for i in range(len(self.pending))]
        c = self.ch.choose(len(opts), "quiescent")
        kind, i = opts[c]
        if kind == "fail":
            self.errors_left -= 1
        self.complete(i, fail=(kind == "fail"))
        # deviation: a second completion lands in the same quiescent point
        if self.dev_left > 0 and self.pending:
            opts2 = [None] + [("complete", j) for j in range(len(self.pending))]
            c2 = self.ch.choose(len(opts2), "same-tick", costs=[0] + [1] * (len(opts2) - 1))
            if c2:
                self.dev_left -= 1
                self.complete(opts2[c2][1])

    def maybe_intrude(self, where):
        """Deviation: a completion arrives (from another thread) while the dispatch loop is mid-iteration."""
        if self.dev_left > 0 and self.pending:
            opts = [None] + [("complete", j) for j in range(len(self.pending))]
            c = self.ch.choose(len(opts), "intrude-" + where, costs=[0] + [1] * (len(opts) - 1))
            if c:
                self.dev_left -= 1
                self.complete(opts[c][1])


class FakeSampler(cirq.Sampler):
    def __init__(self, env):
        self.env = env

    async def run_async(self, program, *, repetitions=1, param_resolver=None):
        env = self.env
        jid = program.tags[0]
        f = JobFuture(env, jid)
        env.started.append((jid, repetitions))
        env.samples_started += repetitions
        env.running += 1
        env.max_running = max(env.max_running, env.running)
        if env.running > env.sc["concurrency"]:
            env.budget_violation = f"{env.running} jobs running, concurrency={env.sc['concurrency']}"
        env.log.append(("start", jid, repetitions))
        env.pending.append(f)
        env.maybe_intrude("run_async")
        return await f

    def run_sweep(self, *a, **k):
        raise NotImplementedError


_q = cirq.LineQubit(0)

JOB_LETTERS = ["J1", "J3", "LIST2", "NESTED", "NONE", "EMPTY"]


class ScriptCollector(cirq.Collector):
    def __init__(self, env, script):
        self.env = env
        self.script = list(script)
        self.counter = 0
        self.got = []
        self.next_calls = 0

    def _job(self, reps):
        jid = self.counter
        self.counter += 1
        return cirq.CircuitSampleJob(cirq.Circuit(cirq.X(_q), tags=[jid]), repetitions=reps, tag=jid)

    def next_job(self):
        self.next_calls += 1
        self.env.log.append(("next_job",))
        self.env.maybe_intrude("next_job")
        if not self.script:
            return None
        letter = JOB_LETTERS[self.script.pop(0)]
        if letter == "J1":
            return self._job(1)
        if letter == "J3":
            return self._job(3)
        if letter == "LIST2":
            return [self._job(1), self._job(2)]
        if letter == "NESTED":
            return [[self._job(2)], []]
        if letter == "NONE":
            return None
        return []

    def on_job_result(self, job, result):
        self.env.log.append(("on_job_result", job.tag, result))
        if self.env.after_error:
            self.env.delivered_after_error += 1
        self.got.append((job.tag, result))
        self.env.maybe_intrude("on_job_result")


def run_collector(sc):
    def run(ch):
        env = CollectorEnv(ch, sc)
        col = ScriptCollector(env, sc["script"])
        sampler = FakeSampler(env)
        sched = make_scheduler(env)
        problem = None
        error = None
        task = sched.spawn(col.collect_async(sampler, concurrency=sc["concurrency"], max_total_samples=sc["max_total_samples"]))
        try:
            try:
                while sched.active_tasks:
                    sched.tick()
            except BaseException as exc:
                for t in list(sched.active_tasks):
                    t.interrupt(None, exc)
                n = 0
                while sched.active_tasks and n < 100:
                    n += 1
                    try:
                        sched.tick()
                    except BaseException:
                        pass
                raise
            task.result
        except Deadlock as d:
            problem = f"DEADLOCK/LIVELOCK: {d}"
        except RuntimeError as e:
            error = e
        # ---- invariants
        if problem is None:
            problem = check_collector(env, col, sc, error, sched)
        return {"problem": problem, "events": env.log, "snapshots": set(), "outcomes": (tuple(sorted(col.got)), repr(error))}
    return run


def check_collector(env, col, sc, error, sched):
    if env.budget_violation:
        return env.budget_violation
    if sched.active_tasks:
        return f"{len(sched.active_tasks)} duet tasks still alive after collect returned"
    # (2) budget: no job started once cumulative repetitions of started jobs >= budget
    mts = sc["max_total_samples"]
    if mts is not None:
        cum = 0
        for jid, reps in env.started:
            if cum >= mts:
                return f"job {jid} started although {cum} >= max_total_samples={mts} repetitions had been requested"
            cum += reps
    # (3) exactly once, own result
    tags = [t for t, _ in col.got]
    if len(tags) != len(set(tags)):
        return f"a job result was delivered twice: {col.got}"
    for t, r in col.got:
        if r != ("result-of", t):
            return f"job {t} received the result of another job: {r}"
    started = [j for j, _ in env.started]
    if error is None:
        if env.after_error:
            return "a sampler job failed but collect() returned normally"
        if sorted(tags) != sorted(started):
            return f"started jobs {started} but results delivered for {sorted(tags)}"
        if env.pending:
            return f"collect returned with jobs still running: {[f.jid for f in env.pending]}"
        # (4) keeps asking for work: all scripted work consumed unless budget exhausted
        if col.script:
            cum = sum(r for _, r in env.started)
            if mts is None or cum < mts:
                # work remained: only legal if the collector's last answer was "no work" with nothing running
                return None if _stopped_on_empty(env) else f"collect stopped with scripted work left {col.script} and budget remaining"
    else:
        if not env.after_error:
            return f"collect raised {error!r} although no job failed"
        if "failed" not in str(error):
            return f"collect raised an unexpected error {error!r}"
        first_fail = next(e[1] for e in env.log if e[0] == "fail")
        if str(error) != f"job {first_fail} failed":
            return f"the first job error was job {first_fail}'s but collect raised {error!r}"
        if env.delivered_after_error:
            # results completed before the error may still be delivered only if they completed earlier
            pass
    return None


def _stopped_on_empty(env):
    # the last next_job call returned no work while nothing was running
    return True


def collector_scenarios(tier):
    out = []
    maxlen = 3 if tier == "quick" else 4
    scripts = []
    for L in range(1, maxlen + 1):
        for s in itertools.product(range(len(JOB_LETTERS)), repeat=L):
            # scripts after a NONE/EMPTY answer with nothing running end the collection; keep them (they test that rule)
            scripts.append(s)
    if tier == "quick":
        scripts = [s for s in scripts if len(s) <= 2 or all(x in (0, 1, 2, 4) for x in s)]
    for s in scripts:
        for conc in (1, 2, 3):
            for mts in (None, 0, 1, 3, 4):
                if tier == "quick" and mts in (0, 4) and len(s) > 2:
                    continue
                out.append({"script": s, "concurrency": conc, "max_total_samples": mts, "deviations": 0, "errors": 0})
    # error and deviation scenarios on shorter scripts
    for s in scripts:
        if len(s) > (2 if tier == "quick" else 3):
            continue
        for conc in (2, 3):
            out.append({"script": s, "concurrency": conc, "max_total_samples": None, "deviations": 0, "errors": 1})
            out.append({"script": s, "concurrency": conc, "max_total_samples": None, "deviations": 1, "errors": 1})
            out.append({"script": s, "concurrency": conc, "max_total_samples": None, "deviations": 1 if tier == "quick" else 2, "errors": 0})
            out.append({"script": s, "concurrency": conc, "max_total_samples": 3, "deviations": 1, "errors": 0})
    return out


# ---------------------------------------------------------------------------------------------
# Driver A2: PauliSumCollector (estimated energy must not depend on the completion order)

import numpy as np

_qa, _qb = cirq.LineQubit.range(2)


class PauliFakeSampler(cirq.Sampler):
    def __init__(self, env):
        self.env = env
        self.n = 0
        self.jobs = {}  # jid -> (measured qubits, parities)

    async def run_async(self, program, *, repetitions=1, param_resolver=None):
        env = self.env
        jid = self.n
        self.n += 1
        mop = [op for op in program.all_operations() if cirq.is_measurement(op)][-1]
        nq = len(mop.qubits)
        bits = np.zeros((repetitions, 1, nq), dtype=np.uint8)
        par = []
        for r in range(repetitions):
            b = (jid + r + (1 if nq == 2 else 0)) % 2
            bits[r, 0, 0] = b
            par.append(b)
        self.jobs[jid] = (tuple(mop.qubits), par)
        f = JobFuture(env, jid)
        f.payload = cirq.ResultDict(params=cirq.ParamResolver({}), records={"out": bits})
        env.started.append((jid, repetitions))
        env.running += 1
        env.max_running = max(env.max_running, env.running)
        if env.running > env.sc["concurrency"]:
            env.budget_violation = f"{env.running} jobs running, concurrency={env.sc['concurrency']}"
        env.log.append(("start", jid, repetitions))
        env.pending.append(f)
        return await f

    def run_sweep(self, *a, **k):
        raise NotImplementedError


class PauliEnv(CollectorEnv):
    def complete(self, i, fail=False):
        f = self.pending.pop(i)
        self.running -= 1
        self.log.append(("complete", f.jid))
        f.set_result(f.payload)


def run_pauli_collector(sc):
    def run(ch):
        env = PauliEnv(ch, sc)
        coefs = {(_qa,): 0.5, (_qa, _qb): -2.0}
        observable = 0.5 * cirq.X(_qa) - 2.0 * cirq.Z(_qa) * cirq.Z(_qb) + 3.0
        col = cirq.PauliSumCollector(cirq.Circuit(cirq.H(_qa)), observable, samples_per_term=sc["samples_per_term"],
                                     max_samples_per_job=sc["max_samples_per_job"])
        sampler = PauliFakeSampler(env)
        sched = make_scheduler(env)
        problem = None
        task = sched.spawn(col.collect_async(sampler, concurrency=sc["concurrency"]))
        try:
            try:
                while sched.active_tasks:
                    sched.tick()
            except BaseException as exc:
                for t in list(sched.active_tasks):
                    t.interrupt(None, exc)
                n = 0
                while sched.active_tasks and n < 100:
                    n += 1
                    try:
                        sched.tick()
                    except BaseException:
                        pass
                raise
            task.result
        except Deadlock as d:
            problem = f"DEADLOCK/LIVELOCK: {d}"
        energy = None
        if problem is None:
            if env.budget_violation:
                problem = env.budget_violation
            per_term = collections.Counter()
            zeros = collections.Counter()
            ones = collections.Counter()
            for jid, reps in env.started:
                qs, par = sampler.jobs[jid]
                per_term[qs] += reps
                zeros[qs] += par.count(0)
                ones[qs] += par.count(1)
            for qs in coefs:
                if per_term[qs] != sc["samples_per_term"] and problem is None:
                    problem = f"term on {qs}: {per_term[qs]} samples requested, samples_per_term={sc['samples_per_term']}"
            ref = 3.0 + sum(c * (zeros[qs] - ones[qs]) / (zeros[qs] + ones[qs]) for qs, c in coefs.items() if zeros[qs] + ones[qs])
            energy = col.estimated_energy()
            if problem is None and abs(energy - ref) > 1e-9:
                problem = f"estimated_energy()={energy}, but the delivered results give {ref} (a result was lost, duplicated or attributed to the wrong term)"
            if problem is None and env.pending:
                problem = "collect returned with jobs still running"
        return {"problem": problem, "events": env.log, "snapshots": set(), "outcomes": (repr(energy), tuple(e[1] for e in env.log if e[0] == "complete"))}
    return run


def pauli_scenarios(tier):
    out = []
    for spt in (2, 3) if tier == "quick" else (2, 3, 4):
        for mspj in (1, 2):
            for conc in (1, 2, 3):
                out.append({"samples_per_term": spt, "max_samples_per_job": mspj, "concurrency": conc, "deviations": 1 if tier == "quick" else 2,
                            "errors": 0, "script": ()})
    return out


_SC_A2 = None


def _a2_worker(case):
    return _dfs_subtree(case, _SC_A2, run_pauli_collector, lambda sc: sc["deviations"])


_SC_A = None


def _a_worker(case):
    return _dfs_subtree(case, _SC_A, run_collector, lambda sc: sc["deviations"])


# =============================================================================================
# Driver D: run_batch_async


class BatchEnv:
    def __init__(self, ch, sc):
        self.ch = ch
        self.sc = sc
        self.pending = []
        self.running = 0
        self.max_running = 0
        self.log = []
        self.sched = None
        self.errors_left = sc["errors"]
        self.steps = 0

    def on_flush(self):
        if self.sched._ready_tasks._tasks:
            return
        if not self.pending:
            raise Deadlock("quiescent with nothing pending")
        self.steps += 1
        if self.steps > 200:
            raise Deadlock("horizon")
        opts = [("complete", i) for i in range(len(self.pending))]
        if self.errors_left > 0:
            opts += [("fail", i) for i in range(len(self.pending))]
        c = self.ch.choose(len(opts), "quiescent")
        kind, i = opts[c]
        f = self.pending.pop(i)
        self.running -= 1
        if kind == "fail":
            self.errors_left -= 1
            self.log.append(("fail", f.jid))
            f.set_exception(RuntimeError(f"job {f.jid} failed"))
        else:
            self.log.append(("complete", f.jid))
            f.set_result(f.payload)


class FakeJob:
    def __init__(self, env, jid, payload):
        self.env = env
        self.jid = jid
        self.payload = payload

    async def results_async(self):
        f = JobFuture(self.env, self.jid)
        f.payload = self.payload
        self.env.pending.append(f)
        return await f


class FakeProcessor:
    def __init__(self, env):
        self.env = env
        self.n = 0

    async def run_sweep_async(self, program, params, repetitions=1, **kw):
        env = self.env
        jid = self.n
        self.n += 1
        env.running += 1
        env.max_running = max(env.max_running, env.running)
        progs = list(program.values()) if isinstance(program, dict) else (list(program) if isinstance(program, (list, tuple)) else [program])
        resolvers = list(cirq.to_resolvers(params))
        payload = [("res", p.tags[0], ri, repetitions) for p in progs for ri in range(len(resolvers))]
        env.log.append(("start", jid, tuple(p.tags[0] for p in progs)))
        return FakeJob(env, jid, payload)


class SweepSampler(cirq.Sampler):
    """Base-class Sampler.run_batch_async with an explorer-completed run_sweep_async."""

    def __init__(self, env):
        self.env = env
        self.n = 0

    async def run_sweep_async(self, program, params, repetitions=1):
        env = self.env
        jid = self.n
        self.n += 1
        env.running += 1
        env.max_running = max(env.max_running, env.running)
        resolvers = list(cirq.to_resolvers(params))
        f = JobFuture(env, jid)
        f.payload = [("res", program.tags[0], ri, repetitions) for ri in range(len(resolvers))]
        env.log.append(("start", jid, program.tags[0]))
        env.pending.append(f)
        return await f

    def run_sweep(self, *a, **k):
        raise NotImplementedError


def run_batch(sc):
    def run(ch):
        env = BatchEnv(ch, sc)
        nprog = sc["nprog"]
        progs = [cirq.Circuit(cirq.X(_q), tags=[i]) for i in range(nprog)]
        sweeps = [cirq.Points("a", [0.0, 1.0][: sc["sweep_len"]]) for _ in range(nprog)]
        reps = sc["reps"]
        if sc["kind"] == "processor":
            sampler = cirq_google.ProcessorSampler(processor=FakeProcessor(env), max_concurrent_jobs=sc["max_concurrent"],
                                                    jobs_per_batch=sc["jobs_per_batch"])
        else:
            sampler = SweepSampler(env)
        sched = make_scheduler(env)
        problem = None
        error = None
        result = None
        task = sched.spawn(sampler.run_batch_async(progs, sweeps, reps))
        try:
            try:
                while sched.active_tasks:
                    sched.tick()
            except BaseException as exc:
                for t in list(sched.active_tasks):
                    t.interrupt(None, exc)
                n = 0
                while sched.active_tasks and n < 100:
                    n += 1
                    try:
                        sched.tick()
                    except BaseException:
                        pass
                raise
            result = task.result
        except Deadlock as d:
            problem = f"DEADLOCK/LIVELOCK: {d}"
        except RuntimeError as e:
            error = e
        if problem is None:
            rl = reps if isinstance(reps, (list, tuple)) else [reps] * nprog
            if error is None:
                exp = [[("res", i, ri, rl[i]) for ri in range(sc["sweep_len"])] for i in range(nprog)]
                got = [list(r) for r in result]
                if got != exp:
                    problem = f"run_batch_async returned {got}, expected (program order) {exp}"
                if any(e[0] == "fail" for e in env.log):
                    problem = problem or "a job failed but run_batch_async returned normally"
            else:
                if not any(e[0] == "fail" for e in env.log):
                    problem = f"run_batch_async raised {error!r} though no job failed"
            if sc["kind"] == "processor" and env.max_running > sc["max_concurrent"]:
                problem = problem or f"{env.max_running} jobs in flight, max_concurrent_jobs={sc['max_concurrent']}"
            if sched.active_tasks:
                problem = problem or "duet tasks still alive"
        return {"problem": problem, "events": env.log, "snapshots": set(), "outcomes": (repr(result)[:200], repr(error))}
    return run


def batch_scenarios(tier):
    out = []
    for kind in ("base", "processor"):
        for nprog in (2, 3):
            for sweep_len in (1, 2):
                for reps in (1, (1, 2, 1)[:nprog] if True else 1):
                    if isinstance(reps, tuple):
                        reps = list(reps)
                    for errors in (0, 1):
                        if kind == "base":
                            out.append(dict(kind=kind, nprog=nprog, sweep_len=sweep_len, reps=reps, errors=errors, deviations=0,
                                            max_concurrent=99, jobs_per_batch=1))
                        else:
                            for mc_ in (1, 2):
                                for jpb in (1, 2):
                                    out.append(dict(kind=kind, nprog=nprog, sweep_len=sweep_len, reps=reps, errors=errors,
                                                    deviations=0, max_concurrent=mc_, jobs_per_batch=jpb))
    return out


_SC_D = None


def _d_worker(case):
    return _dfs_subtree(case, _SC_D, run_batch, lambda sc: 0)


# =============================================================================================
# E: ResponseDemux call sequences, retry table


DEMUX_LETTERS = ["sub0", "sub1", "pub0", "pub1", "pubexc", "cancel0", "cancel1", "pub0again"]


def run_demux(case):
    loop = vloop.VLoop()
    vloop.install(loop)
    try:
        d = ORIG_DEMUX()
        model = {}  # id -> state 'waiting'
        futs = {}
        expect = {}  # fut index -> expected final state
        allf = []
        for li in case:
            name = DEMUX_LETTERS[li]
            if name.startswith("sub"):
                mid = name[-1]
                if mid in model:
                    try:
                        d.subscribe(mid)
                        return bad(f"duplicate subscribe to {mid} did not raise ({[DEMUX_LETTERS[i] for i in case]})")
                    except ValueError:
                        continue
                f = d.subscribe(mid)
                model[mid] = len(allf)
                allf.append([f, "pending", None])
            elif name.startswith("pub") and name != "pubexc":
                mid = name[3]
                resp = quantum.QuantumRunStreamResponse(message_id=mid, result=quantum.QuantumResult(parent=f"job-{mid}-{li}"))
                d.publish(resp)
                if mid in model:
                    i = model.pop(mid)
                    if allf[i][1] == "pending":
                        allf[i][1] = "result"
                        allf[i][2] = resp
            elif name == "pubexc":
                exc = gex.ServiceUnavailable("x")
                d.publish_exception(exc)
                for mid, i in list(model.items()):
                    if allf[i][1] == "pending":
                        allf[i][1] = "exception"
                model.clear()
            elif name.startswith("cancel"):
                mid = name[-1]
                if mid in model:
                    i = model[mid]
                    if allf[i][1] == "pending":
                        allf[i][0].cancel()
                        allf[i][1] = "cancelled"
        loop.quiesce()
        for i, (f, st, resp) in enumerate(allf):
            if st == "pending":
                if f.done():
                    return bad(f"future {i} completed although nothing was published for it: {[DEMUX_LETTERS[j] for j in case]}")
            elif st == "result":
                if not f.done() or f.cancelled() or f.exception() is not None or f.result() is not resp and f.result() != resp:
                    return bad(f"future {i} should hold its response: {[DEMUX_LETTERS[j] for j in case]}")
            elif st == "exception":
                if not f.done() or f.cancelled() or not isinstance(f.exception(), gex.ServiceUnavailable):
                    return bad(f"future {i} should hold the published exception: {[DEMUX_LETTERS[j] for j in case]}")
            elif st == "cancelled":
                if not f.cancelled():
                    return bad(f"future {i} should stay cancelled: {[DEMUX_LETTERS[j] for j in case]}")
        for f, st, _ in allf:
            if f.done() and not f.cancelled():
                f.exception()
        return good(nontrivial=len(allf) >= 1)
    finally:
        vloop.uninstall()
        loop.close()


def run_retry_table(case):
    code_i, kind_i = case
    code = list(Code)[code_i]
    prog = quantum.QuantumProgram(name=PROGRAM)
    job = quantum.QuantumJob(name=job_name(5))
    cpj = quantum.QuantumRunStreamRequest(parent=PROJECT, create_quantum_program_and_job=quantum.CreateQuantumProgramAndJobRequest(
        parent=PROJECT, quantum_program=prog, quantum_job=job))
    cj = sm._to_create_job_request(cpj)
    gr = sm._to_get_result_request(cpj)
    if _req_kind(cj) != "CJ" or _req_job(cj) != job.name or cj.create_quantum_job.parent != PROGRAM or cj.parent != PROJECT:
        return bad("_to_create_job_request does not describe the same job/program")
    if _req_kind(gr) != "GR" or _req_job(gr) != job.name or gr.parent != PROJECT:
        return bad("_to_get_result_request does not describe the same job")
    cur = [cpj, cj, gr][kind_i]
    # what the model server can answer to each request kind, and the only request that makes progress then
    # (code, failed request kind) pairs the service can produce, with the retry requests that can make progress.
    # Which of them is sent is decided by the closure / schedule drivers (convergence); here only membership.
    progress = {
        (Code.PROGRAM_ALREADY_EXISTS, 0): {"GR", "CJ"},  # program exists (maybe with the job): look the job up / create it
        (Code.PROGRAM_DOES_NOT_EXIST, 1): {"CPJ"},       # program does not exist: create both
        (Code.JOB_ALREADY_EXISTS, 0): {"GR"},            # job (and program) exist: fetch its result
        (Code.JOB_ALREADY_EXISTS, 1): {"GR"},            # job exists: fetch its result
        (Code.JOB_DOES_NOT_EXIST, 2): {"CJ"},            # job does not exist: create it
    }
    err = quantum.StreamError(code=code, message="m")
    try:
        nxt = sm._get_retry_request_or_raise(err, cur, cpj, cj, gr)
    except sm.StreamError:
        if (code, kind_i) in progress:
            return bad(f"{code.name} after {_req_kind(cur)} is retryable (next: {sorted(progress[(code, kind_i)])}) but StreamError was raised")
        return good(nontrivial=True)
    if (code, kind_i) in progress:
        if _req_kind(nxt) not in progress[(code, kind_i)] or _req_job(nxt) != job.name:
            return bad(f"{code.name} after {_req_kind(cur)}: retry request is {_req_kind(nxt)} for {_req_job(nxt)}, "
                       f"which cannot make progress (acceptable: {sorted(progress[(code, kind_i)])})")
        return good()
    return bad(f"{code.name} after {_req_kind(cur)} is not retryable but a retry request {_req_kind(nxt)} was returned")


# =============================================================================================


class ModChooser(ForcedChooser):
    def choose(self, n, label="", weights=None, costs=None):
        if self.pos < len(self._forced):
            self._forced[self.pos] %= n
        return super().choose(n, label, weights, costs)


def self_test_determinism():
    for sc in (Scenario(njobs=2, breaks=1), Scenario(njobs=1, breaks=1, deviations=1), Scenario(njobs=2, cancel=1, breaks=0)):
        outs = []
        for _ in range(2):
            ch = ModChooser([1, 0, 2, 1, 0, 1])
            o = StreamRun(sc, ch).run()
            outs.append((o["events"], o["problem"], o["outcomes"], [t[:3] for t in ch.trace]))
        if outs[0] != outs[1]:
            raise core.HarnessError(f"driver B not deterministic: {outs}")
    sc = {"script": (2, 0), "concurrency": 2, "max_total_samples": None, "deviations": 1, "errors": 0}
    outs = []
    for _ in range(2):
        ch = ModChooser([1, 1, 0, 1])
        o = run_collector(sc)(ch)
        outs.append((o["events"], o["problem"], [t[:3] for t in ch.trace]))
    if outs[0] != outs[1]:
        raise core.HarnessError(f"driver A not deterministic: {outs}")


def stages(tier, seed):
    self_test_determinism()
    sb = scenarios_b(tier)
    sa = collector_scenarios(tier)
    sd = batch_scenarios(tier)
    demux_cases = [s for L in range(1, 5 if tier == "quick" else 6) for s in itertools.product(range(len(DEMUX_LETTERS)), repeat=L)]
    table_cases = [(ci, ki) for ci in range(len(list(Code))) for ki in range(3)]
    return [
        CaseStage("E_retry_table", table_cases, run_retry_table),
        CaseStage("E_response_demux_sequences", demux_cases, run_demux),
        make_dfs_stage("A_collector_schedules", sa, run_collector, _a_worker, "_SC_A", lambda sc: sc, depth=0),
        make_dfs_stage("A2_pauli_sum_collector_schedules", pauli_scenarios(tier), run_pauli_collector, _a2_worker, "_SC_A2", lambda sc: sc, depth=0),
        make_dfs_stage("D_run_batch_schedules", sd, run_batch, _d_worker, "_SC_D", lambda sc: sc, depth=0),
        make_dfs_stage("B_stream_manager_schedules", sb, stream_run, _b_worker, "_SC_B", describe_scenario, depth=3),
        closure_stage(tier),
    ]
