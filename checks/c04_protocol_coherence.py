"""C04 -- all descriptions of one operation agree (protocol coherence).

Operations = library gates over a small parameter grid (plus user-style gates that implement only one
protocol method each, so every strategy fallback is reached), closed under wrappers up to depth 2.
For each operation every way Cirq offers to obtain its effect is compared with the reference
`cirq.unitary(op)` / `cirq.kraus(op)` embedded by mc/ref/embed.py: apply_unitary on every target-axis
layout, apply_unitaries, subspaces=, decompose_once / decompose, kraus / mixture / superoperator,
apply_channel / apply_mixture on every left/right axis layout, act_on on the simulation states, and
the has_* answers.
"""
from __future__ import annotations

import itertools

import numpy as np
import sympy
import cirq
import cirq_google
import cirq_ionq

from mc import core
from mc.core import CaseStage, Res, bad, good
from mc.choices import explore
from mc.scripted_random import ScriptedRandomState
from mc.ref import embed as E

PROPERTY = "C04"
LEVEL = "exploration"
RULE = ("operations = base alphabet (library gates of cirq/cirq_google/cirq_ionq on a 3-8 value parameter grid incl. every "
        "kernel fast path and a near miss, qudit gates, channels, measurements, partly-unitary decompositions, single-protocol "
        "user gates) closed under wrappers (tags, qubit permutation, controls default/0/SumOfProducts/qutrit, **-1, **0.5, "
        "ParallelGate, CircuitOperation, classical control) to depth 2 (quick: depth 2 on a core subset); per operation ALL "
        "injective axis assignments into tensors of rank k..k+2 (vector/matrix-shaped, complex64/128, op or gate, NaN-poisoned "
        "buffers), all subspace choices, all ordered left/right axis pairs for apply_channel/apply_mixture, all register orders "
        "for act_on; a case is non-trivial when the operation is not the identity map (or, for non-unitary inputs, has a "
        "decomposition or kernel that could touch the target); distinct = distinct (operation, layout, variant)")
TECHNIQUE = ("bounded-exhaustive enumeration of operations x wrapper compositions x target-axis layouts; every protocol result "
             "compared with cirq.unitary/cirq.kraus embedded by an independent numpy reference")
LEVEL_TEXT = ("Every operation of the bounded alphabet (closed under wrapper depth 2) is applied through every protocol entry "
              "point on every axis layout of the bound and must reproduce the same linear map as its reported matrix / Kraus set; "
              "wrapper laws tie the wrapped matrix to the inner one. No sampling: the random draws of simulation states are all "
              "enumerated. Bounded by alphabet, wrapper depth 2, tensor rank k+2 (<= 6-7 axes).")
LEVEL_NOTE = ("trusted: numpy, mc/ref/embed.py; cirq.unitary/cirq.kraus of base gates are the reference here (tied to closed forms by C03)")
ASSUMPTIONS = [
    "cirq.unitary / cirq.kraus of the base (unwrapped) gates are correct (tied to closed forms by C03); wrappers are tied to them by the wrapper-law stage",
    "numpy linear algebra and mc/ref/embed.py",
    "simulation states draw randomness only through the prng object (un-scripted methods raise)",
]

NAN = float("nan")
ATOL = 1e-8
ATOL64 = 2e-5

# ---------------------------------------------------------------------------------------------
# qubits


def Q(i):
    return cirq.LineQubit(i)


def T(i):
    return cirq.LineQid(i, dimension=3)


def ctrl(depth, j):
    return cirq.LineQubit(100 + 10 * depth + j)


def ctrl3(depth):
    return cirq.LineQid(200 + depth, dimension=3)


# ---------------------------------------------------------------------------------------------
# user-style gates: each implements exactly one way of describing itself


class UOnly(cirq.Gate):
    """Only _unitary_ (+ qid shape)."""

    def __init__(self, u, shape):
        self.u = np.asarray(u)
        self.shape = tuple(shape)

    def _qid_shape_(self):
        return self.shape

    def _unitary_(self):
        return self.u.copy()

    def __repr__(self):
        return f"UOnly{self.shape}"


class DecOnly(cirq.Gate):
    """Only _decompose_ into unitary library gates (2 qubits)."""

    def __init__(self, e):
        self.e = e

    def _num_qubits_(self):
        return 2

    def _decompose_(self, qubits):
        a, b = qubits
        return [cirq.H(a), cirq.CNOT(a, b), cirq.Z(b) ** self.e, cirq.Y(a) ** 0.5]

    def __repr__(self):
        return f"DecOnly({self.e})"


class DecOnly1(cirq.Gate):
    """Only _decompose_, one qubit."""

    def __init__(self, e):
        self.e = e

    def _num_qubits_(self):
        return 1

    def _decompose_(self, qubits):
        return [cirq.X(qubits[0]), cirq.Z(qubits[0]) ** self.e]

    def __repr__(self):
        return f"DecOnly1({self.e})"


class Both5(cirq.Gate):
    """_unitary_ and _decompose_ on 5 qubits (apply_unitary tries the decomposition first)."""

    def __init__(self, e):
        self.e = e

    def _num_qubits_(self):
        return 5

    def _ops(self, q):
        return [cirq.H(q[0]), cirq.CNOT(q[0], q[3]), cirq.SWAP(q[1], q[4]), cirq.CZ(q[2], q[0]) ** self.e, cirq.X(q[2])]

    def _decompose_(self, qubits):
        return self._ops(qubits)

    def _unitary_(self):
        q = cirq.LineQubit.range(5)
        return E.apply_ops([(cirq.unitary(o), [x.x for x in o.qubits]) for o in self._ops(q)], (2,) * 5)

    def __repr__(self):
        return f"Both5({self.e})"


class AncillaGate(cirq.Gate):
    """CZ**e computed through a clean ancilla borrowed from the decomposition context."""

    def __init__(self, e):
        self.e = e

    def _num_qubits_(self):
        return 2

    def _decompose_with_context_(self, qubits, context=None):
        a, b = qubits
        qm = context.qubit_manager if context is not None else cirq.ops.SimpleQubitManager()
        (anc,) = qm.qalloc(1)
        ops = [cirq.CNOT(a, anc), cirq.CZ(anc, b) ** self.e, cirq.CNOT(a, anc)]
        qm.qfree([anc])
        return ops

    def __repr__(self):
        return f"AncillaGate({self.e})"


class Kernel(cirq.Gate):
    """Only _apply_unitary_; `mode` selects which array the kernel returns."""

    def __init__(self, u, mode):
        self.u = np.asarray(u)
        self.mode = mode
        self.n = int(round(np.log2(self.u.shape[0])))

    def _num_qubits_(self):
        return self.n

    def _apply_unitary_(self, args):
        n = self.n
        out = cirq.targeted_left_multiply(self.u.astype(args.target_tensor.dtype).reshape((2,) * (2 * n)), args.target_tensor, args.axes)
        if self.mode == "fresh":
            return out
        if self.mode == "buffer":
            args.available_buffer[...] = out
            return args.available_buffer
        if self.mode == "target":
            args.target_tensor[...] = out
            return args.target_tensor
        if self.mode == "view":
            # "clever" result: a new array object that shares memory with the target
            args.target_tensor[...] = out
            return args.target_tensor[...]
        raise core.HarnessError(self.mode)

    def __repr__(self):
        return f"Kernel{self.n}({self.mode})"


class KrausOnly(cirq.Gate):
    def __init__(self, ks, shape):
        self.ks = [np.asarray(k) for k in ks]
        self.shape = tuple(shape)

    def _qid_shape_(self):
        return self.shape

    def _kraus_(self):
        return tuple(k.copy() for k in self.ks)

    def __repr__(self):
        return f"KrausOnly{self.shape}"


class MixtureOnly(cirq.Gate):
    def __init__(self, mix):
        self.mix = mix

    def _num_qubits_(self):
        return 1

    def _mixture_(self):
        return tuple((p, u.copy()) for p, u in self.mix)

    def __repr__(self):
        return "MixtureOnly"


class PartlyUnitary(cirq.Gate):
    """Decomposes into a unitary prefix followed by a channel; optionally also reports _kraus_."""

    def __init__(self, gamma, with_kraus):
        self.gamma = gamma
        self.with_kraus = with_kraus

    def _num_qubits_(self):
        return 2

    def _decompose_(self, qubits):
        a, b = qubits
        return [cirq.H(a), cirq.CNOT(a, b), cirq.amplitude_damp(self.gamma).on(b), cirq.X(a)]

    def _has_unitary_(self):
        return False

    def _kraus_(self):
        if not self.with_kraus:
            return NotImplemented
        pre = E.apply_ops([(cirq.unitary(cirq.H), [0]), (cirq.unitary(cirq.CNOT), [0, 1])], (2, 2))
        post = E.embed(cirq.unitary(cirq.X), [0], (2, 2))
        return tuple(post @ E.embed(k, [1], (2, 2)) @ pre for k in cirq.kraus(cirq.amplitude_damp(self.gamma)))

    def __repr__(self):
        return f"PartlyUnitary({self.gamma},{self.with_kraus})"


class PartlyUnitaryNoFlag(cirq.Gate):
    """Like PartlyUnitary but without _has_unitary_/_kraus_: everything must be inferred from the decomposition."""

    def __init__(self, gamma):
        self.gamma = gamma

    def _num_qubits_(self):
        return 1

    def _decompose_(self, qubits):
        (a,) = qubits
        return [cirq.X(a) ** 0.5, cirq.phase_damp(self.gamma).on(a)]

    def __repr__(self):
        return f"PartlyUnitaryNoFlag({self.gamma})"


class Adder(cirq.ArithmeticGate):
    def __init__(self, target, inp):
        self.target = tuple(target)
        self.inp = inp if isinstance(inp, int) else tuple(inp)

    def registers(self):
        return self.target, self.inp

    def with_registers(self, *new):
        return Adder(*new)

    def apply(self, t, i):
        return t + i

    def __repr__(self):
        return f"Adder({self.target},{self.inp})"


# ---------------------------------------------------------------------------------------------
# base alphabet


def base_ops(seed):
    """list of (name, op, flags) ; flags: 'core' (depth-2 in quick tier), 'param' (parameterised)."""
    g = core.generic(seed, 0)
    g2 = core.generic(seed, 1)
    g3 = core.generic(seed, 2)
    p = 0.05 + 0.6 * (abs(g) % 1)
    p2 = 0.05 + 0.3 * (abs(g2) % 1)
    a, b, c, d, e5 = cirq.LineQubit.range(5)
    t0, t1 = T(0), T(1)
    L = []

    def add(name, op, *flags):
        L.append((name, op, frozenset(flags)))

    es1 = [(1, 0), (1, -0.5), (1, g2), (0.5, 0), (g, 0), (g, g2), (g, -0.5), (-1, 0)]
    es2 = [(1, 0), (1, g2), (g, 0), (g, -0.5), (0.5, 0)]
    es3 = [(1, 0), (1, g2), (g, 0)]
    core_names = {"X^1s0", "Y^1s0", "H^1s0", "Z^gs0", "X^gsg2", "CNOT^1s0", "CZ^gs0", "SWAP^1s0", "ISWAP^1sg2", "CCX^1s0"}

    def es_name(fam, e, s):
        en = {1: "1", 0.5: "0.5", -1: "-1", g: "g"}.get(e, str(e))
        sn = {0: "0", -0.5: "-0.5", g2: "g2"}.get(s, str(s))
        return f"{fam}^{en}s{sn}"

    for fam, cls in (("X", cirq.XPowGate), ("Y", cirq.YPowGate), ("Z", cirq.ZPowGate), ("H", cirq.HPowGate)):
        for e, s in es1:
            n = es_name(fam, e, s)
            add(n, cls(exponent=e, global_shift=s).on(a), *(["core"] if n in core_names else []))
    for fam, cls in (("CZ", cirq.CZPowGate), ("CNOT", cirq.CXPowGate), ("SWAP", cirq.SwapPowGate), ("ISWAP", cirq.ISwapPowGate),
                     ("XX", cirq.XXPowGate), ("YY", cirq.YYPowGate), ("ZZ", cirq.ZZPowGate)):
        for e, s in es2:
            n = es_name(fam, e, s)
            add(n, cls(exponent=e, global_shift=s).on(a, b), *(["core"] if n in core_names else []))
    for fam, cls in (("CCZ", cirq.CCZPowGate), ("CCX", cirq.CCXPowGate)):
        for e, s in es3:
            n = es_name(fam, e, s)
            add(n, cls(exponent=e, global_shift=s).on(a, b, c), *(["core"] if n in core_names else []))
    add("CSWAP", cirq.CSWAP(a, b, c))
    # identities / waits / global phase
    add("I", cirq.I(a))
    add("I2", cirq.IdentityGate(2).on(a, b))
    add("I(3,)", cirq.IdentityGate(qid_shape=(3,)).on(t0))
    add("I(2,3)", cirq.IdentityGate(qid_shape=(2, 3)).on(a, t1))
    add("Wait1", cirq.WaitGate(cirq.Duration(nanos=10)).on(a))
    add("Wait(2,3)", cirq.WaitGate(cirq.Duration(nanos=10), qid_shape=(2, 3)).on(a, t1))
    add("GP(i)", cirq.global_phase_operation(1j))
    add("GP(g)", cirq.global_phase_operation(np.exp(1j * g)))
    # qudit gates
    add("X3^1", cirq.XPowGate(dimension=3).on(t0))
    add("X3^g", cirq.XPowGate(dimension=3, exponent=g).on(t0))
    add("Z3^1", cirq.ZPowGate(dimension=3).on(t0))
    add("Z3^gsg2", cirq.ZPowGate(dimension=3, exponent=g, global_shift=g2).on(t0), "core")
    add("M3", cirq.MatrixGate(E.generic_unitary(3, seed + 1), qid_shape=(3,)).on(t0), "core")
    add("M(2,3)", cirq.MatrixGate(E.generic_unitary(6, seed + 2), qid_shape=(2, 3)).on(a, t1))
    add("M(3,2)", cirq.MatrixGate(E.generic_unitary(6, seed + 3), qid_shape=(3, 2)).on(t0, b))
    add("UOnly(3,)", UOnly(E.generic_unitary(3, seed + 4), (3,)).on(t0))
    # matrix-defined / phased gates
    add("M2", cirq.MatrixGate(E.generic_unitary(2, seed + 5)).on(a))
    add("M4", cirq.MatrixGate(E.generic_unitary(4, seed + 6)).on(a, b))
    add("M8", cirq.MatrixGate(E.generic_unitary(8, seed + 7)).on(a, b, c))
    add("PhX^1", cirq.PhasedXPowGate(phase_exponent=g2, exponent=1).on(a))
    add("PhX^g", cirq.PhasedXPowGate(phase_exponent=g2, exponent=g, global_shift=g3).on(a))
    add("PhXZ", cirq.PhasedXZGate(x_exponent=g, z_exponent=g2, axis_phase_exponent=g3).on(a))
    add("Cliff1", cirq.CliffordGate.from_op_list([cirq.H(a), cirq.S(a)], [a]).on(a), "phasefree")
    add("Cliff2", cirq.CliffordGate.from_op_list([cirq.H(a), cirq.CNOT(a, b), cirq.S(b)], [a, b]).on(a, b), "phasefree")
    add("SQClifford", cirq.SingleQubitCliffordGate.X_sqrt.on(a), "phasefree")
    # two-qubit families
    for nm, th, ph in (("FSim(g,0)", g, 0), ("FSim(0,g2)", 0, g2), ("FSim(g,g2)", g, g2), ("FSim(pi/2,pi/6)", np.pi / 2, np.pi / 6)):
        add(nm, cirq.FSimGate(th, ph).on(a, b))
    add("PhFSim(all)", cirq.PhasedFSimGate(g, g2, g3, 0.2, 0.4).on(a, b))
    add("PhFSim(000,g,g2)", cirq.PhasedFSimGate(0, 0, 0, g, g2).on(a, b))
    add("PhFSim(g,0000)", cirq.PhasedFSimGate(g, 0, 0, 0, 0).on(a, b))
    add("PhFSim(0,g2,000)", cirq.PhasedFSimGate(0, g2, 0, 0, 0).on(a, b))
    add("PhISwap^1", cirq.PhasedISwapPowGate(phase_exponent=g2, exponent=1).on(a, b))
    add("PhISwap^g", cirq.PhasedISwapPowGate(phase_exponent=g2, exponent=g, global_shift=g3).on(a, b), "core")
    add("givens", cirq.givens(g).on(a, b))
    add("SQRT_ISWAP_INV", cirq.SQRT_ISWAP_INV(a, b))
    add("Diag2q", cirq.TwoQubitDiagonalGate([g, g2, g3, 0.2]).on(a, b))
    add("Diag3q", cirq.ThreeQubitDiagonalGate([g, g2, g3, 0.2, 0.4, -0.3, 1.1, 2.0]).on(a, b, c))
    add("Diag1", cirq.DiagonalGate([g, g2]).on(a))
    add("Diag2", cirq.DiagonalGate([g, g2, g3, 0.2]).on(a, b))
    add("Diag3", cirq.DiagonalGate([g, g2, g3, 0.2, 0.4, -0.3, 1.1, 2.0]).on(a, b, c))
    add("Perm[1,0]", cirq.QubitPermutationGate([1, 0]).on(a, b))
    add("Perm[1,2,0]", cirq.QubitPermutationGate([1, 2, 0]).on(a, b, c), "core")
    add("Perm[2,0,1]", cirq.QubitPermutationGate([2, 0, 1]).on(a, b, c))
    add("Perm[0,2,1]", cirq.QubitPermutationGate([0, 2, 1]).on(a, b, c))
    add("Grad1", cirq.PhaseGradientGate(num_qubits=1, exponent=1).on(a))
    add("Grad2^g", cirq.PhaseGradientGate(num_qubits=2, exponent=g).on(a, b))
    add("Grad3^g", cirq.PhaseGradientGate(num_qubits=3, exponent=g).on(a, b, c))
    add("QFT1", cirq.QuantumFourierTransformGate(1).on(a))
    add("QFT2", cirq.QuantumFourierTransformGate(2).on(a, b), "core")
    add("QFT3", cirq.QuantumFourierTransformGate(3).on(a, b, c))
    add("QFT2nr", cirq.QuantumFourierTransformGate(2, without_reverse=True).on(a, b))
    add("PauliInt^1", cirq.PauliInteractionGate(cirq.X, False, cirq.Y, True).on(a, b))
    add("PauliInt^g", cirq.PauliInteractionGate(cirq.Z, True, cirq.X, False, exponent=g).on(a, b))
    add("MS", cirq.ms(g).on(a, b))
    add("BoolHam", cirq.BooleanHamiltonianGate(["x", "y"], ["x & y"], g).on(a, b))
    add("BoolHam^", cirq.BooleanHamiltonianGate(["x", "y", "z"], ["x ^ y", "y & z"], g2).on(a, b, c))
    add("UniSup(3,2)", cirq.UniformSuperpositionGate(3, 2).on(a, b))
    add("Adder([2,2],[2])", Adder((2, 2), (2,)).on(a, b, c))
    add("Adder([2,2],1)", Adder((2, 2), 1).on(a, b))
    add("Adder([3],[2])", Adder((3,), (2,)).on(t0, b))
    # controls written with bool / mixed control values (as library decompositions do)
    add("H.c[False]", cirq.H(b).controlled_by(a, control_values=[False]))
    add("X^g.c[True,False]", (cirq.X(c) ** g).controlled_by(a, b, control_values=[True, False]))
    add("CGate(Z^g,[(0,1)])", cirq.ControlledGate(cirq.Z ** g, control_values=[(0, 1)]).on(a, b))
    add("CGate(X,qid(3,2))", cirq.ControlledGate(cirq.X, num_controls=2, control_values=[2, 0], control_qid_shape=(3, 2)).on(t0, b, c))
    # Pauli strings
    add("PS(XY)", cirq.X(a) * cirq.Y(b))
    add("PS(-XZ)", -1 * cirq.X(a) * cirq.Z(c))
    add("PS(iZ)", 1j * cirq.PauliString(cirq.Z(a)))
    add("PS(YXZ)", cirq.Y(c) * cirq.X(a) * cirq.Z(b))
    add("DPS(iXYZ)", cirq.DensePauliString("XYZ", coefficient=1j).on(a, b, c))
    add("DPS(IX)", cirq.DensePauliString("IX").on(a, b))
    add("PSPhasor", cirq.PauliStringPhasor(cirq.X(a) * cirq.Z(b), exponent_neg=g, exponent_pos=g2))
    add("PSPhasor+I", cirq.PauliStringPhasor(cirq.Y(a) * cirq.Z(c), qubits=[a, b, c], exponent_neg=g))
    # vendor gates
    add("SYC", cirq_google.SYC(a, b))
    add("WILLOW", cirq_google.WILLOW(a, b))
    add("GPI", cirq_ionq.GPIGate(phi=g).on(a))
    add("GPI2", cirq_ionq.GPI2Gate(phi=g).on(a))
    add("ionqMS", cirq_ionq.MSGate(phi0=g, phi1=g2).on(a, b))
    add("ionqMS(theta)", cirq_ionq.MSGate(phi0=g, phi1=g2, theta=g3).on(a, b))
    add("ionqZZ", cirq_ionq.ZZGate(theta=g).on(a, b))
    # single-protocol user gates
    add("UOnly1", UOnly(E.generic_unitary(2, seed + 8), (2,)).on(a), "core")
    add("UOnly2", UOnly(E.generic_unitary(4, seed + 9), (2, 2)).on(a, b))
    add("DecOnly", DecOnly(g).on(a, b), "core")
    add("DecOnly1", DecOnly1(g).on(a))
    add("Ancilla", AncillaGate(g).on(a, b), "core")
    for mode in ("fresh", "buffer", "target", "view"):
        add(f"Kernel1({mode})", Kernel(E.generic_unitary(2, seed + 10), mode).on(a), *(["core"] if mode == "view" else []))
        add(f"Kernel2({mode})", Kernel(E.generic_unitary(4, seed + 11), mode).on(a, b))
    # channels, measurements, partly-unitary decompositions
    add("depol", cirq.depolarize(p).on(a), "core")
    add("depol2", cirq.depolarize(p, n_qubits=2).on(a, b))
    add("asymdepol", cirq.asymmetric_depolarize(0.1, p2, 0.2).on(a))
    add("asymdepol2", cirq.asymmetric_depolarize(error_probabilities={"XI": 0.1, "ZZ": p2, "II": 0.9 - p2}).on(a, b))
    add("ampdamp", cirq.amplitude_damp(p).on(a), "core")
    add("genampdamp", cirq.generalized_amplitude_damp(p2, p).on(a))
    add("phasedamp", cirq.phase_damp(p).on(a))
    add("phaseflip", cirq.phase_flip(p).on(a))
    add("bitflip", cirq.bit_flip(p).on(a))
    add("bitflip(1)", cirq.bit_flip(1.0).on(a))
    add("reset", cirq.ResetChannel().on(a))
    add("reset3", cirq.ResetChannel(dimension=3).on(t0))
    ad = cirq.kraus(cirq.amplitude_damp(p2))
    add("KrausChannel", cirq.KrausChannel(ad).on(a))
    add("KrausChannel2", cirq.KrausChannel([np.kron(k, u) for k in ad for u in (np.sqrt(0.5) * np.eye(2), np.sqrt(0.5) * cirq.unitary(cirq.Y))]).on(a, b))
    add("MixedUnitary", cirq.MixedUnitaryChannel([(p, E.generic_unitary(2, seed + 12)), (1 - p, E.generic_unitary(2, seed + 13))]).on(a))
    add("RandomGate", cirq.RandomGateChannel(sub_gate=cirq.X ** g, probability=p).on(a))
    add("RandomGate2", cirq.RandomGateChannel(sub_gate=cirq.CNOT, probability=p).on(a, b))
    add("StatePrep", cirq.StatePreparationChannel(E.generic_state(2, seed + 14)).on(a))
    add("KrausOnly", KrausOnly(ad, (2,)).on(a))
    add("MixtureOnly", MixtureOnly([(p, E.generic_unitary(2, seed + 15)), (1 - p, np.eye(2, dtype=complex))]).on(a))
    add("measure(a)", cirq.measure(a, key="m"), "core")
    add("measure(a,b;inv)", cirq.measure(a, b, key="m2", invert_mask=(True, False)))
    add("measure(t)", cirq.measure(t0, key="m3"))
    add("PauliMeasure(X)", cirq.measure_single_paulistring(cirq.X(a), key="pm"), "core")
    add("PauliMeasure(XY)", cirq.measure_single_paulistring(cirq.X(a) * cirq.Y(b), key="pm2"))
    add("PauliMeasure(-ZZ)", cirq.measure_single_paulistring(-1 * cirq.Z(a) * cirq.Z(b), key="pm3"))
    add("PartlyUnitary(kraus)", PartlyUnitary(p, True).on(a, b), "core")
    add("PartlyUnitary(nokraus)", PartlyUnitary(p, False).on(a, b))
    add("PartlyUnitaryNoFlag", PartlyUnitaryNoFlag(p).on(a), "core")
    add("CircuitOp(H;ampdamp)", cirq.CircuitOperation(cirq.FrozenCircuit(cirq.H(a), cirq.amplitude_damp(p).on(a))))
    add("CircuitOp(CNOT;measure)", cirq.CircuitOperation(cirq.FrozenCircuit(cirq.H(b), cirq.CNOT(b, a), cirq.measure(a, key="cm"))))
    add("CircuitOp(X^g;CZ)x2", cirq.CircuitOperation(cirq.FrozenCircuit(cirq.X(b) ** g, cirq.CZ(b, a) ** g2), repetitions=2))
    # 5-qubit operations (apply_unitary prefers the decomposition)
    add("Both5", Both5(g).on(a, b, c, d, e5), "big")
    add("Par5(X^g)", cirq.ParallelGate(cirq.X ** g, 5).on(a, b, c, d, e5), "big")
    add("QFT5", cirq.QuantumFourierTransformGate(5).on(a, b, c, d, e5), "big")
    # parameterised operations: no unitary until resolved
    s = sympy.Symbol("s")
    add("X^s", cirq.X(a) ** s, "param")
    add("Z^s", cirq.Z(a) ** s, "param")
    add("CZ^s", cirq.CZ(a, b) ** s, "param")
    add("FSim(s,0)", cirq.FSimGate(s, 0).on(a, b), "param")
    add("Diag(s)", cirq.DiagonalGate([s, 0.1]).on(a), "param")
    add("ZZ^s", cirq.ZZ(a, b) ** s, "param")
    add("CCZ^s", cirq.CCZ(a, b, c) ** s, "param")
    return L


# ---------------------------------------------------------------------------------------------
# wrappers: (name, fn(op, depth) -> op).  A constructor exception = documented rejection of that composition.


def _w_perm(op, depth):
    qs = op.qubits
    if len(qs) < 2:
        raise ValueError("nothing to permute")
    for cand in (qs[1:] + qs[:1], qs[::-1]):
        if tuple(q.dimension for q in cand) == tuple(q.dimension for q in qs):
            return op.with_qubits(*cand)
    raise ValueError("no shape-preserving permutation")


def _w_par(op, depth):
    if op.gate is None or not isinstance(op, cirq.GateOperation):
        raise ValueError("not a gate operation")
    if len(op.qubits) != 1:
        raise ValueError("ParallelGate takes single-qubit gates")
    if cirq.is_measurement(op):
        raise ValueError("ParallelGate of a measurement (two records under one key) is outside this alphabet")
    (q,) = op.qubits
    extra = cirq.LineQid(300 + 10 * depth, dimension=q.dimension)
    return cirq.ParallelGate(op.gate, 2).on(q, extra)


WRAPPERS = [
    ("tag", lambda op, d: op.with_tags("t%d" % d)),
    ("Tagged", lambda op, d: cirq.TaggedOperation(op, "u%d" % d)),
    ("perm", _w_perm),
    ("c1", lambda op, d: op.controlled_by(ctrl(d, 0))),
    ("c0", lambda op, d: op.controlled_by(ctrl(d, 0), control_values=[0])),
    ("csop", lambda op, d: op.controlled_by(ctrl(d, 0), ctrl(d, 1), control_values=cirq.SumOfProducts([[0, 1], [1, 0]]))),
    ("c3", lambda op, d: op.controlled_by(ctrl3(d), control_values=[(1, 2)])),
    ("inv", lambda op, d: op ** -1),
    ("sqrt", lambda op, d: op ** 0.5),
    ("par", _w_par),
    ("cop", lambda op, d: cirq.CircuitOperation(cirq.FrozenCircuit(op))),
    ("cco", lambda op, d: op.with_classical_controls("k%d" % d)),
]
WNAME = [w[0] for w in WRAPPERS]
W_CCO = WNAME.index("cco")
MAXK = 6

_BASE = None
_SEED = 0
_INFO = {}


def _init(seed):
    global _BASE, _SEED
    _BASE = base_ops(seed)
    _SEED = seed
    _INFO.clear()


def build(desc):
    bi, w = desc
    op = _BASE[bi][1]
    for d, wi in enumerate(w):
        op = WRAPPERS[wi][1](op, d)
        if not isinstance(op, cirq.Operation):
            raise TypeError("wrapper did not return an operation")
    return op


def name_of(desc):
    bi, w = desc
    return _BASE[bi][0] + "".join("." + WNAME[wi] for wi in w)


class Info:
    __slots__ = ("desc", "op", "qubits", "shape", "k", "U", "U_exc", "_ks", "_ks_done", "embeds", "_stab")

    def __init__(self, desc):
        self.desc = desc
        self.op = build(desc)
        self.qubits = tuple(self.op.qubits)
        self.shape = tuple(q.dimension for q in self.qubits)
        self.k = len(self.qubits)
        self.U_exc = None
        try:
            self.U = cirq.unitary(self.op, None)
        except Exception as e:  # reported by the flags stage; the other stages have no reference for this op
            self.U = None
            self.U_exc = f"{type(e).__name__}: {e}"
        self._ks_done = False
        self._ks = None
        self._stab = None
        self.embeds = {}

    @property
    def stab(self):
        if self._stab is None:
            self._stab = bool(self.U is not None and all(d == 2 for d in self.shape) and cirq.has_stabilizer_effect(self.op))
        return self._stab

    @property
    def ks(self):
        """Reference Kraus set: cirq.kraus(op); when Cirq offers none, the composition of the decomposition's Kraus sets."""
        if not self._ks_done:
            self._ks = ref_kraus(self.op)
            self._ks_done = True
        return self._ks


def info(desc) -> Info:
    desc = (desc[0], tuple(desc[1]))
    r = _INFO.get(desc)
    if r is None:
        if len(_INFO) > 3000:
            _INFO.clear()
        r = _INFO[desc] = Info(desc)
    return r


def try_kraus(val):
    try:
        return cirq.kraus(val)
    except TypeError:
        return None


def pauli_measure_kraus(op):
    g = op.gate
    obs = g.observable() if callable(getattr(g, "observable", None)) else g._observable
    n = len(obs)
    P = obs.coefficient * E.kron(*[cirq.unitary(x) for x in obs]) if n else np.eye(1)
    I = np.eye(P.shape[0])
    return ((I + P) / 2, (I - P) / 2)


def ref_kraus(op, depth=0):
    ks = try_kraus(op)
    if ks is not None:
        return tuple(np.asarray(k, dtype=np.complex128) for k in ks)
    if depth > 6:
        return None
    if isinstance(op.untagged.gate, cirq.PauliMeasurementGate):
        return tuple(np.asarray(k, dtype=np.complex128) for k in pauli_measure_kraus(op.untagged))
    if cirq.is_parameterized(op) or cirq.control_keys(op):
        return None
    dec = cirq.decompose_once(op, None)
    if dec is None:
        return None
    qs = list(op.qubits)
    if any(q not in qs for o in dec for q in o.qubits):
        return None
    shape = tuple(q.dimension for q in qs)
    D = int(np.prod(shape)) if shape else 1
    total = [np.eye(D, dtype=np.complex128)]
    for o in dec:
        sub = ref_kraus(o, depth + 1)
        if sub is None:
            return None
        pos = [qs.index(q) for q in o.qubits]
        emb = [E.embed(k, pos, shape) for k in sub]
        total = [m @ t for m in emb for t in total]
        if len(total) > 256:
            return None
    return tuple(total)


def all_descs(tier, max_depth=2, include_cco=False, want=None):
    """Every valid wrapper composition (by construction) up to the tier's depth bound, simplest first."""
    out = []
    rejected = 0
    for depth in range(0, max_depth + 1):
        for bi, (nm, op, flags) in enumerate(_BASE):
            if depth == 2 and tier == "quick" and "core" not in flags:
                continue
            if depth >= 1 and "big" in flags:
                continue
            for w in itertools.product(range(len(WRAPPERS)), repeat=depth):
                if not include_cco and W_CCO in w:
                    continue
                if W_CCO in w[:-1]:
                    continue  # classical control only as the outermost wrapper
                try:
                    build((bi, w))
                except (ValueError, TypeError):
                    rejected += 1
                    continue
                inf = info((bi, w))
                if inf.k > MAXK:
                    continue
                if want is not None and not want(inf):
                    continue
                out.append((bi, w))
    return out, rejected


def is_identity_map(inf):
    if inf.U is not None:
        return bool(np.allclose(inf.U, np.eye(inf.U.shape[0]), atol=1e-9))
    return False


# ---------------------------------------------------------------------------------------------
# stage 1: apply_unitary on every axis layout

SPECT_DIMS = (3, 2, 2)


def layout_shape(shape, r, axes):
    """Tensor shape of rank r with the operation's dims at `axes`; spectator axes get dims 3,2,2 in order."""
    out = [0] * r
    for d, ax in zip(shape, axes):
        out[ax] = d
    j = 0
    for i in range(r):
        if out[i] == 0:
            out[i] = SPECT_DIMS[j]
            j += 1
    return tuple(out)


def structured_perms(r, k):
    """Rule-defined family used when k! is too large: identity, reversal, all rotations, all transpositions of the
    identity, each also shifted to every window offset."""
    fam = []
    base = list(range(k))
    cands = [base, base[::-1]] + [base[i:] + base[:i] for i in range(1, k)]
    for i in range(k):
        for j in range(i + 1, k):
            pr = list(base)
            pr[i], pr[j] = pr[j], pr[i]
            cands.append(pr)
    for off in range(0, r - k + 1):
        for cnd in cands:
            t = tuple(x + off for x in cnd)
            if t not in fam:
                fam.append(t)
    if r > k:
        # interleaved: skip one axis in the middle
        gap = k // 2
        t = tuple(x if x < gap else x + 1 for x in base)
        for cnd in (t, t[::-1]):
            if cnd not in fam:
                fam.append(cnd)
    return fam


def layouts_for(k, tier):
    """(rank, axes) list: ALL injective assignments for k<=3 (ranks k..k+2) and k=4 (ranks 4,5); structured family above."""
    out = []
    if k <= 3:
        ranks = range(k, k + 3)
    elif k == 4:
        ranks = (4, 5)
    elif k == 5:
        ranks = (5, 6)
    else:
        ranks = (k,)
    for r in ranks:
        if k <= 4 or (tier == "thorough" and k == 5 and r == 5):
            for axes in itertools.permutations(range(r), k):
                out.append((r, axes))
        else:
            for axes in structured_perms(r, k):
                out.append((r, axes))
    return out


_TENSORS = {}


def generic_tensor(shape, salt, dtype=np.complex128):
    """Deterministic generic complex tensor (unit norm); callers must copy before handing it to Cirq."""
    key = (tuple(shape), salt, np.dtype(dtype).str, _SEED)
    t = _TENSORS.get(key)
    if t is None:
        t = _TENSORS[key] = _generic_tensor(shape, salt, dtype)
        t.setflags(write=False)
    return t


def _generic_tensor(shape, salt, dtype):
    D = int(np.prod(shape)) if len(shape) else 1
    rng = np.random.RandomState(4000 + 17 * _SEED + salt)
    v = rng.randn(D) + 1j * rng.randn(D)
    v /= np.linalg.norm(v)
    return v.reshape(shape).astype(dtype)


def embedded(inf, mat_key, mat, axes, tshape):
    key = (mat_key, tuple(axes), tuple(tshape))
    m = inf.embeds.get(key)
    if m is None:
        if len(inf.embeds) > 400:
            inf.embeds.clear()
        m = inf.embeds[key] = E.embed(mat, list(axes), tshape)
    return m


VARIANTS = ("vec128", "mat128", "gate128", "vec64")


def could_touch(inf):
    """A non-unitary input is a non-trivial 'must not mutate' case when some strategy could have started work."""
    if hasattr(inf.op, "_apply_unitary_") or hasattr(inf.op, "_decompose_") or hasattr(inf.op, "_decompose_with_context_"):
        return True
    return False


def run_apply(case):
    bi, w, r, axes, var = case
    inf = info((bi, w))
    if inf.U_exc:
        return Res(skipped=True, nontrivial=False)
    axes = tuple(axes)
    tshape = layout_shape(inf.shape, r, axes)
    D = int(np.prod(tshape)) if tshape else 1
    variant = VARIANTS[var]
    dtype = np.complex64 if variant == "vec64" else np.complex128
    if variant == "mat128":
        t0 = generic_tensor(tshape + tshape, 1, dtype)
    else:
        t0 = generic_tensor(tshape, 0, dtype)
    t = t0.copy()
    buf = np.full_like(t, NAN)
    val = inf.op.gate if variant == "gate128" else inf.op
    if val is None:
        return Res(skipped=True, nontrivial=False)
    res = cirq.apply_unitary(val, cirq.ApplyUnitaryArgs(t, buf, axes), default=None)
    nm = name_of((bi, w))
    if inf.U is None:
        if res is not None:
            return bad(f"{nm}: cirq.unitary(op, None) is None but apply_unitary({variant}, axes={axes}, shape={tshape}) returned an array",
                       kind="apply_unitary_without_unitary")
        if not np.array_equal(t, t0):
            return bad(f"{nm}: apply_unitary returned the default (no unitary effect) but mutated target_tensor "
                       f"({variant}, axes={axes}, shape={tshape}); max change {np.nanmax(np.abs(t - t0))}", kind="default_but_mutated")
        return good(nontrivial=could_touch(inf), no_unitary_cases=1)
    if res is None:
        return bad(f"{nm}: cirq.unitary(op) exists but apply_unitary({variant}, axes={axes}) found no unitary effect", kind="apply_unitary_missing")
    M = embedded(inf, "U", inf.U, axes, tshape)
    ref = (M @ t0.reshape(D, -1).astype(np.complex128)).reshape(t0.shape)
    if res.shape != t0.shape:
        return bad(f"{nm}: result shape {res.shape} != target shape {t0.shape}", kind="shape")
    atol = ATOL64 if variant == "vec64" else ATOL
    if np.isnan(res).any():
        return bad(f"{nm}: apply_unitary({variant}, axes={axes}, shape={tshape}) result contains NaN: stale available_buffer content leaked",
                   kind="stale_buffer")
    if not np.allclose(res, ref, atol=atol, rtol=0):
        return bad(f"{nm}: apply_unitary({variant}, axes={axes}, shape={tshape}) != cirq.unitary embedded on those axes; max |diff| = "
                   f"{np.max(np.abs(res - ref)):.3g}", kind="apply_unitary_mismatch")
    return good(nontrivial=not is_identity_map(inf))


def apply_cases(tier, descs):
    out = []
    for desc in descs:
        inf = info(desc)
        has_gate = inf.op.gate is not None
        depth = len(desc[1])
        for r, axes in layouts_for(inf.k, tier):
            if tier == "quick" and depth == 2 and r > inf.k + 1:
                continue  # quick tier: depth-2 compositions up to one spectator axis
            tshape = layout_shape(inf.shape, r, axes)
            D = int(np.prod(tshape)) if tshape else 1
            for var, variant in enumerate(VARIANTS):
                if variant == "mat128" and (D > 48 or (tier == "quick" and depth == 2 and r > inf.k)):
                    continue
                if variant == "gate128" and not has_gate:
                    continue
                if variant in ("gate128", "vec64") and (r > inf.k + (0 if inf.k >= 4 else 1) or (tier == "quick" and depth == 2)):
                    continue
                out.append((desc[0], desc[1], r, axes, var))
    return out


def describe_apply(case):
    bi, w, r, axes, var = case
    return {"op": name_of((bi, w)), "rank": r, "axes": list(axes), "variant": VARIANTS[var]}


# ---------------------------------------------------------------------------------------------
# stage 2: subspaces= (qubit operations acting inside qutrit / ququart axes)

SUBSPACES = {
    3: [(0, 1), (1, 2), (0, 2), (1, 0), (2, 1), (2, 0)],
    4: [(0, 1), (1, 3), (3, 1), (2, 3), (0, 3), (3, 0), (2, 0)],
}


def subspace_matrix(U, subs, dims):
    """U (on qubits) acting on levels subs[i] of a dims[i]-level axis, identity on the rest of the space."""
    k = len(subs)
    Dd = int(np.prod(dims)) if k else 1
    P = np.zeros((Dd, 2 ** k), dtype=np.complex128)
    for col, bits in enumerate(itertools.product((0, 1), repeat=k)):
        idx = 0
        for d, s, b in zip(dims, subs, bits):
            idx = idx * d + s[b]
        P[idx, col] = 1
    return P @ U @ P.conj().T + (np.eye(Dd) - P @ P.conj().T)


def run_subspace(case):
    bi, w, d, r, axes, subs = case
    inf = info((bi, w))
    if inf.U_exc:
        return Res(skipped=True, nontrivial=False)
    axes = tuple(axes)
    subs = tuple(tuple(s) for s in subs)
    tshape = (d,) * r
    t0 = generic_tensor(tshape, 2)
    t = t0.copy()
    buf = np.full_like(t, NAN)
    nm = name_of((bi, w))
    res = cirq.apply_unitary(inf.op, cirq.ApplyUnitaryArgs(t, buf, axes, subspaces=subs), default=None)
    where = f"axes={axes}, tensor shape={tshape}, subspaces={subs}"
    if res is None:
        return bad(f"{nm}: has a unitary but apply_unitary with {where} found no unitary effect", kind="subspace_missing")
    Us = subspace_matrix(inf.U, subs, (d,) * inf.k)
    M = E.embed(Us, list(axes), tshape)
    ref = (M @ t0.reshape(-1)).reshape(tshape)
    if res.shape != tshape:
        return bad(f"{nm}: result shape {res.shape} ({where})", kind="shape")
    if np.isnan(res).any():
        return bad(f"{nm}: NaN from the poisoned buffer leaked into the result ({where})", kind="stale_buffer")
    if not np.allclose(res, ref, atol=ATOL, rtol=0):
        t2 = t0.copy()
        only_dec = cirq.apply_unitary(inf.op, cirq.ApplyUnitaryArgs(t2, np.full_like(t2, NAN), axes, subspaces=subs), default=None,
                                      allow_decompose=False) is None
        return bad(f"{nm}: apply_unitary with {where} != unitary acting on those levels (identity elsewhere); max |diff| = "
                   f"{np.max(np.abs(res - ref)):.3g}" + (" [operation is applied through the decomposition strategy]" if only_dec else ""),
                   kind="subspace_ignored_by_decompose_strategy" if only_dec else "subspace_mismatch")
    return good(nontrivial=not is_identity_map(inf))


def subspace_cases(tier, descs):
    out = []
    for desc in descs:
        inf = info(desc)
        if inf.U is None or inf.k < 1 or inf.k > (2 if tier == "quick" else 3) or any(x != 2 for x in inf.shape):
            continue
        if inf.k == 3 and len(desc[1]) > 0:
            continue
        for d in ((3,) if tier == "quick" or inf.k == 3 or len(desc[1]) == 2 else (3, 4)):
            choices = SUBSPACES[d] if inf.k <= 2 else SUBSPACES[d][:3]
            if tier == "quick" and inf.k == 2:
                choices = [(0, 1), (1, 2), (0, 2), (2, 1)]
            for r in ((inf.k, inf.k + 1) if inf.k <= 2 and not (tier == "quick" and len(desc[1]) == 2) else (inf.k,)):
                for axes in itertools.permutations(range(r), inf.k):
                    for subs in itertools.product(choices, repeat=inf.k):
                        out.append((desc[0], desc[1], d, r, axes, subs))
    return out


def describe_subspace(case):
    bi, w, d, r, axes, subs = case
    return {"op": name_of((bi, w)), "tensor": [d] * r, "axes": list(axes), "subspaces": [list(s) for s in subs]}


# ---------------------------------------------------------------------------------------------
# stage 3: apply_unitaries over sequences (buffer hand-over between kernels), incl. gate.on_each


def seq_letters(seed):
    g = core.generic(seed, 0)
    g2 = core.generic(seed, 1)
    a, b, c = cirq.LineQubit.range(3)
    return [
        ("X(a)", [cirq.X(a)]), ("Y(c)", [cirq.Y(c)]), ("H(b)", [cirq.H(b)]), ("Z(b)^g", [cirq.Z(b) ** g]),
        ("X.on_each(a,c)", cirq.X.on_each(a, c)), ("(Y^g).on_each(c,a,b)", (cirq.Y ** g).on_each(c, a, b)),
        ("CNOT(c,a)", [cirq.CNOT(c, a)]), ("CNOT(a,b)", [cirq.CNOT(a, b)]), ("CZ(a,c)^g", [cirq.CZ(a, c) ** g]),
        ("SWAP(a,c)", [cirq.SWAP(a, c)]), ("SWAP(b,a)", [cirq.SWAP(b, a)]), ("ISWAP(c,b)", [cirq.ISWAP(c, b)]),
        ("FSim(b,a)", [cirq.FSimGate(g, g2).on(b, a)]), ("PhISwap(a,c)", [cirq.PhasedISwapPowGate(phase_exponent=g2, exponent=g).on(a, c)]),
        ("Perm[1,2,0](c,a,b)", [cirq.QubitPermutationGate([1, 2, 0]).on(c, a, b)]), ("CCX(c,b,a)", [cirq.CCX(c, b, a)]),
        ("CSWAP(b,c,a)", [cirq.CSWAP(b, c, a)]), ("X(c).c0(a)", [cirq.X(c).controlled_by(a, control_values=[0])]),
        ("M4(c,a)", [cirq.MatrixGate(E.generic_unitary(4, seed + 21)).on(c, a)]), ("Kernel(view)(b)", [Kernel(E.generic_unitary(2, seed + 22), "view").on(b)]),
        ("Kernel(fresh)(c,b)", [Kernel(E.generic_unitary(4, seed + 23), "fresh").on(c, b)]), ("DecOnly(c,a)", [DecOnly(g).on(c, a)]),
        ("Ancilla(b,c)", [AncillaGate(g2).on(b, c)]), ("GP(i)", [cirq.global_phase_operation(1j)]),
        ("PS(XY)(c,a)", [cirq.X(c) * cirq.Y(a)]), ("cop(H(a);CNOT(a,c))", [cirq.CircuitOperation(cirq.FrozenCircuit(cirq.H(a), cirq.CNOT(a, c)))]),
    ]


_SEQ = None


def _init_seq(seed):
    global _SEQ
    _init(seed)
    _SEQ = seq_letters(seed)


def run_sequence(case):
    seq, r, axes, mode = case
    a, b, c = cirq.LineQubit.range(3)
    qubits = [a, b, c]
    axes = tuple(axes)
    tshape = layout_shape((2, 2, 2), r, axes)
    ops = [o for li in seq for o in _SEQ[li][1]]
    label = " ; ".join(_SEQ[li][0] for li in seq)
    mats = [(cirq.unitary(o), [axes[qubits.index(q)] for q in o.qubits]) for o in ops]
    if mode == 0:
        t0 = generic_tensor(tshape, 3)
        t = t0.copy()
        buf = np.full_like(t, NAN)
        res = cirq.apply_unitaries(ops, qubits, cirq.ApplyUnitaryArgs(t, buf, axes))
        ref = (E.apply_ops(mats, tshape) @ t0.reshape(-1)).reshape(tshape)
    else:
        # args=None: |000> with the given qubit order
        order = [qubits[i] for i in axes[:3]] if r == 3 else qubits
        res = cirq.apply_unitaries(ops, order)
        mats = [(cirq.unitary(o), [order.index(q) for q in o.qubits]) for o in ops]
        ref = E.apply_ops(mats, (2, 2, 2))[:, 0].reshape(2, 2, 2)
    if res is None or res.shape != ref.shape:
        return bad(f"apply_unitaries([{label}]) returned {None if res is None else res.shape}", kind="sequence_shape")
    if np.isnan(res).any():
        return bad(f"apply_unitaries([{label}], axes={axes}, shape={tshape}): NaN from the poisoned buffer leaked into the result", kind="stale_buffer")
    if not np.allclose(res, ref, atol=ATOL, rtol=0):
        return bad(f"apply_unitaries([{label}], qubits=(a,b,c), axes={axes}, shape={tshape}, mode={mode}) != product of the embedded unitaries; "
                   f"max |diff| = {np.max(np.abs(res - ref)):.3g}", kind="sequence_mismatch")
    return good(nontrivial=len(ops) >= 2)


def sequence_cases(tier):
    n = len(_SEQ)
    seqs = [(i,) for i in range(n)] + list(itertools.product(range(n), repeat=2))
    if tier == "thorough":
        corel = [0, 1, 4, 6, 9, 11, 12, 14, 17, 19, 21, 22]
        seqs += list(itertools.product(corel, repeat=3))
    out = []
    for seq in seqs:
        for r in (3, 4):
            for axes in itertools.permutations(range(r), 3):
                out.append((seq, r, axes, 0))
        for axes in itertools.permutations(range(3), 3):
            out.append((seq, 3, axes, 1))
    return out


def describe_sequence(case):
    seq, r, axes, mode = case
    return {"ops": [_SEQ[i][0] for i in seq], "rank": r, "axes": list(axes), "args": ["given", "None"][mode]}


# ---------------------------------------------------------------------------------------------
# stage 4: decompose_once / decompose products


def _super_of(ks, pos, shape):
    return sum(np.kron(m, m.conj()) for m in (E.embed(k, pos, shape) for k in ks))


def check_decomposition(inf, dec, what):
    """Product of `dec` (a flat op list) must equal the operation's own description.  Returns a violation or (None, nontrivial)."""
    nm = name_of(inf.desc)
    own = list(inf.qubits)
    anc = sorted({q for o in dec for q in o.qubits if q not in own})
    reg = own + anc
    shape = tuple(q.dimension for q in reg)
    A = int(np.prod([q.dimension for q in anc])) if anc else 1
    units = [cirq.unitary(o, None) for o in dec]
    text = "[" + ", ".join(str(o) for o in dec[:12]) + (", ..." if len(dec) > 12 else "") + "]"
    if all(u is not None for u in units):
        if inf.U is None:
            return bad(f"{nm}: {what} = {text} consists of unitary operations only, yet cirq.unitary(op, None) is None", kind="decompose_unitary_flag"), False
        if len(reg) > 8:
            return None, False
        P = E.apply_ops([(u, [reg.index(q) for q in o.qubits]) for u, o in zip(units, dec)], shape)
        block = P[::A, ::A]
        if not np.allclose(block, inf.U, atol=ATOL, rtol=0):
            ph = E.eq_up_to_phase(inf.U, block, 1e-7)
            return bad(f"{nm}: product of {what} = {text} != cirq.unitary(op) " + ("(equal only up to a global phase); " if ph else "; ") +
                       f"max |diff| = {np.max(np.abs(block - inf.U)):.3g}" + (f" [ancillas {anc}, compared on their |0> block]" if anc else ""),
                       kind="decompose_phase" if ph else "decompose_mismatch"), False
        if anc:
            leak = P[:, ::A].copy()
            leak[::A, :] = 0
            if np.max(np.abs(leak)) > 1e-7:
                return bad(f"{nm}: {what} = {text} does not return its ancillas {anc} to |0> (leak {np.max(np.abs(leak)):.3g})", kind="decompose_ancilla"), False
        return None, len(dec) >= 2 or (len(dec) == 1 and dec[0] != inf.op)
    # partly / non unitary decomposition: compare superoperators
    if inf.U is not None:
        return bad(f"{nm}: has a unitary but {what} = {text} contains non-unitary operations", kind="decompose_unitary_flag"), False
    if anc or len(reg) > 3 or inf.ks is None:
        return None, False
    D = int(np.prod(shape)) if shape else 1
    S = np.eye(D * D, dtype=np.complex128)
    for o in dec:
        ks = ref_kraus(o)
        if ks is None:
            return None, False
        S = _super_of(ks, [reg.index(q) for q in o.qubits], shape) @ S
    own_S = _super_of(inf.ks, list(range(len(reg))), shape)
    if not np.allclose(S, own_S, atol=1e-7, rtol=0):
        return bad(f"{nm}: channel composed from {what} = {text} != channel of cirq.kraus(op); max |diff| of superoperators = "
                   f"{np.max(np.abs(S - own_S)):.3g}", kind="decompose_channel_mismatch"), False
    return None, True


def run_decompose(case):
    bi, w = case
    inf = info((bi, w))
    if inf.U_exc:
        return Res(skipped=True, nontrivial=False)
    if cirq.is_parameterized(inf.op) or cirq.control_keys(inf.op):
        return Res(skipped=True, nontrivial=False)
    try:
        return _run_decompose(inf)
    except (ValueError, IndexError, TypeError) as e:
        import traceback
        return bad(f"{name_of((bi, w))}: decomposing the operation (or taking cirq.unitary of a part) raised {type(e).__name__}: {e}\n"
                   + traceback.format_exc(limit=-4), kind="decompose_raises")


def _run_decompose(inf):
    nontriv = False
    once = cirq.decompose_once(inf.op, None)
    n = 0
    if once is not None:
        v, nt = check_decomposition(inf, list(once), "decompose_once(op)")
        if v is not None:
            return v
        nontriv |= nt
        n += 1
    if inf.op.gate is not None and isinstance(inf.op, (cirq.GateOperation, cirq.ControlledOperation)):
        g_once = cirq.decompose_once_with_qubits(inf.op.gate, inf.qubits, None)
        if g_once is not None:
            v, nt = check_decomposition(inf, list(g_once), "decompose_once_with_qubits(op.gate, op.qubits)")
            if v is not None:
                return v
            nontriv |= nt
            n += 1
    full = cirq.decompose(inf.op)
    if not (len(full) == 1 and full[0] is inf.op):
        v, nt = check_decomposition(inf, list(full), "decompose(op)")
        if v is not None:
            return v
        nontriv |= nt
        n += 1
    return good(nontrivial=nontriv, decompositions=n, max_decomposition_length=len(full))


def describe_desc(case):
    return {"op": name_of((case[0], case[1]))}


# ---------------------------------------------------------------------------------------------
# stage 5: kraus / mixture / superoperator describe one map; apply_channel / apply_mixture on all axis layouts


def run_channel_descriptions(case):
    bi, w = case
    inf = info((bi, w))
    if inf.U_exc:
        return Res(skipped=True, nontrivial=False)
    nm = name_of((bi, w))
    op = inf.op
    if cirq.is_parameterized(op):
        return Res(skipped=True, nontrivial=False)
    ks = try_kraus(op)
    D = int(np.prod(inf.shape)) if inf.shape else 1
    mix = cirq.mixture(op, None)
    if ks is None:
        if inf.U is not None:
            return bad(f"{nm}: has a unitary but cirq.kraus(op) raises TypeError", kind="kraus_missing")
        if mix is not None:
            return bad(f"{nm}: cirq.mixture(op) exists but cirq.kraus(op) raises TypeError", kind="kraus_missing")
        return good(nontrivial=False)
    ks = [np.asarray(k, dtype=np.complex128) for k in ks]
    for k in ks:
        if k.shape != (D, D):
            return bad(f"{nm}: Kraus operator of shape {k.shape}, qid_shape {inf.shape}", kind="kraus_shape")
    tot = sum(k.conj().T @ k for k in ks)
    if not np.allclose(tot, np.eye(D), atol=1e-7):
        return bad(f"{nm}: sum K^dag K != I (max dev {np.max(np.abs(tot - np.eye(D))):.3g})", kind="kraus_not_cptp")
    if mix is not None:
        ptot = sum(p for p, _ in mix)
        if abs(ptot - 1) > 1e-7 or any(p < -1e-12 for p, _ in mix):
            return bad(f"{nm}: mixture probabilities {[p for p, _ in mix]} are not a distribution", kind="mixture_probabilities")
        for p, u in mix:
            u = np.asarray(u)
            if u.shape != (D, D) or not np.allclose(u.conj().T @ u, np.eye(D), atol=1e-7):
                return bad(f"{nm}: a cirq.mixture(op) component is not a {D}x{D} unitary", kind="mixture_component")
    elif inf.U is not None:
        return bad(f"{nm}: has a unitary but cirq.mixture(op, None) is None", kind="mixture_missing")
    if D > 16:
        # superoperators would be >= 1024 x 1024: compare the single-operator descriptions directly
        if inf.U is not None:
            if len(ks) != 1 or not np.allclose(ks[0], inf.U, atol=ATOL):
                return bad(f"{nm}: cirq.kraus(op) is not (cirq.unitary(op),)", kind="kraus_vs_unitary")
            if len(mix) != 1 or not np.allclose(mix[0][1], inf.U, atol=ATOL):
                return bad(f"{nm}: cirq.mixture(op) is not ((1, cirq.unitary(op)),)", kind="mixture_vs_kraus")
        return good(nontrivial=not is_identity_map(inf), large=1)
    S = E.kraus_to_super(ks)
    if inf.U is not None and not np.allclose(S, np.kron(inf.U, inf.U.conj()), atol=1e-7):
        return bad(f"{nm}: cirq.kraus(op) describes a different map than cirq.unitary(op)", kind="kraus_vs_unitary")
    if mix is not None:
        Sm = sum(p * np.kron(np.asarray(u), np.asarray(u).conj()) for p, u in mix)
        if not np.allclose(Sm, S, atol=1e-7):
            return bad(f"{nm}: cirq.mixture(op) and cirq.kraus(op) describe different maps; max |diff| = {np.max(np.abs(Sm - S)):.3g}", kind="mixture_vs_kraus")
    S2 = cirq.kraus_to_superoperator(ks)
    if not np.allclose(S2, S, atol=1e-8):
        return bad(f"{nm}: cirq.kraus_to_superoperator != sum K (x) K*", kind="superoperator")
    S3 = cirq.operation_to_superoperator(op)
    if not np.allclose(S3, S, atol=1e-7):
        return bad(f"{nm}: cirq.operation_to_superoperator(op) differs from sum K (x) K* of cirq.kraus(op)", kind="superoperator")
    if D <= 8:
        ks_back = cirq.superoperator_to_kraus(S3)
        if not np.allclose(E.kraus_to_super(ks_back), S, atol=1e-6):
            return bad(f"{nm}: superoperator_to_kraus(operation_to_superoperator(op)) describes a different map", kind="superoperator")
    return good(nontrivial=not np.allclose(S, np.eye(D * D), atol=1e-9))


def lr_layouts(k, r):
    """All ordered pairs of disjoint ordered k-subsets (left axes, right axes) of r axes."""
    out = []
    for left in itertools.permutations(range(r), k):
        rest = [x for x in range(r) if x not in left]
        for right in itertools.permutations(rest, k):
            out.append((left, right))
    return out


def lr_shape(shape, r, left, right):
    out = [2] * r
    for d, ax in zip(shape, left):
        out[ax] = d
    for d, ax in zip(shape, right):
        out[ax] = d
    return tuple(out)


def lr_matrix(inf, left, right, tshape):
    key = ("LR", tuple(left), tuple(right) if right is not None else None, tuple(tshape))
    m = inf.embeds.get(key)
    if m is None:
        if len(inf.embeds) > 400:
            inf.embeds.clear()
        if right is None:
            raise core.HarnessError("lr_matrix needs right axes")
        m = sum(E.embed(k, list(left), tshape) @ E.embed(k.conj(), list(right), tshape) for k in inf.ks)
        inf.embeds[key] = m
    return m


API = ("apply_channel", "apply_mixture", "apply_mixture_sv")


def run_apply_channel(case):
    bi, w, r, left, right, api = case
    inf = info((bi, w))
    if inf.U_exc:
        return Res(skipped=True, nontrivial=False)
    nm = name_of((bi, w))
    left = tuple(left)
    which = API[api]
    if which == "apply_mixture_sv":
        right = None
        tshape = layout_shape(inf.shape, r, left)
    else:
        right = tuple(right)
        tshape = lr_shape(inf.shape, r, left, right)
    t0 = generic_tensor(tshape, 5)
    t = t0.copy()
    bufs = [np.full_like(t, NAN) for _ in range(3)]
    where = f"{which}(left_axes={left}, right_axes={right}, tensor shape={tshape})"
    try:
        if which == "apply_channel":
            res = cirq.apply_channel(inf.op, cirq.ApplyChannelArgs(t, bufs[0], bufs[1], bufs[2], left, right), default=None)
        else:
            res = cirq.apply_mixture(inf.op, cirq.ApplyMixtureArgs(t, bufs[0], bufs[1], bufs[2], left, right), default=None)
    except Exception as e:
        qudit = any(d != 2 for d in inf.shape)
        return bad(f"{nm}: {where} raised {type(e).__name__}: {e}", kind=which.replace("_sv", "") + ("_raises_on_qudits" if qudit else "_raises"))
    if which == "apply_channel":
        # what apply_channel itself promises to use: _apply_channel_, apply_unitary, or the cheap cirq.kraus(val, None)
        available = inf.U is not None or cirq.kraus(inf.op, None) is not None
        comparable = inf.ks is not None
    else:
        mix = cirq.mixture(inf.op, None)
        available = mix is not None or inf.U is not None
        comparable = available
    if res is None:
        if available:
            return bad(f"{nm}: the description exists but {where} returned the default", kind="apply_missing")
        if not np.array_equal(t, t0):
            return bad(f"{nm}: {where} returned the default but mutated target_tensor (max change {np.nanmax(np.abs(t - t0)):.3g})", kind="default_but_mutated")
        return good(nontrivial=could_touch(inf), no_description_cases=1)
    if not comparable:
        return good(nontrivial=False)
    if res.shape != tshape:
        return bad(f"{nm}: {where} result shape {res.shape}", kind="shape")
    if np.isnan(res).any():
        return bad(f"{nm}: {where}: NaN from a poisoned buffer leaked into the result", kind="stale_buffer")
    if which == "apply_mixture_sv":
        if inf.U is None:
            # a state-vector target has no mixed result; only unitary mixtures are comparable
            return good(nontrivial=False)
        M = embedded(inf, "U", inf.U, left, tshape)
    else:
        M = lr_matrix(inf, left, right, tshape)
    ref = (M @ t0.reshape(-1)).reshape(tshape)
    if not np.allclose(res, ref, atol=ATOL, rtol=0):
        return bad(f"{nm}: {where} != sum_k K (left) conj(K) (right) applied to the tensor; max |diff| = {np.max(np.abs(res - ref)):.3g}",
                   kind="apply_channel_mismatch")
    return good(nontrivial=not is_identity_map(inf))


def apply_channel_cases(tier, descs):
    out = []
    for desc in descs:
        inf = info(desc)
        if cirq.is_parameterized(inf.op) or inf.k < 1:
            continue
        depth = len(desc[1])
        if inf.k > 3 or (inf.k == 3 and (depth > 0 and tier == "quick")):
            continue
        if inf.k == 3:
            lay = [(6, (0, 1, 2), (3, 4, 5)), (6, (3, 4, 5), (0, 1, 2)), (6, (4, 0, 2), (1, 5, 3)), (6, (5, 3, 1), (4, 2, 0))]
        else:
            ranks = (2 * inf.k, 2 * inf.k + 1) if (tier == "thorough" or depth == 0 or (inf.k == 1 and depth == 1)) else (2 * inf.k,)
            lay = [(r, l, rt) for r in ranks for l, rt in lr_layouts(inf.k, r)]
        for r, l, rt in lay:
            out.append((desc[0], desc[1], r, l, rt, 0))
            out.append((desc[0], desc[1], r, l, rt, 1))
        if inf.k <= 2:
            for r in (inf.k, inf.k + 1):
                for axes in itertools.permutations(range(r), inf.k):
                    out.append((desc[0], desc[1], r, axes, (), 2))
    return out


def describe_apply_channel(case):
    bi, w, r, left, right, api = case
    return {"op": name_of((bi, w)), "rank": r, "left_axes": list(left), "right_axes": list(right), "api": API[api]}


# ---------------------------------------------------------------------------------------------
# stage 6: cirq.act_on on the simulation states (every branch of every random draw)

SPECT = cirq.LineQubit(900)
SIMS = ("sv", "dm", "ch", "tab")


def register_orders(n):
    if n <= 3:
        return list(itertools.permutations(range(n)))
    base = list(range(n))
    return [tuple(base), tuple(base[::-1]), tuple(base[1:] + base[:1])]


def channel_leaves(op, depth=0):
    """Sub-operations that a state-vector simulation samples through prng.random() (Kraus channels without mixture),
    following the strategy order of StateVectorSimulationState: own _act_on_, unitary, mixture, channel, decomposition.
    A None entry means 'cannot tell'."""
    if cirq.unitary(op, None) is not None:
        return []
    g = op.untagged.gate
    if isinstance(g, (cirq.ResetChannel, cirq.MeasurementGate)):
        return []
    transparent = isinstance(op.untagged, cirq.CircuitOperation) or (g is None and not isinstance(op.untagged, cirq.ControlledOperation))
    if not transparent:
        try:
            has_mix = cirq.mixture(op, None) is not None
        except Exception:
            has_mix = False
        if has_mix:
            return []
        if cirq.kraus(op, None) is not None:
            return [op]
    dec = cirq.decompose_once(op, None)
    if dec is None or depth > 6:
        return [None]
    out = []
    for o in dec:
        out.extend(channel_leaves(o, depth + 1))
    return out


PAULI_MATS = None


def dense_pauli_matrix(dps):
    global PAULI_MATS
    if PAULI_MATS is None:
        PAULI_MATS = [np.eye(2), np.array([[0, 1], [1, 0]]), np.array([[0, -1j], [1j, 0]]), np.diag([1, -1])]
    return complex(dps.coefficient) * E.kron(*[PAULI_MATS[int(m)] for m in dps.pauli_mask])


def clifford_prep(order, prep):
    """(initial basis state index, preparation ops) for the stabilizer states."""
    n = len(order)
    if prep == 0:
        return 0, []
    if prep == 1:
        return (1 << (n - 1)) | 1, []
    ops = [cirq.H(order[0]), cirq.S(order[0])]
    if n >= 2:
        ops += [cirq.CNOT(order[0], order[-1]), cirq.H(order[1]), cirq.CZ(order[1], order[0])]
    return 1, ops


def run_act_on(case):
    bi, w, si, oi, prep = case
    inf = info((bi, w))
    if inf.U_exc or cirq.is_parameterized(inf.op) or cirq.control_keys(inf.op):
        return Res(skipped=True, nontrivial=False)
    sim = SIMS[si]
    nm = name_of((bi, w))
    ks = inf.ks
    if ks is None:
        return Res(skipped=True, nontrivial=False)
    reg = list(inf.qubits) + [SPECT]
    order = [reg[i] for i in register_orders(len(reg))[oi]]
    shape = tuple(q.dimension for q in order)
    D = int(np.prod(shape))
    pos = [order.index(q) for q in inf.qubits]
    where = f"act_on({sim}, qubits order={order})"
    if sim in ("ch", "tab"):
        if not inf.stab:
            # decided at run time so that the case list does not depend on the seed-selected parameter values
            return Res(skipped=True, nontrivial=False, counters={"not_stabilizer": 1})
        b0, prep_ops = clifford_prep(order, prep)
        n = len(order)
        psi = np.zeros(D, dtype=np.complex128)
        psi[b0] = 1
        psi = E.apply_ops([(cirq.unitary(o), [order.index(q) for q in o.qubits]) for o in prep_ops], shape) @ psi
        ref = E.embed(inf.U, pos, shape) @ psi
        if sim == "ch":
            st = cirq.StabilizerChFormSimulationState(qubits=order, initial_state=b0)
        else:
            st = cirq.CliffordTableauSimulationState(tableau=cirq.CliffordTableau(n, initial_state=b0), qubits=order)
        for o in prep_ops:
            cirq.act_on(o, st)
        try:
            cirq.act_on(inf.op, st)
        except TypeError as e:
            if "Failed to act" in str(e):
                # the stabilizer states only accept what they can decompose into Clifford gates: documented rejection
                return Res(skipped=True, nontrivial=False, counters={"stabilizer_state_rejected": 1})
            raise
        if sim == "ch":
            got = np.asarray(st.state.state_vector(), dtype=np.complex128)
            if not np.allclose(got, ref, atol=1e-7, rtol=0):
                ph = E.eq_up_to_phase(ref, got, 1e-7)
                return bad(f"{nm}: {where} on a stabilizer state (prep {prep}) gives a state " + ("differing from U|psi> by a global phase" if ph else
                           "different from U|psi>") + f"; max |diff| = {np.max(np.abs(got - ref)):.3g}", kind="act_on_ch_phase" if ph else "act_on_ch_mismatch")
        else:
            for g in st.tableau.stabilizers():
                Mg = dense_pauli_matrix(g)
                if not np.allclose(Mg @ ref, ref, atol=1e-7, rtol=0):
                    return bad(f"{nm}: {where}: tableau stabilizer {g} does not stabilize U|psi> (prep {prep})", kind="act_on_tableau_mismatch")
        return good(nontrivial=not is_identity_map(inf))
    psi0 = generic_tensor(shape, 7).reshape(-1)
    if sim == "sv":
        rho_in = np.outer(psi0, psi0.conj())
    else:
        psi1 = generic_tensor(shape, 8).reshape(-1)
        rho_in = 0.7 * np.outer(psi0, psi0.conj()) + 0.3 * np.outer(psi1, psi1.conj())
    ref_rho = E.apply_kraus(rho_in, ks, pos, shape)
    leaves = channel_leaves(inf.op) if (sim == "sv" and inf.U is None) else []
    if None in leaves or len(leaves) > 1:
        return Res(skipped=True, nontrivial=False, counters={"sv_not_scriptable": 1})
    holder = {}

    def oracle():
        st = holder["st"]
        leaf = leaves[0]
        lks = try_kraus(leaf)
        qs = list(st.qubits)
        shp = tuple(q.dimension for q in qs)
        v = np.asarray(st.target_tensor, dtype=np.complex128).reshape(-1)
        return [float(np.linalg.norm(E.embed(k, [qs.index(q) for q in leaf.qubits], shp) @ v) ** 2) for k in lks]

    def one(ch):
        prng = ScriptedRandomState(ch, oracle=oracle if leaves else None)
        if sim == "sv":
            st = cirq.StateVectorSimulationState(qubits=order, initial_state=psi0.copy().reshape(shape), dtype=np.complex128, prng=prng)
        else:
            st = cirq.DensityMatrixSimulationState(qubits=order, initial_state=rho_in.copy().reshape(shape + shape), dtype=np.complex128, prng=prng)
        holder["st"] = st
        cirq.act_on(inf.op, st)
        if tuple(st.qubits) != tuple(order):
            raise AssertionError(f"state qubits changed to {st.qubits}")
        out = np.asarray(st.target_tensor, dtype=np.complex128)
        if sim == "sv":
            v = out.reshape(-1)
            return v, np.outer(v, v.conj())
        return None, out.reshape(D, D)

    acc = np.zeros((D, D), dtype=np.complex128)
    npaths = 0
    wtot = 0.0
    vec = None
    try:
        for ch, (v, rho) in explore(one, max_paths=4000):
            npaths += 1
            wtot += ch.weight
            acc += ch.weight * rho
            vec = v
    except core.HarnessError as e:
        if "oracle" in str(e) or "un-scripted" in str(e) or "not scripted" in str(e):
            return Res(skipped=True, nontrivial=False, counters={"sv_not_scriptable": 1})
        raise
    if abs(wtot - 1) > 1e-6:
        return bad(f"{nm}: {where}: branch probabilities sum to {wtot}", kind="act_on_weights")
    if inf.U is not None:
        if npaths != 1:
            return bad(f"{nm}: {where}: a unitary operation consumed randomness ({npaths} branches)", kind="act_on_random_unitary")
        if sim == "sv":
            refv = E.embed(inf.U, pos, shape) @ psi0
            if not np.allclose(vec, refv, atol=ATOL, rtol=0):
                return bad(f"{nm}: {where}: state vector != U psi (exact phase); max |diff| = {np.max(np.abs(vec - refv)):.3g}", kind="act_on_sv_mismatch")
    if not np.allclose(acc, ref_rho, atol=1e-7, rtol=0):
        return bad(f"{nm}: {where}: (ensemble) state after act_on != sum_k K rho K^dag of the reference Kraus set; max |diff| = "
                   f"{np.max(np.abs(acc - ref_rho)):.3g} over {npaths} branch(es)", kind=f"act_on_{sim}_mismatch")
    return good(nontrivial=not is_identity_map(inf), paths=npaths, max_branching=npaths)


def act_on_cases(tier, descs):
    out = []
    for desc in descs:
        inf = info(desc)
        if inf.U_exc or inf.k > 4 or cirq.is_parameterized(inf.op):
            continue
        depth = len(desc[1])
        orders = register_orders(inf.k + 1)
        if tier == "quick" and depth == 2:
            orders = orders[:2] + orders[-1:]
        stab = inf.U is not None and all(d == 2 for d in inf.shape)  # whether it is Clifford is decided at run time
        for oi in range(len(orders)):
            if oi >= len(register_orders(inf.k + 1)):
                break
            real_oi = register_orders(inf.k + 1).index(orders[oi])
            out.append((desc[0], desc[1], 0, real_oi, 0))
            out.append((desc[0], desc[1], 1, real_oi, 0))
            if stab:
                for prep in (0, 1, 2):
                    out.append((desc[0], desc[1], 2, real_oi, prep))
                    out.append((desc[0], desc[1], 3, real_oi, prep))
    return out


def describe_act_on(case):
    bi, w, si, oi, prep = case
    return {"op": name_of((bi, w)), "state": SIMS[si], "register_order_index": oi, "prep": prep}


# ---------------------------------------------------------------------------------------------
# stage 7: has_* answers, shapes, and that wrappers accept every unitary operation


def try_mixture(val):
    try:
        return cirq.mixture(val)
    except TypeError:
        return None


MUST_CONSTRUCT = ("tag", "Tagged", "c1", "c0", "csop", "c3", "cop")


def run_flags(case):
    bi, w = case
    inf = info((bi, w))
    nm = name_of((bi, w))
    op = inf.op
    if inf.U_exc:
        return bad(f"{nm}: cirq.unitary(op, None) raised {inf.U_exc}", kind="unitary_raises")
    D = int(np.prod(inf.shape)) if inf.shape else 1
    hu = cirq.has_unitary(op)
    if hu != (inf.U is not None):
        return bad(f"{nm}: has_unitary={hu} but cirq.unitary(op, None) is {'None' if inf.U is None else 'a matrix'}", kind="has_unitary_flag")
    if inf.U is not None and inf.U.shape != (D, D):
        return bad(f"{nm}: unitary shape {inf.U.shape} for qid_shape {inf.shape}", kind="shape")
    if inf.U is not None and not np.allclose(inf.U.conj().T @ inf.U, np.eye(D), atol=1e-7):
        return bad(f"{nm}: cirq.unitary(op) is not unitary", kind="not_unitary")
    if cirq.num_qubits(op) != inf.k or cirq.qid_shape(op) != inf.shape:
        return bad(f"{nm}: num_qubits={cirq.num_qubits(op)} qid_shape={cirq.qid_shape(op)} but qubits={inf.qubits}", kind="shape")
    try:
        ks = try_kraus(op)
        hk = cirq.has_kraus(op)
        mix = try_mixture(op)
        hm = cirq.has_mixture(op)
    except Exception as e:
        return bad(f"{nm}: kraus/has_kraus/mixture/has_mixture raised {type(e).__name__}: {e}", kind="description_raises")
    deferred = None  # the decomposition asymmetries are reported only when nothing else is wrong with this operation
    if hk and ks is None or hm and mix is None:
        u = op.untagged
        while isinstance(u, cirq.TaggedOperation):
            u = u.sub_operation
        family = type(u.gate).__name__ if u.gate is not None else type(u).__name__
        has_dec = cirq.decompose_once(op, None) is not None
        if hk and ks is None:
            through_dec = has_dec and (inf.ks is not None or bool(cirq.control_keys(op)))
            deferred = bad(f"{nm}: has_kraus(op) is True but cirq.kraus(op) raises TypeError" +
                           (" [has_kraus answers through the decomposition, which cirq.kraus does not use]" if through_dec else ""),
                           kind="has_kraus_without_kraus", family=family,
                           reason="only_through_decomposition" if through_dec else "unexplained")
        else:
            through_dec = has_dec and hu is False
            deferred = bad(f"{nm}: has_mixture(op) is True but cirq.mixture(op) raises TypeError" +
                           (" [has_mixture answers through the decomposition, which cirq.mixture does not use]" if through_dec else ""),
                           kind="has_mixture_without_mixture", family=family,
                           reason="only_through_decomposition" if through_dec else "unexplained")
    if ks is not None and not hk:
        return bad(f"{nm}: cirq.kraus(op) works but has_kraus(op) is False", kind="kraus_without_has_kraus")
    if mix is not None and any(u is None or u is NotImplemented for _, u in mix):
        return bad(f"{nm}: cirq.mixture(op) contains a component that is not a matrix: {mix}", kind="mixture_none_component")
    if mix is not None and not hm:
        return bad(f"{nm}: cirq.mixture(op) works but has_mixture(op) is False", kind="mixture_without_has_mixture")
    if hu and not hm or hm and not hk:
        return bad(f"{nm}: has_unitary={hu}, has_mixture={hm}, has_kraus={hk} violates unitary => mixture => channel", kind="flag_hierarchy")
    im = cirq.is_measurement(op)
    keys = cirq.measurement_key_names(op)
    if im != bool(keys):
        return bad(f"{nm}: is_measurement={im} but measurement_key_names={set(keys)}", kind="is_measurement_flag")
    if im and hu:
        return bad(f"{nm}: is_measurement and has_unitary are both True", kind="is_measurement_flag")
    g = op.gate
    if g is not None and isinstance(op, cirq.GateOperation):
        if cirq.num_qubits(g) != inf.k or cirq.qid_shape(g) != inf.shape:
            return bad(f"{nm}: gate num_qubits/qid_shape {cirq.num_qubits(g)}/{cirq.qid_shape(g)} != operation's {inf.k}/{inf.shape}", kind="shape")
        if cirq.has_unitary(g) != hu:
            return bad(f"{nm}: has_unitary(gate)={cirq.has_unitary(g)} but has_unitary(op)={hu}", kind="has_unitary_flag")
        ug = cirq.unitary(g, None)
        if (ug is None) != (inf.U is None) or (ug is not None and not np.allclose(ug, inf.U, atol=ATOL)):
            return bad(f"{nm}: cirq.unitary(op.gate) differs from cirq.unitary(op)", kind="gate_vs_op")
        if cirq.has_kraus(g) != hk or cirq.has_mixture(g) != hm or cirq.is_measurement(g) != im:
            return bad(f"{nm}: has_kraus/has_mixture/is_measurement of the gate differ from the operation's", kind="gate_vs_op")
    n_constructed = 0
    if inf.U is not None and len(w) < 2:
        for wn in MUST_CONSTRUCT:
            try:
                WRAPPERS[WNAME.index(wn)][1](op, len(w))
                n_constructed += 1
            except (ValueError, TypeError) as e:
                return bad(f"{nm}: a unitary operation, but wrapper '{wn}' rejects it: {type(e).__name__}: {str(e)[:300]}", kind="wrapper_rejects_unitary")
    if deferred is not None:
        return deferred
    return good(nontrivial=hk or im or bool(cirq.control_keys(op)) or cirq.is_parameterized(op), wrappers_constructed=n_constructed)


# ---------------------------------------------------------------------------------------------
# stage 8: wrapper laws -- the wrapped operation's matrix / channel is the documented function of the inner one

CTRL_ACTIVE = {"c1": [(1,)], "c0": [(0,)], "csop": [(0, 1), (1, 0)], "c3": [(1,), (2,)]}


def controlled_matrix(U, inner_pos, ctrl_pos, active, shape):
    D = int(np.prod(shape)) if shape else 1
    Psum = np.zeros((D, D), dtype=np.complex128)
    cdims = [shape[p] for p in ctrl_pos]
    for cv in active:
        pr = np.zeros((int(np.prod(cdims)),) * 2)
        idx = 0
        for d, v in zip(cdims, cv):
            idx = idx * d + v
        pr[idx, idx] = 1
        Psum = Psum + E.embed(pr, ctrl_pos, shape)
    return Psum @ E.embed(U, inner_pos, shape) + (np.eye(D) - Psum)


def run_wrapper_law(case):
    bi, w = case
    outer = info((bi, w))
    inner = info((bi, w[:-1]))
    if outer.U_exc or inner.U_exc or cirq.is_parameterized(inner.op):
        return Res(skipped=True, nontrivial=False)
    wn = WNAME[w[-1]]
    nm = name_of((bi, w))
    oq = list(outer.qubits)
    shape = outer.shape
    D = int(np.prod(shape)) if shape else 1
    if wn == "cco":
        # only an operation that does nothing either way may keep a unitary under classical control
        if outer.U is not None and not (inner.U is not None and is_identity_map(inner) and is_identity_map(outer)):
            return bad(f"{nm}: a classically controlled non-identity operation reports a unitary", kind="law_cco")
        return good(nontrivial=True)
    if wn in ("inv", "sqrt") and "phasefree" in _BASE[bi][2]:
        # gates defined by a Clifford tableau carry no global phase; their powers are defined up to phase only
        return good(nontrivial=False, phase_free_skipped=1)
    if wn == "perm":
        iq = inner.qubits
        cand = None
        for c in (iq[1:] + iq[:1], iq[::-1]):
            if tuple(q.dimension for q in c) == tuple(q.dimension for q in iq):
                cand = c
                break
        ipos = [oq.index(q) for q in cand]
    elif wn == "par":
        ipos = None
    else:
        if any(q not in oq for q in inner.qubits):
            return bad(f"{nm}: wrapped operation lost qubits of the inner operation: {outer.qubits} vs {inner.qubits}", kind="law_qubits")
        ipos = [oq.index(q) for q in inner.qubits]
    if inner.U is not None:
        U = inner.U
        if wn in ("tag", "Tagged", "cop", "perm"):
            exp = E.embed(U, ipos, shape)
        elif wn in CTRL_ACTIVE:
            cpos = [i for i in range(len(oq)) if i not in ipos]
            # the new controls are the wrapper's fresh qubits, in the order given
            fresh = [ctrl(len(w) - 1, 0), ctrl(len(w) - 1, 1)] if wn != "c3" else [ctrl3(len(w) - 1)]
            fresh = fresh[: len(CTRL_ACTIVE[wn][0])]
            if sorted(oq.index(q) for q in fresh) != sorted(cpos):
                return bad(f"{nm}: controlled operation's qubits {outer.qubits} are not controls {fresh} + inner {inner.qubits}", kind="law_qubits")
            exp = controlled_matrix(U, ipos, [oq.index(q) for q in fresh], CTRL_ACTIVE[wn], shape)
        elif wn == "inv":
            exp = E.embed(U.conj().T, ipos, shape)
        elif wn == "sqrt":
            exp = None
        elif wn == "par":
            exp = np.kron(U, U)
        else:
            raise core.HarnessError(wn)
        if outer.U is None:
            return bad(f"{nm}: inner operation has a unitary but the wrapped one has none", kind="law_unitary_lost")
        if exp is None:
            sq = outer.U @ outer.U
            if not np.allclose(sq, E.embed(U, ipos, shape), atol=1e-7, rtol=0):
                return bad(f"{nm}: (op**0.5) squared != op; max |diff| = {np.max(np.abs(sq - E.embed(U, ipos, shape))):.3g}", kind="law_sqrt")
        elif not np.allclose(outer.U, exp, atol=ATOL, rtol=0):
            return bad(f"{nm}: cirq.unitary of the wrapped operation != {wn}-law applied to the inner unitary; max |diff| = "
                       f"{np.max(np.abs(outer.U - exp)):.3g}", kind="law_" + wn)
        return good(nontrivial=not is_identity_map(inner))
    # non-unitary inner operation
    if outer.U is not None:
        return bad(f"{nm}: inner operation has no unitary but the wrapped one does", kind="law_unitary_gained")
    if inner.ks is None or D > 16 or wn in ("inv", "sqrt"):
        return good(nontrivial=False)
    if outer.ks is None:
        return bad(f"{nm}: inner operation has a Kraus description but the wrapped one has none (not even through its decomposition)", kind="law_kraus_lost")
    So = E.kraus_to_super(outer.ks)
    if wn in ("tag", "Tagged", "cop", "perm"):
        exp = sum(np.kron(m, m.conj()) for m in (E.embed(k, ipos, shape) for k in inner.ks))
    elif wn in CTRL_ACTIVE:
        mix = try_mixture(inner.op)
        if mix is None:
            return good(nontrivial=False)
        fresh = [ctrl(len(w) - 1, 0), ctrl(len(w) - 1, 1)] if wn != "c3" else [ctrl3(len(w) - 1)]
        fresh = fresh[: len(CTRL_ACTIVE[wn][0])]
        exp = 0
        for p, u in mix:
            m = controlled_matrix(np.asarray(u), ipos, [oq.index(q) for q in fresh], CTRL_ACTIVE[wn], shape)
            exp = exp + p * np.kron(m, m.conj())
    elif wn == "par":
        ks2 = [np.kron(a, b) for a in inner.ks for b in inner.ks]
        exp = E.kraus_to_super(ks2)
    else:
        raise core.HarnessError(wn)
    if not np.allclose(So, exp, atol=1e-7, rtol=0):
        return bad(f"{nm}: channel of the wrapped operation != {wn}-law applied to the inner channel; max |diff| = {np.max(np.abs(So - exp)):.3g}",
                   kind="law_channel_" + wn)
    return good(nontrivial=True)


# ---------------------------------------------------------------------------------------------
# stage 9: pauli_expansion is one more description of the same matrix (own _pauli_expansion_ or unitary-derived fallback)

PAULI_1Q = {"I": np.eye(2, dtype=np.complex128), "X": np.array([[0, 1], [1, 0]], dtype=np.complex128),
            "Y": np.array([[0, -1j], [1j, 0]], dtype=np.complex128), "Z": np.diag([1, -1]).astype(np.complex128)}


def pauli_sum(expansion, k):
    """sum coeff * kron(paulis) of a LinearDict keyed by Pauli words of length k; returns (matrix, None) or (None, problem)."""
    tot = np.zeros((2 ** k, 2 ** k), dtype=np.complex128)
    for word, c in expansion.items():
        if not isinstance(word, str) or len(word) != k or any(ch not in PAULI_1Q for ch in word):
            return None, f"key {word!r} is not a Pauli word of length {k}"
        tot = tot + complex(c) * E.kron(*[PAULI_1Q[ch] for ch in word])
    return tot, None


def run_pauli_expansion(case):
    bi, w = case
    inf = info((bi, w))
    if inf.U_exc:
        return Res(skipped=True, nontrivial=False)
    nm = name_of((bi, w))
    vals = [("op", inf.op)]
    if inf.op.gate is not None and isinstance(inf.op, (cirq.GateOperation, cirq.ControlledOperation)):
        vals.append(("op.gate", inf.op.gate))
    nontriv = False
    for label, val in vals:
        try:
            ex = cirq.pauli_expansion(val, default=None)
        except TypeError as e:
            return bad(f"{nm}: cirq.pauli_expansion({label}, default=None) raised instead of returning the default: TypeError: {e}", kind="pauli_expansion_raises")
        if ex is None:
            if inf.U is not None:
                return bad(f"{nm}: a unitary on {inf.k} qubits, but cirq.pauli_expansion({label}, default=None) is None", kind="pauli_expansion_missing")
            continue
        if inf.U is None:
            return bad(f"{nm}: cirq.pauli_expansion({label}) answers {dict(ex)} although cirq.unitary(op, None) is None", kind="pauli_expansion_without_unitary")
        tot, problem = pauli_sum(ex, inf.k)
        if problem:
            return bad(f"{nm}: cirq.pauli_expansion({label}): {problem}", kind="pauli_expansion_keys")
        if not np.allclose(tot, inf.U, atol=ATOL, rtol=0):
            conj = np.allclose(pauli_sum({k_: np.conj(c) for k_, c in ex.items()}, inf.k)[0], inf.U, atol=ATOL, rtol=0)
            return bad(f"{nm}: sum coeff*kron(paulis) of cirq.pauli_expansion({label}) != cirq.unitary(op) (exact, not up to phase); max |diff| = "
                       f"{np.max(np.abs(tot - inf.U)):.3g}" + (" [coefficients are complex-conjugated]" if conj else "") +
                       f"; own _pauli_expansion_: {getattr(val, '_pauli_expansion_', None) is not None}", kind="pauli_expansion_mismatch")
        nontriv |= any(abs(complex(c).imag) > 1e-6 for c in ex.values())
    return good(nontrivial=nontriv)


def pauli_expansion_cases(descs):
    out = []
    for desc in descs:
        inf = info(desc)
        # parameterised values may answer with symbolic coefficients: outside this (numeric) comparison
        if 1 <= inf.k <= 3 and all(d == 2 for d in inf.shape) and not cirq.is_parameterized(inf.op):
            out.append(desc)
    return out


def run_operator_space(case):
    """expand_matrix_in_orthogonal_basis / matrix_from_basis_coefficients / pow_pauli_combination on generic complex inputs."""
    kind = case[0]
    if kind == "expand":
        _, n, salt, hermitian = case
        D = 2 ** n
        m = generic_tensor((D, D), 30 + salt).copy() * D
        if hermitian:
            m = m + m.conj().T
        basis = cirq.kron_bases(cirq.PAULI_BASIS, repeat=n)
        ex = cirq.expand_matrix_in_orthogonal_basis(m, basis)
        for word, c in ex.items():
            P = E.kron(*[PAULI_1Q[ch] for ch in word])
            ref = np.trace(P.conj().T @ m) / D
            if abs(complex(c) - ref) > ATOL:
                return bad(f"expand_matrix_in_orthogonal_basis: coefficient of {word} is {complex(c)} but tr(P^dag m)/{D} = {ref} "
                           f"(generic {'Hermitian' if hermitian else 'complex'} {D}x{D} matrix)", kind="operator_space_expand")
        back = cirq.matrix_from_basis_coefficients(ex, basis)
        if not np.allclose(back, m, atol=ATOL, rtol=0):
            return bad(f"matrix_from_basis_coefficients(expand_matrix_in_orthogonal_basis(m)) != m for a generic {D}x{D} matrix; max |diff| = "
                       f"{np.max(np.abs(back - m)):.3g}", kind="operator_space_round_trip")
        return good(nontrivial=not hermitian)
    _, salt, exponent = case
    co = generic_tensor((4,), 40 + salt).copy() * 2
    ai, ax, ay, az = (complex(x) for x in co)
    m = ai * PAULI_1Q["I"] + ax * PAULI_1Q["X"] + ay * PAULI_1Q["Y"] + az * PAULI_1Q["Z"]
    bi_, bx, by, bz = cirq.pow_pauli_combination(ai, ax, ay, az, exponent)
    got = bi_ * PAULI_1Q["I"] + bx * PAULI_1Q["X"] + by * PAULI_1Q["Y"] + bz * PAULI_1Q["Z"]
    ref = np.linalg.matrix_power(m, exponent)
    if not np.allclose(got, ref, atol=1e-7 * max(1.0, np.max(np.abs(ref))), rtol=0):
        return bad(f"pow_pauli_combination({ai}, {ax}, {ay}, {az}, {exponent}) != matrix power; max |diff| = {np.max(np.abs(got - ref)):.3g}",
                   kind="pow_pauli_combination")
    return good(nontrivial=exponent >= 2)


def operator_space_cases():
    out = [("expand", n, salt, h) for n in (1, 2, 3) for salt in range(4) for h in (0, 1)]
    out += [("pow", salt, e) for salt in range(4) for e in range(0, 7)]
    return out


# ---------------------------------------------------------------------------------------------


def stages(tier, seed):
    _init_seq(seed)
    reset = lambda: _init_seq(seed)
    descs, rejected = all_descs(tier)
    descs_cco, _ = all_descs(tier, include_cco=True)
    law_cases = [d for d in descs_cco if len(d[1]) >= 1]
    st = [
        CaseStage("flags_and_wrapper_acceptance", descs_cco, run_flags, reset=reset, describe=describe_desc),
        CaseStage("wrapper_laws", law_cases, run_wrapper_law, reset=reset, describe=describe_desc),
        CaseStage("pauli_expansion", pauli_expansion_cases(descs), run_pauli_expansion, reset=reset, describe=describe_desc),
        CaseStage("operator_space_helpers", operator_space_cases(), run_operator_space, reset=reset),
        CaseStage("decompose_products", descs, run_decompose, reset=reset, describe=describe_desc),
        CaseStage("kraus_mixture_superoperator", descs, run_channel_descriptions, reset=reset, describe=describe_desc),
        CaseStage("apply_unitary_all_layouts", apply_cases(tier, descs_cco), run_apply, reset=reset, describe=describe_apply),
        CaseStage("apply_unitary_subspaces", subspace_cases(tier, descs), run_subspace, reset=reset, describe=describe_subspace),
        CaseStage("apply_unitaries_sequences", sequence_cases(tier), run_sequence, reset=reset, describe=describe_sequence),
        CaseStage("apply_channel_mixture_all_layouts", apply_channel_cases(tier, descs), run_apply_channel, reset=reset, describe=describe_apply_channel),
        CaseStage("act_on_simulation_states", act_on_cases(tier, descs), run_act_on, reset=reset, describe=describe_act_on),
    ]
    return st
