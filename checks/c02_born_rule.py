"""C02 -- measurement outcomes follow the Born rule exactly, incl. feed-forward.

Outer enumeration (E1): all sequences (length <= L) of measurement-layer letters after a fixed
preparation.  Inner exploration (E2/E3): for each (circuit, simulator configuration) EVERY path of
the scripted random source is executed (all outcomes with p>0 of every draw), path weight = product
of the probabilities the code itself asked for.  The resulting exact table record -> (probability,
post-measurement state) must equal the reference interpreter's table.
"""
from __future__ import annotations

import itertools
import collections

import numpy as np
import sympy
import cirq

from mc import core
from mc.core import CaseStage, Res, bad, good
from mc.choices import explore, Chooser
from mc.scripted_random import ScriptedRandomState
from mc.ref import interp, embed as E

PROPERTY = "C02"
LEVEL = "exploration"
RULE = ("circuits = preparation + every sequence (length<=L) of measurement-layer letters (plain/reordered/inverted/"
        "repeated-key/confusion-map/qutrit/Pauli measurements, key-, sympy- and bitmask-controlled ops, reset, H, "
        "a sub-circuit op) x layout x simulator configuration; for each, ALL scripted-PRNG answer paths are run and "
        "the exact record distribution + per-record post state compared with the reference interpreter; a case is "
        "non-trivial when its record distribution has >=2 outcomes; distinct = distinct (circuit, layout, config)")
TECHNIQUE = ("bounded-exhaustive circuit enumeration x stateless DFS over ALL scripted-PRNG answer paths of the real "
             "simulators; exact distribution tables compared with a reference interpreter")
LEVEL_TEXT = ("For every circuit of the bounded alphabet and every simulator configuration, every outcome branch of every "
              "random draw is executed on the real simulator (the PRNG is an environment owned by the explorer), giving the "
              "exact joint distribution over complete measurement records and the per-record collapsed state, which must "
              "equal the reference interpreter's. No statistics, no sampling. Bounded by circuit length/alphabet.")
LEVEL_NOTE = ("trusted: numpy; cirq.unitary/kraus of single ops (tied to closed forms by C03/C04); simulators draw randomness "
              "only through the seed object (un-scripted methods raise)")
ASSUMPTIONS = [
    "cirq.unitary/cirq.kraus of single operations are correct (tied to closed forms by C03/C04)",
    "the simulators draw randomness only through the seed=/prng object (un-scripted methods raise)",
    "numpy linear algebra",
]

a, b = cirq.LineQubit.range(2)
t = cirq.LineQid(2, dimension=3)


def letters(seed):
    g = core.generic(seed)
    conf1 = np.array([[0.9, 0.1], [0.2, 0.8]])
    conf2 = np.array([[0.7, 0.1, 0.1, 0.1], [0.0, 1.0, 0.0, 0.0], [0.25, 0.25, 0.25, 0.25], [0.1, 0.2, 0.3, 0.4]])
    m2 = sympy.Symbol("m2")
    sub = cirq.CircuitOperation(cirq.FrozenCircuit(cirq.measure(a, key="s"), cirq.X(b).with_classical_controls("s")))
    L = [
        # name, op, reference ops, needs (keys that must have been measured before), clifford-ok, uses qutrit
        ("M(a;m)", cirq.measure(a, key="m"), None, (), True, False),
        ("M(b,a;m2)", cirq.measure(b, a, key="m2"), None, (), True, False),
        ("M(a,b;k,inv=(1,))", cirq.measure(a, b, key="k", invert_mask=(True,)), None, (), True, False),
        ("M(b;m)", cirq.measure(b, key="m"), None, (), True, False),
        ("M(a;c1,conf1)", cirq.measure(a, key="c1", confusion_map={(0,): conf1}), None, (), True, False),
        ("M(a,b;c2,conf2)", cirq.measure(a, b, key="c2", confusion_map={(0, 1): conf2}), None, (), True, False),
        ("M(t;q)", cirq.measure(t, key="q"), None, (), False, True),
        ("M(a,t;m3,inv=(1,1))", cirq.measure(a, t, key="m3", invert_mask=(True, True)), None, (), False, True),
        ("X(b)?m", cirq.X(b).with_classical_controls("m"), None, ("m",), True, False),
        ("H(b)?m", cirq.H(b).with_classical_controls("m"), None, ("m",), True, False),
        ("X(a)?(m2>1)", cirq.X(a).with_classical_controls(sympy.Gt(m2, 1)), None, ("m2",), True, False),
        ("X(b)?(m2&1==1)", cirq.X(b).with_classical_controls(cirq.BitMaskKeyCondition("m2", bitmask=1, target_value=1, equal_target=True)), None, ("m2",), True, False),
        ("H(a)", cirq.H(a), None, (), True, False),
        ("R(a)", cirq.ResetChannel().on(a), None, (), True, False),
        ("PM(X(a)Y(b);p)", cirq.measure_single_paulistring(cirq.X(a) * cirq.Y(b), key="p"), None, (), True, False),
        ("SUB[M(a;s),X(b)?s]", sub, [cirq.measure(a, key="s"), cirq.X(b).with_classical_controls("s")], (), True, False),
        ("Y(a)^g", cirq.Y(a) ** g, None, (), False, False),
        ("M(a,b;ci,inv=(1,0),conf1@b,conf1@a)", cirq.measure(a, b, key="ci", invert_mask=(True, False),
                                                              confusion_map={(1,): conf1, (0,): conf1}), None, (), True, False),
        ("M(b;cj,inv=(1,),conf1)", cirq.measure(b, key="cj", invert_mask=(True,), confusion_map={(0,): conf1}), None, (), True, False),
        ("CNOT(b,a)", cirq.CNOT(b, a), None, (), True, False),
        ("X(b)", cirq.X(b), None, (), True, False),
        ("X(b)?(m[0]&1==1)", cirq.X(b).with_classical_controls(
            cirq.BitMaskKeyCondition("m", index=0, bitmask=1, target_value=1, equal_target=True)), None, ("m",), True, False),
        ("Z(a)?m[0]", cirq.Z(a).with_classical_controls(cirq.KeyCondition(cirq.MeasurementKey("m"), 0)), None, ("m",), True, False),
        # mixed-radix keys (qutrit digit leading / trailing) read as integers by conditions: value = t*2+a resp. a*3+t
        ("M(t,a;m4)", cirq.measure(t, a, key="m4"), None, (), False, True),
        ("X(b)?(m4==2)", cirq.X(b).with_classical_controls(sympy.Eq(sympy.Symbol("m4"), 2)), None, ("m4",), False, True),
        ("X(b)?(m4&3==3)", cirq.X(b).with_classical_controls(
            cirq.BitMaskKeyCondition("m4", bitmask=3, target_value=3, equal_target=True)), None, ("m4",), False, True),
        ("M(a,t;m5)", cirq.measure(a, t, key="m5"), None, (), False, True),
        ("X(b)?(m5>=4)", cirq.X(b).with_classical_controls(sympy.Ge(sympy.Symbol("m5"), 4)), None, ("m5",), False, True),
    ]
    return L


def preps(seed):
    g = core.generic(seed, 1)
    ut = E.generic_unitary(3, seed)
    return [
        ("cliff", [cirq.H(a), cirq.CNOT(a, b), cirq.S(b)], True, False),
        ("generic", [cirq.H(a), cirq.X(b) ** g, cirq.CNOT(a, b)], False, False),
        ("qutrit", [cirq.H(a), cirq.X(b) ** g, cirq.MatrixGate(ut, qid_shape=(3,)).on(t), cirq.CNOT(a, b)], False, True),
    ]


CONFIGS = [
    ("sv", False, "c128"), ("sv", True, "c128"), ("sv", True, "c64"),
    ("dm", False, "c128"), ("dm", True, "c128"), ("dm", False, "c64"),
    ("cl", False, "-"), ("cl", True, "-"),
    ("ss", False, "-"),  # cirq.StabilizerSampler (tableau backend); run() only
]
DT = {"c128": np.complex128, "c64": np.complex64}

_L = None
_P = None


def _init(seed):
    global _L, _P
    _L = letters(seed)
    _P = preps(seed)


def valid_seq(seq):
    measured = set()
    for li in seq:
        name, op, ref, needs, cl, qt = _L[li]
        for k in needs:
            if k not in measured:
                return False
        for k in cirq.measurement_key_names(op):
            measured.add(k)
    return True


def build(prep_i, seq, layout):
    pname, pops, pcl, pqt = _P[prep_i]
    ops_impl = list(pops) + [_L[li][1] for li in seq]
    ops_ref = list(pops)
    for li in seq:
        ops_ref.extend(_L[li][2] if _L[li][2] is not None else [_L[li][1]])
    if layout == 0:
        circ = cirq.Circuit([cirq.Moment(o) for o in ops_impl])
        ref_circ = cirq.Circuit([cirq.Moment(o) for o in ops_ref])
    else:
        circ = cirq.Circuit(ops_impl)
        ref_circ = cirq.Circuit(ops_ref)
        # the packed reference must keep program order of conflicting ops: Circuit() guarantees that (C05)
    uses_qt = pqt or any(_L[li][5] for li in seq)
    qs = [a, b, t] if uses_qt else [a, b]
    cl_ok = pcl and all(_L[li][4] for li in seq)
    return circ, ref_circ, qs, cl_ok


def make_sim(cfg, prng):
    kind, split, dt = cfg
    if kind == "sv":
        return cirq.Simulator(seed=prng, dtype=DT[dt], split_untangled_states=split)
    if kind == "dm":
        return cirq.DensityMatrixSimulator(seed=prng, dtype=DT[dt], split_untangled_states=split)
    if kind == "ss":
        return cirq.StabilizerSampler(seed=prng)
    return cirq.CliffordSimulator(seed=prng, split_untangled_states=split)


def step_state(cfg, step, qs):
    kind = cfg[0]
    if kind == "sv":
        psi = np.asarray(step.state_vector(copy=True), dtype=np.complex128)
        return np.outer(psi, psi.conj())
    if kind == "dm":
        return np.asarray(step.density_matrix(copy=True), dtype=np.complex128)
    psi = np.asarray(step.state.state_vector(), dtype=np.complex128)
    return np.outer(psi, psi.conj())


def meas_keys_in_order(op):
    """Keys recorded by op in program order (for the sub-circuit letter: its single key)."""
    if isinstance(op.untagged, cirq.CircuitOperation):
        return [str(k) for op2 in op.untagged.circuit.all_operations() for k in sorted(cirq.measurement_key_objs(op2), key=str)]
    return [str(k) for k in sorted(cirq.measurement_key_objs(op), key=str)]


def run_steps(case):
    prep_i, seq, layout, ci = case
    cfg = CONFIGS[ci]
    circ, ref_circ, qs, cl_ok = build(prep_i, seq, layout)
    if cfg[0] == "cl" and not cl_ok:
        return Res(skipped=True, nontrivial=False)
    ref = interp.run(ref_circ, qs)
    got = {}
    npaths = 0
    maxb = 0

    def one(ch):
        prng = ScriptedRandomState(ch)
        sim = make_sim(cfg, prng)
        recs = []
        last = None
        for step, moment in zip(sim.simulate_moment_steps(circ, qubit_order=qs), circ):
            for op in moment.operations:
                for k in meas_keys_in_order(op):
                    recs.append((k, tuple(int(x) for x in step.measurements[k])))
            last = step
        return tuple(recs), step_state(cfg, last, qs)

    for ch, (rec, rho) in explore(one, max_paths=20000):
        npaths += 1
        maxb = max(maxb, max((n for n, _, _, _ in ch.trace), default=1))
        if rec in got:
            p0, r0 = got[rec]
            got[rec] = (p0 + ch.weight, r0 + ch.weight * rho)
        else:
            got[rec] = (ch.weight, ch.weight * rho)
    got = {k: (p, r / p) for k, (p, r) in got.items()}
    tot = sum(p for p, _ in got.values())
    if abs(tot - 1) > 1e-6:
        return bad(f"path weights sum to {tot}, not 1 ({describe(case)})", kind="weights")
    atol = 1e-8 if cfg[2] != "c64" else 5e-6
    msg = interp.compare_dists(ref, got, atol=atol)
    if msg:
        return bad(f"{msg}\ncircuit:\n{circ}\nconfig={cfg}", kind="distribution", config=cfg[0])
    return Res(ok=True, nontrivial=len(ref) >= 2, counters={"paths": npaths, "max_branching": maxb})


def run_run(case):
    """Simulator.run(repetitions=r): exact distribution over complete record tensors."""
    prep_i, seq, layout, ci, reps = case
    cfg = CONFIGS[ci]
    circ, ref_circ, qs, cl_ok = build(prep_i, seq, layout)
    if cfg[0] in ("cl", "ss") and not cl_ok:
        return Res(skipped=True, nontrivial=False)
    if not circ.has_measurements():
        return Res(skipped=True, nontrivial=False)
    ref = interp.run(ref_circ, qs)
    # reference: independent repetitions; a record tensor per key = list over reps of list over instances
    ref_single = {}
    for rec, (p, _) in ref.items():
        d = collections.OrderedDict()
        for k, digits in rec:
            d.setdefault(k, []).append(digits)
        key = tuple((k, tuple(v)) for k, v in sorted(d.items()))
        ref_single[key] = ref_single.get(key, 0.0) + p
    ref_multi = {}
    for combo in itertools.product(ref_single.items(), repeat=reps):
        p = 1.0
        for _, pi in combo:
            p *= pi
        key = tuple(k for k, _ in combo)
        ref_multi[key] = ref_multi.get(key, 0.0) + p
    got = {}
    npaths = 0

    def one(ch):
        prng = ScriptedRandomState(ch)
        prng.vector_mode = "dfs"
        sim = make_sim(cfg, prng)
        result = sim.run(circ, repetitions=reps)
        out = []
        for r in range(reps):
            d = []
            for k in sorted(result.records.keys()):
                arr = result.records[k]
                if arr.shape[0] != reps:
                    raise AssertionError(f"records[{k}].shape={arr.shape}, repetitions={reps}")
                d.append((k, tuple(tuple(int(x) for x in inst) for inst in arr[r])))
            out.append(tuple(d))
        return tuple(out)

    for ch, key in explore(one, max_paths=50000):
        npaths += 1
        got[key] = got.get(key, 0.0) + ch.weight
    atol = 1e-8 if cfg[2] != "c64" else 5e-6
    kr = {k for k, p in ref_multi.items() if p > atol}
    kg = {k for k, p in got.items() if p > atol}
    if kr != kg:
        return bad(f"run(): record supports differ: only reference {sorted(kr-kg)[:3]}, only implementation {sorted(kg-kr)[:3]}\n{circ}\nconfig={cfg} reps={reps}", kind="run_support", config=cfg[0])
    for k in kr:
        if abs(ref_multi[k] - got[k]) > atol * 10:
            return bad(f"run(): P({k})={got[k]:.9f} reference {ref_multi[k]:.9f}\n{circ}\nconfig={cfg} reps={reps}", kind="run_distribution", config=cfg[0])
    return Res(ok=True, nontrivial=len(ref_single) >= 2, counters={"paths": npaths})


def describe(case):
    prep_i, seq, layout, ci = case[:4]
    d = {"prep": _P[prep_i][0], "letters": [_L[i][0] for i in seq], "layout": ["one-op-per-moment", "earliest-packed"][layout],
         "config": CONFIGS[ci]}
    if len(case) > 4:
        d["repetitions"] = case[4]
    return d


# direct sampling helpers --------------------------------------------------------------------


def run_direct(case):
    """sample/measure_state_vector, sample/measure_density_matrix on generic states: all index subsets/orders."""
    shape_i, idxs, seed_state, fn = case
    shape = [(2, 2), (2, 2, 2), (2, 3), (3, 2, 2)][shape_i]
    D = int(np.prod(shape))
    psi = E.generic_state(D, seed_state)
    rho = np.outer(psi, psi.conj())
    # mix in a second state so rho is not pure
    phi = E.generic_state(D, seed_state + 7)
    rho = 0.6 * rho + 0.4 * np.outer(phi, phi.conj())
    idxs = list(idxs)
    dims = [shape[i] for i in idxs]

    def ref_probs(r):
        out = {}
        for digits in itertools.product(*[range(d) for d in dims]):
            P = np.eye(D, dtype=complex)
            for ax, v in zip(idxs, digits):
                pr = np.zeros((shape[ax], shape[ax]))
                pr[v, v] = 1
                P = P @ E.embed(pr, [ax], shape)
            p = float(np.trace(P @ r).real)
            if p > 1e-12:
                out[digits] = (p, P @ r @ P / p)
        return out

    got = {}
    if fn == "measure_sv":
        target = np.outer(psi, psi.conj())

        def one(ch):
            st = psi.copy()
            bits, post = cirq.measure_state_vector(st, idxs, qid_shape=shape, seed=ScriptedRandomState(ch))
            if not np.allclose(st, psi):
                raise AssertionError("measure_state_vector modified its input (out=None)")
            return tuple(int(x) for x in bits), np.outer(post, post.conj())
    elif fn == "measure_sv_out":
        target = np.outer(psi, psi.conj())

        def one(ch):
            st = psi.copy().reshape(shape)
            bits, post = cirq.measure_state_vector(st, idxs, qid_shape=shape, out=st, seed=ScriptedRandomState(ch))
            if post is not st:
                raise AssertionError("out= not returned")
            post = post.reshape(-1)
            return tuple(int(x) for x in bits), np.outer(post, post.conj())
    elif fn == "measure_dm":
        target = rho

        def one(ch):
            r = rho.copy()
            bits, post = cirq.measure_density_matrix(r, idxs, qid_shape=shape, seed=ScriptedRandomState(ch))
            if not np.allclose(r, rho):
                raise AssertionError("measure_density_matrix modified its input")
            return tuple(int(x) for x in bits), np.asarray(post).reshape(D, D)
    elif fn == "sample_sv":
        target = np.outer(psi, psi.conj())

        def one(ch):
            st = psi.copy()
            prng = ScriptedRandomState(ch)
            prng.vector_mode = "dfs"
            out = cirq.sample_state_vector(st, idxs, qid_shape=shape, repetitions=1, seed=prng)
            if not np.array_equal(st, psi):
                raise AssertionError("sample_state_vector modified the state")
            return tuple(int(x) for x in out[0]), None
    elif fn == "sample_dm":
        target = rho

        def one(ch):
            r = rho.copy()
            prng = ScriptedRandomState(ch)
            prng.vector_mode = "dfs"
            out = cirq.sample_density_matrix(r, idxs, qid_shape=shape, repetitions=1, seed=prng)
            if not np.array_equal(r, rho):
                raise AssertionError("sample_density_matrix modified the state")
            return tuple(int(x) for x in out[0]), None
    else:
        raise core.HarnessError(fn)
    ref = ref_probs(target)
    n = 0
    for ch, (bits, post) in explore(one, max_paths=1000):
        n += 1
        if bits in got:
            return bad(f"{fn}: outcome {bits} produced by two different PRNG answers", kind="direct")
        got[bits] = (ch.weight, post)
    if set(got) != set(ref):
        return bad(f"{fn} shape={shape} indices={idxs}: outcome support {sorted(got)} vs reference {sorted(ref)}", kind="direct")
    for k in ref:
        if abs(got[k][0] - ref[k][0]) > 1e-8:
            return bad(f"{fn} shape={shape} indices={idxs}: P({k})={got[k][0]} reference {ref[k][0]}", kind="direct")
        if got[k][1] is not None and not np.allclose(got[k][1], ref[k][1], atol=1e-7):
            return bad(f"{fn} shape={shape} indices={idxs}: collapsed state for outcome {k} differs from projection", kind="direct")
    return Res(ok=True, nontrivial=len(ref) >= 2, counters={"paths": n})



def run_step_sample(case):
    """StepResult.sample / sample_measurement_ops: the recorded probability vector equals the Born marginal of
    the current state, every PRNG path is consistent with it, and sampling never changes the state."""
    prep_i, ci, sub, reps, via_ops = case
    cfg = CONFIGS[ci]
    pname, pops, pcl, pqt = _P[prep_i]
    if cfg[0] == "cl" and not pcl:
        return Res(skipped=True, nontrivial=False)
    qs = [a, b, t] if pqt else [a, b]
    circ = cirq.Circuit([cirq.Moment(o) for o in pops])
    mq = [qs[i] for i in sub]
    ref_all = interp.run(cirq.Circuit(list(pops) + [cirq.measure(*mq, key="z")]), qs)
    ref = {}
    for rec, (p_, _) in ref_all.items():
        ref[rec[0][1]] = ref.get(rec[0][1], 0.0) + p_
    got = {}
    npaths = 0

    def one(ch):
        prng = ScriptedRandomState(ch)
        prng.vector_mode = "dfs"
        sim = make_sim(cfg, ScriptedRandomState(Chooser()))  # the simulator itself must not draw while preparing
        last = None
        for step in sim.simulate_moment_steps(circ, qubit_order=qs):
            last = step
        before = step_state(cfg, last, qs)
        if via_ops:
            out = last.sample_measurement_ops([cirq.measure(*mq, key="z")], repetitions=reps, seed=prng)["z"]
        else:
            out = last.sample(mq, repetitions=reps, seed=prng)
        after = step_state(cfg, last, qs)
        if not np.allclose(before, after, atol=1e-9):
            raise AssertionError("sampling changed the simulator state")
        out = np.asarray(out)
        if out.shape != (reps, len(mq)):
            raise AssertionError(f"sample shape {out.shape}, expected {(reps, len(mq))}")
        return tuple(tuple(int(x) for x in row) for row in out)

    from mc.choices import Chooser as _C  # noqa
    for ch, rows in explore(one, max_paths=20000):
        npaths += 1
        got[rows] = got.get(rows, 0.0) + ch.weight
    refm = {}
    for combo in itertools.product(ref.items(), repeat=reps):
        p_ = 1.0
        for _, pi in combo:
            p_ *= pi
        refm[tuple(k for k, _ in combo)] = refm.get(tuple(k for k, _ in combo), 0.0) + p_
    atol = 1e-8 if cfg[2] != "c64" else 5e-6
    kr = {k for k, p_ in refm.items() if p_ > atol}
    kg = {k for k, p_ in got.items() if p_ > atol}
    if kr != kg:
        return bad(f"step.sample: outcome supports differ (only reference {sorted(kr-kg)[:3]}, only implementation {sorted(kg-kr)[:3]}) "
                   f"prep={pname} qubits={mq} config={cfg} via_ops={via_ops}", kind="step_sample", config=cfg[0])
    for k in kr:
        if abs(refm[k] - got[k]) > 10 * atol:
            return bad(f"step.sample: P({k})={got[k]:.9f}, Born rule {refm[k]:.9f}; prep={pname} qubits={mq} config={cfg}", kind="step_sample", config=cfg[0])
    return Res(ok=True, nontrivial=len(ref) >= 2, counters={"paths": npaths})


def step_sample_cases():
    out = []
    for prep_i in range(len(_P)):
        n = 3 if _P[prep_i][3] else 2
        subs = [sub for k in range(1, n + 1) for sub in itertools.permutations(range(n), k)]
        for ci in range(len(CONFIGS)):
            if CONFIGS[ci][0] == "ss":
                continue
            for sub in subs:
                for reps in (1, 2):
                    for via_ops in (0, 1):
                        if via_ops and any(i == 2 for i in sub) is False and False:
                            continue
                        out.append((prep_i, ci, sub, reps, via_ops))
    return out

def direct_cases():
    out = []
    shapes = [(2, 2), (2, 2, 2), (2, 3), (3, 2, 2)]
    for si, shape in enumerate(shapes):
        n = len(shape)
        subsets = []
        for k in range(0, n + 1):
            for sub in itertools.permutations(range(n), k):
                subsets.append(sub)
        for sub in subsets:
            for fn in ("measure_sv", "measure_sv_out", "measure_dm", "sample_sv", "sample_dm"):
                out.append((si, sub, 3, fn))
    return out


def stages(tier, seed):
    _init(seed)
    nL = len(_L)
    Lmax = 2 if tier == "quick" else 3
    seqs = []
    for L in range(1, Lmax + 1):
        for seq in itertools.product(range(nL), repeat=L):
            if valid_seq(seq):
                seqs.append(seq)
    if tier == "quick":
        # length-3 sequences on the feed-forward core
        corel = [0, 3, 8, 1, 10, 12, 13, 2, 4, 14, 18]
        for seq in itertools.product(corel, repeat=3):
            if valid_seq(seq):
                seqs.append(seq)
    split_core = [0, 3, 19, 20, 21, 2, 22]
    have = set(seqs)
    split_seqs = [seq for n in (3, 4) for seq in itertools.product(split_core, repeat=n) if valid_seq(seq) and seq not in have]
    split_set = set(split_seqs)
    seqs = seqs + split_seqs
    cases = []
    for seq in seqs:
        uses_qt = any(_L[i][5] for i in seq)
        for prep_i in range(len(_P)):
            if uses_qt and not _P[prep_i][3]:
                continue
            if _P[prep_i][3] and not uses_qt and len(seq) > 1:
                continue
            for layout in (0, 1):
                for ci in range(len(CONFIGS)):
                    if CONFIGS[ci][0] == "ss":
                        continue
                    if seq in split_set and (ci not in (0, 1, 4, 7) or layout == 0):
                        continue
                    if CONFIGS[ci][0] == "cl" and not _P[prep_i][2]:
                        continue
                    cases.append((prep_i, seq, layout, ci))
    run_cases = []
    maxr = 2
    for seq in seqs:
        if len(seq) > 2 and seq not in split_set:
            continue
        uses_qt = any(_L[i][5] for i in seq)
        for prep_i in range(len(_P)):
            if uses_qt != _P[prep_i][3]:
                continue
            for ci in (0, 1, 3, 4, 6, 8):
                if CONFIGS[ci][0] in ("cl", "ss") and not _P[prep_i][2]:
                    continue
                if seq in split_set and ci not in (0, 1, 4, 6):
                    continue
                for reps in ((1, 2) if len(seq) <= maxr else (1,)):
                    run_cases.append((prep_i, seq, 1, ci, reps))
    reset = lambda: _init(seed)
    return [
        CaseStage("direct_sample_measure", direct_cases(), run_direct, reset=reset),
        CaseStage("step_sample_does_not_disturb", step_sample_cases(), run_step_sample, reset=reset),
        CaseStage("simulate_all_paths", cases, run_steps, reset=reset, describe=describe),
        CaseStage("run_repetitions_all_paths", run_cases, run_run, reset=reset, describe=describe),
    ]
