"""C11 -- JSON round-trips every value and keeps reading old documents.

Stages
  (a) a_corpus_reads       : every stored *.json/*.repr and *.json_inward/*.repr_inward pair found by globbing the
                             json_test_data directories of the five packages: read_json(file) == eval(repr file)
                             (element-wise for top-level lists).  Unpaired files are violations.
  (b) b_corpus_roundtrip   : every element of every *.json document gets the full instance oracle.
      b_gen1_*             : hand-built alphabets (qids, gates x parameter grid, ops, circuits with shared
                             sub-circuits, keys, durations, linear dicts, Pauli strings/sums, resolvers, sweeps,
                             results, tableaux, control values, gatesets, noise models, devices metadata, raw values)
      b_gen2_single        : field-mutation closure of the corpus (every single-field mutation of every stored
                             *.json document from a fixed menu); documents the readers reject are skipped.
      b_gen2_pairs         : (thorough) pairs of field mutations, capped per document (cap is in RULE / counters).
      c_eq_hash_pairs      : equal => equal hash, ==/!= coherence and symmetry over all pairs of each pool.
      d_qid_order          : total order on the whole qid pool (trichotomy, transitivity, sorted() invariance).
      f_pickle_cross_process: every hashable hand-built value is pickled AFTER its hash was computed and read in a fresh
                             interpreter with another PYTHONHASHSEED: equal to, and same hash as, a freshly built equal value.
      g_value_histories    : moments / circuits / frozen circuits / circuit operations grown by with_operation(s), +,
                             Circuit.append / insert / batch_insert_into AFTER a memoised view (hash, ==, !=, str, approx_eq)
                             was taken, new operation sorting before / after / around the existing ones, three qubit kinds:
                             equal to (and same hash as) the directly built value, plus the full instance oracle.
      g_key_histories      : MeasurementKey memoises str()/hash(): every base key x memoised view taken before the edit x
                             derivation (path prefix / with_key_path / rescope / rename / replace), chains of two edits with a
                             view taken in between: same fields, str, ==, hash as the key built directly, the original key
                             undisturbed, measure()/KeyCondition carriers equal, plus the full instance oracle.
      e_class_coverage     : union of generated classes vs registered classes (counter + note).
The instance oracle (function `check_instance`) is shared by all (b) stages; wrappers [x, x], {"k": x} and
to_json_gzip/read_json_gzip are applied to every instance.
"""
from __future__ import annotations

import copy
import datetime
import fractions
import itertools
import json
import os
import pickle
import re

import networkx as nx
import numpy as np
import pandas as pd
import sympy

import cirq
import cirq_aqt
import cirq_google
import cirq_ionq
import cirq_pasqal
import cirq.contrib.json  # registers the cirq.contrib resolver (its json_test_data lives in cirq-core)  # noqa: F401

from mc import core
from mc.core import CaseStage, CustomStage, Res, bad, good

PROPERTY = "C11"
LEVEL = "exploration"
RULE = ("(a) every stored .json/.repr and .json_inward/.repr_inward pair discovered by globbing the json_test_data "
        "directories of cirq-core (protocols + contrib), cirq-google, cirq-ionq, cirq-aqt, cirq-pasqal; (b) every instance "
        "of three generators: (1) hand-built alphabets: every qid kind x coordinate grid (negative, large, natural-sort "
        "names) x dimension, every registered gate family x exponent/angle grid {0, 1, -1, 0.5, 2.5, 0.25, generic, sympy "
        "symbol, sympy expression} x global_shift grid, operations/tags/controls/classical controls, circuits incl. a shared "
        "FrozenCircuit used twice and the same sub-circuit inside and outside a CircuitOperation, tagged moments/circuits, "
        "MeasurementKey paths, Duration in every unit incl. symbolic, LinearDict, PauliString/PauliSum/DensePauliString, "
        "ParamResolver, every sweep constructor, ResultDict shapes, every 1-qubit CliffordTableau and the BFS closure of "
        "2-qubit tableaux (quick: depth<=3, thorough: all 11520), control values, gatesets/gate families, noise models, "
        "device metadata, numpy arrays/scalars of every dtype the encoder special-cases, complex, sympy, pandas, nested "
        "containers; (2) field-mutation closure of the corpus: every stored .json element x every single-field mutation "
        "of the menu numbers->{0,1,-1,0.5,2.5,1e-9} (integer-valued fields: ->{0,1,-1,2,3} plus the float menu), booleans "
        "flipped, strings->{'', another string of the document}, list element dropped/duplicated/swapped with its "
        "successor/list reversed, dict field removed (thorough: also all pairs of mutations among the first 12 mutation "
        "sites of each element, at most 1500 pairs per element; elements whose stored text exceeds 16000 characters get the core round-trip oracle only); a mutated document that read_json rejects is skipped; "
        "(3) wrappers [x,x], {'k':x}, gzip for every instance.  Oracle per instance x: y=read_json(to_json(x)): y==x, "
        "type(y) is type(x), hash(y)==hash(x), to_json(y)==to_json(x), behaviour probes (unitary, qid shape, qubits, "
        "parameter names, measurement keys, sweep points, records), eval(repr(x))==x, pickle/copy/deepcopy equal with equal "
        "hash after the source hash was computed; (c) equal=>equal hash, ==/!= coherence and symmetry over all pairs of each hand-built group (first 4000 values of a group) and of each stored element's pool (original + its first 150 distinct single-mutation values, 30 for big documents); (d) all pairs and "
        "triples of the qid pool; (f) every hashable hand-built value pickled after hashing and read in a fresh interpreter "
        "with a different PYTHONHASHSEED; (g) value histories: every (qubit kind of 3, base moment of 5, added operations of 7 "
        "placements before/after/around the existing ones, memoised view of 8 taken before the edit, edit method of 9: "
        "Moment.with_operation/with_operations/+/chained, Circuit.append/insert INLINE/batch_insert_into, then freeze / "
        "CircuitOperation) compared with the directly built value (==, !=, hash, approx_eq) and given the instance oracle; the "
        "duration group holds every total of a fixed list written in each unit x int/float/numpy scalar form, by arithmetic, by "
        "parameter resolution and as datetime.timedelta, plus Timestamps and wait gates/ops/moments/circuits built on them.  non-trivial = the instance serialises to a document containing at least one cirq_type "
        "(gen 2: and the mutation changed the constructed value); distinct = distinct case descriptor")
TECHNIQUE = ("bounded-exhaustive enumeration of the stored document history, of hand-built value alphabets and of the "
             "single/pair field-mutation closure of every stored document against the round-trip / equality / hash / order contracts")
LEVEL_TEXT = ("Every stored JSON document of the five packages is read and compared with its paired repr value. Every value of "
              "the hand-built alphabets and every value constructed from any single-field (thorough: pair) mutation of any stored "
              "document is written, read back and compared (equality, type, hash, idempotence, behaviour probes, repr-eval, "
              "pickle, copy, wrappers, gzip). Equality/hash coherence is checked on all pairs of each pool and the qid order on "
              "all pairs and triples. Bounded by the alphabets and the mutation menu; nothing is sampled.")
LEVEL_NOTE = ("trusted: Python json text parsing/printing, pickle/copy protocols, numpy/pandas/sympy equality; classes the repos "
              "list as not_yet_serializable / should_not_be_serialized and legacy *.json_inward formats are only read, not written")
ASSUMPTIONS = [
    "Python's json module, pickle and copy implement their documented protocols (trusted)",
    "numpy.array_equal, pandas .equals and sympy structural == are the equality of those payloads",
    "values read from *.json_inward documents are only required to read to the paired *.repr_inward value (legacy read-only formats)",
    "a mutated document that read_json rejects with any exception is a documented rejection (malformed input), not a violation",
    "repr(x) is required to evaluate back only when it claims to be evaluable: it is a Python expression over module-qualified "
    "names (eval raising SyntaxError/NameError = no claim, counted as repr_not_evaluable_form); numpy/pandas/sympy/datetime "
    "reprs are foreign and exempt",
    "generator 2: a value built from a mutated document on which an operation on the value ALONE raises (x==x, hash, repr, "
    "eval(repr), to_json, protocol probes, comparison raising) violates its class invariants and is skipped "
    "(constructed_but_broken); wrong ANSWERS (y != x, hash/idempotence/pickle/copy/repr-eval mismatch) are always violations",
    "generator 2 exemptions: pandas frames/indexes with null or empty payload (dtype is not recoverable), _QubitAsQid whose "
    "dimension equals the wrapped qubit's (not constructible through with_dimension)",
]

REPO = os.path.abspath(os.environ.get("VERIF_REPO", "/repo"))
PACKAGE_DIRS = [
    "cirq-core/cirq",
    "cirq-google/cirq_google",
    "cirq-ionq/cirq_ionq",
    "cirq-aqt/cirq_aqt",
    "cirq-pasqal/cirq_pasqal",
]
EVAL_NS = {
    "cirq": cirq, "cirq_google": cirq_google, "cirq_ionq": cirq_ionq, "cirq_aqt": cirq_aqt, "cirq_pasqal": cirq_pasqal,
    "np": np, "numpy": np, "sympy": sympy, "pd": pd, "pandas": pd, "datetime": datetime, "nx": nx, "networkx": nx,
    "fractions": fractions,
}

PAIR_SITE_CAP = 12
PAIR_CASE_CAP = 1500
BIG_DOC_CHARS = 16000  # elements whose stored text is longer get the core round-trip oracle only (no wrappers/repr/pickle/copies)


# ---------------------------------------------------------------------------------------------
# discovery of the stored history


def discover_dirs():
    out = []
    for pk in PACKAGE_DIRS:
        base = os.path.join(REPO, pk)
        for root, dirs, _files in os.walk(base):
            dirs.sort()
            if os.path.basename(root) == "json_test_data" and "/testing/test_data" not in root:
                out.append(root)
    return sorted(out)


def discover_pairs():
    """-> list of (relative stem, inward flag, json exists, repr exists)."""
    pairs = []
    for d in discover_dirs():
        stems = {}
        for f in sorted(os.listdir(d)):
            for ext, inward, kind in ((".json", 0, 0), (".repr", 0, 1), (".json_inward", 1, 0), (".repr_inward", 1, 1)):
                if f.endswith(ext):
                    stems.setdefault((f[: -len(ext)], inward), [False, False])[kind] = True
        for (stem, inward), (hj, hr) in sorted(stems.items()):
            pairs.append((os.path.relpath(os.path.join(d, stem), REPO), inward, hj, hr))
    return pairs


def _json_path(stem, inward):
    return os.path.join(REPO, stem + (".json_inward" if inward else ".json"))


def _repr_path(stem, inward):
    return os.path.join(REPO, stem + (".repr_inward" if inward else ".repr"))


# ---------------------------------------------------------------------------------------------
# equality helpers (structural; numpy / pandas payloads compared by value)


def eq(a, b) -> bool:
    if isinstance(a, np.ndarray) or isinstance(b, np.ndarray):
        try:
            aa, bb = np.asarray(a), np.asarray(b)
        except Exception:
            return False
        if aa.shape != bb.shape:
            return False
        if aa.dtype == object or bb.dtype == object:
            return all(eq(x, y) for x, y in zip(aa.ravel().tolist(), bb.ravel().tolist()))
        return bool(np.array_equal(aa, bb))
    if isinstance(a, pd.DataFrame) or isinstance(b, pd.DataFrame):
        return (isinstance(a, pd.DataFrame) and isinstance(b, pd.DataFrame) and a.equals(b)
                and a.columns.equals(b.columns) and a.index.equals(b.index)
                and list(a.columns.names) == list(b.columns.names) and list(a.index.names) == list(b.index.names))
    if isinstance(a, pd.Index) or isinstance(b, pd.Index):
        return (isinstance(a, pd.Index) and isinstance(b, pd.Index) and type(a) is type(b) and a.equals(b)
                and list(a.names) == list(b.names))
    if isinstance(a, (list, tuple)) and isinstance(b, (list, tuple)):
        return len(a) == len(b) and all(eq(x, y) for x, y in zip(a, b))
    if isinstance(a, dict) and isinstance(b, dict):
        return set(a.keys()) == set(b.keys()) and all(eq(a[k], b[k]) for k in a)
    r = a == b
    if isinstance(r, (np.ndarray, pd.Series, pd.DataFrame)) or (hasattr(r, "all") and not isinstance(r, bool)):
        try:
            return bool(np.all(r))
        except Exception:
            return False
    return bool(r)


def _type_demanded(x) -> bool:
    if isinstance(x, np.generic):
        return False
    return hasattr(x, "_json_dict_") or isinstance(
        x, (sympy.Basic, pd.Index, pd.DataFrame, complex, bool, int, float, str, datetime.datetime))


def same_types(x, y) -> bool:
    if isinstance(x, (list, tuple)) and isinstance(y, (list, tuple)):
        return len(x) == len(y) and all(same_types(a, b) for a, b in zip(x, y))
    if isinstance(x, dict) and isinstance(y, dict):
        return all(k in y and same_types(v, y[k]) for k, v in x.items())
    if _type_demanded(x):
        return type(y) is type(x)
    return True


def try_hash(x):
    try:
        return hash(x)
    except TypeError:
        return None


_NOVALUE = object()
_DEFAULT_REPR = re.compile(r"<[^<>]* object at 0x[0-9a-fA-F]+>")
_CT = re.compile(r'"cirq_type": "([^"]+)"')


def cirq_types_in(text):
    return set(_CT.findall(text)) - {"VAL", "REF"}


def short(x, n=400):
    try:
        s = repr(x)
    except Exception as e:  # pragma: no cover
        s = f"<repr failed: {e}>"
    return s if len(s) <= n else s[:n] + "..."


# ---------------------------------------------------------------------------------------------
# behaviour probes


def probes(x):
    """Small dictionary of semantic observations of x (compared between x and its round trip)."""
    out = {}
    if isinstance(x, (list, tuple, dict, str, int, float, complex, np.ndarray, np.generic)) or x is None:
        return out
    if isinstance(x, (sympy.Basic, pd.Index, pd.DataFrame, datetime.datetime)):
        return out
    try:
        shape = cirq.qid_shape(x, None)
    except Exception:
        shape = None
    if shape is not None:
        out["qid_shape"] = tuple(shape)
    try:
        param = cirq.is_parameterized(x)
        out["is_parameterized"] = bool(param)
        out["parameter_names"] = tuple(sorted(cirq.parameter_names(x)))
    except Exception:
        param = None
    try:
        out["measurement_keys"] = tuple(sorted(str(k) for k in cirq.measurement_key_objs(x)))
    except Exception:
        pass
    try:
        out["control_keys"] = tuple(sorted(str(k) for k in cirq.control_keys(x)))
    except Exception:
        pass
    if isinstance(x, (cirq.Operation, cirq.AbstractCircuit, cirq.Moment)):
        try:
            qs = x.qubits if isinstance(x, (cirq.Operation, cirq.Moment)) else x.all_qubits()
            out["qubits"] = tuple(sorted(qs)) if not isinstance(x, cirq.Operation) else tuple(qs)
        except Exception:
            pass
    if isinstance(x, cirq.Operation):
        out["tags"] = tuple(repr(t) for t in x.tags)
    if isinstance(x, (cirq.AbstractCircuit, cirq.Moment)):
        try:
            out["tags"] = tuple(repr(t) for t in x.tags)
        except Exception:
            pass
    if isinstance(x, cirq.AbstractCircuit):
        out["depth"] = len(x)
        out["ops"] = sum(1 for _ in x.all_operations())
    if isinstance(x, cirq.Sweep):
        try:
            out["sweep_keys"] = tuple(x.keys)
            pts = []
            for i, r in enumerate(x):
                if i >= 64:
                    break
                pts.append(tuple(sorted((str(k), _num_key(v)) for k, v in r.param_dict.items())))
            out["sweep_points"] = tuple(pts)
            out["sweep_len"] = len(x)
        except Exception:
            pass
    if isinstance(x, cirq.Result):
        try:
            out["records"] = tuple(sorted((k, v.shape, v.astype(np.int64).tobytes()) for k, v in x.records.items()))
            out["params"] = repr(x.params)
        except Exception:
            pass
    if shape is not None and param is False and int(np.prod(shape, dtype=np.int64)) <= 16 and not isinstance(
            x, (cirq.AbstractCircuit, cirq.Moment)):
        try:
            u = cirq.unitary(x, None)
        except Exception:
            u = None
        if u is not None:
            out["unitary"] = np.asarray(u)
    return out


def _num_key(v):
    if isinstance(v, (int, float, complex, np.generic)):
        c = complex(v)
        return (round(c.real, 12), round(c.imag, 12))
    return repr(v)


def probes_equal(pa, pb):
    for k in sorted(set(pa) | set(pb)):
        if k not in pa or k not in pb:
            return f"probe {k} present on one side only"
        a, b = pa[k], pb[k]
        if k == "unitary":
            if a.shape != b.shape or not np.allclose(a, b, atol=1e-8):
                return "probe unitary differs"
        elif a != b:
            return f"probe {k} differs: {a!r} vs {b!r}"
    return None


# ---------------------------------------------------------------------------------------------
# the instance oracle


class BrokenValue(Exception):
    """A value built from a mutated document fails on its own (before any round trip): x == x, hash(x), repr(x),
    to_json(x) or a protocol probe raises.  Its constructor accepted arguments that violate the class's invariants,
    so nothing is demanded of it."""


def check_instance(x, origin, full=True, mutated=False):
    """Returns (failure message or None, json text, counters).  `origin` is a human-readable provenance string.

    mutated=True (generator 2): operations on x ALONE that raise mark x as a broken value (BrokenValue is raised and the
    case is skipped); everything that relates x to its round trip / copy is still demanded."""
    cnt = {}

    def fail(what, extra=""):
        return (f"{what}\n  instance ({origin}): {short(x, 1500)}\n  type: {type(x).__module__}.{type(x).__qualname__}"
                + (f"\n  {extra}" if extra else "")), None, cnt

    if mutated:
        if _mutated_exempt(x):
            raise BrokenValue("exempt")
        try:
            if not eq(x, x):
                raise BrokenValue("x != x")
            try_hash(x)
            repr(x)
            probes(x)
        except BrokenValue:
            raise
        except Exception as e:
            raise BrokenValue(f"{type(e).__name__}: {e}")
    hx = try_hash(x)
    if not hasattr(x, "_json_dict_") and type(x).__module__.split(".")[0].startswith("cirq"):
        # a Cirq value that is not JSON-serializable by design (e.g. CleanQubit): only repr / pickle / copies
        cnt["not_json_serializable"] = 1
        return _check_non_json(x, hx, fail, cnt, mutated)
    try:
        text = cirq.to_json(x)
    except Exception as e:
        if mutated:
            raise BrokenValue(f"to_json: {type(e).__name__}: {e}")
        return fail(f"to_json raised {type(e).__name__}: {e}")
    try:
        y = cirq.read_json(json_text=text)
    except Exception as e:
        return fail(f"read_json(to_json(x)) raised {type(e).__name__}: {e}", f"json: {text[:1500]}")
    try:
        ok = eq(y, x)
    except Exception as e:
        if mutated:
            raise BrokenValue(f"y == x: {type(e).__name__}: {e}")
        return fail(f"comparison y == x raised {type(e).__name__}: {e}", f"y: {short(y, 1500)}")
    if not ok:
        return fail("read_json(to_json(x)) != x", f"y: {short(y, 1500)}\n  json: {text[:1500]}")
    try:
        ok = eq(x, y)
    except Exception as e:
        return fail(f"comparison x == y raised {type(e).__name__}: {e}")
    if not ok:
        return fail("y == x but not x == y (asymmetric equality after round trip)", f"y: {short(y, 1500)}")
    if not same_types(x, y):
        return fail(f"type changed by the round trip: {type(x)} -> {type(y)}", f"y: {short(y, 800)}")
    if hx is not None:
        hy = try_hash(y)
        if hy != hx:
            return fail(f"hash(y)={hy} != hash(x)={hx} although y == x", f"y: {short(y, 800)}")
        cnt["hash_checked"] = 1
    try:
        text2 = cirq.to_json(y)
    except Exception as e:
        return fail(f"to_json(y) raised {type(e).__name__}: {e}")
    if text2 != text:
        return fail("to_json(read_json(to_json(x))) != to_json(x) (not idempotent)", _first_diff(text, text2))
    if hasattr(x, "_json_dict_") or isinstance(x, (list, tuple, dict)):
        msg = probes_equal(probes(x), probes(y)) if not isinstance(x, (list, tuple, dict)) else None
        if msg:
            return fail(f"behaviour differs after the round trip: {msg}", f"y: {short(y, 800)}")
    if not full:
        return None, text, cnt

    # wrappers
    try:
        w = cirq.read_json(json_text=cirq.to_json([x, x]))
        if not (isinstance(w, list) and len(w) == 2 and eq(w[0], x) and eq(w[1], x) and same_types([x, x], w)):
            return fail("wrapper [x, x] does not round-trip", f"got: {short(w, 1200)}")
        w = cirq.read_json(json_text=cirq.to_json({"k": x, "j": [x]}))
        if not (isinstance(w, dict) and set(w) == {"k", "j"} and eq(w["k"], x) and eq(w["j"], [x])
                and same_types(x, w["k"])):
            return fail("wrapper {'k': x, 'j': [x]} does not round-trip", f"got: {short(w, 1200)}")
        w = cirq.read_json_gzip(gzip_raw=cirq.to_json_gzip(x))
        if not (eq(w, x) and same_types(x, w)):
            return fail("to_json_gzip/read_json_gzip does not round-trip", f"got: {short(w, 1200)}")
    except Exception as e:
        return fail(f"wrapper round trip raised {type(e).__name__}: {e}")
    cnt["wrappers_checked"] = 3

    return _check_repr_pickle_copy(x, hx, fail, cnt, mutated, text)


def _check_non_json(x, hx, fail, cnt, mutated):
    return _check_repr_pickle_copy(x, hx, fail, cnt, mutated, "")


def _check_repr_pickle_copy(x, hx, fail, cnt, mutated, text):
    # repr
    try:
        r = repr(x)
    except Exception as e:
        return fail(f"repr(x) raised {type(e).__name__}: {e}")
    if repr_claims_evaluable(x, r):
        z = _NOVALUE
        try:
            z = eval(r, dict(EVAL_NS), {})
        except (SyntaxError, NameError):
            # not a Python expression / uses unqualified names: the repr does not claim to be evaluable
            cnt["repr_not_evaluable_form"] = 1
        except Exception as e:
            if mutated:
                raise BrokenValue(f"eval(repr): {type(e).__name__}: {e}")
            return fail(f"eval(repr(x)) raised {type(e).__name__}: {e}", f"repr: {r[:1500]}")
        if z is not _NOVALUE:
            try:
                ok = eq(z, x) and eq(x, z)
            except Exception as e:
                if mutated:
                    raise BrokenValue(f"eval(repr) ==: {type(e).__name__}: {e}")
                return fail(f"eval(repr(x)) == x raised {type(e).__name__}: {e}", f"repr: {r[:1500]}")
            if not ok:
                return fail("eval(repr(x)) != x", f"repr: {r[:1500]}\n  evaluated: {short(z, 800)}")
            if hx is not None and _type_demanded(x) and type(z) is type(x) and try_hash(z) != hx:
                return fail("eval(repr(x)) == x but the hashes differ", f"repr: {r[:1500]}")
            cnt["repr_checked"] = 1
    else:
        cnt["repr_not_evaluable_form"] = 1

    # pickle (after the source's hash has been computed above)
    try:
        blob = pickle.dumps(x)
    except Exception as e:
        blob = None
        cnt["unpicklable"] = 1
        if hasattr(x, "_json_dict_") and not _pickle_exempt(x, e):
            return fail(f"pickle.dumps raised {type(e).__name__}: {e}")
    if blob is not None:
        try:
            p = pickle.loads(blob)
        except Exception as e:
            return fail(f"pickle.loads(pickle.dumps(x)) raised {type(e).__name__}: {e}")
        try:
            ok = eq(p, x) and eq(x, p)
        except Exception as e:
            return fail(f"comparing the unpickled value raised {type(e).__name__}: {e}")
        if not ok:
            return fail("pickle.loads(pickle.dumps(x)) != x", f"unpickled: {short(p, 800)}")
        if type(p) is not type(x):
            return fail(f"pickle changed the type: {type(x)} -> {type(p)}")
        if hx is not None and try_hash(p) != hx:
            return fail(f"hash(pickle round trip)={try_hash(p)} != hash(x)={hx} although equal")
        cnt["pickle_checked"] = 1

    # copies
    for name, fn in (("copy.copy", copy.copy), ("copy.deepcopy", copy.deepcopy)):
        try:
            c = fn(x)
        except Exception as e:
            if blob is None:
                continue
            return fail(f"{name} raised {type(e).__name__}: {e}")
        try:
            ok = eq(c, x) and eq(x, c)
        except Exception as e:
            return fail(f"comparing {name}(x) raised {type(e).__name__}: {e}")
        if not ok:
            return fail(f"{name}(x) != x", f"copy: {short(c, 800)}")
        if type(c) is not type(x):
            return fail(f"{name} changed the type: {type(x)} -> {type(c)}")
        if hx is not None and try_hash(c) != hx:
            return fail(f"hash({name}(x)) != hash(x) although equal")
    cnt["copies_checked"] = 2
    return None, text, cnt


def _first_diff(a, b):
    i = 0
    n = min(len(a), len(b))
    while i < n and a[i] == b[i]:
        i += 1
    return f"first difference at char {i}: ...{a[max(0, i - 200):i + 200]!r} vs ...{b[max(0, i - 200):i + 200]!r}"


def repr_claims_evaluable(x, r):
    """A repr claims to be evaluable unless it has the default `<... object at 0x...>` form somewhere in it."""
    if _DEFAULT_REPR.search(r):
        return False
    if isinstance(x, (pd.DataFrame, pd.Index, np.ndarray, np.generic, datetime.datetime, sympy.Basic)):
        return False  # foreign reprs (numpy / pandas / sympy print text that is not meant to be evaluated)
    if isinstance(x, (list, tuple, dict)):
        return False  # containers of foreign values; their elements are checked on their own
    return True


def _pickle_exempt(x, e):
    return False


def _mutated_exempt(x):
    """Values reachable only through a mutated document that are outside the statement (see ASSUMPTIONS)."""
    if isinstance(x, (pd.DataFrame, pd.Index)):
        try:
            if isinstance(x, pd.DataFrame):
                return bool(x.isnull().values.any()) or x.shape[0] == 0 or x.shape[1] == 0
            return bool(x.isnull().any()) or len(x) == 0
        except Exception:
            return True
    for q in _qids_of(x):
        if type(q).__name__ == "_QubitAsQid" and q.dimension == q.qubit.dimension:
            return True
    return False


def _qids_of(x):
    if isinstance(x, cirq.Qid):
        return [x]
    if isinstance(x, (cirq.Operation, cirq.Moment)):
        return list(x.qubits)
    if isinstance(x, cirq.AbstractCircuit):
        return list(x.all_qubits())
    return []


# ---------------------------------------------------------------------------------------------
# (a) corpus


_PAIRS = None


def pairs():
    global _PAIRS
    if _PAIRS is None:
        _PAIRS = discover_pairs()
    return _PAIRS


def eval_repr_file(path):
    with open(path) as f:
        content = f.read()
    return eval(content, dict(EVAL_NS), {})


def run_corpus_read(case):
    stem, inward = case
    jp, rp = _json_path(stem, inward), _repr_path(stem, inward)
    if not os.path.exists(jp) or not os.path.exists(rp):
        return bad(f"unpaired stored document: {jp} exists={os.path.exists(jp)}, {rp} exists={os.path.exists(rp)}",
                   kind="unpaired")
    try:
        v = cirq.read_json(jp)
    except Exception as e:
        return bad(f"stored document {jp} no longer reads: {type(e).__name__}: {e}", kind="corpus_read_raises")
    try:
        r = eval_repr_file(rp)
    except Exception as e:
        return bad(f"stored repr {rp} no longer evaluates: {type(e).__name__}: {e}", kind="corpus_repr_raises")
    if isinstance(r, list) and isinstance(v, list):
        if len(r) != len(v):
            return bad(f"{jp}: document has {len(v)} top-level elements, repr has {len(r)}", kind="corpus_len")
        for i, (a, b) in enumerate(zip(v, r)):
            try:
                ok = eq(a, b) and eq(b, a)
            except Exception as e:
                return bad(f"{jp}[{i}]: comparison raised {type(e).__name__}: {e}", kind="corpus_cmp_raises")
            if not ok:
                return bad(f"{jp}[{i}] reads to\n  {short(a, 1200)}\nbut the paired repr is\n  {short(b, 1200)}",
                           kind="corpus_neq")
        n = len(v)
    else:
        try:
            ok = eq(v, r) and eq(r, v)
        except Exception as e:
            return bad(f"{jp}: comparison raised {type(e).__name__}: {e}", kind="corpus_cmp_raises")
        if not ok:
            return bad(f"{jp} reads to\n  {short(v, 1200)}\nbut the paired repr is\n  {short(r, 1200)}", kind="corpus_neq")
        n = 1
    return good(nontrivial=True, elements=n, inward_docs=int(inward), outward_docs=int(not inward))


# units = (stem, element index or -1)
_UNITS = None
_RAW_CACHE = {}


def raw_doc(stem):
    if stem not in _RAW_CACHE:
        with open(_json_path(stem, 0)) as f:
            _RAW_CACHE[stem] = json.load(f)
    return _RAW_CACHE[stem]


def units():
    """Every stored .json document split into top-level elements when each element reads on its own."""
    global _UNITS
    if _UNITS is not None:
        return _UNITS
    out = []
    for stem, inward, hj, hr in pairs():
        if inward or not hj:
            continue
        raw = raw_doc(stem)
        split = False
        if isinstance(raw, list) and len(raw) > 1:
            try:
                whole = cirq.read_json(json_text=json.dumps(raw))
                split = True
                for i, e in enumerate(raw):
                    v = cirq.read_json(json_text=json.dumps(e))
                    if not eq(v, whole[i]):
                        split = False
                        break
            except Exception:
                split = False
        if split:
            out.extend((stem, i) for i in range(len(raw)))
        else:
            out.append((stem, -1))
    _UNITS = out
    return out


def unit_raw(unit):
    stem, i = unit
    raw = raw_doc(stem)
    return raw if i < 0 else raw[i]


_BIG = {}


def unit_is_big(unit):
    if unit not in _BIG:
        _BIG[unit] = len(json.dumps(unit_raw(unit))) > BIG_DOC_CHARS
    return _BIG[unit]


def run_corpus_roundtrip(case):
    stem, i = case
    raw = unit_raw((stem, i))
    x = cirq.read_json(json_text=json.dumps(raw))
    msg, text, cnt = check_instance(x, f"stored document {stem}.json element {i}")
    if msg:
        return bad(msg, kind="corpus_roundtrip", doc=os.path.basename(stem))
    return good(nontrivial=bool(cirq_types_in(text)), **cnt, **{"cls:" + t: 1 for t in cirq_types_in(text)})


# ---------------------------------------------------------------------------------------------
# generator 2: field mutations

INT_MENU = (0, 1, -1, 2, 3)
FLOAT_MENU = (0.0, 1.0, -1.0, 0.5, 2.5, 1e-9)


def _walk(node, path, out, strings):
    if isinstance(node, bool):
        out.append((path, "bool"))
    elif isinstance(node, int):
        out.append((path, "int"))
    elif isinstance(node, float):
        out.append((path, "float"))
    elif isinstance(node, str):
        out.append((path, "str"))
        if node not in strings:
            strings.append(node)
    elif isinstance(node, list):
        out.append((path, "list"))
        for i, e in enumerate(node):
            _walk(e, path + (i,), out, strings)
    elif isinstance(node, dict):
        out.append((path, "dict"))
        for k, v in node.items():
            if k == "cirq_type":
                continue
            _walk(v, path + (k,), out, strings)


def _get(node, path):
    for p in path:
        node = node[p]
    return node


def site_mutations(raw, path, kind, strings):
    """The menu for one site -> list of (op, arg)."""
    cur = _get(raw, path)
    m = []
    if kind == "bool":
        m.append(("set", not cur))
    elif kind == "int":
        for v in INT_MENU:
            if v != cur:
                m.append(("set", v))
        for v in (0.5, 2.5, 1e-9):
            m.append(("set", v))
    elif kind == "float":
        for v in FLOAT_MENU:
            if v != cur:
                m.append(("set", v))
    elif kind == "str":
        if cur != "":
            m.append(("set", ""))
        other = next((s for s in strings if s != cur and s != ""), "k2")
        m.append(("set", other))
    elif kind == "list":
        n = len(cur)
        for i in range(n):
            m.append(("drop", i))
        for i in range(n):
            m.append(("dup", i))
        for i in range(n - 1):
            m.append(("swap", i))
        if n >= 3:
            m.append(("reverse", 0))
    elif kind == "dict":
        for k in cur:
            if k != "cirq_type":
                m.append(("del", k))
    return m


def all_sites(raw):
    out, strings = [], []
    _walk(raw, (), out, strings)
    return out, strings


def all_single_mutations(raw):
    sites, strings = all_sites(raw)
    muts = []
    for si, (path, kind) in enumerate(sites):
        for op, arg in site_mutations(raw, path, kind, strings):
            muts.append((si, op, arg))
    return sites, muts


def apply_mutation(raw, path, op, arg):
    """Returns a mutated deep copy of raw."""
    new = copy.deepcopy(raw)
    if not path:
        # the site is the root
        if op == "set":
            return arg
        tgt = new
    else:
        parent = _get(new, path[:-1])
        if op == "set":
            parent[path[-1]] = arg
            return new
        tgt = parent[path[-1]]
    if op == "drop":
        del tgt[arg]
    elif op == "dup":
        tgt.insert(arg + 1, copy.deepcopy(tgt[arg]))
    elif op == "swap":
        tgt[arg], tgt[arg + 1] = tgt[arg + 1], tgt[arg]
    elif op == "reverse":
        tgt.reverse()
    elif op == "del":
        del tgt[arg]
    else:
        raise core.HarnessError(f"unknown mutation op {op}")
    return new


def _is_prefix(p, q):
    return len(p) <= len(q) and q[: len(p)] == p


_MUT_CACHE = {}


def unit_mutations(unit):
    if unit not in _MUT_CACHE:
        _MUT_CACHE[unit] = all_single_mutations(unit_raw(unit))
    return _MUT_CACHE[unit]


def _read_mutated(doc):
    try:
        text = json.dumps(doc)
        return True, cirq.read_json(json_text=text)
    except core.HarnessError:
        raise
    except Exception as e:  # any exception of the reader = document rejected
        return False, e


_BASE_TEXT = {}


def _base_text(unit):
    if unit not in _BASE_TEXT:
        try:
            _BASE_TEXT[unit] = cirq.to_json(cirq.read_json(json_text=json.dumps(unit_raw(unit))))
        except Exception:
            _BASE_TEXT[unit] = None
    return _BASE_TEXT[unit]


def run_gen2_single(case):
    stem, ei, mi = case
    unit = (stem, ei)
    raw = unit_raw(unit)
    sites, muts = unit_mutations(unit)
    si, op, arg = muts[mi]
    path, kind = sites[si]
    doc = apply_mutation(raw, path, op, arg)
    ok, x = _read_mutated(doc)
    if not ok:
        return Res(skipped=True, nontrivial=False, counters={"rejected_" + type(x).__name__: 1})
    origin = f"{stem}.json element {ei} with field {'/'.join(map(str, path)) or '<root>'} mutated by {op} {arg!r}"
    try:
        msg, text, cnt = check_instance(x, origin, mutated=True, full=not unit_is_big(unit))
    except BrokenValue:
        return Res(skipped=True, nontrivial=False, counters={"constructed_but_broken": 1})
    if msg:
        return bad(msg + f"\n  mutated document: {json.dumps(doc)[:1500]}", kind="gen2_single", doc=os.path.basename(stem),
                   what=msg.split("\n")[0][:60])
    changed = text != _base_text(unit)
    return good(nontrivial=bool(changed and cirq_types_in(text)), constructed=1, changed_value=int(changed), **cnt,
                **{"cls:" + t: 1 for t in cirq_types_in(text)})


def unit_pair_cases(unit):
    """All pairs of mutations at two different, non-nested sites among the first PAIR_SITE_CAP sites (capped)."""
    sites, muts = unit_mutations(unit)
    by_site = {}
    for mi, (si, op, arg) in enumerate(muts):
        by_site.setdefault(si, []).append(mi)
    # the first PAIR_SITE_CAP sites (document order) that have at least one mutation
    chosen = sorted(by_site)[:PAIR_SITE_CAP]
    out = []
    for a, b in itertools.combinations(chosen, 2):
        pa, pb = sites[a][0], sites[b][0]
        if _is_prefix(pa, pb) or _is_prefix(pb, pa):
            continue
        for ma in by_site[a]:
            for mb in by_site[b]:
                out.append((ma, mb))
    total = len(out)
    return out[:PAIR_CASE_CAP], total


def run_gen2_pair(case):
    stem, ei, ma, mb = case
    unit = (stem, ei)
    raw = unit_raw(unit)
    sites, muts = unit_mutations(unit)
    (sa, opa, arga), (sb, opb, argb) = muts[ma], muts[mb]
    pa, pb = sites[sa][0], sites[sb][0]
    # apply the later path first so that list index shifts of the first cannot invalidate the second
    first, second = ((pb, opb, argb), (pa, opa, arga)) if pa < pb else ((pa, opa, arga), (pb, opb, argb))
    try:
        doc = apply_mutation(apply_mutation(raw, *first), *second)
    except (KeyError, IndexError, TypeError):
        return Res(skipped=True, nontrivial=False, counters={"pair_not_applicable": 1})
    ok, x = _read_mutated(doc)
    if not ok:
        return Res(skipped=True, nontrivial=False, counters={"rejected_" + type(x).__name__: 1})
    origin = (f"{stem}.json element {ei} with fields {'/'.join(map(str, pa))} ({opa} {arga!r}) and "
              f"{'/'.join(map(str, pb))} ({opb} {argb!r}) mutated")
    try:
        msg, text, cnt = check_instance(x, origin, mutated=True, full=not unit_is_big(unit))
    except BrokenValue:
        return Res(skipped=True, nontrivial=False, counters={"constructed_but_broken": 1})
    if msg:
        return bad(msg + f"\n  mutated document: {json.dumps(doc)[:1500]}", kind="gen2_pair", doc=os.path.basename(stem),
                   what=msg.split("\n")[0][:60])
    changed = text != _base_text(unit)
    return good(nontrivial=bool(changed and cirq_types_in(text)), constructed=1, changed_value=int(changed), **cnt,
                **{"cls:" + t: 1 for t in cirq_types_in(text)})


# ---------------------------------------------------------------------------------------------
# generator 1: hand-built alphabets (mc/ref/c11_pool.py)

_POOLS = {}


def pool(tier, seed):
    key = (tier, seed)
    if key not in _POOLS:
        from mc.ref import c11_pool
        _POOLS[key] = c11_pool.build(tier, seed)
    return _POOLS[key]


_CUR_POOL = None


def run_gen1(case):
    group, idx = case
    label, x = _CUR_POOL[group][idx]
    msg, text, cnt = check_instance(x, f"hand-built {group}[{idx}] {label}")
    if msg:
        try:
            seen = {"cls:" + t: 1 for t in cirq_types_in(cirq.to_json(x))}
        except Exception:
            seen = {}
        return Res(ok=False, msg=msg, counters=seen,
                   sig={"kind": "gen1", "group": group, "cls": type(x).__name__, "what": msg.split("\n")[0][:60]})
    types = cirq_types_in(text) if text else set()
    return good(nontrivial=bool(types) or "not_json_serializable" in cnt, **cnt, **{"cls:" + t: 1 for t in types})


# ---------------------------------------------------------------------------------------------
# (c) equal => equal hash, ==/!= coherence, symmetry over all pairs of each pool


def _pair_check(a, b, la, lb, lenient):
    """Returns (message or None, equal flag or None)."""
    try:
        ab = a == b
        ba = b == a
        nab = a != b
    except Exception as e:
        if lenient:
            return None, None
        return f"comparison raised {type(e).__name__}: {e}\n  a ({la}): {short(a)}\n  b ({lb}): {short(b)}", None
    for r in (ab, ba, nab):
        if not isinstance(r, (bool, np.bool_)):
            return None, None  # array-valued comparisons (raw numpy / pandas payloads) are not part of this stage
    if bool(ab) != bool(ba):
        return f"asymmetric equality: a == b is {ab} but b == a is {ba}\n  a ({la}): {short(a)}\n  b ({lb}): {short(b)}", None
    if bool(nab) == bool(ab):
        return f"a == b is {ab} and a != b is {nab}\n  a ({la}): {short(a)}\n  b ({lb}): {short(b)}", None
    if ab:
        try:
            ha, hb = hash(a), hash(b)
        except TypeError:
            return None, True
        except Exception as e:
            if lenient:
                return None, True
            return f"hash raised {type(e).__name__}: {e}\n  a ({la}): {short(a)}", True
        if ha != hb:
            return (f"a == b but hash(a)={ha} != hash(b)={hb}\n  a ({la}): {short(a)}\n  type {type(a).__name__}"
                    f"\n  b ({lb}): {short(b)}\n  type {type(b).__name__}"), True
    return None, bool(ab)


_EQ_POOL = None


def run_eq_hash_gen1(case):
    group, i = case
    items = _EQ_POOL[group]
    la, a = items[i]
    n_eq = 0
    n = 0
    for j in range(i, min(len(items), EQ_GROUP_CAP)):
        lb, b = items[j]
        msg, e = _pair_check(a, b, la, lb, lenient=False)
        if msg:
            return bad(msg, kind="eq_hash_gen1", group=group, cls=type(a).__name__)
        if e is not None:
            n += 1
            n_eq += int(bool(e) and j != i)
    return good(nontrivial=n > 1, pairs=n, equal_pairs=n_eq)


EQ_GROUP_CAP = 4000   # all pairs among the first 4000 values of a hand-built group (only the thorough tableau group is larger)
EQ_POOL_CAP = 150
EQ_POOL_CAP_BIG = 30


def unit_pool(unit):
    """Original value + every distinct value constructed by a single-field mutation (capped, order of the mutation list)."""
    raw = unit_raw(unit)
    cap = EQ_POOL_CAP_BIG if unit_is_big(unit) else EQ_POOL_CAP
    sites, muts = unit_mutations(unit)
    out = []
    seen = set()
    ok, x0 = _read_mutated(raw)
    if ok:
        out.append(("original", x0))
    total = 0
    beyond = 0
    for mi, (si, op, arg) in enumerate(muts):
        if len(out) >= cap:
            beyond = len(muts) - mi
            break
        path, _kind = sites[si]
        ok, x = _read_mutated(apply_mutation(raw, path, op, arg))
        if not ok:
            continue
        try:
            t = cirq.to_json(x)
        except Exception:
            continue
        if t in seen:
            continue
        seen.add(t)
        total += 1
        if len(out) < cap:
            out.append((f"mutation {mi}: {'/'.join(map(str, path))} {op} {arg!r}", x))
    return out, beyond


def run_eq_hash_gen2(case):
    stem, ei = case
    items, total = unit_pool((stem, ei))
    n = n_eq = 0
    for i in range(len(items)):
        la, a = items[i]
        for j in range(i, len(items)):
            lb, b = items[j]
            msg, e = _pair_check(a, b, la, lb, lenient=True)
            if msg:
                return bad(f"{stem}.json element {ei}: " + msg, kind="eq_hash_gen2", doc=os.path.basename(stem))
            if e is not None:
                n += 1
                n_eq += int(bool(e) and j != i)
    return good(nontrivial=len(items) > 1, pairs=n, equal_pairs=n_eq, pool_values=len(items),
                mutations_beyond_pool_cap=total)


# ---------------------------------------------------------------------------------------------
# (d) qid ordering

_QIDS = None


def qid_list():
    return [x for _l, x in _CUR_POOL["qids"] if isinstance(x, cirq.Qid)]


def _cmp_row(qs, i):
    a = qs[i]
    row = []
    for b in qs:
        row.append((bool(a < b), bool(a == b), bool(a > b), bool(a <= b), bool(a >= b), bool(a != b)))
    return row


N_SORT_PERMS = 12


def run_qid_order(case):
    kind, k = case
    qs = qid_list()
    n = len(qs)
    if kind == "row":
        a = qs[k]
        for j, b in enumerate(qs):
            lt, e, gt, le, ge, ne = _cmp_row([a, b], 0)[1]
            desc = f"a={a!r} ({type(a).__name__}, dim {a.dimension}), b={b!r} ({type(b).__name__}, dim {b.dimension})"
            if lt + e + gt != 1:
                return bad(f"not exactly one of <, ==, > holds: a<b={lt} a==b={e} a>b={gt}; {desc}", kind="qid_trichotomy")
            if le != (lt or e) or ge != (gt or e) or ne != (not e):
                return bad(f"<=, >=, != incoherent: <{lt} =={e} >{gt} <={le} >={ge} !={ne}; {desc}", kind="qid_coherence")
            if bool(b > a) != lt or bool(b < a) != gt or bool(b == a) != e:
                return bad(f"a<b={lt}, a>b={gt}, a==b={e} but b>a={b > a}, b<a={b < a}, b==a={b == a}; {desc}",
                           kind="qid_antisymmetry")
            if e and hash(a) != hash(b):
                return bad(f"equal qids with different hashes; {desc}", kind="qid_hash")
        return good(nontrivial=n > 1, pairs=n)
    if kind == "transitivity":
        lt = np.zeros((n, n), dtype=np.int64)
        eqm = np.zeros((n, n), dtype=np.int64)
        for i in range(n):
            for j in range(n):
                lt[i, j] = bool(qs[i] < qs[j])
                eqm[i, j] = bool(qs[i] == qs[j])
        le = ((lt + eqm) > 0).astype(np.int64)
        for name, m1, m2, tgt in (("a<b, b<c but not a<c", lt, lt, lt), ("a<=b, b<=c but not a<=c", le, le, le),
                                  ("a==b, b==c but not a==c", eqm, eqm, eqm), ("a==b, b<c but not a<c", eqm, lt, lt),
                                  ("a<b, b==c but not a<c", lt, eqm, lt)):
            viol = ((m1 @ m2) > 0) & (tgt == 0)
            if viol.any():
                i, c = [int(v) for v in np.argwhere(viol)[0]]
                j = int(np.argmax(m1[i] * m2[:, c]))
                return bad(f"order not transitive ({name}): a={qs[i]!r} (dim {qs[i].dimension}), b={qs[j]!r} "
                           f"(dim {qs[j].dimension}), c={qs[c]!r} (dim {qs[c].dimension})", kind="qid_transitivity")
        return good(nontrivial=True, triples=n ** 3)
    if kind == "sorted":
        base = sorted(qs)
        for i in range(len(base) - 1):
            if base[i] > base[i + 1]:
                return bad(f"sorted() output is not ascending: {base[i]!r} > {base[i + 1]!r}", kind="qid_sorted")
        if k == 0:
            perm = list(reversed(qs))
        elif k == 1:
            perm = qs[::2] + qs[1::2]
        elif k == 2:
            perm = sorted(qs, key=repr)
        elif k == 3:
            perm = sorted(qs, key=lambda q: (hash(q), repr(q)))
        elif k == 4:
            perm = list(reversed(base))
        else:
            r = (k - 4) * max(1, n // (N_SORT_PERMS - 4))
            perm = qs[r % n:] + qs[: r % n]
        got = sorted(perm)
        for i, (u, v) in enumerate(zip(base, got)):
            if not (u == v):
                return bad(f"sorted() depends on the input order (permutation {k}): position {i} is {u!r} (dim {u.dimension}) "
                           f"vs {v!r} (dim {v.dimension})", kind="qid_sorted")
        return good(nontrivial=True, sorted_len=n)
    raise core.HarnessError(f"unknown qid case {case}")


# ---------------------------------------------------------------------------------------------
# (f) pickles read in ANOTHER interpreter (different string-hash seed): a hash cached by the writer must not survive

_CHILD = r"""
import pickle, sys
import cirq, cirq_google, cirq_ionq, cirq_aqt, cirq_pasqal, cirq.contrib.json
items = pickle.load(open(sys.argv[1], 'rb'))
bad = []
for idx, obj in items:
    try:
        fresh = cirq.read_json(json_text=cirq.to_json(obj))
        if not (obj == fresh and fresh == obj):
            bad.append((idx, 'unpickled value != its fresh JSON round trip'))
        elif hash(obj) != hash(fresh):
            bad.append((idx, 'hash(unpickled)=%d != hash(fresh equal value)=%d' % (hash(obj), hash(fresh))))
    except Exception as e:
        bad.append((idx, 'raised %s: %s' % (type(e).__name__, e)))
pickle.dump(bad, open(sys.argv[2], 'wb'))
"""


XP_BUNDLES = [["gates"], ["tableaux", "qids", "values"], ["ops", "paulis", "circuits", "sweeps"],
              ["results", "gatesets", "noise_devices", "google_workflow", "durations"]]


def run_pickle_cross_process(case):
    import subprocess
    import sys
    import tempfile
    bundle, half = case
    payload = []
    all_items = [(g, i) for g in XP_BUNDLES[bundle] for i in range(len(_CUR_POOL.get(g, ())))][half::2]
    for pos, (g, i) in enumerate(all_items):
        _label, x = _CUR_POOL[g][i]
        idx = pos
        if not hasattr(x, "_json_dict_") or try_hash(x) is None:
            continue
        try:
            hash(x)            # make sure every cache of the writer is filled
            x == x
            pickle.dumps(x)
            y = cirq.read_json(json_text=cirq.to_json(x))
            if not (y == x) or hash(y) != hash(x):
                continue       # reported by b_gen1_handbuilt
        except Exception:
            continue           # reported by b_gen1_handbuilt
        payload.append((idx, x))
    if not payload:
        return good(nontrivial=False)
    with tempfile.TemporaryDirectory() as d:
        fin, fout = os.path.join(d, "in.pkl"), os.path.join(d, "out.pkl")
        with open(fin, "wb") as f:
            pickle.dump(payload, f)
        env = dict(os.environ)
        env["PYTHONHASHSEED"] = "4242"
        p = subprocess.run([sys.executable, "-c", _CHILD, fin, fout], env=env, capture_output=True, text=True)
        if p.returncode != 0 or not os.path.exists(fout):
            return bad(f"reading the pickles of bundle {bundle} in a fresh interpreter failed:\n{p.stderr[-1500:]}",
                       kind="pickle_cross_process", group=str(bundle))
        with open(fout, "rb") as f:
            res = pickle.load(f)
    if res:
        idx, why = res[0]
        group, gi = all_items[idx]
        label, x = _CUR_POOL[group][gi]
        idx = gi
        return bad(f"pickle written after hash(x) was computed, read in an interpreter with another PYTHONHASHSEED: {why}\n"
                   f"  instance (hand-built {group}[{idx}] {label}): {short(x, 800)}\n  type: {type(x).__name__}"
                   f"\n  ({len(res)} of {len(payload)} instances of this part fail)",
                   kind="pickle_cross_process", group=group, cls=type(x).__name__)
    return good(nontrivial=True, cross_process_pickles=len(payload))


# ---------------------------------------------------------------------------------------------
# (g) value histories: a moment / circuit grown by with_operation(s) / + / Circuit.append / insert AFTER one of its
#     memoised views (sorted operations, hash, diagram) was taken must equal the same value built directly


def _hist_qubits(kind):
    if kind == 0:
        return cirq.LineQubit.range(4)
    if kind == 1:
        return [cirq.GridQubit(0, 0), cirq.GridQubit(0, 1), cirq.GridQubit(1, 0), cirq.GridQubit(1, 1)]
    return [cirq.NamedQubit("q2"), cirq.NamedQubit("q10"), cirq.NamedQubit("q11"), cirq.NamedQubit("r")]  # natural sort


HIST_BASES = ["mid", "outer", "empty", "two_qubit", "tagged"]
HIST_ADDS = ["before", "after", "between_pair", "pair_around", "pair_reversed", "measure_before", "two_before_after"]
HIST_TRIGGERS = ["none", "hash", "eq", "ne", "str", "approx_eq", "sorted_private", "eq_unequal"]
HIST_METHODS = ["with_operation", "with_operations", "add", "with_operation_chain", "circuit_append", "circuit_insert_inline",
                "circuit_append_then_freeze", "circuit_op", "circuit_batch_insert_into"]


def _hist_base(name, q):
    if name == "mid":
        return [cirq.X(q[1])]
    if name == "outer":
        return [cirq.X(q[0]), cirq.Z(q[3])]
    if name == "empty":
        return []
    if name == "two_qubit":
        return [cirq.CZ(q[1], q[2])]
    if name == "tagged":
        return [cirq.X(q[1]).with_tags("t")]
    raise core.HarnessError(name)


def _hist_adds(name, base_name, q):
    """Operations to add (in this order); None when the letter does not fit the base (overlap)."""
    used = {x for op in _hist_base(base_name, q) for x in op.qubits}
    table = {
        "before": [cirq.Y(q[0])],
        "after": [cirq.Y(q[3])],
        "between_pair": [cirq.Y(q[2])] if base_name == "outer" else [cirq.Y(q[2])],
        "pair_around": [cirq.CNOT(q[0], q[3])],
        "pair_reversed": [cirq.CNOT(q[3], q[0])],
        "measure_before": [cirq.measure(q[0], key="m")],
        "two_before_after": [cirq.Y(q[3]), cirq.H(q[0])],
    }
    ops = table[name]
    if any(x in used for op in ops for x in op.qubits):
        return None
    return ops


def _hist_trigger(name, m):
    """Materialise one memoised view of moment / circuit m."""
    if name == "none":
        return
    if name == "hash":
        try:
            hash(m)
        except TypeError:
            m == copy.copy(m)
    elif name == "eq":
        assert m == copy.copy(m)
    elif name == "ne":
        assert not (m != copy.copy(m))
    elif name == "str":
        str(m)
    elif name == "approx_eq":
        assert cirq.approx_eq(m, copy.copy(m))
    elif name == "sorted_private":
        for mm in ([m] if isinstance(m, cirq.Moment) else list(m)):
            mm._sorted_operations_()
    elif name == "eq_unequal":
        other = cirq.Moment(cirq.T(cirq.LineQubit(77)))
        assert not (m == (other if isinstance(m, cirq.Moment) else cirq.Circuit(other)))
    else:
        raise core.HarnessError(name)


def run_history(case):
    qk, bi, ai, ti, mi = case
    q = _hist_qubits(qk)
    base_name, add_name, trig, method = HIST_BASES[bi], HIST_ADDS[ai], HIST_TRIGGERS[ti], HIST_METHODS[mi]
    base_ops = _hist_base(base_name, q)
    adds = _hist_adds(add_name, base_name, q)
    if adds is None:
        return Res(skipped=True, nontrivial=False)
    all_ops = base_ops + adds
    direct_moment = cirq.Moment(all_ops)
    desc = (f"qubits={[str(x) for x in q]} base={base_name} {base_ops} add={add_name} {adds} memoised view taken before the "
            f"edit={trig} edit={method}")
    if method in ("with_operation", "with_operations", "add", "with_operation_chain"):
        m = cirq.Moment(base_ops)
        _hist_trigger(trig, m)
        if method == "with_operation":
            for op in adds:
                m = m.with_operation(op)
        elif method == "with_operations":
            m = m.with_operations(*adds)
        elif method == "add":
            m = m + adds
        else:
            for op in adds:
                m = m.with_operation(op)
                _hist_trigger(trig, m)
        hist, direct = m, direct_moment
    else:
        c = cirq.Circuit(cirq.Moment(base_ops)) if base_ops else cirq.Circuit(cirq.Moment())
        _hist_trigger(trig, c)
        if method == "circuit_insert_inline":
            c.insert(1, adds, strategy=cirq.InsertStrategy.INLINE)
        elif method == "circuit_batch_insert_into":
            c.batch_insert_into([(0, op) for op in adds])
        else:
            c.append(adds, strategy=cirq.InsertStrategy.EARLIEST)
        direct_c = cirq.Circuit(direct_moment)
        if len(c) != 1:
            return bad(f"the added operations did not land in the existing moment: {c!r}\n  {desc}", kind="history_layout")
        if method in ("circuit_append", "circuit_insert_inline", "circuit_batch_insert_into"):
            hist, direct = c, direct_c
        elif method == "circuit_append_then_freeze":
            hist, direct = c.freeze(), direct_c.freeze()
        else:
            hist, direct = cirq.CircuitOperation(c.freeze()), cirq.CircuitOperation(direct_c.freeze())
    try:
        e1, e2, ne = hist == direct, direct == hist, hist != direct
    except Exception as e:
        return bad(f"comparison raised {type(e).__name__}: {e}\n  {desc}", kind="history_eq", method=method)
    if not (e1 and e2) or ne:
        return bad(f"a value grown by edits differs from the same value built directly: hist==direct {e1}, direct==hist {e2}, "
                   f"hist!=direct {ne}\n  {desc}\n  grown:  {short(hist, 700)}\n  direct: {short(direct, 700)}",
                   kind="history_eq", method=method)
    hh, hd = try_hash(hist), try_hash(direct)
    if hh != hd:
        return bad(f"equal values with different hashes: hash(grown)={hh}, hash(direct)={hd}\n  {desc}", kind="history_hash",
                   method=method)
    if not cirq.approx_eq(hist, direct):
        return bad(f"grown value is not approx_eq to the directly built one\n  {desc}", kind="history_approx", method=method)
    msg, _text, cnt = check_instance(hist, "grown value: " + desc)
    if msg:
        return bad(msg, kind="history_instance", method=method, what=msg.split("\n")[0][:60])
    return good(nontrivial=trig != "none" and len(all_ops) >= 2, **cnt)


def history_cases():
    out = []
    for qk in range(3):
        for bi in range(len(HIST_BASES)):
            for ai in range(len(HIST_ADDS)):
                for ti in range(len(HIST_TRIGGERS)):
                    for mi in range(len(HIST_METHODS)):
                        out.append((qk, bi, ai, ti, mi))
    return out


# ---------------------------------------------------------------------------------------------
# (g2) measurement-key histories: MeasurementKey memoises str()/hash(); every derived key (re-scoped, re-pathed,
# renamed) must be the same value as the key built directly from (name, path), whatever was memoised before the edit.

KEY_BASES = [("m", ()), ("m", ("p",)), ("k2", ("p", "q")), ("", ())]
KEY_TRIGGERS = ["none", "str", "hash", "eq_str", "eq_key", "repr", "names_of_op", "json"]
KEY_EDITS = ["prefix_a", "prefix_ab", "prefix_none", "with_path_x", "with_path_empty", "path_prefix_proto", "rescoped", "rename",
             "rename_absent", "replace_path", "replace_both"]


def _key_trigger(name, k):
    if name == "none":
        return
    if name == "str":
        str(k)
    elif name == "hash":
        hash(k)
    elif name == "eq_str":
        assert k == ":".join((*k.path, k.name))
    elif name == "eq_key":
        assert k == cirq.MeasurementKey(name=k.name, path=k.path)
    elif name == "repr":
        repr(k)
    elif name == "names_of_op":
        cirq.measurement_key_names(cirq.measure(cirq.LineQubit(0), key=k))
    elif name == "json":
        cirq.to_json(k)
    else:
        raise core.HarnessError(name)


def _key_edit(name, k):
    """Returns (edited key, expected name, expected path)."""
    if name == "prefix_a":
        return k.with_key_path_prefix("a"), k.name, ("a",) + k.path
    if name == "prefix_ab":
        return k.with_key_path_prefix("a", "b"), k.name, ("a", "b") + k.path
    if name == "prefix_none":
        return k.with_key_path_prefix(), k.name, k.path
    if name == "with_path_x":
        return cirq.with_key_path(k, ("x",)), k.name, ("x",)
    if name == "with_path_empty":
        return cirq.with_key_path(k, ()), k.name, ()
    if name == "path_prefix_proto":
        return cirq.with_key_path_prefix(k, ("y", "z")), k.name, ("y", "z") + k.path
    if name == "rescoped":
        return cirq.with_rescoped_keys(k, ("r",)), k.name, ("r",) + k.path
    if name == "rename":
        return cirq.with_measurement_key_mapping(k, {k.name: "n2"}), "n2", k.path
    if name == "rename_absent":
        return cirq.with_measurement_key_mapping(k, {"zz": "n2"}), k.name, k.path
    if name == "replace_path":
        return k.replace(path=("w",)), k.name, ("w",)
    if name == "replace_both":
        return k.replace(name="n3", path=("w", "v")), "n3", ("w", "v")
    raise core.HarnessError(name)


def key_history_cases():
    out = []
    for bi in range(len(KEY_BASES)):
        for t1 in range(len(KEY_TRIGGERS)):
            for e1 in range(len(KEY_EDITS)):
                out.append((bi, t1, e1, -1, -1))
                for t2 in (0, 1, 2):
                    for e2 in range(len(KEY_EDITS)):
                        out.append((bi, t1, e1, t2, e2))
    return out


def run_key_history(case):
    bi, t1, e1, t2, e2 = case
    name, path = KEY_BASES[bi]
    k0 = cirq.MeasurementKey(name=name, path=path)
    desc = f"MeasurementKey(name={name!r}, path={path!r}); memoised before edit 1: {KEY_TRIGGERS[t1]}; edit 1: {KEY_EDITS[e1]}"
    _key_trigger(KEY_TRIGGERS[t1], k0)
    k, en, ep = _key_edit(KEY_EDITS[e1], k0)
    if e2 >= 0:
        desc += f"; memoised before edit 2: {KEY_TRIGGERS[t2]}; edit 2: {KEY_EDITS[e2]}"
        _key_trigger(KEY_TRIGGERS[t2], k)
        k, en, ep = _key_edit(KEY_EDITS[e2], k)
    direct = cirq.MeasurementKey(name=en, path=ep)
    if (k.name, tuple(k.path)) != (en, ep):
        return bad(f"derived key has fields ({k.name!r}, {k.path!r}), expected ({en!r}, {ep!r})\n  {desc}", kind="key_history_fields")
    want = ":".join((*ep, en))
    if str(k) != want:
        return bad(f"str(derived key) = {str(k)!r}, the key built directly prints {want!r}\n  {desc}", kind="key_history_str")
    e1_, e2_, ne = k == direct, direct == k, k != direct
    if not (e1_ and e2_) or ne or not (k == want):
        return bad(f"derived key differs from the key built directly: k==direct {e1_}, direct==k {e2_}, k!=direct {ne}, "
                   f"k=={want!r} {k == want}\n  {desc}", kind="key_history_eq")
    if hash(k) != hash(direct) or hash(k) != hash(want):
        return bad(f"equal keys with different hashes: hash(derived)={hash(k)}, hash(direct)={hash(direct)}, hash(str)={hash(want)}"
                   f"\n  {desc}", kind="key_history_hash")
    # the original key is not disturbed by deriving from it
    if str(k0) != ":".join((*path, name)) or k0 != cirq.MeasurementKey(name=name, path=path):
        return bad(f"the original key changed after deriving from it: {k0!r} prints {str(k0)!r}\n  {desc}", kind="key_history_alias")
    # a measurement / a classical control carrying the derived key is the same value as one carrying the direct key
    q = cirq.LineQubit(0)
    for what, a, b in (("measure", cirq.measure(q, key=k), cirq.measure(q, key=direct)),
                       ("KeyCondition", cirq.KeyCondition(k), cirq.KeyCondition(direct))):
        if a != b or hash(a) != hash(b):
            return bad(f"{what} carrying the derived key differs from (or hashes unlike) the one carrying the direct key\n  {desc}",
                       kind="key_history_carrier")
    msg, _text, cnt = check_instance(k, "derived key: " + desc)
    if msg:
        return bad(msg, kind="key_history_instance", what=msg.split("\n")[0][:60])
    return good(nontrivial=KEY_TRIGGERS[t1] != "none" and (en, ep) != (name, path), **cnt)


# ---------------------------------------------------------------------------------------------
# (e) class coverage


def registered_names():
    from cirq.json_resolver_cache import _class_resolver_dictionary as d0
    from cirq.contrib.json import _class_resolver_dictionary as d1
    from cirq_google.json_resolver_cache import _class_resolver_dictionary as d2
    from cirq_ionq.json_resolver_cache import _class_resolver_dictionary as d3
    from cirq_aqt.json_resolver_cache import _class_resolver_dictionary as d4
    from cirq_pasqal.json_resolver_cache import _class_resolver_dictionary as d5
    names = {}
    for d in (d0, d1, d2, d3, d4, d5):
        for k, v in d().items():
            names[k] = isinstance(v, type)
    return names


def exec_class_coverage():
    r = core.StageResult("e_class_coverage")
    names = registered_names()
    gen = set()
    for st, table in _CLS.items():
        if st.startswith("b_gen"):
            gen |= set(table)
    stored = set(_CLS.get("b_corpus_roundtrip", {}))
    reg = set(names)
    residual = sorted(reg - gen)
    r.evaluations = len(reg)
    r.distinct_nontrivial_extra = len(reg & gen)
    r.counters = {
        "registered_names": len(reg),
        "registered_classes": sum(1 for v in names.values() if v),
        "classes_with_generated_instances": len(reg & gen),
        "classes_with_stored_instances": len(reg & stored),
        "residual_without_generated_instance": len(residual),
    }
    legacy = [k for k in residual if not names[k]]
    r.note = ("generated = written by to_json for an instance of generator 1 or 2; residual (" + str(len(residual)) + "): "
              + ", ".join(residual) + " | of these, read-only factory names (legacy formats, never written): "
              + ", ".join(legacy))
    r.samples = residual[:3]
    return r


def replay_class_coverage(case):
    return None


# ---------------------------------------------------------------------------------------------
# stage plumbing

_CLS = {}        # stage name -> {cirq_type: count}
_RESULTS = {}


class RecordingStage(CaseStage):
    """CaseStage that moves the per-class counters ("cls:<cirq_type>") into a module table (for e_class_coverage)."""

    def execute(self):
        r = super().execute()
        table = {}
        for k in list(r.counters):
            if k.startswith("cls:"):
                table[k[4:]] = int(r.counters.pop(k))
        _CLS[self.name] = table
        r.counters["classes_seen"] = len(table)
        _RESULTS[self.name] = r
        return r


def stages(tier: str, seed: int):
    global _CUR_POOL, _EQ_POOL
    thorough = tier == "thorough"
    sts = []
    prs = pairs()
    sts.append(CaseStage("a_corpus_reads", [(s, i) for s, i, _hj, _hr in prs], run_corpus_read))
    us = units()
    sts.append(RecordingStage("b_corpus_roundtrip", [(s, i) for s, i in us], run_corpus_roundtrip))
    _CUR_POOL = pool(tier, seed)
    gen1 = [(g, i) for g, items in _CUR_POOL.items() if not g.startswith("_") for i in range(len(items))]
    sts.append(RecordingStage("b_gen1_handbuilt", gen1, run_gen1, chunk=40))
    single = []
    for u in us:
        _sites, muts = unit_mutations(u)
        single.extend((u[0], u[1], mi) for mi in range(len(muts)))
    sts.append(RecordingStage("b_gen2_single", single, run_gen2_single, chunk=60))
    if thorough:
        prs2 = []
        for u in us:
            cases, _total = unit_pair_cases(u)
            prs2.extend((u[0], u[1], a, b) for a, b in cases)
        sts.append(RecordingStage("b_gen2_pairs", prs2, run_gen2_pair, chunk=100))
    _EQ_POOL = {g: items for g, items in _CUR_POOL.items() if g != "raw" and not g.startswith("_")}
    # equal datetime.timedelta values join the duration group (Duration == timedelta is documented)
    _EQ_POOL["durations"] = list(_CUR_POOL["durations"]) + list(_CUR_POOL["_timedeltas"])
    eqc = [(g, i) for g, items in _EQ_POOL.items() for i in range(min(len(items), EQ_GROUP_CAP))]
    sts.append(CaseStage("c_eq_hash_pairs_gen1", eqc, run_eq_hash_gen1, chunk=25))
    sts.append(CaseStage("c_eq_hash_pairs_gen2", [(s, i) for s, i in us], run_eq_hash_gen2, chunk=2))
    nq = len(qid_list())
    qc = [("row", i) for i in range(nq)] + [("transitivity", 0)] + [("sorted", k) for k in range(N_SORT_PERMS)]
    sts.append(CaseStage("d_qid_order", qc, run_qid_order))
    sts.append(CaseStage("f_pickle_cross_process", [(b, h) for b in range(len(XP_BUNDLES)) for h in (0, 1)], run_pickle_cross_process, chunk=1))
    sts.append(CaseStage("g_value_histories", history_cases(), run_history))
    sts.append(CaseStage("g_key_histories", key_history_cases(), run_key_history, chunk=200))
    sts.append(CustomStage("e_class_coverage", exec_class_coverage, replay_class_coverage))
    return sts
