"""C19 -- exported OpenQASM describes the same computation as the circuit.

Every case builds a real cirq.Circuit from a finite alphabet of placed letters, exports it through one of
the public entry points (Circuit.to_qasm, cirq.qasm, cirq.QasmOutput, Circuit.save_qasm) under one option
combination, reads the emitted TEXT back with the independent reader mc/ref/qasm.py (own tokenizer/parser,
qelib1.inc / stdgates.inc as text in terms of U and CX; cirq.contrib.qasm_import is never used) and compares
the meaning of the text with closed-form references (mc/ref/gates.py matrices, mc/ref/interp.py record
distributions).  Nothing is compared as text.
"""
from __future__ import annotations

import itertools
import math
import os

import numpy as np
import sympy

import cirq

from mc import core
from mc.core import CaseStage, CustomStage, Res, bad, good
from mc.ref import embed as E
from mc.ref import gates as G
from mc.ref import interp
from mc.ref import qasm as Q

PROPERTY = "C19"
LEVEL = "exploration"
RULE = ("cases = (sequence of placed letters, qubit_order option, precision, version, entry point, header) enumerated "
        "exhaustively per stage: every placed letter x every option combination; all ordered pairs (quick) / triples "
        "(thorough) of placed core letters; all measurement/feed-forward sequences up to the stage bound; full lattices of "
        "1- and 2-qubit matrices incl. Weyl-chamber boundaries.  A case is non-trivial when the emitted program contains "
        "at least one gate/measure/reset statement (sequence stages: at least two letters sharing a wire; feed-forward: "
        "at least one measurement).  Distinct = distinct descriptor.")
ASSUMPTIONS = [
    "mc/ref/qasm.py implements the OpenQASM 2.0 paper / OpenQASM 3 spec semantics for the subset Cirq emits (validated at start-up by 116 qelib1/stdgates identities against textbook matrices)",
    "qelib1.inc is the paper's header plus the reference-implementation additions swap/cswap/sx/sxdg/crx/cry/rxx/rzz; stdgates.inc is exactly the OpenQASM 3 standard library (it has sx but no sxdg)",
    "a classical register compared with an integer has bit 0 as its low-order bit (OpenQASM 2.0 paper, section on if; OpenQASM 3 bit[n]->int cast)",
    "closed-form letter matrices of mc/ref/gates.py (tied to Cirq's gates by C03) and the record semantics of mc/ref/interp.py (C02)",
    "register position i of the emitted qreg/qubit[] corresponds to the i-th qubit of the requested qubit order",
]
TECHNIQUE = "bounded-exhaustive enumeration of circuits x export options; emitted text re-read by an independent OpenQASM interpreter and compared with closed-form matrices / exact record distributions"
LEVEL_TEXT = ("Every circuit of up to 2 (quick) / 3 (thorough) placed letters over an alphabet covering every _qasm_ method at special and "
              "generic parameter values, and every measurement/feed-forward sequence up to the bound, is exported under every option "
              "combination and the text is interpreted independently: unitary proportional to the reference within the requested precision, "
              "identical measurement-record distributions with post-measurement states, classical conditions firing on the same records. "
              "Assurance is exhaustive within the alphabet and bounds, not beyond.")
LEVEL_NOTE = "Trusts the independent reader's reading of the OpenQASM documents (self-tested) and the closed-form references; qubit <-> register position by the requested order."

CACHE_DIR = os.path.join(core.ROOT, ".cache", "c19_tmp")

# ------------------------------------------------------------------------------------------------
# alphabet of unitary letters


class Letter:
    __slots__ = ("name", "arity", "make", "mat", "expect", "core", "tiny")

    def __init__(self, name, arity, make, mat, expect="ok", core_=False, tiny=False):
        self.name = name
        self.arity = arity
        self.make = make
        self.mat = None if mat is None else np.asarray(mat, dtype=np.complex128)
        self.expect = expect      # 'ok': a QASM form exists (directly or by decomposition); 'reject': documented rejection allowed
        self.core = core_
        self.tiny = tiny


SEED = 0
LETTERS: list = []
LIDX: dict = {}


def _ctl(sub, vals=(1,)):
    return G.controlled(sub, [2] * len(vals), [list(vals)])


def _weyl(x, y, z, seed=None):
    XX = np.kron(G.PX, G.PX)
    YY = np.kron(G.PY, G.PY)
    ZZ = np.kron(G.PZ, G.PZ)
    w, v = np.linalg.eigh(x * XX + y * YY + z * ZZ)
    core_ = v @ np.diag(np.exp(1j * w)) @ v.conj().T
    if seed is None:
        return core_
    a = np.kron(E.generic_unitary(2, seed), E.generic_unitary(2, seed + 1))
    b = np.kron(E.generic_unitary(2, seed + 2), E.generic_unitary(2, seed + 3))
    return a @ core_ @ b


def build_alphabet(seed: int):
    global SEED, LETTERS, LIDX
    SEED = seed
    g = [core.generic(seed, k) for k in range(7)]
    out = []

    def add(name, arity, make, mat, **kw):
        out.append(Letter(name, arity, make, mat, **kw))

    # ---- single-qubit Pauli powers --------------------------------------------------------------
    fam = (("X", cirq.X, cirq.XPowGate, G.xpow, cirq.rx, G.rx), ("Y", cirq.Y, cirq.YPowGate, G.ypow, cirq.ry, G.ry),
           ("Z", cirq.Z, cirq.ZPowGate, G.zpow, cirq.rz, G.rz))
    for nm, P, PG, ref, rfn, rref in fam:
        for e in (1, 0.5, -0.5, 0.25, -0.25, 2, -1, g[0]):
            add(f"{nm}**{e}", 1, (lambda qs, P=P, e=e: P(qs[0]) ** e), ref(e), core_=(e in (1, 0.5, -0.5, g[0])) or (nm == "Z" and e in (0.25, -0.25)),
                tiny=(nm, e) in (("X", -0.5), ("Z", 0.25), ("Y", g[0])))
        for e in (1, 0.5, g[1]):
            add(f"{nm}Pow({e},shift=-0.5)", 1, (lambda qs, PG=PG, e=e: PG(exponent=e, global_shift=-0.5).on(qs[0])), ref(e, -0.5), core_=(e == 0.5))
        add(f"{nm}Pow(1,shift=0.3)", 1, (lambda qs, PG=PG: PG(exponent=1, global_shift=0.3).on(qs[0])), ref(1, 0.3))
        add(f"r{nm.lower()}({g[2]}pi)", 1, (lambda qs, rfn=rfn: rfn(g[2] * math.pi).on(qs[0])), rref(g[2] * math.pi), core_=True)
        add(f"r{nm.lower()}(2.6pi)", 1, (lambda qs, rfn=rfn: rfn(2.6 * math.pi).on(qs[0])), rref(2.6 * math.pi))
    add("X**(0.5+1e-6)", 1, lambda qs: cirq.X(qs[0]) ** (0.5 + 1e-6), G.xpow(0.5 + 1e-6))
    add("Z**(0.25-1e-6)", 1, lambda qs: cirq.Z(qs[0]) ** (0.25 - 1e-6), G.zpow(0.25 - 1e-6))
    add("S", 1, lambda qs: cirq.S(qs[0]), G.zpow(0.5))
    add("T**-1", 1, lambda qs: (cirq.T ** -1).on(qs[0]), G.zpow(-0.25))
    add("X.tagged", 1, lambda qs: cirq.X(qs[0]).with_tags("tag"), G.xpow(1))
    # ---- Hadamard powers ------------------------------------------------------------------------
    for e in (1, 0.5, 0, -1, 2, g[3]):
        add(f"H**{e}", 1, (lambda qs, e=e: cirq.H(qs[0]) ** e), G.hpow(e), core_=(e in (1, 0.5)), tiny=(e == 0.5))
    add("HPow(1,shift=0.2)", 1, lambda qs: cirq.HPowGate(exponent=1, global_shift=0.2).on(qs[0]), G.hpow(1, 0.2))
    # ---- identities / waits / global phase ------------------------------------------------------
    add("I", 1, lambda qs: cirq.I(qs[0]), np.eye(2), core_=True)
    add("I2", 2, lambda qs: cirq.IdentityGate(2).on(*qs), np.eye(4), core_=True)
    add("I3", 3, lambda qs: cirq.IdentityGate(3).on(*qs), np.eye(8))
    add("wait1", 1, lambda qs: cirq.wait(qs[0], nanos=5), np.eye(2))
    add("wait2", 2, lambda qs: cirq.wait(*qs, nanos=5), np.eye(4))
    add("wait3", 3, lambda qs: cirq.wait(*qs, nanos=5), np.eye(8))
    add("gphase(i)", 0, lambda qs: cirq.global_phase_operation(1j), np.array([[1j]]), core_=True)
    add("gphase(gen)", 0, lambda qs: cirq.global_phase_operation(np.exp(1j * g[4])), np.array([[np.exp(1j * g[4])]]))
    # ---- phased X / phased XZ -------------------------------------------------------------------
    for p in (0, 0.25, g[1]):
        for e in (0.5, -0.5, 1, g[0], 0.5 + 4e-4, -0.5 - 4e-11, 1.5, 2.5):
            add(f"PhX(p={p},e={e})", 1, (lambda qs, p=p, e=e: cirq.PhasedXPowGate(phase_exponent=p, exponent=e).on(qs[0])), G.phased_xpow(e, p),
                core_=(p == 0.25 and e in (0.5, g[0])), tiny=(p == 0.25 and e == 0.5))
    add("PhX(shift)", 1, lambda qs: cirq.PhasedXPowGate(phase_exponent=g[1], exponent=g[0], global_shift=0.3).on(qs[0]), G.phased_xpow(g[0], g[1], 0.3))
    for (x, z, a) in ((g[0], g[1], g[2]), (0, g[1], 0.25), (1, 0.5, g[2]), (0.5, 0, 0), (0.5, 1, 0.5), (g[0], 0, -0.5), (2, 0.5, 0.5)):
        add(f"PhXZ({x},{z},{a})", 1, (lambda qs, x=x, z=z, a=a: cirq.PhasedXZGate(x_exponent=x, z_exponent=z, axis_phase_exponent=a).on(qs[0])),
            G.phased_xz(x, z, a), core_=(x == g[0] and z == g[1]), tiny=(x == g[0] and z == g[1]))
    # ---- 1-qubit matrices -----------------------------------------------------------------------
    m1 = {"gen": E.generic_unitary(2, 11 + seed), "X": G.PX, "Y": G.PY, "H": G.hpow(1), "diag": np.diag([1, np.exp(1j * g[3])]),
          "I": np.eye(2), "-iI": -1j * np.eye(2), "antidiag": np.array([[0, np.exp(1j * g[2])], [1, 0]])}
    for k, m in m1.items():
        add(f"Mat1[{k}]", 1, (lambda qs, m=m: cirq.MatrixGate(m).on(qs[0])), m, core_=(k == "gen"), tiny=(k == "gen"))
    # ---- two-qubit ------------------------------------------------------------------------------
    for e in (1, 0.5, -1, 3, g[0]):
        add(f"CNOT**{e}", 2, (lambda qs, e=e: cirq.CNOT(*qs) ** e), G.cxpow(e), core_=(e in (1, 0.5)), tiny=(e == 1))
    add("CXPow(1,shift=0.5)", 2, lambda qs: cirq.CXPowGate(exponent=1, global_shift=0.5).on(*qs), G.cxpow(1, 0.5))
    for e in (1, 0.5, -1, 2, g[0]):
        add(f"CZ**{e}", 2, (lambda qs, e=e: cirq.CZ(*qs) ** e), G.czpow(e), core_=(e in (1, 0.5)), tiny=(e == 0.5))
    add("CZPow(1,shift=0.5)", 2, lambda qs: cirq.CZPowGate(exponent=1, global_shift=0.5).on(*qs), G.czpow(1, 0.5))
    for e in (1, 0.5, g[1]):
        add(f"CY**{e}", 2, (lambda qs, e=e: cirq.CY(*qs) ** e), G.cypow(e), core_=(e == 1))
    subs = (("X", cirq.X, G.xpow(1)), ("Y", cirq.Y, G.ypow(1)), ("Z", cirq.Z, G.zpow(1)), ("H", cirq.H, G.hpow(1)))
    for nm, P, m in subs:
        add(f"CtrlOp({nm})", 2, (lambda qs, P=P: cirq.ControlledOperation([qs[0]], P(qs[1]))), _ctl(m), core_=(nm in ("Y", "H")), tiny=(nm == "Y"))
        add(f"CtrlOp0({nm})", 2, (lambda qs, P=P: cirq.ControlledOperation([qs[0]], P(qs[1]), control_values=[0])), _ctl(m, (0,)), core_=(nm == "Y"))
    add("CtrlOp(Y**0.5)", 2, lambda qs: cirq.ControlledOperation([qs[0]], cirq.Y(qs[1]) ** 0.5), _ctl(G.ypow(0.5)))
    add("CtrlOp(XPow shift)", 2, lambda qs: cirq.ControlledOperation([qs[0]], cirq.XPowGate(exponent=1, global_shift=-0.5).on(qs[1])), _ctl(G.xpow(1, -0.5)), core_=True)
    add("CtrlOp(S)", 2, lambda qs: cirq.ControlledOperation([qs[0]], cirq.S(qs[1])), _ctl(G.zpow(0.5)))
    add("CtrlGate(H)", 2, lambda qs: cirq.ControlledGate(cirq.H).on(*qs), _ctl(G.hpow(1)))
    add("CtrlGate(Mat1)", 2, lambda qs: cirq.ControlledGate(cirq.MatrixGate(m1["gen"])).on(*qs), _ctl(m1["gen"]))
    for e in (1, 0.5, -1, g[0]):
        add(f"SWAP**{e}", 2, (lambda qs, e=e: cirq.SWAP(*qs) ** e), G.swappow(e), core_=(e in (1, 0.5)), tiny=(e == 1))
    for e in (1, 0.5, -1, -0.5, g[2]):
        add(f"ISWAP**{e}", 2, (lambda qs, e=e: cirq.ISWAP(*qs) ** e), G.iswappow(e), core_=(e == 1))
    add("FSim(gen)", 2, lambda qs: cirq.FSimGate(g[0], g[1]).on(*qs), G.fsim(g[0], g[1]), core_=True)
    add("FSim(pi/2,pi/6)", 2, lambda qs: cirq.FSimGate(math.pi / 2, math.pi / 6).on(*qs), G.fsim(math.pi / 2, math.pi / 6))
    add("FSim(0,pi)", 2, lambda qs: cirq.FSimGate(0, math.pi).on(*qs), G.fsim(0, math.pi))
    add("PhISwap", 2, lambda qs: cirq.PhasedISwapPowGate(phase_exponent=g[1], exponent=g[0]).on(*qs), G.phased_iswappow(g[0], g[1]))
    for nm, P, ref in (("XX", cirq.XX, G.xxpow), ("YY", cirq.YY, G.yypow), ("ZZ", cirq.ZZ, G.zzpow)):
        for e in (1, 0.5, g[3]):
            add(f"{nm}**{e}", 2, (lambda qs, P=P, e=e: P(*qs) ** e), ref(e), core_=(nm == "XX" and e == g[3]))
    add("MS", 2, lambda qs: cirq.ms(g[2]).on(*qs), G.ms(g[2]))
    add("CPHASE", 2, lambda qs: cirq.cphase(g[2]).on(*qs), G.cphase(g[2]))
    m2 = {"gen": E.generic_unitary(4, 21 + seed), "CNOT": G.cxpow(1), "I": np.eye(4), "SWAP": G.swappow(1), "ISWAP": G.iswappow(1),
          "sqrtSWAP": G.swappow(0.5), "local": np.kron(E.generic_unitary(2, 31), E.generic_unitary(2, 32)), "CZ**0.5": G.czpow(0.5),
          "weyl(pi/4,pi/4,pi/4)": _weyl(math.pi / 4, math.pi / 4, math.pi / 4, 41), "weyl(pi/4,pi/4,-pi/4)": _weyl(math.pi / 4, math.pi / 4, -math.pi / 4, 42),
          "weyl(pi/4,0,0)": _weyl(math.pi / 4, 0, 0, 43), "weyl(pi/4,pi/8,0)": _weyl(math.pi / 4, math.pi / 8, 0, 44),
          "weyl(gen)": _weyl(0.6, 0.35, -0.2, 45)}
    for k, m in m2.items():
        add(f"Mat2[{k}]", 2, (lambda qs, m=m: cirq.MatrixGate(m).on(*qs)), m, core_=(k in ("gen", "weyl(pi/4,pi/4,-pi/4)")), tiny=(k == "gen"))
    # ---- three-qubit ----------------------------------------------------------------------------
    for nm, P, ref in (("CCX", cirq.CCX, G.ccxpow), ("CCZ", cirq.CCZ, G.cczpow), ("CCY", cirq.CCY, G.ccypow)):
        for e in (1, 0.5, g[0]):
            add(f"{nm}**{e}", 3, (lambda qs, P=P, e=e: P(*qs) ** e), ref(e), core_=(e == 1 or (nm == "CCZ" and e == 0.5)), tiny=(nm == "CCZ" and e == 1))
    add("CCXPow(1,shift=0.5)", 3, lambda qs: cirq.CCXPowGate(exponent=1, global_shift=0.5).on(*qs), G.ccxpow(1, 0.5))
    add("CSWAP", 3, lambda qs: cirq.CSWAP(*qs), G.cswap(), core_=True)
    add("CtrlOp(SWAP)", 3, lambda qs: cirq.ControlledOperation([qs[0]], cirq.SWAP(qs[1], qs[2])), G.cswap())
    add("X.controlled_by(2)", 3, lambda qs: cirq.X(qs[2]).controlled_by(qs[0], qs[1]), G.ccxpow(1))
    add("Y.controlled_by(2;0,1)", 3, lambda qs: cirq.Y(qs[2]).controlled_by(qs[0], qs[1], control_values=[0, 1]), _ctl(G.ypow(1), (0, 1)))
    add("CtrlOp(CZ**g)", 3, lambda qs: cirq.ControlledOperation([qs[0]], cirq.CZ(qs[1], qs[2]) ** g[1]), G.cczpow(g[1]))
    m3 = E.generic_unitary(8, 51 + seed)
    add("Mat3[gen]", 3, lambda qs: cirq.MatrixGate(m3).on(*qs), m3, expect="either", core_=True)
    d3 = np.diag(np.exp(1j * np.array([0.1, 0.2, 0.3, 0.5, 0.7, 1.1, 1.3, 1.7])))
    add("Mat3[diag]", 3, lambda qs: cirq.MatrixGate(d3).on(*qs), d3, expect="either")
    add("Diag3", 3, lambda qs: cirq.ThreeQubitDiagonalGate([0.1, 0.2, 0.3, 0.5, 0.7, 1.1, 1.3, 1.7]).on(*qs), d3)
    add("QFT3", 3, lambda qs: cirq.qft(*qs), G.qft(3))
    LETTERS = out
    LIDX = {l.name: i for i, l in enumerate(out)}
    if len(LIDX) != len(out):
        raise core.HarnessError("duplicate letter names")


QUBITS = cirq.LineQubit.range(3)
EXTRA = cirq.LineQubit(7)
PRECISIONS = (10, 3)
VERSIONS = ("2.0", "3.0")
HEADERS = (None, "", 'multi\nline "hostile"; x q[0];\n\nOPENQASM 9.9; /* never closed')
ENTRY_NAMES = ("to_qasm", "cirq.qasm(args)", "QasmOutput", "save_qasm", "cirq.qasm()")


def placements(arity, scheme="all"):
    if arity == 0:
        return [()]
    allp = list(itertools.permutations(range(3), arity))
    if scheme == "all":
        return allp
    if scheme == "core":
        return {1: [(0,), (2,)], 2: [(0, 1), (2, 1), (1, 2)], 3: [(0, 1, 2), (2, 0, 1)]}[arity]
    if scheme == "tiny":
        return {1: [(1,)], 2: [(0, 1), (2, 1)], 3: [(1, 2, 0)]}[arity]
    if scheme == "one":
        return {1: [(1,)], 2: [(2, 1)], 3: [(1, 2, 0)]}[arity]
    raise core.HarnessError(scheme)


def qubit_order_for(circuit, order_opt):
    used = sorted(circuit.all_qubits())
    if order_opt == 0:
        return used, cirq.QubitOrder.DEFAULT
    if order_opt == 1:
        o = list(reversed(used))
        return o, o
    o = [EXTRA] + used[1:] + used[:1]
    return o, o


def export(circuit, order_arg, order, precision, version, entry, header):
    """Returns the emitted text.  Exceptions propagate to the caller."""
    if entry == 0:
        return circuit.to_qasm(header=header, precision=precision, qubit_order=order_arg, version=version)
    if entry == 1:
        return cirq.qasm(circuit, args=cirq.QasmArgs(precision=precision, version=version))
    if entry == 2:
        return str(cirq.QasmOutput(operations=circuit.all_operations(), qubits=tuple(order), header=header or "", precision=precision, version=version))
    if entry == 3:
        os.makedirs(CACHE_DIR, exist_ok=True)
        path = os.path.join(CACHE_DIR, f"c19_{os.getpid()}.qasm")
        circuit.save_qasm(path, header=header, precision=precision, qubit_order=order_arg)
        with open(path) as f:
            txt = f.read()
        os.remove(path)
        return txt
    if entry == 4:
        return cirq.qasm(circuit)
    raise core.HarnessError(f"entry {entry}")


REJECTIONS = (ValueError, TypeError, NotImplementedError)


def check_frame(prog, version, order, has_meas):
    """Declarations: version, include, one register position per qubit of the order."""
    if (prog.version in ("3.0", "3")) != (version == "3.0"):
        return f"emitted OPENQASM version {prog.version} but version={version!r} was requested"
    want_inc = "stdgates.inc" if version == "3.0" else "qelib1.inc"
    if prog.includes != [want_inc]:
        return f"includes {prog.includes}, expected [{want_inc!r}]"
    if prog.nqubits != len(order):
        return f"program declares {prog.nqubits} qubits but the qubit order has {len(order)}"
    if not has_meas and prog.cregs:
        return f"classical registers {prog.cregs} declared for a circuit without measurements"
    return None


def tolerance(prog, precision):
    return math.pi * 10.0 ** (-precision) * max(1, prog.n_numeric_params) + 1e-7


def run_unitary(case):
    seq, order_opt, pi_, vi, entry, hi = case
    precision = PRECISIONS[pi_]
    version = VERSIONS[vi]
    header = HEADERS[hi]
    letters = [LETTERS[li] for li, _ in seq]
    ops = [l.make([QUBITS[i] for i in pl]) for l, (_, pl) in zip(letters, seq)]
    circuit = cirq.Circuit(ops)
    order, order_arg = qubit_order_for(circuit, order_opt)
    if entry in (1, 4):
        order, order_arg = sorted(circuit.all_qubits()), cirq.QubitOrder.DEFAULT
    desc = f"circuit [{', '.join(f'{l.name}@{list(pl)}' for l, (_, pl) in zip(letters, seq))}] via {ENTRY_NAMES[entry]} (precision={precision}, version={version}, order={[str(q) for q in order]}, header#{hi})"
    try:
        text = export(circuit, order_arg, order, precision, version if entry not in (3, 4) else "2.0", entry, header)
    except REJECTIONS as e:
        if all(l.expect == "ok" for l in letters):
            return bad(f"{desc}: export raised {type(e).__name__}: {e} although every operation has a QASM form (directly or by decomposition)",
                       kind="export_raised", defect=f"unclassified_exception_{type(e).__name__}")
        return Res(skipped=True, nontrivial=False, counters={"rejected_" + type(e).__name__: 1})
    eff_version = version if entry not in (3, 4) else "2.0"
    eff_precision = precision if entry != 4 else 10
    try:
        prog = Q.parse(text)
    except Q.QasmError as e:
        return bad(f"{desc}: emitted text is not valid OpenQASM {eff_version}: {e}\n{text}", kind="invalid_qasm",
                   defect="sxdg_not_in_stdgates" if "'sxdg' is not defined" in str(e) else "unclassified:" + str(e).split(" at offset")[0][:60])
    msg = check_frame(prog, eff_version, order, False)
    if msg:
        return bad(f"{desc}: {msg}\n{text}", kind="frame", defect="unclassified")
    if not prog.is_unitary_program():
        return bad(f"{desc}: measure/reset/if emitted for a unitary circuit\n{text}", kind="nonunitary_items", defect="unclassified")
    idx = {q: i for i, q in enumerate(order)}
    shape = (2,) * len(order)
    ref = E.apply_ops([(l.mat, [idx[QUBITS[i]] for i in pl]) if l.arity else (np.eye(1), []) for l, (_, pl) in zip(letters, seq)], shape) if shape else np.eye(1)
    got = prog.unitary()
    tol = tolerance(prog, eff_precision)
    if not E.eq_up_to_phase(ref, got, tol):
        f = E.phase_of(ref, got)
        dev = float(np.abs(ref - f * got).max())
        return bad(f"{desc}: the emitted program's unitary is not proportional to the circuit's (max deviation {dev:.3g} > tol {tol:.3g})\n{text}",
                   kind="unitary_mismatch", defect="unclassified")
    ngate = sum(1 for it in prog.items if it.kind == "gate")
    wires = [set(pl) for _, pl in seq]
    share = len(seq) < 2 or any(wires[i] & wires[j] for i in range(len(seq)) for j in range(i + 1, len(seq)))
    ext = sum(1 for nme in prog.gate_names_used if nme in Q.QELIB1_EXT_NAMES) if eff_version == "2.0" else 0
    return good(nontrivial=(ngate > 0 and share), gate_statements=ngate, max_gate_statements=ngate, qelib1_extension_gate_uses=ext)


def describe_unitary(case):
    seq, order_opt, pi_, vi, entry, hi = case
    return {"letters": [(LETTERS[li].name, list(pl)) for li, pl in seq], "order_opt": order_opt, "precision": PRECISIONS[pi_],
            "version": VERSIONS[vi], "entry": ENTRY_NAMES[entry], "header": hi}


def option_grid():
    """Every option combination an entry point accepts."""
    out = []
    for oo in range(3):
        for pi_ in range(2):
            for vi in range(2):
                out.append((oo, pi_, vi, 0, 0))
                out.append((oo, pi_, vi, 2, 2))
            out.append((oo, pi_, 0, 3, 1))
    for pi_ in range(2):
        for vi in range(2):
            out.append((0, pi_, vi, 1, 0))
    out += [(0, 0, 0, 0, 1), (0, 0, 0, 0, 2), (0, 0, 0, 4, 0)]
    return out


def cases_single():
    grid = option_grid()
    cases = []
    for li, l in enumerate(LETTERS):
        for pl in placements(l.arity):
            for (oo, pi_, vi, en, hi) in grid:
                cases.append((((li, pl),), oo, pi_, vi, en, hi))
    return cases


PAIR_OPTS = ((0, 0, 0, 0, 0), (1, 1, 1, 0, 0), (2, 0, 1, 2, 2), (1, 1, 0, 3, 1))


def placed(scheme, pred):
    return [(li, pl) for li, l in enumerate(LETTERS) if pred(l) for pl in placements(l.arity, scheme)]


def cases_seq(k, scheme, pred, opts, rotate=False):
    """All length-k sequences of placed letters; every sequence under every option tuple of `opts`, or (rotate=True) under the
    single option tuple selected by the sequence's position (a fixed covering, not a sample: every sequence is run)."""
    pls = placed(scheme, pred)
    cases = []
    for n, seq in enumerate(itertools.product(range(len(pls)), repeat=k)):
        sq = tuple(pls[i] for i in seq)
        if rotate:
            oo, pi_, vi, en, hi = opts[sum(seq) % len(opts)]
            cases.append((sq, oo, pi_, vi, en, hi))
        else:
            for (oo, pi_, vi, en, hi) in opts:
                cases.append((sq, oo, pi_, vi, en, hi))
    return cases


# ------------------------------------------------------------------------------------------------
# measurement / feed-forward circuits: exact record distributions


class FF:
    __slots__ = ("name", "make", "ref", "keys_needed", "measures", "expect", "core")

    def __init__(self, name, make, ref=None, keys_needed=(), measures=None, expect=("ok", "ok"), core_=False):
        self.name = name
        self.make = make              # () -> operation placed in the exported circuit
        self.ref = ref or make        # () -> equivalent operation(s) the reference interpreter understands
        self.keys_needed = tuple(keys_needed)
        self.measures = measures      # key string or None
        # per version ('2.0', '3.0'): 'ok' (must be exported) | 'ok_or_valueerror' (exported correctly or the documented
        # ValueError "Cannot output operation as QASM") | 'either' (a deliberate rejection of any REJECTIONS type is fine)
        self.expect = expect
        self.core = core_


FFL: list = []
VALID_ID = __import__("re").compile(r"[a-z][a-zA-Z0-9_]*\Z")   # OpenQASM 2.0 identifier grammar


def build_ff(seed):
    global FFL
    a, b, c = QUBITS
    g = [core.generic(seed, k) for k in range(7)]
    out = []

    def add(*args, **kw):
        out.append(FF(*args, **kw))

    S = sympy.Symbol
    # measurements
    add("M(a;'a')", lambda: cirq.measure(a, key="a"), measures="a", core_=True)
    add("M(b;'b')", lambda: cirq.measure(b, key="b"), measures="b", core_=True)
    add("M(a,b;'ab')", lambda: cirq.measure(a, b, key="ab"), measures="ab", core_=True)
    add("M(b,a;'ab')", lambda: cirq.measure(b, a, key="ab"), measures="ab", core_=True)
    add("M(a,b;'ab',inv=10)", lambda: cirq.measure(a, b, key="ab", invert_mask=(True,)), measures="ab", core_=True)
    add("M(a,b;'ab',inv=01)", lambda: cirq.measure(a, b, key="ab", invert_mask=(False, True)), measures="ab")
    add("M(a;'ab')", lambda: cirq.measure(a, key="ab"), measures="ab")
    add("M(c,a,b;'abc',inv=101)", lambda: cirq.measure(c, a, b, key="abc", invert_mask=(True, False, True)), measures="abc", core_=True)
    add("M(a;'x y')", lambda: cirq.measure(a, key="x y"), measures="x y", core_=True)
    add("M(a,b;default)", lambda: cirq.measure(a, b), measures="q(0),q(1)")
    add("M(b;'B')", lambda: cirq.measure(b, key="B"), measures="B")
    add("M(a;'a',inv=1)", lambda: cirq.measure(a, key="a", invert_mask=(True,)), measures="a")
    add("M(b;'0')", lambda: cirq.measure(b, key="0"), measures="0")
    # resets
    add("reset(a)", lambda: cirq.reset(a))
    add("reset(b)", lambda: cirq.ResetChannel().on(b), core_=True)
    # plain gates between measurements
    add("H(a)", lambda: cirq.H(a), core_=True)
    add("X(b)", lambda: cirq.X(b))
    add("CNOT(a,c)", lambda: cirq.CNOT(a, c))
    # classical control
    add("X(c)?a", lambda: cirq.X(c).with_classical_controls("a"), keys_needed=("a",), core_=True)
    add("X(c)?b", lambda: cirq.X(c).with_classical_controls("b"), keys_needed=("b",))
    add("X(c)?ab", lambda: cirq.X(c).with_classical_controls("ab"), keys_needed=("ab",), expect=("either", "ok"), core_=True)
    for v in (0, 1, 2, 3):
        add(f"X(c)?ab=={v}", (lambda v=v: cirq.X(c).with_classical_controls(sympy.Eq(S("ab"), v))), keys_needed=("ab",), core_=(v in (1, 3)))
    add("X(c)?a==1", lambda: cirq.X(c).with_classical_controls(sympy.Eq(S("a"), 1)), keys_needed=("a",), core_=True)
    add("X(c)?a==0", lambda: cirq.X(c).with_classical_controls(sympy.Eq(S("a"), 0)), keys_needed=("a",))
    add("X(b)?abc==3", lambda: cirq.X(b).with_classical_controls(sympy.Eq(S("abc"), 3)), keys_needed=("abc",))
    add("X(b)?abc==5", lambda: cirq.X(b).with_classical_controls(sympy.Eq(S("abc"), 5)), keys_needed=("abc",))
    add("Z**g(c)?a", lambda: (cirq.Z(c) ** g[0]).with_classical_controls("a"), keys_needed=("a",))
    add("H**0.5(c)?a", lambda: (cirq.H(c) ** 0.5).with_classical_controls("a"), keys_needed=("a",), core_=True)
    add("CCZ(a,b,c)?a", lambda: cirq.CCZ(a, b, c).with_classical_controls("a"), keys_needed=("a",))
    add("CZ**0.5(b,c)?a", lambda: (cirq.CZ(b, c) ** 0.5).with_classical_controls("a"), keys_needed=("a",), expect=("ok_or_valueerror", "ok_or_valueerror"), core_=True)
    add("Mat1(c)?a", lambda: cirq.MatrixGate(E.generic_unitary(2, 61 + seed)).on(c).with_classical_controls("a"), keys_needed=("a",))
    add("SWAP(b,c)?a", lambda: cirq.SWAP(b, c).with_classical_controls("a"), keys_needed=("a",))
    add("X(c)?a&b", lambda: cirq.X(c).with_classical_controls("a", "b"), keys_needed=("a", "b"), expect=("either", "ok"))
    add("X(c)?'x y'", lambda: cirq.X(c).with_classical_controls("x y"), keys_needed=("x y",), core_=True)
    add("X(c)?'x y'==1", lambda: cirq.X(c).with_classical_controls(sympy.Eq(S("x y"), 1)), keys_needed=("x y",))
    add("X(c)?B==1", lambda: cirq.X(c).with_classical_controls(sympy.Eq(S("B"), 1)), keys_needed=("B",))
    add("X(c)?a>0", lambda: cirq.X(c).with_classical_controls(S("a") > 0), keys_needed=("a",), expect=("either", "either"))
    add("X(c)?bitmask(ab&1)", lambda: cirq.X(c).with_classical_controls(cirq.BitMaskKeyCondition("ab", bitmask=1)), keys_needed=("ab",), expect=("either", "either"))
    add("reset(b)?a", lambda: cirq.ResetChannel().on(b).with_classical_controls("a"), keys_needed=("a",))
    add("If(a,X(c))", lambda: cirq.If("a", cirq.X(c)), ref=lambda: cirq.X(c).with_classical_controls("a"), keys_needed=("a",))
    add("If(a,CZ**0.5(b,c))", lambda: cirq.If("a", cirq.CZ(b, c) ** 0.5), ref=lambda: (cirq.CZ(b, c) ** 0.5).with_classical_controls("a"), keys_needed=("a",), expect=("ok_or_valueerror", "ok_or_valueerror"))
    FFL = out


def ff_prefix(seed):
    a, b, c = QUBITS
    g = [core.generic(seed, k) for k in range(7)]
    # generic product state with all outcomes possible and phases visible (these letters are verified by the unitary stages)
    return [cirq.Y(a) ** 0.41, cirq.Z(a) ** g[1], cirq.Y(b) ** 0.63, cirq.Z(b) ** g[2], cirq.Y(c) ** 0.29, cirq.Z(c) ** g[3]]


def ff_sequences(maxlen, pred):
    idxs = [i for i, l in enumerate(FFL) if pred(l)]
    out = []
    for k in range(1, maxlen + 1):
        for seq in itertools.product(idxs, repeat=k):
            have = set()
            ok = True
            nmeas = 0
            for i in seq:
                l = FFL[i]
                if any(kk not in have for kk in l.keys_needed):
                    ok = False
                    break
                if l.measures is not None:
                    have.add(l.measures)
                    nmeas += 1
            if ok and nmeas:
                out.append(seq)
    return out


def expected_histories(ref_dist, keymap):
    out = {}
    for rec, (p, rho) in ref_dist.items():
        ev = tuple((keymap[k], (i, int(d))) for k, digits in rec for i, d in enumerate(digits))
        if ev in out:
            p0, r0 = out[ev]
            out[ev] = (p0 + p, (p0 * r0 + p * rho) / (p0 + p))
        else:
            out[ev] = (p, rho)
    return out


def qasm_histories(prog):
    d = prog.run()
    out = {}
    for hist, (p, rho) in d.items():
        ev = tuple((cn, w) for cn, writes in hist for w in writes)
        out[ev] = (p, rho)
    return out


def compare_measured(desc, text, prog, ref_circuit, order, key_sizes, atol=1e-6):
    """key_sizes: ordered dict key -> max number of measured qubits.  Returns None or a violation Res."""
    keys = list(key_sizes)
    cregs = dict(prog.cregs)
    if len(cregs) != len(keys):
        return bad(f"{desc}: {len(keys)} measurement keys {keys} but classical registers {cregs}\n{text}", kind="creg_count")
    fixed = {}
    free_keys = []
    for k in keys:
        nm = "m_" + k
        if VALID_ID.match(nm):
            if nm not in cregs:
                return bad(f"{desc}: key {k!r} should be stored in register {nm!r}; declared registers: {cregs}\n{text}", kind="creg_name")
            fixed[k] = nm
        else:
            free_keys.append(k)
    rest = [cn for cn in cregs if cn not in fixed.values()]
    ref_dist = interp.run(ref_circuit, order)
    got = qasm_histories(prog)
    first_msg = None
    for perm in itertools.permutations(rest):
        keymap = dict(fixed)
        keymap.update(dict(zip(free_keys, perm)))
        if any(cregs[keymap[k]] != key_sizes[k] for k in keys):
            first_msg = first_msg or f"register sizes {cregs} do not match key sizes {dict(key_sizes)} under {keymap}"
            continue
        exp = expected_histories(ref_dist, keymap)
        msg = interp.compare_dists(exp, got, atol=atol)
        if msg is None:
            return None
        first_msg = first_msg or f"(key -> register {keymap}) {msg}"
    return bad(f"{desc}: the emitted program does not reproduce the circuit's measurement records: {first_msg}\n{text}", kind="records_mismatch")


MULTI_STATEMENT = ("H**0.5(c)?a", "CCZ(a,b,c)?a")
MULTIBIT_EQ = ("X(c)?ab==1", "X(c)?ab==2", "X(b)?abc==3")


def ff_stale_keys(letters):
    """Keys measured with different numbers of qubits that are later used in a condition."""
    sizes = {}
    for l in letters:
        if l.measures is not None:
            sizes.setdefault(l.measures, set()).add(len(l.make().qubits))
    return {k for l in letters for k in l.keys_needed if len(sizes.get(k, ())) > 1}


def ff_label(kind, names, exc=None, why="", stale=False):
    """Stable defect label for known_findings matching (priority = order in which the export pipeline fails)."""
    if kind == "export_raised":
        if exc == "TypeError" and any("CZ**0.5" in n for n in names):
            return "cco_subop_without_qasm_typeerror"
        return f"unclassified_exception_{exc}"
    if kind == "invalid_qasm":
        if "'x y'==1" in " ".join(names) and "m_x" in why:
            return "sympy_condition_ignores_key_id_map"
        if "sxdg" in why:
            return "sxdg_not_in_stdgates"
        return "unclassified_invalid_qasm"
    if kind == "records_mismatch":
        if any(n in MULTI_STATEMENT for n in names):
            return "cco_multi_statement_if"
        if stale:
            return "stale_register_bits_in_condition"
        if any(n in MULTIBIT_EQ for n in names):
            return "sympy_eq_multibit_endianness"
    return "unclassified"


def run_ff(case):
    seq, vi, order_opt = case
    version = VERSIONS[vi]
    letters = [FFL[i] for i in seq]
    exp_ops = ff_prefix(SEED) + [l.make() for l in letters]
    ref_ops = ff_prefix(SEED) + [l.ref() for l in letters]
    circuit = cirq.Circuit(exp_ops)
    ref_circuit = cirq.Circuit(ref_ops)
    order = list(QUBITS) if order_opt == 0 else [QUBITS[2], QUBITS[0], EXTRA, QUBITS[1]]
    desc = f"circuit [prefix; {'; '.join(l.name for l in letters)}] via to_qasm(version={version}, order={[str(q) for q in order]})"
    names = [l.name for l in letters]
    stale = bool(ff_stale_keys(letters))
    try:
        text = circuit.to_qasm(header="", precision=10, qubit_order=order, version=version)
    except Exception as e:
        if isinstance(e, REJECTIONS) and any(l.expect[vi] == "either" for l in letters):
            return Res(skipped=True, nontrivial=False, counters={"rejected_" + type(e).__name__: 1})
        if isinstance(e, ValueError) and (stale or any(l.expect[vi] == "ok_or_valueerror" for l in letters)):
            return Res(skipped=True, nontrivial=False, counters={"rejected_ValueError": 1})
        return bad(f"{desc}: export raised {type(e).__name__}: {e} although every operation has a QASM {version} form (directly or by decomposition)",
                   kind="export_raised", defect=ff_label("export_raised", names, exc=type(e).__name__))
    try:
        prog = Q.parse(text)
    except Q.QasmError as e:
        return bad(f"{desc}: emitted text is not valid OpenQASM {version}: {e}\n{text}", kind="invalid_qasm",
                   defect=ff_label("invalid_qasm", names, why=str(e) + text))
    msg = check_frame(prog, version, order, True)
    if msg:
        return bad(f"{desc}: {msg}\n{text}", kind="frame", defect="unclassified")
    key_sizes = {}
    for op in ref_circuit.all_operations():
        if isinstance(op.gate, cirq.MeasurementGate):
            k = str(op.gate.mkey)
            key_sizes[k] = max(key_sizes.get(k, 0), len(op.qubits))
    r = compare_measured(desc, text, prog, ref_circuit, order, key_sizes)
    if r is not None:
        r.sig["defect"] = ff_label(r.sig.get("kind"), names, stale=stale)
        return r
    nb = len(prog.run())
    return good(nontrivial=True, branches=nb, max_branches=nb, conditionals=sum(1 for it in prog.items if it.cond is not None))


def describe_ff(case):
    seq, vi, oo = case
    return {"letters": [FFL[i].name for i in seq], "version": VERSIONS[vi], "order_opt": oo}


def cases_ff(tier):
    if tier == "quick":
        seqs = ff_sequences(2, lambda l: True) + [s for s in ff_sequences(3, lambda l: l.core) if len(s) == 3]
    else:
        seqs = ff_sequences(3, lambda l: True)
    cases = []
    for s in seqs:
        for vi in range(2):
            cases.append((s, vi, (len(s) + vi) % 2 if tier == "quick" else 0))
            if tier != "quick" and len(s) <= 2:
                cases.append((s, vi, 1))
    return cases


# ------------------------------------------------------------------------------------------------
# special structures (hand-built circuits; every one x both versions x two qubit orders)


def _pauli_mat(s):
    return G.kron(*[G.PAULI[ch] for ch in s])


def build_specials(seed):
    """Each entry: (name, export_circuit, reference, expect) with reference =
    ('unitary', matrix on sorted(all_qubits)) | ('dist', flat reference circuit) | ('reject',)."""
    a, b, c = QUBITS
    g = [core.generic(seed, k) for k in range(7)]
    S = sympy.Symbol
    out = []

    def add(name, circuit, ref, expect="ok"):
        out.append((name, circuit, ref, expect))

    def U(*pairs, n=3):
        return E.apply_ops([(m, t) for m, t in pairs], (2,) * n)

    add("empty", cirq.Circuit(), ("unitary", np.eye(1)))
    add("only_global_phase", cirq.Circuit(cirq.global_phase_operation(-1)), ("unitary", np.eye(1)))
    add("one_moment_two_ops", cirq.Circuit(cirq.Moment(cirq.X(a) ** g[0], cirq.Y(b)), cirq.Moment(cirq.CZ(a, b))),
        ("unitary", U((G.xpow(g[0]), [0]), (G.ypow(1), [1]), (G.czpow(1), [0, 1]), n=2)))
    sub = cirq.FrozenCircuit(cirq.X(a) ** g[0], cirq.CZ(a, b) ** 0.5)
    one = U((G.xpow(g[0]), [0]), (G.czpow(0.5), [0, 1]), n=2)
    add("CircuitOp(reps=2)", cirq.Circuit(cirq.CircuitOperation(sub, repetitions=2)), ("unitary", one @ one))
    add("CircuitOp(qubit_map)", cirq.Circuit(cirq.CircuitOperation(sub, qubit_map={a: b, b: a})), ("unitary", U((G.xpow(g[0]), [1]), (G.czpow(0.5), [1, 0]), n=2)))
    add("CircuitOp(nested)", cirq.Circuit(cirq.CircuitOperation(cirq.FrozenCircuit(cirq.CircuitOperation(sub), cirq.H(b)))), ("unitary", U((G.hpow(1), [1]), n=2) @ one))
    add("CircuitOp(measure)", cirq.Circuit(cirq.H(a), cirq.CircuitOperation(cirq.FrozenCircuit(cirq.X(a), cirq.measure(a, key="k")))),
        ("dist", cirq.Circuit(cirq.H(a), cirq.X(a), cirq.measure(a, key="k"))))
    add("CircuitOp(measure,reps=2,ids)", cirq.Circuit(cirq.CircuitOperation(cirq.FrozenCircuit(cirq.H(a), cirq.measure(a, key="k")), repetitions=2, use_repetition_ids=True)),
        ("dist", cirq.Circuit(cirq.H(a), cirq.measure(a, key=cirq.MeasurementKey.parse_serialized("0:k")), cirq.H(a), cirq.measure(a, key=cirq.MeasurementKey.parse_serialized("1:k")))))
    add("CircuitOp(feedforward inside)", cirq.Circuit(cirq.H(a), cirq.measure(a, key="k"),
                                                    cirq.CircuitOperation(cirq.FrozenCircuit(cirq.X(b).with_classical_controls("k"), cirq.H(b)))),
        ("dist", cirq.Circuit(cirq.H(a), cirq.measure(a, key="k"), cirq.X(b).with_classical_controls("k"), cirq.H(b))))
    add("PauliMeasurement(XZ)", cirq.Circuit(cirq.H(a), cirq.Y(b) ** 0.3, cirq.measure_single_paulistring(cirq.X(a) * cirq.Z(b), key="p")),
        ("dist", cirq.Circuit(cirq.H(a), cirq.Y(b) ** 0.3, cirq.measure_single_paulistring(cirq.X(a) * cirq.Z(b), key="p"))))
    add("KeyCondition(index=0)", cirq.Circuit(cirq.H(a), cirq.measure(a, key="k"), cirq.X(a), cirq.measure(a, key="k"),
                                             cirq.X(b).with_classical_controls(cirq.KeyCondition(cirq.MeasurementKey("k"), index=0))),
        ("dist", cirq.Circuit(cirq.H(a), cirq.measure(a, key="k"), cirq.X(a), cirq.measure(a, key="k"),
                              cirq.X(b).with_classical_controls(cirq.KeyCondition(cirq.MeasurementKey("k"), index=0)))), "either")
    add("stale_bits(ab then a; ?ab)", cirq.Circuit(cirq.H(b), cirq.measure(a, b, key="ab"), cirq.measure(a, key="ab"), cirq.X(c).with_classical_controls("ab")),
        ("dist", cirq.Circuit(cirq.H(b), cirq.measure(a, b, key="ab"), cirq.measure(a, key="ab"), cirq.X(c).with_classical_controls("ab"))), "either")
    add("three_conditions", cirq.Circuit(cirq.H(a), cirq.H(b), cirq.measure(a, key="k"), cirq.measure(b, key="j"),
                                        cirq.X(c).with_classical_controls("k", "j", sympy.Eq(S("k"), 1))),
        ("dist", cirq.Circuit(cirq.H(a), cirq.H(b), cirq.measure(a, key="k"), cirq.measure(b, key="j"),
                              cirq.X(c).with_classical_controls("k", "j", sympy.Eq(S("k"), 1)))), "either")
    add("If(two ops)", cirq.Circuit(cirq.H(a), cirq.measure(a, key="k"), cirq.If("k", cirq.X(b), cirq.H(c))),
        ("dist", cirq.Circuit(cirq.H(a), cirq.measure(a, key="k"), cirq.X(b).with_classical_controls("k"), cirq.H(c).with_classical_controls("k"))))
    add("measure key with path", cirq.Circuit(cirq.H(a), cirq.measure(a, key=cirq.MeasurementKey("k", path=("p",)))),
        ("dist", cirq.Circuit(cirq.H(a), cirq.measure(a, key=cirq.MeasurementKey("k", path=("p",))))))
    add("measure key with newline", cirq.Circuit(cirq.H(a), cirq.measure(a, key="k\nx q[0];")), ("dist", cirq.Circuit(cirq.H(a), cirq.measure(a, key="k\nx q[0];"))))
    add("PauliString X*Y", cirq.Circuit(cirq.X(a) * cirq.Y(b)), ("unitary", _pauli_mat("XY")))
    add("DensePauliString", cirq.Circuit(cirq.DensePauliString("ZXY").on(a, b, c)), ("unitary", _pauli_mat("ZXY")))
    add("PauliStringPhasor", cirq.Circuit(cirq.PauliStringPhasor(cirq.X(a) * cirq.Y(b), exponent_neg=g[0])), ("unitary", G.pauli_string_phasor("XY", 1, g[0], 0)))
    add("ParallelGate", cirq.Circuit(cirq.ParallelGate(cirq.X ** g[0], 2).on(a, b)), ("unitary", np.kron(G.xpow(g[0]), G.xpow(g[0]))))
    add("QubitPermutation", cirq.Circuit(cirq.QubitPermutationGate([1, 2, 0]).on(a, b, c)), ("unitary", G.qubit_permutation([1, 2, 0])))
    add("TwoQubitDiagonal", cirq.Circuit(cirq.TwoQubitDiagonalGate([0.1, 0.2, 0.3, 0.5]).on(a, b)), ("unitary", np.diag(np.exp(1j * np.array([0.1, 0.2, 0.3, 0.5])))))
    add("GridQubits", cirq.Circuit(cirq.CNOT(cirq.GridQubit(1, 0), cirq.GridQubit(0, 1))), ("unitary", U((G.cxpow(1), [1, 0]), n=2)))
    add("NamedQubit with newline", cirq.Circuit(cirq.X(cirq.NamedQubit("a\nb")) ** g[0]), ("unitary", G.xpow(g[0])))
    add("MatrixGate name with newline", cirq.Circuit(cirq.MatrixGate(G.xpow(g[0]), name="my\ngate").on(a), cirq.MatrixGate(G.czpow(g[1]), name="two\nqubit").on(a, b)),
        ("unitary", U((G.xpow(g[0]), [0]), (G.czpow(g[1]), [0, 1]), n=2)))
    q3 = cirq.LineQid(0, dimension=3)
    add("qutrit X", cirq.Circuit(cirq.XPowGate(dimension=3).on(q3)), ("reject",), "reject")
    add("qutrit Z", cirq.Circuit(cirq.ZPowGate(dimension=3).on(q3)), ("reject",), "reject")
    add("qutrit identity", cirq.Circuit(cirq.IdentityGate(qid_shape=(3,)).on(q3)), ("reject",), "reject")
    add("qutrit reset", cirq.Circuit(cirq.ResetChannel(3).on(q3)), ("reject",), "reject")
    add("qutrit measure", cirq.Circuit(cirq.measure(q3, key="k")), ("reject",), "reject")
    add("qutrit MatrixGate", cirq.Circuit(cirq.MatrixGate(E.generic_unitary(3, 5), qid_shape=(3,)).on(q3)), ("reject",), "reject")
    add("confusion-map measure", cirq.Circuit(cirq.measure(a, key="k", confusion_map={(0,): np.array([[0.9, 0.1], [0.2, 0.8]])})), ("reject",), "reject")
    add("parameterized X**t", cirq.Circuit(cirq.X(a) ** S("t")), ("reject",), "reject")
    add("parameterized PhasedX", cirq.Circuit(cirq.PhasedXPowGate(phase_exponent=S("t")).on(a)), ("reject",), "reject")
    add("depolarize", cirq.Circuit(cirq.X(a), cirq.depolarize(0.1).on(a)), ("reject",), "reject")
    add("bit_flip", cirq.Circuit(cirq.bit_flip(0.25).on(a)), ("reject",), "reject")
    add("amplitude_damp", cirq.Circuit(cirq.amplitude_damp(0.25).on(a)), ("reject",), "reject")
    add("KrausChannel with key", cirq.Circuit(cirq.KrausChannel([np.eye(2) * np.sqrt(0.5), G.PX * np.sqrt(0.5)], key="kk").on(a)), ("reject",), "reject")
    add("StatePreparation", cirq.Circuit(cirq.StatePreparationChannel(np.array([0, 1])).on(a)), ("reject",), "reject")
    return out


SPECIALS: list = []


SPECIAL_DEFECTS = (
    ("CircuitOp(measure", "export_raised", "nested_measurement_keyerror"),
    ("PauliMeasurement", "export_raised", "nested_measurement_keyerror"),
    ("If(two ops)", "export_raised", "cco_subop_without_qasm_typeerror"),
    ("qutrit", "not_rejected", "qudit_exported_as_qubit"),
    ("NamedQubit with newline", "invalid_qasm", "qubit_name_newline_breaks_comment"),
    ("KeyCondition(index=0)", "records_mismatch", "key_condition_index_ignored"),
    ("stale_bits", "records_mismatch", "stale_register_bits_in_condition"),
)


def special_label(res, name, text=""):
    kind = res.sig.get("kind")
    lab = None
    if kind == "invalid_qasm" and "sxdg" in text and "'sxdg' is not defined" in res.msg:
        lab = "sxdg_not_in_stdgates"
    for prefix, k, d in SPECIAL_DEFECTS:
        if lab is None and name.startswith(prefix) and kind == k:
            lab = d
    res.sig = {"kind": kind, "defect": lab or f"unclassified:{name}"}
    return res


def run_special(case):
    r = _run_special(case)
    if r is not None and not r.ok:
        return special_label(r, SPECIALS[case[0]][0], r.msg)
    return r


def _run_special(case):
    si, vi, order_opt, pi_ = case
    name, circuit, ref, expect = SPECIALS[si]
    version = VERSIONS[vi]
    precision = PRECISIONS[pi_]
    used = sorted(circuit.all_qubits())
    order = used if order_opt == 0 else [EXTRA] + list(reversed(used))
    desc = f"special circuit {name!r}:\n{circuit}\nvia to_qasm(version={version}, precision={precision}, order={[str(q) for q in order]})"
    try:
        text = circuit.to_qasm(header=None, precision=precision, qubit_order=order, version=version)
    except Exception as e:
        if isinstance(e, REJECTIONS) and expect in ("reject", "either"):
            return Res(skipped=True, nontrivial=False, counters={"rejected_" + type(e).__name__: 1})
        return bad(f"{desc}: export raised {type(e).__name__}: {e} although the circuit decomposes into operations with a QASM form", kind="export_raised",
                   exc=type(e).__name__, special=name)
    if ref[0] == "reject":
        return bad(f"{desc}: content without a QASM form was exported instead of rejected (altered silently)\n{text}", kind="not_rejected", special=name)
    try:
        prog = Q.parse(text)
    except Q.QasmError as e:
        return bad(f"{desc}: emitted text is not valid OpenQASM {version}: {e}\n{text}", kind="invalid_qasm", special=name)
    has_meas = ref[0] == "dist"
    msg = check_frame(prog, version, order, has_meas)
    if msg:
        return bad(f"{desc}: {msg}\n{text}", kind="frame", special=name)
    if ref[0] == "unitary":
        idx = [order.index(q) for q in used]
        refm = E.embed(ref[1], idx, (2,) * len(order)) if order else ref[1]
        if not prog.is_unitary_program():
            return bad(f"{desc}: measure/reset/if emitted for a unitary circuit\n{text}", kind="nonunitary_items", special=name)
        tol = tolerance(prog, precision)
        got = prog.unitary()
        if not E.eq_up_to_phase(refm, got, tol):
            dev = float(np.abs(refm - E.phase_of(refm, got) * got).max())
            return bad(f"{desc}: unitary of the emitted program is not proportional to the circuit's (max deviation {dev:.3g} > {tol:.3g})\n{text}",
                       kind="unitary_mismatch", special=name)
        return good(nontrivial=any(it.kind == "gate" for it in prog.items))
    ref_circuit = ref[1]
    key_sizes = {}
    for op in ref_circuit.all_operations():
        if cirq.is_measurement(op):
            k = str(cirq.measurement_key_name(op))
            key_sizes[k] = max(key_sizes.get(k, 0), len(op.qubits) if isinstance(op.gate, cirq.MeasurementGate) else 1)
    r = compare_measured(desc, text, prog, ref_circuit, order, key_sizes, atol=max(1e-6, 20 * tolerance(prog, precision)))
    if r is not None:
        r.sig["special"] = name
        return r
    return good(nontrivial=True)


def describe_special(case):
    si, vi, oo, pi_ = case
    return {"special": SPECIALS[si][0], "version": VERSIONS[vi], "order_opt": oo, "precision": PRECISIONS[pi_]}


def cases_special():
    return [(si, vi, oo, pi_) for si in range(len(SPECIALS)) for vi in range(2) for oo in range(2) for pi_ in range(2)]


# ------------------------------------------------------------------------------------------------
# lattices of 1- and 2-qubit matrices (QasmUGate / QasmTwoQubitGate fall-backs)


def _angles1(seed):
    g = core.generic(seed, 5)
    return (0.0, math.pi / 2, math.pi, -math.pi / 2, g * math.pi, 1e-9)


def cases_lattice1(tier):
    n = 6
    cases = []
    for kind in range(3):          # 0: MatrixGate from Euler angles, 1: PhasedXZGate, 2: QasmUGate directly
        for i, j, k in itertools.product(range(n), repeat=3):
            for pi_ in range(2):
                for vi in ((0, 1) if tier != "quick" else ((i + j + k + pi_) % 2,)):
                    cases.append((kind, i, j, k, pi_, vi))
    return cases


HALF = (0.0, 0.5, 1.0, -0.5, 1.5, None)


def run_lattice1(case):
    kind, i, j, k, pi_, vi = case
    precision, version = PRECISIONS[pi_], VERSIONS[vi]
    q = QUBITS[0]
    gen = core.generic(SEED, 5)
    if kind == 0:
        al, be, ga = (_angles1(SEED)[t] for t in (i, j, k))
        m = np.exp(1j * 0.7) * G.rz(al) @ G.ry(be) @ G.rz(ga)
        op = cirq.MatrixGate(m).on(q)
        what = f"MatrixGate(e^0.7i Rz({al:.4g}) Ry({be:.4g}) Rz({ga:.4g}))"
    elif kind == 1:
        x, z, a = ((HALF[t] if HALF[t] is not None else gen) for t in (i, j, k))
        m = G.phased_xz(x, z, a)
        op = cirq.PhasedXZGate(x_exponent=x, z_exponent=z, axis_phase_exponent=a).on(q)
        what = f"PhasedXZGate(x={x}, z={z}, a={a})"
    else:
        th, ph, la = ((HALF[t] if HALF[t] is not None else gen) for t in (i, j, k))
        # documented meaning (class docstring): theta = half turns about Y (applied second), phi = Z (applied last), lmda = Z (applied first)
        m = G.rz(ph * math.pi) @ G.ry(th * math.pi) @ G.rz(la * math.pi)
        op = cirq.circuits.qasm_output.QasmUGate(th, ph, la).on(q)
        what = f"QasmUGate(theta={th}, phi={ph}, lmda={la})"
    circuit = cirq.Circuit(op)
    desc = f"{what} via to_qasm(precision={precision}, version={version})"
    text = circuit.to_qasm(header="", precision=precision, version=version)
    try:
        prog = Q.parse(text)
    except Q.QasmError as e:
        return bad(f"{desc}: emitted text is not valid OpenQASM {version}: {e}\n{text}", kind="invalid_qasm", defect="unclassified")
    msg = check_frame(prog, version, [q], False)
    if msg:
        return bad(f"{desc}: {msg}\n{text}", kind="frame")
    tol = tolerance(prog, precision)
    got = prog.unitary()
    if not E.eq_up_to_phase(m, got, tol):
        dev = float(np.abs(m - E.phase_of(m, got) * got).max())
        return bad(f"{desc}: emitted unitary not proportional to the gate's (max deviation {dev:.3g} > {tol:.3g})\n{text}", kind="unitary_mismatch", defect="unclassified")
    return good(nontrivial=True)


def weyl_values(tier):
    step = math.pi / 8 if tier == "quick" else math.pi / 16
    n = int(round((math.pi / 2 + math.pi / 4) / step))
    return [-math.pi / 4 + t * step for t in range(n + 1)]


def cases_lattice2(tier):
    vals = weyl_values(tier)
    cases = []
    for i, j, k in itertools.product(range(len(vals)), repeat=3):
        for loc in range(2):
            for pi_ in range(2):
                cases.append((i, j, k, loc, pi_, (i + j + k + loc) % 2, (i + 2 * j + k + pi_) % 3))
    return cases


TIER = "quick"


def run_lattice2(case):
    i, j, k, loc, pi_, vi, how = case
    vals = weyl_values(TIER)
    x, y, z = vals[i], vals[j], vals[k]
    precision, version = PRECISIONS[pi_], VERSIONS[vi]
    m = _weyl(x, y, z, (100 + SEED) if loc else None)
    a, b = QUBITS[0], QUBITS[1]
    if how == 0:
        op, tg = cirq.MatrixGate(m).on(a, b), [0, 1]
    elif how == 1:
        op, tg = cirq.MatrixGate(m).on(b, a), [1, 0]
    else:
        op, tg = cirq.circuits.qasm_output.QasmTwoQubitGate.from_matrix(m).on(b, a), [1, 0]
    desc = (f"{'MatrixGate' if how < 2 else 'QasmTwoQubitGate.from_matrix'}(exp(i({x / math.pi:.4g}pi XX + {y / math.pi:.4g}pi YY + {z / math.pi:.4g}pi ZZ))"
            f"{' with generic local factors' if loc else ''}) on wires {tg} via to_qasm(precision={precision}, version={version})")
    text = cirq.Circuit(op).to_qasm(header="", precision=precision, version=version)
    try:
        prog = Q.parse(text)
    except Q.QasmError as e:
        return bad(f"{desc}: emitted text is not valid OpenQASM {version}: {e}\n{text}", kind="invalid_qasm",
                   defect="sxdg_not_in_stdgates" if "'sxdg' is not defined" in str(e) else "unclassified:" + str(e).split(" at offset")[0][:60])
    msg = check_frame(prog, version, [a, b], False)
    if msg:
        return bad(f"{desc}: {msg}\n{text}", kind="frame")
    ref = E.embed(m, tg, (2, 2))
    tol = tolerance(prog, precision)
    got = prog.unitary()
    if not E.eq_up_to_phase(ref, got, tol):
        dev = float(np.abs(ref - E.phase_of(ref, got) * got).max())
        return bad(f"{desc}: emitted unitary not proportional to the matrix (max deviation {dev:.3g} > {tol:.3g})\n{text}", kind="unitary_mismatch", defect="unclassified")
    return good(nontrivial=True, max_gate_statements=sum(1 for it in prog.items if it.kind == "gate"))


# ------------------------------------------------------------------------------------------------
# stages


def _reset():
    global SPECIALS
    if LETTERS and FFL and SPECIALS and SEED == core.seed_from_env():
        return  # inherited from the parent process (stages() builds everything before the pool forks)
    build_alphabet(core.seed_from_env())
    build_ff(core.seed_from_env())
    SPECIALS = build_specials(core.seed_from_env())


def _selftest_stage():
    def execute():
        r = core.StageResult("reader_selftest")
        try:
            n = Q.self_test()
        except AssertionError as e:
            raise core.HarnessError(f"mc/ref/qasm.py self-test failed: {e!r}")
        r.evaluations = n
        r.distinct_nontrivial_extra = n
        r.samples = ["u3 vs rz.ry.rz", "ccx body vs Toffoli", "if (c==2) with c[1]=1 (bit 0 = low-order bit)"]
        return r

    return CustomStage("reader_selftest", execute, lambda case: None)


def stages(tier: str, seed: int):
    global SPECIALS, TIER
    TIER = tier
    build_alphabet(seed)
    build_ff(seed)
    SPECIALS = build_specials(seed)
    try:
        Q.self_test()
    except AssertionError as e:
        raise core.HarnessError(f"mc/ref/qasm.py self-test failed: {e!r}")
    st = [_selftest_stage()]
    st.append(CaseStage("single_letter_all_options", cases_single(), run_unitary, reset=_reset, describe=describe_unitary))
    if tier == "quick":
        st.append(CaseStage("pairs_core", cases_seq(2, "core", lambda l: l.core, PAIR_OPTS[:2]), run_unitary, reset=_reset, describe=describe_unitary))
    else:
        st.append(CaseStage("pairs_core", cases_seq(2, "core", lambda l: l.core, PAIR_OPTS), run_unitary, reset=_reset, describe=describe_unitary))
        st.append(CaseStage("pairs_full_alphabet", cases_seq(2, "core", lambda l: True, PAIR_OPTS, rotate=True), run_unitary, reset=_reset, describe=describe_unitary))
        st.append(CaseStage("triples_tiny", cases_seq(3, "core", lambda l: l.tiny, PAIR_OPTS[:2]), run_unitary, reset=_reset, describe=describe_unitary))
        st.append(CaseStage("triples_core", cases_seq(3, "one", lambda l: l.core, PAIR_OPTS, rotate=True), run_unitary, reset=_reset, describe=describe_unitary))
    st.append(CaseStage("measure_feedforward", cases_ff(tier), run_ff, reset=_reset, describe=describe_ff))
    st.append(CaseStage("special_structures", cases_special(), run_special, reset=_reset, describe=describe_special))
    st.append(CaseStage("matrix1_lattice", cases_lattice1(tier), run_lattice1, reset=_reset))
    st.append(CaseStage("matrix2_weyl_lattice", cases_lattice2(tier), run_lattice2, reset=_reset))
    return st
