"""C12 -- sub-circuits, loops and classical control equal their unrolled form.

Enumerated: base circuits x the product of CircuitOperation options (invalid combinations must raise
the documented error) x nesting depth x constructor paths x context circuits.  Oracle: the independent
reference unroller (mc/ref/unroll.py) gives the flat program; the operation itself and every
implementation route to a flat circuit (mapped_circuit(deep=True), cirq.decompose,
unroll_circuit_op*) must agree with it on qubits, keys, control keys, parameters, unitary and -- via
scripted-PRNG path enumeration on the real simulators against the reference interpreter -- on the exact
record distribution and final state, including bounded repeat_until loops.
"""
from __future__ import annotations

import itertools

import numpy as np
import sympy
import cirq

from mc import core
from mc.core import CaseStage, Res, bad, good
from mc.choices import explore, Chooser
from mc.scripted_random import ScriptedRandomState
from mc.ref import interp, embed as E, unroll as U

PROPERTY = "C12"
LEVEL = "exploration"
RULE = ("cases = base circuit (1-qubit unitary / with global phase / parameterized, 2-qubit, measurement, inner and outer "
        "classical control, shadowing, repeated key, qutrit, nested op, sympy / bit-mask / indexed conditions, cirq.If, "
        "controlled sub-circuit) x product of wrapper options (repetitions incl. 0, negative, symbolic, float; "
        "use_repetition_ids; repetition_ids; qubit_map; measurement_key_map; parent_path; param_resolver; repeat_until) "
        "x nesting depth (1..2, thorough 3, through body templates: alone / after a measurement / followed by a control) "
        "x constructor paths x context circuits; invalid option mixes must raise ValueError/TypeError and are counted as "
        "skipped; simulation cases are those of the reduced product whose flat program executes <=5 (thorough <=7) "
        "measurements, loop cases those with <=100 (thorough <=600) estimated PRNG paths within the 3-iteration draw budget; "
        "a case is non-trivial when the flat program has >=2 leaf operations (simulation stages: >=2 records); "
        "distinct = distinct descriptor")
TECHNIQUE = ("bounded-exhaustive enumeration of CircuitOperation configurations against an independent reference unroller; "
             "stateless DFS over ALL scripted-PRNG answer paths of the real simulators for the record distributions")
LEVEL_TEXT = ("Every configuration of the bounded option product is built on the real CircuitOperation; the flat program "
              "computed by an independent unroller (maps applied at the leaves, documented key-scoping rule) must equal, wire "
              "by wire, every implementation route to a flat circuit, and the operation's own protocol answers (asked twice, in "
              "two orders). For circuits with measurements every outcome branch of every random draw of cirq.Simulator and "
              "cirq.DensityMatrixSimulator is executed and the exact record distribution and final states compared with the "
              "reference interpreter on the flat program; repeat_until loops are explored up to a draw budget and the "
              "remaining probability mass is compared too. Bounded by the alphabets and nesting depth <=3.")
LEVEL_NOTE = ("trusted: numpy; leaf-level cirq protocols on single gate operations (unitary, inverse, resolve_parameters, "
              "with_qubits; tied to closed forms by C03/C04/C08/C10); simulators draw randomness only through the seed object")
ASSUMPTIONS = [
    "leaf-level protocols on single gate operations (cirq.unitary, cirq.inverse, cirq.resolve_parameters, with_qubits) are correct (C03/C04/C08/C10)",
    "the reference interpreter mc/ref/interp.py gives the semantics of FLAT circuits (validated against the simulators by C02)",
    "the simulators draw randomness only through the seed=/prng object, one draw per executed measurement gate (asserted per path)",
    "numpy linear algebra",
]

CO = cirq.CircuitOperation

a, b, c = cirq.LineQubit.range(3)
q9 = cirq.LineQubit(9)
t = cirq.LineQid(5, dimension=3)
t2 = cirq.LineQid(6, dimension=3)
OUTQ = [cirq.LineQubit(20 + i) for i in range(12)]  # 0: context measurements, 3+level: body templates, 6: context control, 7: scratch
s, tt, s2, r = sympy.symbols("s tt s2 r")
m_, n_, k_ = sympy.symbols("m n k")


class Rejected(Exception):
    """A documented rejection happened (counted as skipped)."""


class Viol(Exception):
    def __init__(self, msg, **sig):
        super().__init__(msg)
        self.msg = msg
        self.sig = sig


# ------------------------------------------------------------------------------------------------
# alphabets

_B = None  # base circuits
_G = None


def bases(seed):
    g = core.generic(seed)
    g2 = core.generic(seed, 1)
    g3 = core.generic(seed, 2)
    M = cirq.measure
    K = cirq.MeasurementKey
    u3 = E.generic_unitary(3, seed)
    inner_nested = CO(cirq.FrozenCircuit(cirq.X(a) ** g, M(a, key="m"), (cirq.Y(b) ** g2).with_classical_controls("m")),
                      repetitions=2, use_repetition_ids=True)
    L = [
        ("u1", cirq.FrozenCircuit(cirq.X(a) ** g, cirq.Z(a) ** g2)),
        ("u1gp", cirq.FrozenCircuit(cirq.X(a) ** g, cirq.global_phase_operation(np.exp(1j * g2)))),
        ("u1par", cirq.FrozenCircuit(cirq.X(a) ** s, cirq.Z(a) ** tt)),
        ("u2", cirq.FrozenCircuit(cirq.X(a) ** g, cirq.CNOT(a, b), cirq.T(b))),
        ("u2par", cirq.FrozenCircuit(cirq.X(a) ** s, cirq.CNOT(a, b), cirq.Z(b) ** (tt + 0.5))),
        ("meas", cirq.FrozenCircuit(cirq.X(a) ** g, M(a, key="m"))),
        ("meas_ctrl", cirq.FrozenCircuit(cirq.X(a) ** g, M(a, key="m"), (cirq.X(b) ** g3).with_classical_controls("m"), M(b, key="k"))),
        ("ctrl_outer", cirq.FrozenCircuit(cirq.X(b).with_classical_controls("m"), cirq.Y(a) ** g)),
        ("shadow", cirq.FrozenCircuit(cirq.Moment(cirq.X(b).with_classical_controls("m"), cirq.X(a) ** g), cirq.Moment(M(a, key="m")),
                                       cirq.Moment((cirq.Y(b) ** g2).with_classical_controls("m")))),
        ("twice", cirq.FrozenCircuit(cirq.X(a) ** g, M(a, key="m"), cirq.X(a), M(a, key="m"), (cirq.Y(b) ** g2).with_classical_controls("m"))),
        ("qutrit", cirq.FrozenCircuit(cirq.MatrixGate(u3, qid_shape=(3,)).on(t), M(t, key="m"), (cirq.X(b) ** g2).with_classical_controls("m"))),
        ("nested", cirq.FrozenCircuit(inner_nested, (cirq.X(a) ** g3).with_classical_controls("m"))),
        ("sympy2", cirq.FrozenCircuit(cirq.X(a) ** g, cirq.X(b), M(a, key="m"), M(b, key="n"), (cirq.Y(c) ** g2).with_classical_controls(sympy.Lt(m_, n_)))),
        ("indexed", cirq.FrozenCircuit(cirq.X(a) ** g, M(a, key="m"), cirq.X(a), M(a, key="m"),
                                        (cirq.Y(b) ** g2).with_classical_controls(cirq.KeyCondition(K("m"), 0)))),
        ("bitmask", cirq.FrozenCircuit(cirq.X(a) ** g, cirq.X(b), M(a, b, key="m"),
                                        (cirq.Y(c) ** g2).with_classical_controls(cirq.BitMaskKeyCondition("m", bitmask=1, target_value=1, equal_target=True)))),
        ("if_op", cirq.FrozenCircuit(cirq.X(a) ** g, M(a, key="m"), cirq.If("m", cirq.X(b) ** g2, cirq.Z(b) ** g3))),
        ("cco_sub", cirq.FrozenCircuit(cirq.X(a) ** g, M(a, key="m"),
                                        CO(cirq.FrozenCircuit(cirq.X(b) ** g2, cirq.Z(b) ** g3), repetitions=2).with_classical_controls("m"))),
        ("pathkey", cirq.FrozenCircuit(cirq.X(a) ** g, M(a, key=K("m", ("0",))),
                                        CO(cirq.FrozenCircuit((cirq.Y(b) ** g2).with_classical_controls("m"), M(b, key="k")), repetitions=2, use_repetition_ids=True))),
        ("loopbody", cirq.FrozenCircuit(cirq.X(a) ** g, M(a, key="m"), (cirq.Y(b) ** g2).with_classical_controls("m"))),
        # the classically controlled operation is itself a sub-circuit that reads a key of the enclosing scope
        ("cco_sub_ctrl", cirq.FrozenCircuit(cirq.Moment([cirq.X(a) ** g, cirq.X(c)]), cirq.Moment([M(a, key="m"), M(c, key="k")]),
                                             cirq.Moment([CO(cirq.FrozenCircuit((cirq.Y(b) ** g2).with_classical_controls("m"))).with_classical_controls("k")]))),
        ("if_sub_ctrl", cirq.FrozenCircuit(cirq.Moment([cirq.X(a) ** g, cirq.X(c)]), cirq.Moment([M(a, key="m"), M(c, key="k")]),
                                            cirq.Moment([cirq.If("k", CO(cirq.FrozenCircuit((cirq.Y(b) ** g2).with_classical_controls("m"), cirq.Z(b) ** g3),
                                                                         repetitions=2))]))),
        # sibling sub-circuits whose scope paths coincide: the second must NOT bind to the keys of the first
        ("pathkey_pp", cirq.FrozenCircuit(cirq.Moment([cirq.X(a) ** g]), cirq.Moment([M(a, key=K("m", ("p",)))]),
                                           cirq.Moment([CO(cirq.FrozenCircuit((cirq.Y(b) ** g2).with_classical_controls("m"), M(b, key="k")), parent_path=("p",))]))),
        ("siblings", cirq.FrozenCircuit(
            cirq.Moment([CO(cirq.FrozenCircuit(cirq.X(a) ** g, M(a, key="m")), repetitions=2, use_repetition_ids=True)]),
            cirq.Moment([CO(cirq.FrozenCircuit(CO(cirq.FrozenCircuit((cirq.Y(b) ** g2).with_classical_controls("m"))), M(b, key="k")),
                            repetitions=2, use_repetition_ids=True)]))),
    ]
    return L


BASE_NAMES = ["u1", "u1gp", "u1par", "u2", "u2par", "meas", "meas_ctrl", "ctrl_outer", "shadow", "twice", "qutrit", "nested",
              "sympy2", "indexed", "bitmask", "if_op", "cco_sub", "pathkey", "loopbody", "cco_sub_ctrl", "if_sub_ctrl", "pathkey_pp", "siblings"]
BI = {n: i for i, n in enumerate(BASE_NAMES)}

REPS = [1, 2, 0, 3, -1, -2, "r", 2.0000001, 2.0]
USE = [None, True, False]
IDS = [None, "custom", "wrong"]
QMAP = ["none", "swap_ab", "a_to_q9", "t_to_t2", "a_to_t(conflict)"]
KMAP = [{}, {"m": "n"}, {"m": "k"}, {"m": "x:y"}, {"m": "n", "n": "m"}]
PP = [(), ("p",), ("o",), ("o", "p")]
PAR = ["none", "s->num", "s->tt", "s->s2", "swap_s_tt", "tt->num"]
UNTIL = ["none", "key_m", "sympy_m_eq_1", "sympy_m_eq_n"]


def qmap_of(i):
    return [{}, {a: b, b: a}, {a: q9}, {t: t2}, {a: t}][i]


def par_of(i, seed):
    v = core.generic(seed, 3)
    return [{}, {s: v}, {s: tt}, {s: s2}, {s: tt, tt: s}, {tt: v}][i]


def until_of(i):
    K = cirq.MeasurementKey
    return [None, cirq.KeyCondition(K("m")), cirq.SympyCondition(sympy.Eq(m_, 1)), cirq.SympyCondition(sympy.Eq(m_, n_))][i]


def _init(seed):
    global _B, _G
    _G = seed
    _B = bases(seed)
    assert [n for n, _ in _B] == BASE_NAMES


# ------------------------------------------------------------------------------------------------
# building operations from option tuples


def invertible(circuit) -> bool:
    try:
        U.unroll_spec(U.Spec(circuit=circuit, repetitions=-1))
        return True
    except U.UnrollError:
        return False


def options(circuit, opts):
    """-> (constructor kwargs, reference Spec, set of exception types expected (empty = valid))."""
    ri, ui, ii, qi, ki, pi, ai, ti = opts
    reps = REPS[ri]
    use = USE[ui]
    errs = set()
    kw = {}
    sym = reps == "r"
    bad_float = isinstance(reps, float) and abs(reps - round(reps)) > 1e-9
    if sym:
        kw["repetitions"] = r
        n = None
    elif bad_float:
        kw["repetitions"] = reps
        errs.add(TypeError)
        n = None
    else:
        kw["repetitions"] = reps
        n = int(round(reps))
    if IDS[ii] is None:
        ids = None
    else:
        cnt = abs(n) if n is not None else 2
        ids = [f"x{j}" for j in range(cnt + (1 if IDS[ii] == "wrong" else 0))]
        kw["repetition_ids"] = ids
    if use is not None:
        kw["use_repetition_ids"] = use
    use_res = use if use is not None else (ids is not None)
    if n is not None:
        if n < 0 and not invertible(circuit):
            errs.add(ValueError)
        if ids and len(ids) != abs(n):
            errs.add(ValueError)
    elif sym and ids is not None:
        errs.add(ValueError)
    qm = qmap_of(qi)
    if qm:
        kw["qubit_map"] = qm
    if any(x.dimension != y.dimension for x, y in qm.items()):
        errs.add(ValueError)
    km = KMAP[ki]
    if km:
        kw["measurement_key_map"] = dict(km)
    if any(":" in v for v in km.values()):
        errs.add(ValueError)
    if PP[pi]:
        kw["parent_path"] = PP[pi]
    pr = par_of(ai, _G)
    if pr:
        kw["param_resolver"] = dict(pr)
    until = until_of(ti)
    if until is not None:
        kw["repeat_until"] = until
        if use_res or sym or (n is not None and n != 1) or bad_float:
            errs.add(ValueError)
    spec = U.Spec(circuit=circuit, repetitions=(r if sym else (n if n is not None else reps)), qubit_map=dict(qm), key_map=dict(km),
                  params=dict(pr), parent_path=PP[pi], repetition_ids=ids, use_repetition_ids=bool(use_res), repeat_until=until)
    if until is not None and not errs:
        try:
            U.unroll_spec(spec)
        except U.UnrollError:
            errs.add(ValueError)
    return kw, spec, errs


def construct(circuit, opts):
    """Builds the operation; documented rejection -> Rejected; wrong acceptance / rejection -> Viol."""
    kw, spec, errs = options(circuit, opts)
    try:
        op = CO(circuit, **kw)
    except (ValueError, TypeError) as e:
        if errs and type(e) in errs:
            raise Rejected()
        raise Viol(f"constructor raised {type(e).__name__}: {e} for a valid configuration {describe_opts(opts)}\ncircuit:\n{circuit}",
                   kind="constructor_rejects_valid")
    if errs:
        raise Viol(f"constructor accepted an invalid configuration (expected {sorted(x.__name__ for x in errs)}): {describe_opts(opts)}\ncircuit:\n{circuit}",
                   kind="constructor_accepts_invalid")
    return op, spec, kw


def describe_opts(opts):
    ri, ui, ii, qi, ki, pi, ai, ti = opts
    return {"repetitions": REPS[ri], "use_repetition_ids": USE[ui], "repetition_ids": IDS[ii], "qubit_map": QMAP[qi],
            "measurement_key_map": KMAP[ki], "parent_path": list(PP[pi]), "param_resolver": PAR[ai], "repeat_until": UNTIL[ti]}


# body templates for nesting: how the child operation sits in the body of the next wrapper
TEMPLATES = ["alone", "after_measure_m", "then_control_on_child_keys"]


OUTT = [cirq.LineQid(40 + i, dimension=3) for i in range(12)]  # qutrit twins of OUTQ


def _probe_qids(dims, first, second):
    """Qids of an outer measurement recording a key with the same shape as the inner one (a key has one shape)."""
    dims = dims or (2,)
    return [(OUTQ if d == 2 else OUTT)[first if i == 0 else second + i - 1] for i, d in enumerate(dims)]


def _shift(q):
    """An X-like gate taking |0> to |1> on a qubit or qutrit."""
    return cirq.X(q) if q.dimension == 2 else cirq.XPowGate(dimension=q.dimension).on(q)


def _dims_of_name(items, name):
    for o in U.leaves(items):
        for k in cirq.measurement_key_objs(o):
            if name is None or k.name == name:
                return tuple(q.dimension for q in o.qubits)
    return None


def template(j, child, level):
    o = OUTQ[3 + level]
    probe = [o]
    if j == 1:
        try:
            child_items = U.unroll_op(child)
        except U.UnrollError:
            child_items = []
        probe = _probe_qids(_dims_of_name(child_items, "m") or _dims_of_name(child_items, None), 3 + level, 7 + level)
        o = probe[0]
    if j == 0:
        return cirq.FrozenCircuit(cirq.Moment([child]))
    if j == 1:
        return cirq.FrozenCircuit(cirq.Moment([_shift(o) ** core.generic(_G, 10 + level)]), cirq.Moment([cirq.measure(*probe, key="m")]), cirq.Moment([child]))
    names = sorted({k.name for k in cirq.measurement_key_objs(child)})[:2] or ["m"]
    g = core.generic(_G, 4)
    moms = [cirq.Moment([child])]
    for i_, nm in enumerate(names):
        moms.append(cirq.Moment([(cirq.X(o) ** (g + i_)).with_classical_controls(nm)]))
    return cirq.FrozenCircuit(*moms)


def build_node(node):
    """node = (base_i, ((opts, template_j), ...)) -> (op, spec of the outermost wrapper)."""
    base_i, levels = node
    circ = _B[base_i][1]
    op = spec = None
    for lvl, (opts, tj) in enumerate(levels):
        if lvl > 0:
            circ = template(tj, op, lvl)
        op, spec, _ = construct(circ, tuple(opts))
    return op, spec


def describe_node(node):
    base_i, levels = node
    return {"base": BASE_NAMES[base_i], "levels (innermost first)": [dict(describe_opts(tuple(o)), body=TEMPLATES[tj] if i else "base") for i, (o, tj) in enumerate(levels)]}


# ------------------------------------------------------------------------------------------------
# comparing flat programs


def norm_leaf(op):
    """cirq.If around a leaf is the same operation as the classically controlled leaf."""
    u = op.untagged
    if isinstance(u, cirq.If):
        return u.sub_operation.with_classical_controls(*u.conditions)
    return op


def contains_subcircuit(op) -> bool:
    u = op.untagged
    if isinstance(u, CO):
        return True
    if isinstance(u, (cirq.ClassicallyControlledOperation, cirq.If)):
        return isinstance(u.without_classical_controls().untagged, CO)
    return False


def finish(ops):
    """Leftover wrapped sub-circuits (tagged / classically controlled) are expanded by cirq.decompose."""
    out = []
    for op in ops:
        if contains_subcircuit(op):
            out.extend(cirq.decompose(op, keep=lambda o: not contains_subcircuit(o) and not isinstance(o.untagged, cirq.If)))
        else:
            out.append(op)
    return [norm_leaf(o) for o in out]


def _generic_resolver(names):
    return {nm: 0.137 + 0.211 * i for i, nm in enumerate(sorted(names))}


def same_leaf(x, y) -> bool:
    if x == y:
        return True
    if x.qubits != y.qubits:
        return False
    if frozenset(x.classical_controls) != frozenset(y.classical_controls):
        return False
    if cirq.measurement_key_objs(x) != cirq.measurement_key_objs(y):
        return False
    x0, y0 = x.without_classical_controls(), y.without_classical_controls()
    px, py = cirq.parameter_names(x0), cirq.parameter_names(y0)
    if px != py:
        return False
    if px:
        res = _generic_resolver(px)
        x0, y0 = cirq.resolve_parameters(x0, res), cirq.resolve_parameters(y0, res)
    if cirq.is_measurement(x0) or cirq.is_measurement(y0):
        return x0 == y0
    if cirq.has_unitary(x0) and cirq.has_unitary(y0):
        return np.allclose(cirq.unitary(x0), cirq.unitary(y0), atol=1e-9)
    return False


def wires(ops):
    w = {}
    for op in ops:
        if not op.qubits:
            w.setdefault(("g",), []).append(op)
        for q in op.qubits:
            w.setdefault(("q", q), []).append(op)
        for k_ in cirq.measurement_key_objs(op):
            w.setdefault(("k", str(k_)), []).append(op)
        for k_ in cirq.control_keys(op):
            w.setdefault(("k", str(k_)), []).append(op)
    return w


def compare_programs(ref_ops, got_ops):
    """None if both lists describe the same partial order of the same leaves (wire by wire)."""
    if len(ref_ops) != len(got_ops):
        return f"{len(got_ops)} leaf operations, reference {len(ref_ops)}"
    wr, wg = wires(ref_ops), wires(got_ops)
    if set(wr) != set(wg):
        return f"wires differ: only reference {sorted(map(str, set(wr) - set(wg)))}, only implementation {sorted(map(str, set(wg) - set(wr)))}"
    for w in wr:
        x, y = wr[w], wg[w]
        if w == ("g",):
            x, y = sorted(x, key=repr), sorted(y, key=repr)
        if len(x) != len(y):
            return f"wire {w}: {len(y)} operations, reference {len(x)}"
        for i, (p, q) in enumerate(zip(x, y)):
            if not same_leaf(p, q):
                return f"wire {w[-1]} position {i}: {q!r}, reference {p!r}"
    return None


def classify_difference(ref_ops, got_ops) -> str:
    """'order': same multiset of leaves in a different partial order; 'binding': same order, some control key bound
    differently; 'other'."""
    if len(ref_ops) != len(got_ops):
        return "other"
    rest = list(got_ops)
    for x in ref_ops:
        for i, y in enumerate(rest):
            if same_leaf(x, y):
                del rest[i]
                break
        else:
            strip = lambda o: o.without_classical_controls()
            if all(same_leaf(strip(p), strip(q)) and len(p.classical_controls) == len(q.classical_controls) for p, q in zip(ref_ops, got_ops)):
                return "binding"
            return "other"
    return "order"


def fmt_ops(ops):
    return "[" + "; ".join(str(o) for o in ops) + "]"


# ------------------------------------------------------------------------------------------------
# static observers of the operation


def _ask(fn):
    try:
        return ("ok", fn())
    except (ValueError, TypeError) as e:
        return ("raise", type(e).__name__, str(e)[:160])


OBSERVERS = [
    ("qubits", lambda op: op.qubits),
    ("qid_shape", lambda op: cirq.qid_shape(op)),
    ("measurement_key_objs", lambda op: cirq.measurement_key_objs(op)),
    ("measurement_key_names", lambda op: cirq.measurement_key_names(op)),
    ("control_keys", lambda op: cirq.control_keys(op)),
    ("parameter_names", lambda op: cirq.parameter_names(op)),
    ("is_parameterized", lambda op: cirq.is_parameterized(op)),
    ("is_measurement", lambda op: cirq.is_measurement(op)),
    ("has_unitary", lambda op: cirq.has_unitary(op)),
    ("unitary", lambda op: cirq.unitary(op)),
    ("mapped_circuit_deep", lambda op: list(op.mapped_circuit(deep=True).all_operations())),
    ("decompose", lambda op: cirq.decompose(op, keep=lambda o: not contains_subcircuit(o))),
    ("hash", lambda op: hash(op)),
]


def _same_answer(x, y):
    if x[0] != y[0]:
        return False
    if x[0] == "raise":
        return x[1] == y[1]
    u, v = x[1], y[1]
    if isinstance(u, np.ndarray):
        return isinstance(v, np.ndarray) and u.shape == v.shape and np.allclose(u, v, atol=1e-10)
    return u == v


def observe_twice(make):
    """Asks every observer twice in forward order on one instance and in reverse order on a second
    instance (cached properties must not depend on the query history).  Returns answers or Viol."""
    op1, op2 = make(), make()
    ans = {}
    for name, fn in OBSERVERS:
        x = _ask(lambda: fn(op1))
        y = _ask(lambda: fn(op1))
        if not _same_answer(x, y):
            raise Viol(f"{name} asked twice on the same operation gives {y} after {x}\n{op1!r}", kind="cache", observer=name)
        ans[name] = x
    # aliasing: mutating a returned circuit must not change later answers
    try:
        mc = op1.mapped_circuit(deep=False)
        mc.append(cirq.X(OUTQ[7]))
        mc2 = op1.mapped_circuit(deep=False)
        if OUTQ[7] in mc2.all_qubits():
            raise Viol(f"mapped_circuit() returns an alias of cached state\n{op1!r}", kind="cache", observer="mapped_circuit_alias")
    except ValueError:
        pass
    for name, fn in reversed(OBSERVERS):
        z = _ask(lambda: fn(op2))
        if not _same_answer(ans[name], z):
            raise Viol(f"{name} depends on the query order: {z} when asked last-to-first, {ans[name]} first-to-last\n{op2!r}", kind="cache", observer=name)
    if hash(op1) != hash(op2) or not (op1 == op2):
        raise Viol(f"two constructions of the same configuration are not equal / hash differently\n{op1!r}", kind="equality")
    return op1, ans


def reference_unitary(leaf_ops, qubits):
    idx = {q: i for i, q in enumerate(qubits)}
    shape = [q.dimension for q in qubits]
    return E.apply_ops([(cirq.unitary(o), [idx[q] for q in o.qubits]) for o in leaf_ops], shape)


NONDET = "nondeterministic repetitions"
COLLISION = "Collision in measurement key map"


def _nested_ops(circuit):
    for o in circuit.all_operations():
        u = o.untagged
        if isinstance(u, (cirq.ClassicallyControlledOperation, cirq.If)):
            u = u.without_classical_controls().untagged
        if isinstance(u, CO):
            yield u


def _key_count(sp):
    items = U.unroll_spec(U.Spec(circuit=sp.circuit, key_map=dict(sp.key_map), parent_path=sp.parent_path,
                                 repetition_ids=sp.repetition_ids, use_repetition_ids=sp.use_repetition_ids,
                                 repetitions=sp.repetitions if not isinstance(sp.repetitions, sympy.Basic) else 1)) \
        if sp.repeat_until is None else U.unroll_spec(U.Spec(circuit=sp.circuit, key_map=dict(sp.key_map), parent_path=sp.parent_path, repeat_until=sp.repeat_until))
    return len(set(U.measured_keys(items)) | set(U.external_control_keys(items)))


def nested_key_collision(circuit, kmap) -> bool:
    """True iff pushing `kmap` (name -> name) into a nested operation changes its number of distinct keys:
    the documented ValueError of CircuitOperation.with_measurement_key_mapping."""
    for y in _nested_ops(circuit):
        sp = U.spec_of(y)
        names = _touched_names(sp.circuit)
        if sp.repeat_until is not None:
            names |= {k.name for k in sp.repeat_until.keys}
        comp = {}
        for nm in names:
            v = sp.key_map.get(nm, nm)
            v = kmap.get(v, v)
            if v != nm:
                comp[nm] = v
        try:
            if kmap and _key_count(sp) != _key_count(U.Spec(**{**sp.__dict__, "key_map": comp})):
                return True
        except U.UnrollError:
            return True
        if nested_key_collision(sp.circuit, comp):
            return True
    return False


def check_static(make, spec, label):
    """The operation's own protocol answers against the reference flat program.  Returns (op, items, nleaves)."""
    op, ans = observe_twice(make)
    circuit = spec.circuit
    if any(x[0] == "raise" and COLLISION in x[2] for x in ans.values()):
        if nested_key_collision(circuit, spec.key_map):
            raise Rejected()  # a nested operation rejects the (colliding) key map: documented ValueError
    symbolic = isinstance(spec.repetitions, sympy.Basic)
    try:
        if symbolic:
            items = U.single_iteration(spec)
            zero = False
        else:
            items = U.unroll_spec(spec)
            zero = int(spec.repetitions) == 0
    except ValueError as e:
        if "Duplicate qids" not in str(e):
            raise
        # the qubit maps of the nesting levels compose to a non-injective map: the documented
        # "Collision in qubit map composition" ValueError of with_qubit_mapping, raised when the body is mapped
        x = ans["mapped_circuit_deep"]
        if x[0] == "raise" and x[1] == "ValueError":
            raise Rejected()
        raise Viol(f"{label}: the composed qubit map is not injective ({e}) but mapped_circuit gives {x[0]}\n{op!r}", kind="static", observer="qubit_collision")
    one = U.single_iteration(spec) if zero else items
    lv = U.leaves(items)
    loop = U.has_loop(items)

    def fail(what, got, want, **sig):
        raise Viol(f"{label}: {what} = {got}, flat program says {want}\nflat program: {fmt_ops(lv)}\n{op!r}", kind="static", observer=what, **sig)

    # qubits / shape
    want_q = tuple(spec.qubit_map.get(q, q) for q in sorted(circuit.all_qubits()))
    if ans["qubits"] != ("ok", want_q):
        fail("qubits", ans["qubits"], want_q)
    if ans["qid_shape"] != ("ok", tuple(q.dimension for q in want_q)):
        fail("qid_shape", ans["qid_shape"], tuple(q.dimension for q in want_q))
    used = {q for o in lv for q in o.qubits}
    if not used <= set(want_q) or (not zero and used != set(want_q)):
        raise core.HarnessError(f"reference flat program acts on {used}, operation on {want_q}")
    # keys
    want_keys = frozenset(U.measured_keys(items))
    keys_1 = frozenset(U.measured_keys(one))
    ka = ans["measurement_key_objs"]
    if symbolic and spec.use_repetition_ids and keys_1:
        if not (ka[0] == "raise" and NONDET in ka[2]) and ka != ("ok", want_keys):
            fail("measurement_key_objs", ka, "ValueError(nondeterministic) or " + str(sorted(map(str, want_keys))))
    elif zero:
        if ka[0] != "ok" or not (want_keys <= ka[1] <= keys_1):
            fail("measurement_key_objs", ka, sorted(map(str, want_keys)))
    else:
        if ka != ("ok", want_keys):
            fail("measurement_key_objs", ka if ka[0] != "ok" else sorted(map(str, ka[1])), sorted(map(str, want_keys)))
    kn = ans["measurement_key_names"]
    if ka[0] == "ok" and kn != ("ok", frozenset(str(x) for x in ka[1])):
        fail("measurement_key_names", kn, sorted(str(x) for x in ka[1]))
    im = ans["is_measurement"]
    want_im = bool(keys_1)
    if im != ("ok", want_im):
        fail("is_measurement", im, want_im)
    # control keys
    want_c = U.external_control_keys(items)
    ca = ans["control_keys"]
    if zero:
        if ca[0] != "ok" or not (ca[1] <= U.external_control_keys(one)):
            fail("control_keys", ca, sorted(map(str, want_c)))
    elif ca != ("ok", want_c):
        fail("control_keys", ca if ca[0] != "ok" else sorted(map(str, ca[1])), sorted(map(str, want_c)))
    # parameters
    want_p = set(U.parameter_names(one))
    if symbolic:
        want_p |= {str(x) for x in spec.repetitions.free_symbols}
    pa = ans["parameter_names"]
    if pa != ("ok", frozenset(want_p)) and pa != ("ok", want_p):
        fail("parameter_names", pa, sorted(want_p))
    if ans["is_parameterized"] != ("ok", bool(want_p)):
        fail("is_parameterized", ans["is_parameterized"], bool(want_p))
    # unitary
    all_unitary = (not loop) and (not symbolic) and not U.parameter_names(items) and all(cirq.has_unitary(o) for o in lv)
    body_unitary = not U.parameter_names(one) and all(cirq.has_unitary(o) for o in U.leaves(one))
    if zero and not body_unitary:
        pass  # a non-unitary / parameterized body repeated zero times: both answers are acceptable
    else:
        if ans["has_unitary"] != ("ok", all_unitary):
            fail("has_unitary", ans["has_unitary"], all_unitary)
        if all_unitary:
            uref = reference_unitary(lv, want_q)
            ua = ans["unitary"]
            if ua[0] != "ok":
                raise Viol(f"{label}: cirq.unitary(op) raises {ua[1]}: {ua[2]} although the flat program {fmt_ops(lv)} has a unitary\n{op!r}",
                           kind="unitary_raises", exc=ua[1], base_qubits=len(want_q))
            if ua[1].shape != uref.shape or not np.allclose(ua[1], uref, atol=1e-8):
                raise Viol(f"{label}: cirq.unitary(op) differs from the product of the flat program {fmt_ops(lv)} (max dev {np.abs(ua[1]-uref).max():.3g})\n{op!r}",
                           kind="unitary_value")
            # the operation inside a circuit (decomposition / apply_unitary route); circuit order = sorted qubits
            order = sorted(want_q)
            uc = cirq.unitary(cirq.Circuit(op), ) if want_q else None
            if uc is not None:
                urefc = reference_unitary(lv, order)
                if not np.allclose(uc, urefc, atol=1e-8):
                    raise Viol(f"{label}: cirq.unitary(Circuit(op)) differs from the flat program {fmt_ops(lv)}\n{op!r}", kind="unitary_value")
        elif ans["unitary"][0] == "ok":
            raise Viol(f"{label}: cirq.unitary(op) returned a matrix but the flat program {fmt_ops(lv)} is not unitary\n{op!r}", kind="unitary_value")
    # flat routes
    if loop or symbolic:
        for nm in ("mapped_circuit_deep", "decompose"):
            x = ans[nm]
            if not (x[0] == "raise" and x[1] == "ValueError" and NONDET in x[2]):
                raise Viol(f"{label}: {nm} of an operation with an undetermined loop count gives {x}\n{op!r}", kind="route", route=nm)
    else:
        routes = [("mapped_circuit_deep", ans["mapped_circuit_deep"]), ("decompose", ans["decompose"])]
        for nm, fn in (("unroll_circuit_op", cirq.unroll_circuit_op), ("unroll_circuit_op_greedy_earliest", cirq.unroll_circuit_op_greedy_earliest),
                       ("unroll_circuit_op_greedy_frontier", cirq.unroll_circuit_op_greedy_frontier)):
            routes.append((nm, _ask(lambda: list(fn(cirq.Circuit(op), deep=True, tags_to_check=None).all_operations()))))
        for nm, x in routes:
            if x[0] != "ok":
                raise Viol(f"{label}: route {nm} raises {x[1]}: {x[2]}\n{op!r}", kind="route", route=nm)
            got = finish(x[1])
            msg = compare_programs(lv, got)
            if msg:
                raise Viol(f"{label}: route {nm}: {msg}\nroute:     {fmt_ops(got)}\nreference: {fmt_ops(lv)}\n{op!r}", kind="route", route=nm,
                           diff=classify_difference(lv, got))
    return op, items, len(lv)


def check_attributes(op, spec, label):
    got = U.spec_of(op)
    bad_ = []
    if got.circuit != spec.circuit:
        bad_.append("circuit")
    if got.repetitions != spec.repetitions:
        bad_.append(f"repetitions={got.repetitions}")
    if got.qubit_map != spec.qubit_map:
        bad_.append(f"qubit_map={got.qubit_map}")
    if got.key_map != spec.key_map:
        bad_.append(f"measurement_key_map={got.key_map}")
    if cirq.ParamResolver(got.params) != cirq.ParamResolver(spec.params):
        bad_.append(f"param_resolver={got.params}")
    if got.parent_path != spec.parent_path:
        bad_.append(f"parent_path={got.parent_path}")
    if got.use_repetition_ids != spec.use_repetition_ids:
        bad_.append(f"use_repetition_ids={got.use_repetition_ids}")
    if got.repeat_until != spec.repeat_until:
        bad_.append(f"repeat_until={got.repeat_until}")
    if not isinstance(spec.repetitions, sympy.Basic):
        want_ids = [x for x in U.iteration_ids(spec, abs(int(spec.repetitions)))]
        have = got.repetition_ids
        if spec.use_repetition_ids and any(x is not None for x in want_ids) and list(have or []) != want_ids:
            bad_.append(f"repetition_ids={have} (documented {want_ids})")
    if bad_:
        raise Viol(f"{label}: attributes do not round-trip: {bad_}\n{op!r}", kind="attributes")


def to_res(fn):
    def run(case):
        try:
            return fn(case)
        except Rejected:
            return Res(skipped=True, nontrivial=False)
        except Viol as v:
            return bad(v.msg, **v.sig)
    return run


# ------------------------------------------------------------------------------------------------
# stage: self-test of the reference unroller


def run_selftest(case):
    try:
        U.self_test()
    except AssertionError as e:
        raise core.HarnessError(f"reference unroller self-test failed: {e!r}")
    return good(nontrivial=True)


# ------------------------------------------------------------------------------------------------
# stage: full wrapper product, one level


def run_product(case):
    base_i, opts = case
    circ = _B[base_i][1]
    op, spec, kw = construct(circ, opts)
    label = f"{BASE_NAMES[base_i]} {describe_opts(opts)}"
    check_attributes(op, spec, label)
    op, items, nl = check_static(lambda: CO(circ, **kw), spec, label)
    extra = 0
    if isinstance(spec.repetitions, sympy.Basic):
        # symbol r resolved to 2 (and to a float within 0.001 of 2): must equal the direct repetitions=2 operation
        for val in (2, 2.0):
            spec2 = U.Spec(**{**spec.__dict__, "repetitions": 2})
            mk = lambda: cirq.resolve_parameters(CO(circ, **kw), {"r": val})
            check_static(mk, spec2, label + f" resolved r->{val}")
            extra += 1
    return good(nontrivial=nl >= 2, configs=1 + extra)


def product_cases(tier):
    out = []
    quick = tier == "quick"
    for bi, name in enumerate(BASE_NAMES):
        circ = _B[bi][1]
        has_par = bool(cirq.parameter_names(circ))
        has_keys = bool(cirq.measurement_key_objs(circ)) or bool(cirq.control_keys(circ))
        has_t = t in circ.all_qubits()
        if quick:
            reps = [0, 1, 4, 5, 6, 7] if name in ("u1", "u1gp", "u1par", "u2", "u2par", "ctrl_outer") else [0, 1, 2, 4, 6, 7]
            uses = [0, 1, 2]
            idss = [0, 1] if name not in ("meas",) else [0, 1, 2]
            qms = ([0, 3, 4] if has_t else [0, 1, 4]) if name not in ("u2", "meas_ctrl") else [0, 1, 2, 4]
            kms = ([0, 1, 2, 3] if name in ("meas_ctrl", "shadow", "sympy2") else [0, 1]) if has_keys else [0, 3]
            if name == "sympy2":
                kms = [0, 1, 4]
            pps = [0, 1]
            prs = [0, 1, 2, 4] if has_par else [0]
            uts = ([0, 1] if name not in ("loopbody", "sympy2") else [0, 1, 2, 3]) if has_keys else [0]
            if name in ("twice", "indexed", "bitmask", "if_op", "cco_sub", "pathkey", "qutrit", "nested", "pathkey_pp", "siblings", "cco_sub_ctrl", "if_sub_ctrl"):
                reps, uses, idss, qms = [0, 1, 6], [1, 2], [0], [0, 1 if not has_t else 3]
        else:
            reps = list(range(len(REPS)))
            uses = [0, 1, 2]
            idss = [0, 1, 2]
            qms = [0, 1, 2, 3, 4] if has_t else [0, 1, 2, 4]
            kms = [0, 1, 2, 3, 4] if has_keys else [0, 1, 3]
            pps = [0, 1]
            prs = [0, 1, 2, 3, 4, 5] if has_par else [0, 1]
            uts = [0, 1, 2, 3] if has_keys else [0, 1]
        for opts in itertools.product(reps, uses, idss, qms, kms, pps, prs, uts):
            out.append((bi, opts))
    out.sort(key=lambda cs: sum(1 for x in cs[1] if x))
    return out


def describe_product(case):
    return {"base": BASE_NAMES[case[0]], **describe_opts(case[1])}


# ------------------------------------------------------------------------------------------------
# stage: nesting


def run_nested(case):
    node = case
    op, spec = build_node(node)
    base_i, levels = node
    label = str(describe_node(node))

    def make():
        return build_node(node)[0]

    op, items, nl = check_static(make, spec, label)
    return good(nontrivial=nl >= 2 and len(levels) >= 2, max_depth=len(levels))


def _opts(reps=0, use=2, ids=0, qm=0, km=0, pp=0, par=0, until=0):
    return (reps, use, ids, qm, km, pp, par, until)


def nested_cases(tier):
    quick = tier == "quick"
    out = []
    R1, R2, RM1, RM2, R0 = 0, 1, 4, 5, 2
    for bi, name in enumerate(BASE_NAMES):
        circ = _B[bi][1]
        has_par = bool(cirq.parameter_names(circ))
        has_keys = bool(cirq.measurement_key_objs(circ)) or bool(cirq.control_keys(circ))
        has_t = t in circ.all_qubits()
        unit = not has_keys
        swap = 3 if has_t else 1
        if quick:
            inner_reps = [R1, R2] + ([RM1] if unit else [])
            inner = [_opts(reps=rp, use=u, pp=p, km=km, qm=qm, par=pa)
                     for rp in inner_reps for u in ((1, 2) if not unit else (2,)) for p in ((0, 1) if not unit else (0,))
                     for km in ((0, 1) if has_keys else (0,)) for qm in ((0, swap) if unit or name == "meas_ctrl" else (0,)) for pa in ((0, 2) if has_par else (0,))]
            outer = [_opts(reps=rp, use=u, pp=p, km=km, qm=qm, par=pa)
                     for rp in ([R1, R2] + ([RM2] if unit else [])) for u in ((1, 2) if not unit else (2,)) for p in ((0, 2) if not unit else (0,))
                     for km in ((0, 1, 2) if has_keys else (0,)) for qm in ((0, swap) if unit else (0,)) for pa in ((0, 5) if has_par else (0,))]
            tmpls = [0, 1, 2] if has_keys else [0]
            if name in ("indexed", "bitmask", "if_op", "cco_sub", "qutrit", "twice", "pathkey", "sympy2", "pathkey_pp", "siblings", "cco_sub_ctrl", "if_sub_ctrl"):
                inner = [o for o in inner if o[3] == 0 and o[4] == 0]
                outer = [o for o in outer if o[4] in (0, 1)]
        else:
            inner = [_opts(reps=rp, use=u, ids=i_, pp=p, km=km, qm=qm, par=pa)
                     for rp in ([R1, R2, RM1] if unit else [R1, R2]) for u in ((1, 2) if not unit else (2,)) for i_ in ((0, 1) if not unit else (0,))
                     for p in ((0, 1) if not unit else (0,))
                     for km in ((0, 1, 2) if has_keys else (0,)) for qm in ((0, swap, 2) if unit else (0, swap)) for pa in ((0, 2, 4) if has_par else (0,))]
            inner = [o for o in inner if not (o[1] == 2 and o[2] == 1)]
            if has_keys and name not in ("meas", "meas_ctrl", "ctrl_outer", "shadow", "loopbody"):
                inner = [o for o in inner if o[2] == 0 and o[3] == 0 and o[4] in (0, 1)]
            outer = [_opts(reps=rp, use=u, pp=p, km=km, qm=qm, par=pa)
                     for rp in ([R1, R2, RM2, R0] if unit else [R1, R2, R0]) for u in ((1, 2) if not unit else (2,)) for p in ((0, 2) if not unit else (0,))
                     for km in ((0, 1, 2) if has_keys else (0,)) for qm in ((0, swap) if unit else (0,)) for pa in ((0, 5, 2) if has_par else (0,))]
            tmpls = [0, 1, 2] if has_keys else [0]
        for o1 in inner:
            for tj in tmpls:
                for o2 in outer:
                    out.append((bi, ((o1, 0), (o2, tj))))
    # depth 3 on a reduced product
    lv3 = [_opts(), _opts(reps=R2, use=1), _opts(reps=R2, use=2), _opts(pp=1), _opts(km=1), _opts(reps=R2, use=1, pp=2, km=2)]
    names3 = ["meas_ctrl", "shadow", "ctrl_outer"] if quick else ["meas", "meas_ctrl", "ctrl_outer", "shadow", "nested", "sympy2", "siblings"]
    l3 = lv3[:4] if quick else lv3[:5]
    for name in names3:
        for o1 in l3:
            for o2 in l3:
                for o3 in l3:
                    for tj2 in (1, 2):
                        for tj3 in ((1,) if quick else (0, 1, 2)):
                            out.append((BI[name], ((o1, 0), (o2, tj2), (o3, tj3))))
    if not quick:
        for name in ("u1par", "u2", "u2par", "u1gp"):
            circ = _B[BI[name]][1]
            has_par = bool(cirq.parameter_names(circ))
            u3 = [_opts(), _opts(reps=RM1), _opts(reps=R2, qm=1), _opts(reps=RM2, qm=2)] + ([_opts(par=2), _opts(par=4), _opts(par=5, reps=RM1)] if has_par else [])
            for o1 in u3:
                for o2 in u3:
                    for o3 in u3:
                        out.append((BI[name], ((o1, 0), (o2, 0), (o3, 0))))
    return out


# ------------------------------------------------------------------------------------------------
# stage: constructor paths


def _norm_qmap(circuit, f):
    return {q: f(q) for q in circuit.all_qubits() if f(q) != q}


PATHS = ["repeat", "pow", "repeat_twice", "repeat_ids", "with_qubits", "with_qubits_over_map", "qubit_mapping_twice", "qubit_mapping_callable",
         "qubit_mapping_collision", "with_key_path", "with_key_path_prefix", "key_mapping_twice", "key_mapping_collision", "with_params_twice",
         "with_params_recursive", "with_repetition_ids", "replace_fields", "resolve_parameters", "with_rescoped_keys", "mapped_op", "transform_qubits",
         "key_mapping_loop_condition"]

CP_STARTS = [  # starting options (kwargs) the path is applied on
    {},
    {"repetitions": 2},
    {"repetitions": 2, "use_repetition_ids": True},
    {"repetitions": 2, "repetition_ids": ["x0", "x1"]},
    {"parent_path": ("p",)},
    {"measurement_key_map": {"m": "n"}},
    {"qubit_map": "swap"},
    {"param_resolver": "s->tt"},
    {"repetitions": -1},
    {"repetitions": 2, "use_repetition_ids": True, "parent_path": ("p",), "measurement_key_map": {"m": "n"}, "qubit_map": "swap"},
]


def _start_kwargs(si, circ):
    kw = dict(CP_STARTS[si])
    has_t = t in circ.all_qubits()
    if kw.get("qubit_map") == "swap":
        kw["qubit_map"] = {t: t2} if has_t else {a: b, b: a}
    if kw.get("param_resolver") == "s->tt":
        kw["param_resolver"] = {s: tt}
    return kw


def _spec_from_kwargs(circ, kw):
    ids = kw.get("repetition_ids")
    use = kw.get("use_repetition_ids")
    use = use if use is not None else ids is not None
    return U.Spec(circuit=circ, repetitions=kw.get("repetitions", 1), qubit_map=dict(kw.get("qubit_map", {})), key_map=dict(kw.get("measurement_key_map", {})),
                  params=dict(kw.get("param_resolver", {})), parent_path=tuple(kw.get("parent_path", ())), repetition_ids=ids, use_repetition_ids=use,
                  repeat_until=kw.get("repeat_until"))


def run_paths(case):
    base_i, si, pname = case
    circ = _B[base_i][1]
    kw = _start_kwargs(si, circ)
    try:
        start = CO(circ, **kw)
    except ValueError:
        return Res(skipped=True, nontrivial=False)  # e.g. negative repetitions on a measuring base
    qs = sorted(circ.all_qubits())
    fresh = [cirq.LineQid(30 + i, dimension=q.dimension) if q.dimension != 2 else cirq.LineQubit(30 + i) for i, q in enumerate(qs)]
    label = f"{BASE_NAMES[base_i]} start={CP_STARTS[si]} path={pname}"
    kw2 = dict(kw)
    expect_exc = None
    seq_resolvers = None  # (resolver, recursive) steps applied one after the other at the leaves
    n0 = abs(kw.get("repetitions", 1))
    if pname == "repeat":
        f = lambda: start.repeat(3)
        kw2["repetitions"] = kw.get("repetitions", 1) * 3
        if "repetition_ids" in kw:
            kw2["repetition_ids"] = [f"{i}-{x}" for i in range(3) for x in kw["repetition_ids"]]
        elif kw.get("use_repetition_ids"):
            kw2["repetition_ids"] = [f"{i}-{x}" for i in range(3) for x in [str(j) for j in range(n0)]] if n0 != 1 else None
    elif pname == "pow":
        f = lambda: start ** -1 if invertible(circ) else start ** 2
        mul = -1 if invertible(circ) else 2
        kw2["repetitions"] = kw.get("repetitions", 1) * mul
        if mul == 2:
            if "repetition_ids" in kw:
                kw2["repetition_ids"] = [f"{i}-{x}" for i in range(2) for x in kw["repetition_ids"]]
            elif kw.get("use_repetition_ids") and n0 != 1:
                kw2["repetition_ids"] = [f"{i}-{j}" for i in range(2) for j in range(n0)]
    elif pname == "repeat_twice":
        f = lambda: start.repeat(2).repeat(1).repeat(repetition_ids=["u", "v", "w"])
        kw2["repetitions"] = kw.get("repetitions", 1) * 6
        if "repetition_ids" in kw:
            inner = [f"{i}-{x}" for i in range(2) for x in kw["repetition_ids"]]
        elif kw.get("use_repetition_ids"):
            inner = [f"{i}-{j}" for i in range(2) for j in range(n0)] if n0 != 1 else ["0", "1"]
        else:
            inner = None
        kw2["repetition_ids"] = [f"{o}-{x}" for o in "uvw" for x in inner] if inner is not None else None
        if inner is None:
            # "If the base operation has unset repetition_ids ... the input repetition_ids are directly used": length must match
            expect_exc = ValueError if abs(kw2["repetitions"]) != 3 else None
            kw2["repetition_ids"] = ["u", "v", "w"]
    elif pname == "repeat_ids":
        f = lambda: start.repeat(repetition_ids=["u", "v"])
        kw2["repetitions"] = kw.get("repetitions", 1) * 2
        if "repetition_ids" in kw:
            kw2["repetition_ids"] = [f"{o}-{x}" for o in "uv" for x in kw["repetition_ids"]]
        elif kw.get("use_repetition_ids") and n0 != 1:
            kw2["repetition_ids"] = [f"{o}-{j}" for o in "uv" for j in range(n0)]
        else:
            kw2["repetition_ids"] = ["u", "v"]
            if abs(kw2["repetitions"]) != 2:
                expect_exc = ValueError
        kw2.pop("use_repetition_ids", None)
    elif pname == "with_qubits":
        f = lambda: start.with_qubits(*fresh)
        kw2["qubit_map"] = dict(zip(qs, fresh))
    elif pname == "with_qubits_over_map":
        f = lambda: start.with_qubits(*fresh).with_qubits(*reversed(fresh)) if len({q.dimension for q in qs}) == 1 else start.with_qubits(*fresh).with_qubits(*fresh)
        tgt = list(reversed(fresh)) if len({q.dimension for q in qs}) == 1 else fresh
        kw2["qubit_map"] = dict(zip(qs, tgt))
    elif pname in ("qubit_mapping_twice", "qubit_mapping_callable"):
        m0 = kw.get("qubit_map", {})
        m1 = {m0.get(qs[0], qs[0]): fresh[0]}
        m2 = {fresh[0]: fresh[-1] if fresh[-1].dimension == fresh[0].dimension else fresh[0], **({m0.get(qs[-1], qs[-1]): qs[0]} if len(qs) > 1 and qs[-1].dimension == qs[0].dimension else {})}
        if pname == "qubit_mapping_twice":
            f = lambda: start.with_qubit_mapping(m1).with_qubit_mapping(m2)
        else:
            f = lambda: start.with_qubit_mapping(lambda q: m1.get(q, q)).with_qubit_mapping(lambda q: m2.get(q, q))
        def comp(q):
            for mm in (m0, m1, m2):
                q = mm.get(q, q)
            return q
        kw2["qubit_map"] = _norm_qmap(circ, comp)
        if len({comp(q) for q in qs}) != len(qs):
            expect_exc = ValueError
    elif pname == "qubit_mapping_collision":
        if len(qs) < 2 or qs[0].dimension != qs[1].dimension:
            return Res(skipped=True, nontrivial=False)
        m0 = kw.get("qubit_map", {})
        f = lambda: start.with_qubit_mapping({m0.get(qs[0], qs[0]): m0.get(qs[1], qs[1])})
        expect_exc = ValueError
    elif pname == "with_key_path":
        f = lambda: cirq.with_key_path(start, ("z", "y")) if si % 2 else start.with_key_path(("z", "y"))
        kw2["parent_path"] = ("z", "y")
    elif pname == "with_key_path_prefix":
        f = lambda: cirq.with_key_path_prefix(cirq.with_key_path_prefix(start, ("y",)), ("z",))
        kw2["parent_path"] = ("z", "y") + tuple(kw.get("parent_path", ()))
    elif pname == "key_mapping_twice":
        k0 = kw.get("measurement_key_map", {})
        k1 = {"m": "n", "n": "m", "k": "k2"}
        k2 = {"n": "w", "k2": "k3"}
        f = lambda: cirq.with_measurement_key_mapping(start.with_measurement_key_mapping(k1), k2)
        names = _touched_names(circ)
        comp = {}
        for nm in names:
            v = k0.get(nm, nm)
            v = k1.get(v, v)
            v = k2.get(v, v)
            if v != nm:
                comp[nm] = v
        kw2["measurement_key_map"] = comp
        mid = {}
        for nm in names:
            v = k1.get(k0.get(nm, nm), k0.get(nm, nm))
            if v != nm:
                mid[nm] = v
        counts = [_touched_count(circ, dict(kw, measurement_key_map=mp)) for mp in (k0, mid, comp)]
        if len(set(counts)) != 1:
            expect_exc = ValueError
    elif pname == "key_mapping_collision":
        names = sorted(_touched_names(circ))
        if len(names) < 2:
            return Res(skipped=True, nontrivial=False)
        k0 = kw.get("measurement_key_map", {})
        extra = {k0.get(names[0], names[0]): k0.get(names[1], names[1])}
        f = lambda: start.with_measurement_key_mapping(extra)
        comp = {}
        for nm in _touched_names(circ):
            v = extra.get(k0.get(nm, nm), k0.get(nm, nm))
            if v != nm:
                comp[nm] = v
        kw2["measurement_key_map"] = comp
        if _touched_count(circ, kw) != _touched_count(circ, kw2):
            expect_exc = ValueError
    elif pname in ("with_params_twice", "with_params_recursive"):
        p0 = kw.get("param_resolver", {})
        p1 = {s: tt + 1, tt: s2}
        p2 = {tt: 0.5, s2: s, s: 0.125}
        rec = pname == "with_params_recursive"
        f = lambda: start.with_params(p1).with_params(p2, recursive=rec)
        seq_resolvers = [(p0, False), (p1, False), (p2, rec)]
        comp = {}
        for sym in cirq.parameter_symbols(circ):
            v = cirq.ParamResolver(p0).value_of(sym, recursive=False)
            v = cirq.resolve_parameters(v, p1, recursive=False)
            v = cirq.resolve_parameters(v, p2, recursive=rec)
            if v != sym:
                comp[sym] = v
        kw2["param_resolver"] = comp
    elif pname == "with_repetition_ids":
        ids = [f"w{j}" for j in range(n0)]
        f = lambda: start.with_repetition_ids(ids)
        kw2["repetition_ids"] = ids
        kw2.pop("use_repetition_ids", None)
    elif pname == "replace_fields":
        f = lambda: start.replace(parent_path=("z",)).replace(measurement_key_map={"m": "w"}).replace(repetitions=kw.get("repetitions", 1))
        kw2["parent_path"] = ("z",)
        kw2["measurement_key_map"] = {"m": "w"}
    elif pname == "resolve_parameters":
        p0 = kw.get("param_resolver", {})
        res = {s: tt, tt: 0.5}
        f = lambda: cirq.resolve_parameters(start, res)
        seq_resolvers = [(p0, False), (res, True)]
        comp = {}
        for sym in cirq.parameter_symbols(circ):
            v = cirq.ParamResolver(p0).value_of(sym, recursive=False)
            v = cirq.resolve_parameters(v, res, recursive=True)
            if v != sym:
                comp[sym] = v
        if U.parameter_names(U.single_iteration(_spec_from_kwargs(circ, kw))):
            kw2["param_resolver"] = comp
        # else: nothing to resolve, cirq.resolve_parameters may return the operation unchanged
    elif pname == "with_rescoped_keys":
        f = lambda: cirq.with_rescoped_keys(start, ("z",))
        kw2["parent_path"] = ("z",) + tuple(kw.get("parent_path", ()))
    elif pname == "mapped_op":
        spec0 = _spec_from_kwargs(circ, kw)
        items0 = U.unroll_spec(spec0)
        lv0 = U.leaves(items0)
        got = _ask(lambda: start.mapped_op(deep=True))
        if got[0] != "ok":
            raise Viol(f"{label}: mapped_op raises {got}", kind="paths", path=pname)
        mo = got[1]
        msg = compare_programs(lv0, finish(list(mo.circuit.all_operations())))
        if msg or dict(mo.qubit_map) or dict(mo.measurement_key_map) or mo.repetitions != 1 or mo.parent_path:
            raise Viol(f"{label}: mapped_op(deep=True) is not the bare flat program: {msg}\n{mo!r}", kind="paths", path=pname)
        return good(nontrivial=len(lv0) >= 2)
    elif pname == "transform_qubits":
        # the generic Operation.transform_qubits / Circuit.transform_qubits route
        mp = dict(zip([kw.get("qubit_map", {}).get(q, q) for q in qs], fresh))
        f = lambda: next(iter(cirq.Circuit(start).transform_qubits(lambda q: mp.get(q, q)).all_operations()))
        kw2["qubit_map"] = dict(zip(qs, fresh))
    elif pname == "key_mapping_loop_condition":
        if BASE_NAMES[base_i] not in ("loopbody", "meas", "meas_ctrl", "sympy2") or kw.get("repetitions", 1) != 1 or kw.get("use_repetition_ids") or "repetition_ids" in kw:
            return Res(skipped=True, nontrivial=False)
        cond = cirq.SympyCondition(sympy.Eq(m_, sympy.Symbol("ext")))
        kw = dict(kw, repeat_until=cond)
        start = CO(circ, **kw)
        k0 = kw.get("measurement_key_map", {})
        f = lambda: cirq.with_measurement_key_mapping(start, {"ext": "ext2", k0.get("m", "m"): "mm"})
        names = _touched_names(circ) | {"ext"}
        comp = {}
        for nm in names:
            v = k0.get(nm, nm)
            v = {"ext": "ext2", k0.get("m", "m"): "mm"}.get(v, v)
            if v != nm:
                comp[nm] = v
        kw2 = dict(kw, measurement_key_map=comp)
    else:
        raise core.HarnessError(pname)
    got = _ask(f)
    if expect_exc is not None:
        if got[0] == "raise" and got[1] == expect_exc.__name__:
            return Res(skipped=True, nontrivial=False)
        raise Viol(f"{label}: expected {expect_exc.__name__} (documented collision / length mismatch), got {got}", kind="paths", path=pname)
    if got[0] != "ok":
        raise Viol(f"{label}: raises {got[1]}: {got[2]}", kind="paths", path=pname)
    op = got[1]
    if not isinstance(op, CO):
        raise Viol(f"{label}: returned {type(op).__name__}", kind="paths", path=pname)
    kw2 = {k: v for k, v in kw2.items() if v is not None}
    direct = CO(circ, **kw2)
    spec = _spec_from_kwargs(circ, kw2)
    # behaviour first (semantic), then equality with the single composed call
    check_static(f, spec, label)
    if seq_resolvers is not None and not isinstance(spec.repetitions, sympy.Basic):
        # independent of any composed resolver: resolve the leaves of the un-parameterized flat program step by step
        lv_seq = []
        for leaf in U.leaves(U.unroll_spec(_spec_from_kwargs(circ, {k: v for k, v in kw.items() if k != "param_resolver"}))):
            for res_, rec_ in seq_resolvers:
                if res_:
                    leaf = cirq.resolve_parameters(leaf, res_, recursive=rec_)
            lv_seq.append(leaf)
        msg = compare_programs(lv_seq, finish(list(op.mapped_circuit(deep=True).all_operations())))
        if msg:
            raise Viol(f"{label}: parameters resolved step by step at the leaves differ from the composed resolver: {msg}\n{op!r}", kind="paths", path=pname)
    if not (op == direct):
        raise Viol(f"{label}: composition is not == the single composed call\n composed: {op!r}\n direct:   {direct!r}", kind="paths_eq", path=pname)
    if hash(op) != hash(direct):
        raise Viol(f"{label}: equal operations hash differently\n{op!r}", kind="paths_eq", path=pname)
    return good(nontrivial=True)


def _touched_names(circ):
    """Names of all keys measured or read anywhere in the circuit (nested operations after their own maps)."""
    names = set()
    for o in U.leaves(U.unroll_circuit(circ)):
        names |= {k.name for k in cirq.measurement_key_objs(o)} | {k.name for k in cirq.control_keys(o)}
    return names


def _touched_count(circ, kw):
    """Number of distinct full keys measured or read by the operation ("number of measurement keys")."""
    keys = set()
    for o in U.leaves(U.unroll_spec(_spec_from_kwargs(circ, kw))):
        keys |= set(cirq.measurement_key_objs(o)) | set(cirq.control_keys(o))
    return len(keys)


def paths_cases(tier):
    out = []
    for bi, name in enumerate(BASE_NAMES):
        for si in range(len(CP_STARTS)):
            for p in PATHS:
                out.append((bi, si, p))
    return out


def describe_paths(case):
    return {"base": BASE_NAMES[case[0]], "start": str(CP_STARTS[case[1]]), "path": case[2]}


# ------------------------------------------------------------------------------------------------
# stage: simulation of (context o op) on the real simulators, all PRNG paths

CONTEXTS = ["alone", "after_outer_measure", "followed_by_outer_control", "both"]
SIMS = ["sv", "dm"]


class Cut(Exception):
    pass


class BudgetRandom(ScriptedRandomState):
    """Scripted PRNG that aborts the run when more than `budget` draws are requested."""

    def __init__(self, chooser, budget):
        super().__init__(chooser)
        self.budget = budget
        self.draws = 0

    def choice(self, a_, size=None, replace=True, p=None):
        self.draws += 1
        if self.budget is not None and self.draws > self.budget:
            raise Cut()
        return ScriptedRandomState.choice(self, a_, size=size, replace=replace, p=p)


def context_circuit(ctx, op, items):
    """One operation per moment so that the top-level program order is unambiguous."""
    need = sorted({str(k) for k in U.external_control_keys(items)})
    pre = []
    if ctx in (1, 3):
        need = sorted(set(need) | {"m"})
    used = set()
    for key in need:
        dims = None
        for x in U.leaves(items):
            if any(str(k) == key for k in cirq.measurement_key_objs(x)):
                dims = tuple(q.dimension for q in x.qubits)
        probe = _probe_qids(dims, 0, 1)
        o = probe[0]
        if o not in used:
            pre.append(_shift(o))  # every outer record is a deterministic non-zero value
            used.add(o)
        pre.append(cirq.measure(*probe, key=cirq.MeasurementKey.parse_serialized(key)))
    post = []
    if ctx in (2, 3):
        g = core.generic(_G, 5)
        keys = sorted({str(k) for k in U.measured_keys(items)})
        o = OUTQ[6]
        for i_, key in enumerate(keys):
            post.append((cirq.X(o) ** (g + 0.5 * i_)).with_classical_controls(cirq.MeasurementKey.parse_serialized(key)))
    return cirq.Circuit([cirq.Moment([x]) for x in pre + [op] + post])


def canon_records(records):
    return tuple(sorted((k, tuple(tuple(int(x) for x in inst) for inst in v[0])) for k, v in records.items()))


def reference_distribution(items, qs, budget):
    """-> ({canon record: (p, rho)}, {last-instance record: (p, rho)}, cut mass, number of expansions)."""
    full = {}
    n_exp = 0
    dims = {}
    loops = U.has_loop(items)

    def one(ch):
        return U.expand_loops(items, lambda: 1 + ch.choose(budget if budget else 1, "loop"))

    for ch, (ops, checks) in explore(one, max_paths=5000):
        n_meas = sum(1 for o in ops if cirq.measurement_key_objs(o))
        if loops and budget is not None and n_meas > budget:
            continue
        n_exp += 1
        for o in ops:
            for k in cirq.measurement_key_objs(o):
                dims[str(k)] = tuple(q.dimension for q in o.qubits)
        dist = interp.run(None, qs, ops=ops, merge=False)
        for rec, (p, rho) in dist.items():
            ok = True
            for pos, cond, want in checks:
                if interp.eval_condition(cond, rec[:pos], dims) != want:
                    ok = False
                    break
            if not ok:
                continue
            if rec in full:
                p0, r0 = full[rec]
                full[rec] = (p0 + p, (p0 * r0 + p * rho) / (p0 + p))
            else:
                full[rec] = (p, rho)
    tot = sum(p for p, _ in full.values())
    return full, 1.0 - tot, n_exp


def last_instance(rec):
    d = {}
    for k, digits in rec:
        d[k] = tuple(digits)
    return tuple(sorted(d.items()))


def regroup(dist, fn):
    out = {}
    for rec, (p, rho) in dist.items():
        key = fn(rec)
        if key in out:
            p0, r0 = out[key]
            out[key] = (p0 + p, (p0 * r0 + p * rho) / (p0 + p))
        else:
            out[key] = (p, rho)
    return out


def cmp_tables(ref, got, atol, states, what):
    kr = {k for k, (p, _) in ref.items() if p > atol}
    kg = {k for k, (p, _) in got.items() if p > atol}
    if kr != kg:
        return f"{what}: record supports differ: only reference {sorted(kr - kg)[:3]}, only implementation {sorted(kg - kr)[:3]}"
    for k in kr:
        if abs(ref[k][0] - got[k][0]) > 10 * atol:
            return f"{what}: P({k}) = {got[k][0]:.10f}, reference {ref[k][0]:.10f}"
        if states and not np.allclose(ref[k][1], got[k][1], atol=1e-6):
            return f"{what}: final state for record {k} differs from reference (max dev {np.abs(ref[k][1] - got[k][1]).max():.3g})"
    return None


def simulate_case(circ, items, qs, simkind, label):
    loops = U.has_loop(items)
    budget = None
    if loops:
        # draws allowed = those of the execution in which every loop instance of a 3-iteration unrolling runs 3 times
        ops3, _ = U.expand_loops(items, lambda: 3)
        budget = sum(1 for o in ops3 if cirq.measurement_key_objs(o))
    try:
        ref_full, ref_cut, n_exp = reference_distribution(items, qs, budget)
    except KeyError as e:
        raise core.HarnessError(f"reference program reads an unmeasured key {e}: {label}")
    ref_canon = regroup(ref_full, interp.canon_record)
    ref_last = regroup(ref_full, last_instance)
    has_meas = any(cirq.measurement_key_objs(o) for o in U.leaves(items))

    def mk(prng):
        if simkind == 0:
            return cirq.Simulator(seed=prng)
        return cirq.DensityMatrixSimulator(seed=prng)

    npaths = 0
    # (1) run(): complete records
    if has_meas:
        got = {}
        cut = 0.0

        def one_run(ch):
            prng = BudgetRandom(ch, budget)
            prng.vector_mode = "dfs"
            try:
                res = mk(prng).run(circ, repetitions=1)
            except Cut:
                return None
            rec = canon_records(res.records)
            if loops and prng.draws != sum(len(v) for _, v in rec):
                raise core.HarnessError(f"{prng.draws} PRNG draws for {sum(len(v) for _, v in rec)} measurement records: {label}")
            return rec

        for ch, rec in explore(one_run, max_paths=20000):
            npaths += 1
            if rec is None:
                cut += ch.weight
            else:
                got[rec] = got.get(rec, 0.0) + ch.weight
        if abs(sum(got.values()) + cut - 1) > 1e-6:
            raise Viol(f"{label}: run(): path weights sum to {sum(got.values()) + cut}", kind="sim", sim=SIMS[simkind])
        msg = cmp_tables({k: (p, None) for k, (p, _) in ref_canon.items()}, {k: (p, None) for k, p in got.items()}, 1e-7 if simkind == 0 else 1e-6, False, "run() records")
        if not msg and abs(cut - ref_cut) > 1e-5:
            msg = f"run(): probability mass beyond the draw budget = {cut:.8f}, reference {ref_cut:.8f}"
        if msg:
            raise Viol(f"{label}: {SIMS[simkind]} {msg}\ncircuit:\n{circ}\nflat: {fmt_ops(U.leaves(items))}", kind="sim", sim=SIMS[simkind], via="run")
    # (2) simulate(): last record per key + final state
    got2 = {}
    cut2 = 0.0

    def one_sim(ch):
        prng = BudgetRandom(ch, budget)
        try:
            res = mk(prng).simulate(circ, qubit_order=qs)
        except Cut:
            return None
        meas = tuple(sorted((k, tuple(int(x) for x in v)) for k, v in res.measurements.items()))
        if simkind == 0:
            psi = np.asarray(res.final_state_vector, dtype=np.complex128)
            rho = np.outer(psi, psi.conj())
        else:
            rho = np.asarray(res.final_density_matrix, dtype=np.complex128)
        return meas, rho

    for ch, out in explore(one_sim, max_paths=20000):
        npaths += 1
        if out is None:
            cut2 += ch.weight
            continue
        meas, rho = out
        if meas in got2:
            p0, r0 = got2[meas]
            got2[meas] = (p0 + ch.weight, r0 + ch.weight * rho)
        else:
            got2[meas] = (ch.weight, ch.weight * rho)
    got2 = {k: (p, r_ / p) for k, (p, r_) in got2.items()}
    msg = cmp_tables(ref_last, got2, 1e-7 if simkind == 0 else 1e-6, True, "simulate() measurements")
    if not msg and abs(cut2 - ref_cut) > 1e-5:
        msg = f"simulate(): probability mass beyond the draw budget = {cut2:.8f}, reference {ref_cut:.8f}"
    if msg:
        raise Viol(f"{label}: {SIMS[simkind]} {msg}\ncircuit:\n{circ}\nflat: {fmt_ops(U.leaves(items))}", kind="sim", sim=SIMS[simkind], via="simulate")
    return len(ref_canon), npaths, (ref_cut if loops else 0.0), n_exp


BASE_MEAS = {"meas": 1, "meas_ctrl": 2, "ctrl_outer": 0, "shadow": 1, "twice": 2, "qutrit": 1, "nested": 2, "sympy2": 2, "indexed": 2,
             "bitmask": 1, "if_op": 1, "cco_sub": 1, "pathkey": 3, "loopbody": 1, "pathkey_pp": 2, "siblings": 4, "cco_sub_ctrl": 2, "if_sub_ctrl": 2, "u1": 0, "u1gp": 0, "u1par": 0, "u2": 0, "u2par": 0}


def draws_of(node) -> int:
    """Number of measurement operations executed by the flat program of a (loop-free) node, from the descriptor."""
    base_i, levels = node
    mult = []
    for opts, _ in levels:
        v = REPS[opts[0]]
        mult.append(2 if v == "r" else abs(int(round(v))))
    total = BASE_MEAS[BASE_NAMES[base_i]]
    for lvl, (opts, tj) in enumerate(levels):
        total *= mult[lvl]
        if lvl > 0 and tj == 1:
            total += mult[lvl]
    return total


def bounded(cases, limit):
    return [cs for cs in cases if draws_of(cs[0]) <= limit]


def run_sim(case):
    try:
        return _run_sim(case)
    except ValueError as e:
        if COLLISION in str(e):
            base_i, levels = case[0]
            op_, spec_ = None, None
            # the documented ValueError of with_measurement_key_mapping raised lazily by a nested operation
            circ_ = _B[base_i][1]
            for lvl, (opts, tj) in enumerate(levels):
                if lvl > 0:
                    circ_ = template(tj, op_, lvl)
                op_, spec_, _ = construct(circ_, tuple(opts))
            if nested_key_collision(spec_.circuit, spec_.key_map):
                raise Rejected()
        raise


def _run_sim(case):
    node, ctx, simkind = case
    op, spec = build_node(node)
    if isinstance(spec.repetitions, sympy.Basic):
        op = cirq.resolve_parameters(op, {"r": 2})
    label = f"{describe_node(node)} context={CONTEXTS[ctx]}"
    if _ask(lambda: cirq.is_parameterized(op)) == ("ok", True):
        vals = {nm: core.generic(_G, 6 + i) for i, nm in enumerate(sorted(cirq.parameter_names(op)))}
        op = cirq.resolve_parameters(op, vals)
    try:
        items_op = U.unroll_op(op)
    except U.UnrollError:
        # an outer key map made the loop condition constant (e.g. Eq(m, n) with m -> n): documented ValueError
        # ("Key(s) in repeat_until are not modified by circuit") raised when the nested operation is re-keyed
        if _ask(lambda: op.mapped_circuit(deep=False))[:2] == ("raise", "ValueError"):
            raise Rejected()
        raise
    if ctx in (2, 3) and not U.measured_keys(items_op):
        return Res(skipped=True, nontrivial=False)
    circ = context_circuit(ctx, op, items_op)
    items = U.unroll_circuit(circ)
    qs = sorted(circ.all_qubits())
    if int(np.prod([q.dimension for q in qs])) > 128:
        raise core.HarnessError(f"register too large: {qs}")
    try:
        nrec, npaths, cutmass, n_exp = simulate_case(circ, items, qs, simkind, label)
    except (ValueError, TypeError) as e:
        if COLLISION in str(e) or U.has_loop(items):
            raise
        # the simulator may not support the FLAT program either (e.g. DensityMatrixSimulator and zero-qubit
        # global phase operations): then the sub-circuit behaves like its flat form, not a C12 matter
        sim = cirq.Simulator(seed=0) if simkind == 0 else cirq.DensityMatrixSimulator(seed=0)
        try:
            sim.simulate(U.flat_circuit(items), qubit_order=qs)
        except type(e):
            return Res(skipped=True, nontrivial=False, counters={"flat_program_unsupported_by_simulator": 1})
        raise
    cnt = {"paths": npaths, "max_cut_mass": cutmass}
    if U.has_loop(items):
        cnt["loop_expansions"] = n_exp
    return Res(ok=True, nontrivial=nrec >= 2, counters=cnt)


def sim_cases(tier):
    quick = tier == "quick"
    out = []
    R1, R2, R0, R3, RS = 0, 1, 2, 3, 6
    meas_bases = ["meas", "meas_ctrl", "ctrl_outer", "shadow", "twice", "qutrit", "nested", "sympy2", "indexed", "bitmask", "if_op", "cco_sub", "pathkey",
                  "pathkey_pp", "siblings", "cco_sub_ctrl", "if_sub_ctrl"]
    for name in meas_bases:
        bi = BI[name]
        has_t = name == "qutrit"
        swap = 3 if has_t else 1
        rich = name in ("meas_ctrl", "shadow", "ctrl_outer", "sympy2")
        if quick:
            reps = [R1, R2] + ([R0] if name == "meas_ctrl" else [])
            kms = [0, 1] + ([2] if name == "meas_ctrl" else []) + ([4] if name == "sympy2" else [])
            singles = [_opts(reps=rp, use=u, ids=i_, pp=p, km=km, qm=qm)
                       for rp in reps for u in (1, 2) for i_ in ((0, 1) if rich else (0,)) for p in (0, 1) for km in kms for qm in ((0, swap) if rich else (0,))]
            singles = [o for o in singles if not (o[1] == 2 and o[2] == 1)]
            ctxs = [0, 1, 2] if rich else [1, 2]
        else:
            reps = [R1, R2, R3, R0, RS]
            kms = [0, 1, 2, 4] if rich else [0, 1]
            singles = [_opts(reps=rp, use=u, ids=i_, pp=p, km=km, qm=qm)
                       for rp in reps for u in (1, 2) for i_ in ((0, 1) if rich else (0,)) for p in (0, 1) for km in kms for qm in ((0, swap) if rich else (0,))]
            singles = [o for o in singles if not (o[1] == 2 and o[2] == 1) and not (o[0] == RS and o[2] == 1)]
            ctxs = [0, 1, 2, 3]
        for o1 in singles:
            for ctx in ctxs:
                for sk in (0, 1):
                    out.append(((bi, ((o1, 0),)), ctx, sk))
        # depth 2
        if quick:
            in2 = [_opts(), _opts(reps=R2, use=1), _opts(reps=R2, use=2, pp=1), _opts(km=1, pp=1)]
            out2 = [_opts(), _opts(reps=R2, use=1), _opts(reps=R2, use=2, pp=2), _opts(km=1), _opts(reps=R2, use=1, km=2, pp=2)]
            tm = [1, 2]
            cx = [1] if not rich else [1, 2]
            sks = (0, 1) if rich else (0,)
        else:
            in2 = [_opts(reps=rp, use=u, pp=p, km=km) for rp in (R1, R2) for u in (1, 2) for p in (0, 1) for km in ((0, 1) if rich else (0,))]
            out2 = [_opts(reps=rp, use=u, pp=p, km=km) for rp in (R1, R2) for u in (1, 2) for p in (0, 2) for km in ((0, 1) if rich else (0,))]
            tm = [0, 1, 2]
            cx = [1]
            sks = (0, 1)
        for o1 in in2:
            for tj in tm:
                for o2 in out2:
                    for ctx in cx:
                        for sk in sks:
                            out.append(((bi, ((o1, 0), (o2, tj))), ctx, sk))
    # depth 3 (thorough)
    if not quick:
        l3 = [_opts(), _opts(reps=R2, use=1), _opts(reps=R2, use=2, pp=1), _opts(km=1)]
        for name in ("meas_ctrl", "shadow", "ctrl_outer"):
            for o1 in l3:
                for o2 in l3:
                    for o3 in l3:
                        for tj2 in (1, 2):
                            out.append(((BI[name], ((o1, 0), (o2, tj2), (o3, 1))), 1, 0))
    # unitary bases: final state through the simulators (no randomness)
    for name in ("u1", "u1gp", "u1par", "u2", "u2par"):
        for o1 in [_opts(), _opts(reps=R2), _opts(reps=4), _opts(reps=5, qm=1), _opts(reps=R0), _opts(par=2), _opts(par=4, reps=4)]:
            for sk in (0, 1):
                out.append(((BI[name], ((o1, 0),)), 0, sk))
    return bounded(out, 5 if quick else 7)


def describe_sim(case):
    node, ctx, sk = case
    return {"op": describe_node(node), "context": CONTEXTS[ctx], "simulator": SIMS[sk]}


# ------------------------------------------------------------------------------------------------
# stage: repeat_until loops


def loop_cases(tier):
    quick = tier == "quick"
    out = []
    K1, S1, SN = 1, 2, 3
    for name in ("meas", "meas_ctrl", "twice", "loopbody", "sympy2", "qutrit", "shadow"):
        bi = BI[name]
        has_t = name == "qutrit"
        untils = [K1, S1] + ([SN] if name in ("sympy2", "loopbody", "meas") else [])
        for ut in untils:
            for pp in (0, 1):
                for km in ((0, 1, 2) if not quick else (0, 1)):
                    for qm in ((0, 3 if has_t else 1) if (not quick and name in ("meas_ctrl", "qutrit")) else (0,)):
                        o1 = _opts(reps=0, use=2, pp=pp, km=km, qm=qm, until=ut)
                        for ctx in ((1, 2, 3) if not quick else (1, 2)):
                            for sk in (0, 1):
                                out.append(((bi, ((o1, 0),)), ctx, sk))
                        # the loop nested in a repeated / re-keyed / re-scoped outer operation
                        outs = [_opts(), _opts(reps=1, use=1), _opts(reps=1, use=2, pp=2), _opts(km=1), _opts(km=2, pp=2)]
                        if quick:
                            outs = outs[1:3] if name in ("meas", "loopbody", "sympy2") else outs[3:4]
                        for o2 in outs:
                            for tj in ((0, 1, 2) if not quick else (1,)):
                                for sk in ((0, 1) if not quick else (0,)):
                                    out.append(((bi, ((o1, 0), (o2, tj))), 1, sk))

    def est_paths(cs):
        (base_i, levels), ctx, _ = cs
        name = BASE_NAMES[base_i]
        inst = 1
        for opts, _tj in levels[1:]:
            inst *= abs(int(REPS[opts[0]]))
        draws = 3 * BASE_MEAS[name] * inst + sum(1 for opts, tj in levels[1:] if tj == 1)
        return (3 if name == "qutrit" else 2) ** draws

    return [cs for cs in out if est_paths(cs) <= (100 if quick else 600)]


# ------------------------------------------------------------------------------------------------


def stages(tier, seed):
    _init(seed)
    reset = lambda: _init(seed)
    return [
        CaseStage("reference_unroller_selftest", [0], run_selftest, reset=reset, serial=True),
        CaseStage("wrapper_option_product", product_cases(tier), to_res(run_product), reset=reset, describe=describe_product),
        CaseStage("nesting", nested_cases(tier), to_res(run_nested), reset=reset, describe=describe_node),
        CaseStage("constructor_paths", paths_cases(tier), to_res(run_paths), reset=reset, describe=describe_paths),
        CaseStage("simulate_contexts_all_paths", sim_cases(tier), to_res(run_sim), reset=reset, describe=describe_sim),
        CaseStage("repeat_until_loops_all_paths", loop_cases(tier), to_res(run_sim), reset=reset, describe=describe_sim),
    ]
