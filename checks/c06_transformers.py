"""C06 -- circuit transformers preserve what the circuit computes.

Input circuits: every sequence (length <= L) over a ~50 letter transformer alphabet on qubits a,b,c (all letters
for short sequences, a per-transformer *relevant* sub-alphabet for longer ones), in two layouts (earliest-packed
and one-operation-per-moment).  Each circuit is sent through every transformer configuration x
TransformerContext(tags_to_ignore=('ignore',), deep in {False, True}).  Randomized (gauge) transformers get a
ScriptedGenerator, so EVERY gauge choice of every gate is executed (mc.choices.explore).

Oracle (semantic, never structural):
  (i)   unitary circuits: product of the operation matrices (mc.ref.embed) equal up to global phase;
  (ii)  otherwise: exact record distribution + per-record post-measurement state on a generic input state
        (mc.ref.interp); parameterized circuits: for each resolver of a 3-point grid;
        special documented contracts for defer_measurements (ancillas traced out), dephase_measurements (total
        state), drop_terminal_measurements (computational-basis read-out of the returned circuit),
        lightcone_filter (records only), drop_negligible_operations (distance <= atol * #dropped), as_sweep /
        symbolizing transformers (every resolver of the returned sweep);
  (iii) operations carrying an ignored tag are returned unchanged and in the same order on each of their qubits;
  (iv)  without deep, CircuitOperations the pass does not consume as an opaque operation are returned equal;
        with deep the flattened meaning is compared;
  (v)   the input circuit still equals its pre-call snapshot (same Moment objects).
"""
from __future__ import annotations

import collections
import itertools

import numpy as np
import sympy
import cirq
import cirq_google

from cirq import transformers as T
from cirq.transformers import gauge_compiling as GC
from cirq.transformers.gauge_compiling.cphase_gauge import CPhaseGaugeTransformer
from cirq.transformers.transformer_primitives import MAPPED_CIRCUIT_OP_TAG
from cirq_google.transformers.target_gatesets.sycamore_gateset import merge_swap_rzz_and_2q_unitaries

from mc import core
from mc.core import CaseStage, Res, bad, good
from mc.choices import explore
from mc.scripted_random import ScriptedGenerator
from mc.ref import interp, embed as E

PROPERTY = "C06"
LEVEL = "exploration"
RULE = ("circuits = every sequence (length<=2 over the full 52-letter alphabet; length 3 (quick) / 3..4 (thorough) over a "
        "per-transformer relevant sub-alphabet of <=12 letters incl. pass-specific extra letters; thorough adds length 3 over a "
        "32-letter wide alphabet) of gates, "
        "measurements, classically controlled ops, resets, tagged ops, CircuitOperations, parameterized gates, global phase, "
        "empty moments on qubits a,b,c x layout (earliest-packed / one-op-per-moment) x every transformer configuration x "
        "deep in {False,True}; randomized transformers: ALL scripted-PRNG paths; a case is non-trivial when the transformer "
        "returned a circuit different from its input; distinct = distinct (sequence, layout, configuration, deep)")
TECHNIQUE = ("bounded-exhaustive circuit enumeration x all transformer configurations (all gauge choices via stateless DFS over a "
             "scripted PRNG); output compared with input by matrix product / exact record distribution of a reference interpreter")
LEVEL_TEXT = ("Every circuit of the bounded alphabet is passed through every shipped circuit-to-circuit transformer with "
              "tags_to_ignore and deep in both settings; for randomized passes every gauge choice is executed. The returned circuit "
              "must have the same unitary up to global phase, or the same exact measurement-record distribution and post-measurement "
              "states on a generic input state, ignored-tag operations and (without deep) sub-circuits must be untouched and the "
              "argument unmodified. Bounded by sequence length and alphabet; no sampling.")
LEVEL_NOTE = ("trusted: numpy; cirq.unitary/cirq.kraus of single operations (tied to closed forms by C03/C04); CircuitOperation "
              "flattening of non-trivial wrappers falls back to mapped_circuit (C12); randomized transformers draw randomness only "
              "through the prng argument (un-scripted methods raise)")
ASSUMPTIONS = [
    "cirq.unitary/cirq.kraus of single operations are correct (tied to closed forms by C03/C04)",
    "CircuitOperations with key/qubit maps or repetition ids are flattened with mapped_circuit (C12 checks that); plain ones by an own unroller",
    "a generic pure input state distinguishes different channels (measure-zero coincidences ignored)",
    "randomized transformers draw randomness only through the prng/rng_or_seed object (un-scripted methods raise)",
    "numpy linear algebra",
]

a, b, c = cirq.LineQubit.range(3)
QS = (a, b, c)
IGN = "ignore"
ATOL = 1e-6

# ---------------------------------------------------------------------------------------------
# alphabet

Letter = collections.namedtuple("Letter", "name item needs gives full")

_L = None          # list[Letter]
_IDX = None        # name -> index
_CFG = None        # list[Cfg]
_PSI = None        # generic 3-qubit state
_GRID = None       # resolver grid for input symbols
_SEED = None

S_SYM = sympy.Symbol("s")
S2_SYM = sympy.Symbol("s2")


def letters(seed):
    g = core.generic(seed)
    g2 = core.generic(seed, 1)
    g3 = core.generic(seed, 3)
    sub_ab = cirq.CircuitOperation(cirq.FrozenCircuit(cirq.H(a), cirq.CZ(a, b), cirq.Y(b).with_tags(IGN), cirq.Z(a) ** g))
    sub_b2 = cirq.CircuitOperation(cirq.FrozenCircuit(cirq.X(b) ** 0.5, cirq.Z(b) ** g2), repetitions=2)
    sub_a_ign = cirq.CircuitOperation(cirq.FrozenCircuit(cirq.S(a), cirq.X(a), cirq.Z(a) ** g)).with_tags(IGN)
    sub_c_meas = cirq.CircuitOperation(cirq.FrozenCircuit(cirq.H(c), cirq.measure(c, key="s")))
    sub_mapped = cirq.CircuitOperation(cirq.FrozenCircuit(cirq.Y(b) ** 0.5, cirq.X(b))).with_tags(MAPPED_CIRCUIT_OP_TAG)
    k_sym = sympy.Symbol("k")
    w_sym = sympy.Symbol("w")
    # asymmetric confusion matrices (row = true value): the order "confuse, then invert" is observable
    conf1 = np.array([[0.9, 0.1], [0.3, 0.7]])
    conf2 = np.array([[0.7, 0.1, 0.1, 0.1], [0.0, 1.0, 0.0, 0.0], [0.25, 0.25, 0.25, 0.25], [0.1, 0.2, 0.3, 0.4]])
    raw = [
        # ---- single-qubit
        ("X(a)", cirq.X(a), 1), ("Y(a)", cirq.Y(a), 1), ("Z(a)", cirq.Z(a), 1), ("X(b)", cirq.X(b), 1), ("Z(b)", cirq.Z(b), 1),
        ("X(a)^.5", cirq.X(a) ** 0.5, 1), ("Y(b)^.5", cirq.Y(b) ** 0.5, 1), ("S(b)", cirq.S(b), 1), ("T(a)", cirq.T(a), 1),
        ("Z(a)^g", cirq.Z(a) ** g, 1),
        ("W(a;p=g)", cirq.PhasedXPowGate(phase_exponent=g).on(a), 1),
        ("W(b;p=g2)^g", cirq.PhasedXPowGate(phase_exponent=g2, exponent=g).on(b), 1),
        ("PhXZ(a;x=g,z=g2,a=.25)", cirq.PhasedXZGate(x_exponent=g, z_exponent=g2, axis_phase_exponent=0.25).on(a), 1),
        ("PhXZ(b;x=1,z=0,a=g)", cirq.PhasedXZGate(x_exponent=1, z_exponent=0, axis_phase_exponent=g).on(b), 1),
        ("H(a)", cirq.H(a), 1), ("H(b)", cirq.H(b), 1), ("rx(g)(c)", cirq.rx(g).on(c), 1), ("Z(c)", cirq.Z(c), 1),
        # ---- two-qubit
        ("CZ(a,b)", cirq.CZ(a, b), 1), ("CZ(b,c)", cirq.CZ(b, c), 1), ("CZ(a,b)^.5", cirq.CZ(a, b) ** 0.5, 1),
        ("CZ(a,b)^g", cirq.CZ(a, b) ** g, 1), ("CNOT(a,b)", cirq.CNOT(a, b), 1), ("ISWAP(a,b)", cirq.ISWAP(a, b), 1),
        ("SQRT_ISWAP(a,b)", cirq.SQRT_ISWAP(a, b), 1), ("SWAP(a,b)", cirq.SWAP(a, b), 1),
        ("FSim(pi/2,g)(a,b)", cirq.FSimGate(np.pi / 2, g).on(a, b), 1), ("FSim(g,g2)(b,c)", cirq.FSimGate(g, g2).on(b, c), 1),
        ("ZZ(a,b)^g", cirq.ZZ(a, b) ** g, 1),
        # ---- negligible
        ("Z(a)^1e-9", cirq.Z(a) ** 1e-9, 1),
        # ---- measurement, control, reset
        ("M(a;m)", cirq.measure(a, key="m"), 1), ("M(b;m)", cirq.measure(b, key="m"), 1),
        ("M(a,b;k,inv=10)", cirq.measure(a, b, key="k", invert_mask=(True,)), 1),
        ("M(c;n,inv)", cirq.measure(c, key="n", invert_mask=(True,)), 1),
        ("PM(X(a);p)", cirq.measure_single_paulistring(cirq.X(a), key="p"), 1),
        ("X(b)?m", cirq.X(b).with_classical_controls("m"), 1), ("Z(c)?k", cirq.Z(c).with_classical_controls("k"), 1),
        ("R(a)", cirq.ResetChannel().on(a), 1),
        ("M(a;u,inv,conf)", cirq.measure(a, key="u", invert_mask=(True,), confusion_map={(0,): conf1}), 1),
        ("X(c)?u", cirq.X(c).with_classical_controls("u"), 1),
        # ---- tagged
        ("X(a)[ignore]", cirq.X(a).with_tags(IGN), 1), ("H(b)[ignore]", cirq.H(b).with_tags(IGN), 1),
        ("CZ(a,b)[ignore]", cirq.CZ(a, b).with_tags(IGN), 1), ("Y(a)[nocompile]", cirq.Y(a).with_tags("nocompile"), 1),
        # ---- sub-circuits
        ("SUB[H(a),CZ(a,b),Y(b)[ignore],Z(a)^g]", sub_ab, 1), ("SUBx2[X(b)^.5,Z(b)^g2]", sub_b2, 1),
        ("SUB[S(a),X(a),Z(a)^g][ignore]", sub_a_ign, 1), ("SUB[H(c),M(c;s)]", sub_c_meas, 1),
        ("SUB[Y(b)^.5,X(b)][mapped]", sub_mapped, 1),
        # ---- parameterized, misc
        ("X(a)^s", cirq.X(a) ** S_SYM, 1),
        ("GP(1j)", cirq.global_phase_operation(1j), 1), ("Wait(a)", cirq.WaitGate(cirq.Duration(nanos=10)).on(a), 1),
        ("I(a)", cirq.I(a), 1), ("Moment()", cirq.Moment(), 1),
        # ---- extra letters: only used by relevant sub-alphabets
        ("Y(b)", cirq.Y(b), 0), ("X(b)^.25", cirq.X(b) ** 0.25, 0), ("SWAP(b,c)", cirq.SWAP(b, c), 0),
        ("SYC(a,b)", cirq_google.SYC(a, b), 0), ("Z(b)^1e-4", cirq.Z(b) ** 1e-4, 0), ("Z(b)^1e-6", cirq.Z(b) ** 1e-6, 0),
        ("Z(b)^1e-3", cirq.Z(b) ** 1e-3, 0),
        ("SUB[H(b),Z(b)^1e-9]", cirq.CircuitOperation(cirq.FrozenCircuit(cirq.H(b), cirq.Z(b) ** 1e-9)), 0),
        ("M(b;t)[ignore]", cirq.measure(b, key="t").with_tags(IGN), 0), ("Z(b)^s2", cirq.Z(b) ** S2_SYM, 0),
        ("X(c)?(k>1)", cirq.X(c).with_classical_controls(sympy.Gt(k_sym, 1)), 0),
        ("ISWAP(b,c)", cirq.ISWAP(b, c), 0), ("SQRT_ISWAP(b,c)", cirq.SQRT_ISWAP(b, c), 0), ("ZZ(b,c)", cirq.ZZ(b, c), 0),
        ("CZ(b,c)^-.5", cirq.CZ(b, c) ** -0.5, 0), ("CZ(b,c)^g3", cirq.CZ(b, c) ** g3, 0), ("SYC(b,c)", cirq_google.SYC(b, c), 0),
        ("X(a)[T]", cirq.X(a).with_tags("T"), 0), ("H(b)[T]", cirq.H(b).with_tags("T"), 0),
        ("W(a;p=g)[T,ignore]", cirq.PhasedXPowGate(phase_exponent=g).on(a).with_tags("T", IGN), 0),
        ("Z(a)^g[T_7]", (cirq.Z(a) ** g).with_tags("T_7"), 0),
        ("Y(c)", cirq.Y(c), 0), ("S(c)", cirq.S(c), 0), ("M(a,c;j)", cirq.measure(a, c, key="j"), 0),
        ("CZ(a,b)[ignore]2", cirq.CZ(a, b).with_tags(IGN, "x"), 0),
        ("CZ(a,b)^s", cirq.CZ(a, b) ** S_SYM, 0),
        ("M(a,b;v,inv=01,conf(a))", cirq.measure(a, b, key="v", invert_mask=(False, True), confusion_map={(0,): conf1}), 0),
        ("M(a,b;w,inv=10,conf(ab))", cirq.measure(a, b, key="w", invert_mask=(True,), confusion_map={(0, 1): conf2}), 0),
        ("Z(c)?v", cirq.Z(c).with_classical_controls("v"), 0),
        ("X(c)?(w>1)", cirq.X(c).with_classical_controls(sympy.Gt(w_sym, 1)), 0),
        ("M(b;u)", cirq.measure(b, key="u"), 0),
        ("Z(c)?m", cirq.Z(c).with_classical_controls("m"), 0),
        ("H(c)", cirq.H(c), 0),
    ]
    out = []
    for name, item, full in raw:
        if isinstance(item, cirq.Moment):
            needs, gives = frozenset(), frozenset()
        else:
            needs = frozenset(str(k) for k in cirq.control_keys(item))
            gives = frozenset(str(k) for k in cirq.measurement_key_objs(item))
        out.append(Letter(name, item, needs, gives, bool(full)))
    return out


def valid_seq(seq):
    measured = set()
    for li in seq:
        le = _L[li]
        if not le.needs <= measured:
            return False
        measured |= le.gives
    return True


def build(seq, layout):
    items = [_L[i].item for i in seq]
    if layout == 0:
        return cirq.Circuit(items)
    return cirq.Circuit([it if isinstance(it, cirq.Moment) else cirq.Moment(it) for it in items])


# ---------------------------------------------------------------------------------------------
# reference semantics

_UC: dict = {}
_EC: dict = {}


def op_unitary(op):
    """cirq.unitary of a single (non-CircuitOperation) operation or None; cached for hashable ops."""
    try:
        return _UC[op]
    except KeyError:
        pass
    except TypeError:
        return _op_unitary_raw(op)
    u = _op_unitary_raw(op)
    if len(_UC) > 50000:
        _UC.clear()
    _UC[op] = u
    return u


def _op_unitary_raw(op):
    if cirq.is_measurement(op) or cirq.control_keys(op) or cirq.is_parameterized(op):
        return None
    return cirq.unitary(op, None)


def _simple_co(co: cirq.CircuitOperation) -> bool:
    return (not co.qubit_map and not co.measurement_key_map and not co.param_resolver.param_dict
            and co.repeat_until is None and not co.use_repetition_ids and not co.parent_path
            and isinstance(co.repetitions, (int, np.integer)) and co.repetitions >= 0 and co.repetition_ids is None)


def flat_ops(circuit, stats=None):
    """All operations of the circuit in time order with CircuitOperations unrolled (own unroller for plain wrappers)."""
    for moment in circuit:
        for op in moment.operations:
            u = op.untagged
            if isinstance(u, cirq.CircuitOperation):
                if _simple_co(u):
                    for _ in range(int(u.repetitions)):
                        yield from flat_ops(u.circuit, stats)
                else:
                    if stats is not None:
                        stats["fallback"] = stats.get("fallback", 0) + 1
                    yield from flat_ops(u.mapped_circuit(deep=True), stats)
            else:
                yield op


class ControlBeforeMeasurement(Exception):
    """The circuit reads a measurement key that has not been recorded yet (not executable)."""


class Meaning:
    """Lazily computed reference meaning of a list of flat operations on a qubit register."""

    def __init__(self, ops, qs):
        self.ops = list(ops)
        self.qs = tuple(qs)
        self._u = False
        self._d = None

    def unitary(self):
        if self._u is False:
            self._u = self._compute_u()
        return self._u

    def _compute_u(self):
        shape = tuple(q.dimension for q in self.qs)
        idx = {q: i for i, q in enumerate(self.qs)}
        mats = []
        for op in self.ops:
            if not op.qubits:
                if cirq.is_parameterized(op) or not cirq.has_unitary(op):
                    return None
                continue
            u = op_unitary(op)
            if u is None:
                return None
            mats.append((u, [idx[q] for q in op.qubits]))
        D = int(np.prod(shape))
        U = np.eye(D, dtype=np.complex128)
        std = self.qs == QS
        for (u, axes), op in zip(mats, (o for o in self.ops if o.qubits)):
            if std:
                # embedded 8x8 matrices of hashable operations on the standard register are cached
                try:
                    m = _EC.get(op)
                except TypeError:
                    m = E.embed(u, axes, shape)
                else:
                    if m is None:
                        m = E.embed(u, axes, shape)
                        if len(_EC) > 50000:
                            _EC.clear()
                        _EC[op] = m
            else:
                m = E.embed(u, axes, shape)
            U = m @ U
        return U

    def dist(self, psi3):
        if self._d is None:
            n_extra = len(self.qs) - 3
            psi = psi3
            if n_extra:
                e0 = np.zeros(2 ** n_extra, dtype=np.complex128)
                e0[0] = 1
                psi = np.kron(psi3, e0)
            try:
                d = interp.run(None, self.qs, rho0=psi, ops=self.ops)
            except KeyError as e:
                raise ControlBeforeMeasurement(f"an operation is controlled by key {e} before that key is measured") from None
            if n_extra:
                shape = (2,) * len(self.qs)
                d = {k: (p, E.partial_trace(r, [0, 1, 2], shape)) for k, (p, r) in d.items()}
            self._d = d
        return self._d


def opt_phase_distance(U, V):
    """Spectral-norm distance between U and V after removing the Frobenius-optimal global phase."""
    t = np.trace(V.conj().T @ U)
    f = t / abs(t) if abs(t) > 1e-12 else 1.0
    return float(np.linalg.norm(U - f * V, 2))


def extra_qubits(ops):
    ex = set()
    for op in ops:
        for q in op.qubits:
            if q not in QS:
                ex.add(q)
    return sorted(ex)


def ignored_profile(circuit, skip_co=False):
    """Per-qubit sequence of the operations carrying the ignored tag (top level) + multiset of zero-qubit ones."""
    per_q = {}
    zero = collections.Counter()
    for moment in circuit:
        for op in moment.operations:
            if IGN in op.tags:
                if skip_co and isinstance(op.untagged, cirq.CircuitOperation):
                    continue
                if not op.qubits:
                    zero[op] += 1
                for q in op.qubits:
                    per_q.setdefault(q, []).append(op)
    return per_q, zero


def deep_ignored_counter(circuit, mult=1, out=None, skip_co=False):
    """Multiset of ignored-tag operations at every nesting level (not descending into ignored sub-circuits)."""
    if out is None:
        out = collections.Counter()
    for moment in circuit:
        for op in moment.operations:
            if IGN in op.tags:
                if skip_co and isinstance(op.untagged, cirq.CircuitOperation):
                    continue
                out[op] += mult
            elif isinstance(op.untagged, cirq.CircuitOperation):
                u = op.untagged
                reps = int(u.repetitions) if isinstance(u.repetitions, (int, np.integer)) else 1
                deep_ignored_counter(u.circuit, mult * abs(reps), out, skip_co)
    return out


def _is_subseq(small, big):
    it = iter(big)
    return all(any(x == y for y in it) for x in small)


def _profile_subseq(want, got):
    wq, wz = want
    gq, gz = got
    return all(_is_subseq(v, gq.get(q, [])) for q, v in wq.items()) and all(gz.get(k, 0) >= n for k, n in wz.items())


def co_profile(circuit, keep_pred):
    per_q = {}
    for moment in circuit:
        for op in moment.operations:
            if isinstance(op.untagged, cirq.CircuitOperation) and keep_pred(op):
                for q in op.qubits:
                    per_q.setdefault(q, []).append(op)
    return per_q


class Input:
    """Everything about one input circuit that is shared by all transformer configurations."""

    def __init__(self, seq, layout):
        self.seq = seq
        self.layout = layout
        self.circuit = build(seq, layout)
        self.snap = tuple(self.circuit.moments)
        self.flat = list(flat_ops(self.circuit))
        self.symbols = sorted(cirq.parameter_names(self.circuit))
        self.resolvers = [None] if not self.symbols else [cirq.ParamResolver({k: v[i] for k, v in _GRID.items() if k in self.symbols}) for i in range(3)]
        self._m = {}
        self.ign = ignored_profile(self.circuit)
        self.deep_ign = deep_ignored_counter(self.circuit)
        self.n_flat = len(self.flat)

    def meaning(self, ri, qs=QS):
        key = (ri, tuple(qs))
        m = self._m.get(key)
        if m is None:
            r = self.resolvers[ri]
            ops = self.flat if r is None else [cirq.resolve_parameters(o, r) for o in self.flat]
            m = self._m[key] = Meaning(ops, qs)
        return m

    def untouched(self):
        now = self.circuit.moments
        return len(now) == len(self.snap) and all(x is y for x, y in zip(now, self.snap))


_INCACHE = collections.OrderedDict()


def get_input(seq, layout) -> Input:
    key = (seq, layout)
    inp = _INCACHE.get(key)
    if inp is None:
        inp = Input(seq, layout)
        _INCACHE[key] = inp
        if len(_INCACHE) > 4:
            _INCACHE.popitem(last=False)
    return inp


# ---------------------------------------------------------------------------------------------
# user functions for the transformer primitives (each is meaning preserving by construction)


def mf_decomp(op, _):
    """map_func: rewrite X, CNOT, SWAP into several ops (forces the wrap / unroll paths); others unchanged."""
    if isinstance(op.untagged, cirq.CircuitOperation) or op.tags:
        return op
    g = op.gate
    if g == cirq.X:
        q, = op.qubits
        return [cirq.H(q), cirq.Z(q), cirq.H(q)]
    if g == cirq.CNOT:
        q0, q1 = op.qubits
        return [cirq.H(q1), cirq.CZ(q0, q1), cirq.H(q1)]
    if g == cirq.SWAP:
        q0, q1 = op.qubits
        return [cirq.CNOT(q0, q1), cirq.CNOT(q1, q0), cirq.CNOT(q0, q1)]
    if g == cirq.CZ:
        q0, q1 = op.qubits
        return [cirq.CZ(q0, q1) ** 0.5, cirq.CZ(q0, q1) ** 0.5]
    return op


def mm_split(m, _):
    """map_moments func: 1-qubit ops first, everything else in a second moment."""
    one = [op for op in m if len(op.qubits) == 1 and not cirq.control_keys(op) and not cirq.is_measurement(op)]
    rest = [op for op in m if op not in one]
    if one and rest:
        return [cirq.Moment(one), cirq.Moment(rest)]
    return m


def _mergeable_unitary(op):
    return IGN not in op.tags and len(op.qubits) >= 1 and cirq.has_unitary(op) and not cirq.is_parameterized(op)


def merge_matrix(op1, op2):
    """merge_func: two unitary ops on <=2 qubits -> one MatrixGate (op1 first)."""
    if not (_mergeable_unitary(op1) and _mergeable_unitary(op2)):
        return None
    qs = sorted(set(op1.qubits) | set(op2.qubits))
    if len(qs) > 2:
        return None
    m = Meaning(list(flat_ops(cirq.Circuit(cirq.Moment(op1), cirq.Moment(op2)))), qs).unitary()
    if m is None:
        return None
    return cirq.MatrixGate(m).on(*qs)


def merge_wrap(op1, op2):
    """merge_func: any two ops on <=2 qubits in total -> CircuitOperation(op1, op2)."""
    if not op1.qubits or not op2.qubits:
        return None
    if len(set(op1.qubits) | set(op2.qubits)) > 2:
        return None
    return cirq.CircuitOperation(cirq.FrozenCircuit(cirq.Moment(op1), cirq.Moment(op2)))


def mm_merge_1q(m1, m2):
    """merge_moments func: two moments of untagged 1-qubit unitaries -> one moment of MatrixGates."""
    ok = lambda m: all(len(op.qubits) == 1 and not op.tags and cirq.has_unitary(op) and not cirq.is_parameterized(op)
                       and not isinstance(op.untagged, cirq.CircuitOperation) for op in m)
    if not m1 or not m2 or not ok(m1) or not ok(m2):
        return None
    ops = []
    for q in sorted(m1.qubits | m2.qubits):
        o1, o2 = m1.operation_at(q), m2.operation_at(q)
        if o1 is not None and o2 is not None:
            ops.append(cirq.MatrixGate(op_unitary(o2) @ op_unitary(o1)).on(q))
        else:
            ops.append(o1 if o1 is not None else o2)
    return cirq.Moment(ops)


def can_merge_2q(ops1, ops2):
    qs = set()
    for op in itertools.chain(ops1, ops2):
        if not op.qubits:
            return False
        qs |= set(op.qubits)
    return len(qs) <= 2


def rw_unroll(co):
    return list(co.mapped_circuit().all_operations())


# ---------------------------------------------------------------------------------------------
# transformer configurations


class Cfg:
    def __init__(self, name, fn, family, rel, *, deep=True, oracle="same", ign="strict", consumable=None,
                 randomized=False, layouts=(0, 1), ctx="std", full=True, tol=None, rel_len=None, ign_skip_co=False,
                 target=None, max_targets=None):
        self.name = name
        self.fn = fn                  # fn(circuit, context, chooser) -> result
        self.family = family
        self.rel = rel                # names of the relevant sub-alphabet
        self.deep = deep              # deep=True accepted
        self.oracle = oracle
        self.ign = ign                # 'strict' | 'multiset' | 'none'
        self.consumable = consumable or (lambda op: False)   # CircuitOperations the pass may legitimately consume (deep=False)
        self.randomized = randomized
        self.layouts = layouts
        self.ctx = ctx                # 'std' | 'noignore'
        self.full = full              # take part in the full-alphabet enumeration
        self.tol = tol                # drop_negligible atol
        self.rel_len = rel_len        # override of the relevant-sequence length (for path explosion)
        self.ign_skip_co = ign_skip_co  # ignored-tag CircuitOperations are unrolled by documented design (defer_measurements)
        self.target = target          # predicate: operation is a gauge target (randomized passes)
        self.max_targets = max_targets  # sequences with more gauge targets are not enumerated (path explosion)


def _gen(ch):
    return ScriptedGenerator(ch, floats=(0.05, 0.3, 0.55, 0.8))


def _unitary_upto(k):
    return lambda op: len(op.qubits) <= k and cirq.has_unitary(op)


ALL = lambda op: True
HAS_MAPPED = lambda op: MAPPED_CIRCUIT_OP_TAG in op.tags

R_ALIGN = ["X(a)", "CZ(a,b)", "H(b)", "M(a;m)", "M(b;m)", "X(b)?m", "M(a,b;k,inv=10)", "Z(c)?k", "X(a)[ignore]", "CZ(a,b)[ignore]",
           "SUB[H(c),M(c;s)]", "Moment()"]
R_STRAT = ["X(a)", "Z(b)", "CZ(a,b)", "CZ(b,c)", "rx(g)(c)", "M(a;m)", "M(b;m)", "X(b)?m", "X(a)[ignore]", "H(b)[ignore]", "GP(1j)",
           "SUB[H(a),CZ(a,b),Y(b)[ignore],Z(a)^g]"]
R_EXPAND = ["H(a)", "CNOT(a,b)", "SWAP(a,b)", "ISWAP(a,b)", "CZ(a,b)[ignore]", "SUB[H(a),CZ(a,b),Y(b)[ignore],Z(a)^g]",
            "SUBx2[X(b)^.5,Z(b)^g2]", "SUB[S(a),X(a),Z(a)^g][ignore]", "M(a;m)", "X(b)?m", "PM(X(a);p)", "FSim(g,g2)(b,c)"]
R_EJZ = ["Z(a)^g", "T(a)", "Z(b)", "W(a;p=g)", "PhXZ(a;x=g,z=g2,a=.25)", "CZ(a,b)", "SWAP(a,b)", "ISWAP(a,b)", "FSim(pi/2,g)(a,b)",
         "SQRT_ISWAP(a,b)", "M(a;m)", "X(a)[ignore]"]
R_EJZ_P = ["Z(a)^g", "Z(b)^s2", "X(a)^s", "W(b;p=g2)^g", "PhXZ(a;x=g,z=g2,a=.25)", "CZ(a,b)", "SWAP(a,b)", "H(a)", "CNOT(a,b)",
           "M(a,b;k,inv=10)", "Z(c)?k", "CZ(a,b)^s"]
R_EJP = ["X(a)", "Y(a)", "X(b)", "W(a;p=g)", "W(b;p=g2)^g", "PhXZ(b;x=1,z=0,a=g)", "Z(a)^g", "CZ(a,b)", "CZ(a,b)^g", "H(a)",
         "X(a)[ignore]", "M(a;m)"]
R_EJP_P = ["X(a)", "X(a)^s", "Z(b)^s2", "W(a;p=g)", "PhXZ(b;x=1,z=0,a=g)", "Z(a)^g", "CZ(a,b)", "CZ(a,b)^s", "Y(b)", "S(b)",
           "CZ(a,b)[ignore]", "X(b)?m", "M(a;m)"][:12]
R_M1 = ["X(a)^.5", "Z(a)^g", "PhXZ(a;x=g,z=g2,a=.25)", "H(b)", "CZ(a,b)", "X(a)[ignore]", "Y(a)[nocompile]", "SUBx2[X(b)^.5,Z(b)^g2]",
        "GP(1j)", "X(a)^s", "M(a;m)", "X(b)?m"]
R_M2 = ["H(a)", "Z(b)", "rx(g)(c)", "CZ(a,b)", "CZ(b,c)", "ISWAP(a,b)", "X(a)[ignore]", "CZ(a,b)[ignore]",
        "SUB[H(a),CZ(a,b),Y(b)[ignore],Z(a)^g]", "M(a;m)", "M(b;m)", "X(b)?m"]
R_MAP = ["X(a)", "X(b)", "CNOT(a,b)", "SWAP(a,b)", "CZ(a,b)", "H(a)", "X(a)[ignore]", "SUB[Y(b)^.5,X(b)][mapped]",
         "SUBx2[X(b)^.5,Z(b)^g2]", "M(a;m)", "X(b)?m", "Moment()"]
R_UNROLL = ["SUB[H(a),CZ(a,b),Y(b)[ignore],Z(a)^g]", "SUBx2[X(b)^.5,Z(b)^g2]", "SUB[S(a),X(a),Z(a)^g][ignore]", "SUB[H(c),M(c;s)]",
            "SUB[Y(b)^.5,X(b)][mapped]", "X(a)", "CZ(a,b)", "CZ(b,c)", "H(b)", "M(b;m)", "X(b)?m", "Moment()"]
R_DROP = ["Z(a)^1e-9", "Z(b)^1e-4", "Z(b)^1e-6", "I(a)", "Z(b)^1e-3", "GP(1j)", "H(a)", "CZ(a,b)", "M(a;m)", "Moment()",
          "X(a)[ignore]", "SUB[H(b),Z(b)^1e-9]"]
R_DIAG = ["Z(a)", "Z(b)", "T(a)", "CZ(a,b)", "CZ(b,c)", "H(a)", "M(a;m)", "M(b;m)", "M(a,b;k,inv=10)", "PM(X(a);p)", "SUB[H(c),M(c;s)]",
          "CZ(a,b)[ignore]"]
R_MEAS = ["H(a)", "X(b)", "CNOT(a,b)", "M(a;m)", "M(b;m)", "M(a,b;k,inv=10)", "M(c;n,inv)", "X(b)?m", "Z(c)?k", "X(c)?(k>1)", "R(a)",
          "SUB[H(c),M(c;s)]"]
R_MEAS2 = ["H(a)", "X(b)", "CNOT(a,b)", "M(a;m)", "M(b;m)", "M(a,b;k,inv=10)", "M(c;n,inv)", "M(b;t)[ignore]", "PM(X(a);p)", "rx(g)(c)",
           "CZ(b,c)", "SUB[H(c),M(c;s)]"]
R_DD = ["X(a)", "H(a)", "H(b)", "S(b)", "T(a)", "CZ(a,b)", "CZ(b,c)", "rx(g)(c)", "M(a;m)", "X(b)?m", "H(b)[ignore]",
        "SUB[Y(b)^.5,X(b)][mapped]"]
R_SORT = ["Z(a)", "X(b)", "Z(c)", "CZ(a,b)", "CZ(b,c)", "H(b)", "M(a;m)", "M(b;m)", "X(b)?m", "Z(c)?k", "M(a,b;k,inv=10)", "GP(1j)"]
R_TAGS = ["X(a)[T]", "H(b)[T]", "W(a;p=g)[T,ignore]", "Z(a)^g[T_7]", "Y(a)[nocompile]", "X(a)[ignore]", "CZ(a,b)", "X(a)",
          "SUB[H(a),CZ(a,b),Y(b)[ignore],Z(a)^g]", "M(a;m)", "X(b)?m", "X(a)^s"]
R_SYMB = ["X(a)", "X(a)^s", "Z(b)^s2", "H(a)", "Z(a)^g", "CZ(a,b)", "CZ(a,b)^s", "Y(b)", "M(a;m)", "X(a)[ignore]",
          "SUBx2[X(b)^.5,Z(b)^g2]", "X(b)?m"]
R_CZG = ["CZ(a,b)", "CZ(b,c)", "CZ(a,b)[ignore]", "H(a)", "rx(g)(c)", "M(b;m)", "Moment()"]
R_ISWG = ["ISWAP(a,b)", "ISWAP(b,c)", "H(a)", "rx(g)(c)", "CZ(a,b)[ignore]", "M(b;m)"]
R_SQISWG = ["SQRT_ISWAP(a,b)", "SQRT_ISWAP(b,c)", "H(a)", "rx(g)(c)", "ISWAP(a,b)", "M(b;m)"]
R_SQCZG = ["CZ(a,b)^.5", "CZ(b,c)^-.5", "CZ(a,b)", "H(b)", "rx(g)(c)", "M(b;m)", "CZ(a,b)[ignore]"]
R_CPH = ["CZ(a,b)^g", "CZ(b,c)^g3", "CZ(a,b)", "H(b)", "rx(g)(c)", "M(b;m)", "CZ(a,b)[ignore]"]
R_CPHMM = ["CZ(a,b)^g", "CZ(b,c)^g3", "CZ(a,b)", "Z(a)^g", "X(b)", "Z(c)", "H(b)", "M(b;m)", "CZ(a,b)[ignore]"]
R_SPIN = ["ZZ(a,b)^g", "ZZ(b,c)", "H(a)", "rx(g)(c)", "CZ(a,b)[ignore]", "M(b;m)", "X(b)", "Moment()"]
R_SYC = ["SYC(a,b)", "SYC(b,c)", "H(a)", "rx(g)(c)", "CZ(a,b)[ignore]", "M(b;m)", "X(b)"]
R_IDLE = ["X(a)", "H(b)", "Z(c)", "CZ(a,b)", "H(b)[ignore]", "M(a;m)", "R(a)", "X(a)^s", "Moment()"]
R_CONF = ["H(a)", "X(b)", "CNOT(a,b)", "M(a;u,inv,conf)", "M(a,b;v,inv=01,conf(a))", "M(a,b;w,inv=10,conf(ab))", "X(c)?u", "Z(c)?v",
          "X(c)?(w>1)", "M(b;u)"]
R_SKEYS = ["M(a;m)", "X(b)?m", "Z(c)?m", "H(c)", "M(b;m)"]
R_GOOG = ["SWAP(a,b)", "ZZ(a,b)^g", "ZZ(b,c)", "SWAP(b,c)", "H(a)", "CZ(a,b)", "rx(g)(c)", "X(a)[ignore]", "CZ(a,b)[ignore]",
          "M(b;m)", "X(b)?m", "SUB[H(a),CZ(a,b),Y(b)[ignore],Z(a)^g]"]


def make_configs():
    C = []
    add = lambda *a_, **k: C.append(Cfg(*a_, **k))
    # ---- align / stratify
    add("align_left", lambda c_, ctx, ch: cirq.align_left(c_, context=ctx), "align", R_ALIGN)
    add("align_right", lambda c_, ctx, ch: cirq.align_right(c_, context=ctx), "align", R_ALIGN)
    cats = {
        "none": [],
        "gates": [cirq.X, cirq.CZPowGate, cirq.MeasurementGate],
        "preds": [lambda op: len(op.qubits) == 1, lambda op: len(op.qubits) == 2],
        "ops": [cirq.X(a), cirq.CircuitOperation, cirq.ZPowGate],
    }
    for cn, cat in cats.items():
        add(f"stratified_circuit[{cn}]", (lambda cat: lambda c_, ctx, ch: cirq.stratified_circuit(c_, context=ctx, categories=cat))(cat),
            "stratify", R_STRAT)
    # measurements with invert mask + asymmetric confusion map followed by readers of their keys (passes that move measurements)
    add("align_left[conf]", lambda c_, ctx, ch: cirq.align_left(c_, context=ctx), "align", R_CONF, full=False)
    add("align_right[conf]", lambda c_, ctx, ch: cirq.align_right(c_, context=ctx), "align", R_CONF, full=False)
    add("stratified_circuit[gates,conf]", lambda c_, ctx, ch: cirq.stratified_circuit(c_, context=ctx, categories=cats["gates"]), "stratify",
        R_CONF, full=False)
    # two operations controlled by one key in different classes, then a re-measurement (length 4 needed)
    for cn, cat in (("b", [lambda op: b in op.qubits]), ("c,b", [lambda op: c in op.qubits, lambda op: b in op.qubits])):
        add(f"stratified_circuit[keys:{cn}]", (lambda cat: lambda c_, ctx, ch: cirq.stratified_circuit(c_, context=ctx, categories=cat))(cat),
            "stratify", R_SKEYS, full=False, rel_len=4)
    # ---- expand / eject
    add("expand_composite", lambda c_, ctx, ch: cirq.expand_composite(c_, context=ctx), "expand", R_EXPAND, consumable=ALL)
    add("expand_composite[keep CZ,H]", lambda c_, ctx, ch: cirq.expand_composite(
        c_, context=ctx, no_decomp=lambda op: isinstance(op.gate, (cirq.CZPowGate, cirq.HPowGate))), "expand", R_EXPAND, consumable=ALL)
    # eject_z finishes with unroll_circuit_op: sub-circuits carrying the reserved '<mapped_circuit_op>' tag are unrolled
    add("eject_z", lambda c_, ctx, ch: cirq.eject_z(c_, context=ctx), "eject_z", R_EJZ, consumable=HAS_MAPPED)
    add("eject_z[param]", lambda c_, ctx, ch: cirq.eject_z(c_, context=ctx, eject_parameterized=True), "eject_z", R_EJZ_P,
        consumable=HAS_MAPPED)
    add("eject_phased_paulis", lambda c_, ctx, ch: cirq.eject_phased_paulis(c_, context=ctx), "eject_pp", R_EJP)
    add("eject_phased_paulis[param]", lambda c_, ctx, ch: cirq.eject_phased_paulis(c_, context=ctx, eject_parameterized=True),
        "eject_pp", R_EJP_P)
    # ---- merges
    add("merge_single_qubit_gates_to_phased_x_and_z", lambda c_, ctx, ch: cirq.merge_single_qubit_gates_to_phased_x_and_z(c_, context=ctx),
        "merge_1q", R_M1, consumable=_unitary_upto(1))
    add("merge_single_qubit_gates_to_phxz", lambda c_, ctx, ch: cirq.merge_single_qubit_gates_to_phxz(c_, context=ctx),
        "merge_1q", R_M1, consumable=_unitary_upto(1))
    add("merge_single_qubit_moments_to_phxz", lambda c_, ctx, ch: cirq.merge_single_qubit_moments_to_phxz(c_, context=ctx),
        "merge_1q", R_M1, consumable=_unitary_upto(1))
    add("merge_k_qubit_unitaries[k=1]", lambda c_, ctx, ch: cirq.merge_k_qubit_unitaries(c_, context=ctx, k=1), "merge_k", R_M1,
        consumable=_unitary_upto(1))
    add("merge_k_qubit_unitaries[k=2]", lambda c_, ctx, ch: cirq.merge_k_qubit_unitaries(c_, context=ctx, k=2), "merge_k", R_M2,
        consumable=_unitary_upto(2))
    add("merge_k_qubit_unitaries[k=2,rewriter=unroll]", lambda c_, ctx, ch: cirq.merge_k_qubit_unitaries(c_, context=ctx, k=2, rewriter=rw_unroll),
        "merge_k", R_M2, consumable=_unitary_upto(2))
    prim = lambda ctx: dict(tags_to_ignore=ctx.tags_to_ignore, deep=ctx.deep)
    add("merge_operations[matrix]", lambda c_, ctx, ch: cirq.merge_operations(c_, merge_matrix, **prim(ctx)), "merge_prim", R_M2,
        consumable=_unitary_upto(2))
    add("merge_operations[wrap]", lambda c_, ctx, ch: cirq.merge_operations(c_, merge_wrap, **prim(ctx)), "merge_prim", R_M2,
        consumable=ALL)
    add("merge_moments[1q]", lambda c_, ctx, ch: cirq.merge_moments(c_, mm_merge_1q, **prim(ctx)), "merge_prim", R_M1)
    add("merge_k_qubit_unitaries_to_circuit_op[k=1]", lambda c_, ctx, ch: cirq.merge_k_qubit_unitaries_to_circuit_op(c_, k=1, **prim(ctx)),
        "merge_prim", R_M1, consumable=_unitary_upto(1))
    add("merge_k_qubit_unitaries_to_circuit_op[k=2]", lambda c_, ctx, ch: cirq.merge_k_qubit_unitaries_to_circuit_op(c_, k=2, **prim(ctx)),
        "merge_prim", R_M2, consumable=_unitary_upto(2))
    add("merge_operations_to_circuit_op[<=2q]", lambda c_, ctx, ch: cirq.merge_operations_to_circuit_op(c_, can_merge_2q, **prim(ctx)),
        "merge_prim", R_M2, consumable=ALL)
    add("merge_operations[wrap,conf]", lambda c_, ctx, ch: cirq.merge_operations(c_, merge_wrap, **prim(ctx)), "merge_prim", R_CONF,
        consumable=ALL, full=False)
    add("merge_operations_to_circuit_op[<=2q,conf]", lambda c_, ctx, ch: cirq.merge_operations_to_circuit_op(c_, can_merge_2q, **prim(ctx)),
        "merge_prim", R_CONF, consumable=ALL, full=False)
    # ---- map / unroll / tags
    add("map_operations[decomp]", lambda c_, ctx, ch: cirq.map_operations(c_, mf_decomp, **prim(ctx)), "map", R_MAP)
    add("map_operations_and_unroll[decomp]", lambda c_, ctx, ch: cirq.map_operations_and_unroll(c_, mf_decomp, **prim(ctx)), "map", R_MAP)
    add("map_moments[split]", lambda c_, ctx, ch: cirq.map_moments(c_, mm_split, **prim(ctx)), "map", R_MAP)
    for un in ("unroll_circuit_op", "unroll_circuit_op_greedy_earliest", "unroll_circuit_op_greedy_frontier"):
        f = getattr(cirq, un)
        add(un, (lambda f: lambda c_, ctx, ch: f(c_, deep=ctx.deep))(f), "unroll", R_UNROLL, consumable=HAS_MAPPED)
        add(un + "[all]", (lambda f: lambda c_, ctx, ch: f(c_, deep=ctx.deep, tags_to_check=None))(f), "unroll", R_UNROLL,
            consumable=ALL, ign="none")
    add("toggle_tags", lambda c_, ctx, ch: cirq.toggle_tags(c_, [IGN], deep=ctx.deep), "tags", R_TAGS, oracle="toggle", ign="none",
        consumable=ALL)
    add("index_tags", lambda c_, ctx, ch: cirq.index_tags(c_, context=ctx, target_tags={"T", "nocompile"}), "tags", R_TAGS,
        oracle="index_tags", ign="none", ctx="noignore", consumable=ALL)
    add("remove_tags", lambda c_, ctx, ch: cirq.remove_tags(c_, context=ctx, target_tags={"T"}, remove_if=lambda t: str(t).startswith("noc")),
        "tags", R_TAGS, oracle="remove_tags", ign="none", ctx="noignore", consumable=ALL)
    add("index_tags+symbolize_single_qubit_gates_by_indexed_tags",
        lambda c_, ctx, ch: cirq.symbolize_single_qubit_gates_by_indexed_tags(
            cirq.index_tags(c_, context=cirq.TransformerContext(deep=ctx.deep), target_tags={"T"}), context=ctx,
            symbolize_tag=T.SymbolizeTag(prefix="T")),
        "tags", R_TAGS, oracle="symbolize", consumable=ALL, ign="none")
    add("merge_single_qubit_gates_to_phxz_symbolized",
        lambda c_, ctx, ch: cirq.merge_single_qubit_gates_to_phxz_symbolized(c_, context=ctx, sweep=_input_sweep()),
        "tags", R_SYMB, oracle="sweep_pair", consumable=_unitary_upto(1))
    # ---- drops
    add("drop_empty_moments", lambda c_, ctx, ch: cirq.drop_empty_moments(c_, context=ctx), "drop", R_DROP)
    add("drop_negligible_operations", lambda c_, ctx, ch: cirq.drop_negligible_operations(c_, context=ctx), "drop", R_DROP, tol=1e-8)
    add("drop_negligible_operations[atol=1e-3]", lambda c_, ctx, ch: cirq.drop_negligible_operations(c_, context=ctx, atol=1e-3),
        "drop", R_DROP, tol=1e-3)
    add("drop_diagonal_before_measurement", lambda c_, ctx, ch: cirq.drop_diagonal_before_measurement(c_, context=ctx), "diag", R_DIAG,
        consumable=HAS_MAPPED)
    # ---- measurement transformers
    add("synchronize_terminal_measurements", lambda c_, ctx, ch: cirq.synchronize_terminal_measurements(c_, context=ctx), "meas", R_MEAS2)
    add("synchronize_terminal_measurements[after=False]",
        lambda c_, ctx, ch: cirq.synchronize_terminal_measurements(c_, context=ctx, after_other_operations=False), "meas", R_MEAS2)
    add("defer_measurements", lambda c_, ctx, ch: cirq.defer_measurements(c_, context=ctx), "defer", R_MEAS, oracle="defer", consumable=ALL,
        ign_skip_co=True)
    add("dephase_measurements", lambda c_, ctx, ch: cirq.dephase_measurements(c_, context=ctx), "meas", R_MEAS2, oracle="dephase")
    add("drop_terminal_measurements", lambda c_, ctx, ch: cirq.drop_terminal_measurements(c_, context=ctx), "meas", R_MEAS2,
        oracle="drop_terminal")
    add("lightcone_filter", lambda c_, ctx, ch: T.lightcone_filter(c_, context=ctx), "meas", R_MEAS2, oracle="lightcone", ign="none",
        consumable=ALL)
    add("synchronize_terminal_measurements[conf]", lambda c_, ctx, ch: cirq.synchronize_terminal_measurements(c_, context=ctx), "meas",
        R_CONF, full=False)
    add("defer_measurements[conf]", lambda c_, ctx, ch: cirq.defer_measurements(c_, context=ctx), "defer", R_CONF, oracle="defer",
        consumable=ALL, ign_skip_co=True, full=False)
    add("dephase_measurements[conf]", lambda c_, ctx, ch: cirq.dephase_measurements(c_, context=ctx), "meas", R_CONF, oracle="dephase",
        full=False)
    add("drop_terminal_measurements[conf]", lambda c_, ctx, ch: cirq.drop_terminal_measurements(c_, context=ctx), "meas", R_CONF,
        oracle="drop_terminal", full=False)
    add("lightcone_filter[conf]", lambda c_, ctx, ch: T.lightcone_filter(c_, context=ctx), "meas", R_CONF, oracle="lightcone", ign="none",
        consumable=ALL, full=False)
    # ---- dynamical decoupling, sorting
    dd = [("DEFAULT", True), ("XX_PAIR", False), ("Y_YINV", True), ((cirq.X, cirq.Y, cirq.Z), False)]
    for schema, sq in dd:
        add(f"add_dynamical_decoupling[{schema if isinstance(schema, str) else 'XYZ'},sq_only={sq}]",
            (lambda schema, sq: lambda c_, ctx, ch: cirq.add_dynamical_decoupling(c_, context=ctx, schema=schema, single_qubit_gate_moments_only=sq))(schema, sq),
            "dd", R_DD, deep=False, consumable=_unitary_upto(1))
    add("insertion_sort_transformer", lambda c_, ctx, ch: T.insertion_sort_transformer(c_, context=ctx), "sort", R_SORT, ign="multiset")
    add("insertion_sort_transformer[conf]", lambda c_, ctx, ch: T.insertion_sort_transformer(c_, context=ctx), "sort", R_CONF, ign="multiset",
        full=False)
    # ---- cirq_google
    add("cirq_google.merge_swap_rzz_and_2q_unitaries", lambda c_, ctx, ch: merge_swap_rzz_and_2q_unitaries(c_, context=ctx), "google", R_GOOG,
        consumable=_unitary_upto(2))
    add("cirq_google.merge_swap_rzz_and_2q_unitaries[intermediate tag]",
        lambda c_, ctx, ch: merge_swap_rzz_and_2q_unitaries(c_, context=ctx, intermediate_result_tag="inter"), "google", R_GOOG,
        consumable=_unitary_upto(2))
    # ---- randomized gauge transformers (every gauge is taken)
    # (name, transformer, relevant alphabet, gauges per target, max targets per circuit, max targets for as_sweep)
    gts = [
        ("CZGaugeTransformer", T.CZGaugeTransformer, R_CZG, 16, 2, 1),
        ("ISWAPGaugeTransformer", T.ISWAPGaugeTransformer, R_ISWG, 28, 2, 1),
        ("SqrtCZGaugeTransformer", T.SqrtCZGaugeTransformer, R_SQCZG, 3, 3, 2),
        ("SqrtISWAPGaugeTransformer", T.SqrtISWAPGaugeTransformer, R_SQISWG, 8, 3, 1),
        ("CPhaseGaugeTransformer", CPhaseGaugeTransformer, R_CPH, 16, 2, 1),
        ("SpinInversionGaugeTransformer", T.SpinInversionGaugeTransformer, R_SPIN, 2, 3, 2),
        ("cirq_google.SYCGaugeTransformer", cirq_google.transformers.SYCGaugeTransformer, R_SYC, 8, 3, 1),
    ]
    for name, tr, rel, _npaths, mt, mts in gts:
        tp = (lambda tr: lambda op: IGN not in op.tags and op.gate is not None and len(op.qubits) == 2 and op in tr.target)(tr)
        add(name, (lambda tr: lambda c_, ctx, ch: tr(c_, context=ctx, prng=_gen(ch)))(tr), "gauge", rel, deep=False, randomized=True,
            full=True, rel_len=3, target=tp, max_targets=mt)
        add(name + ".as_sweep[N=1]", (lambda tr: lambda c_, ctx, ch: tr.as_sweep(c_, N=1, context=ctx, prng=_gen(ch)))(tr), "gauge_sweep",
            rel, deep=False, randomized=True, oracle="sweep", full=False, rel_len=2, layouts=(0,), target=tp, max_targets=mts)
        if _npaths <= 3:
            add(name + ".as_sweep[N=2]", (lambda tr: lambda c_, ctx, ch: tr.as_sweep(c_, N=2, context=ctx, prng=_gen(ch)))(tr), "gauge_sweep",
                rel, deep=False, randomized=True, oracle="sweep", full=False, rel_len=2, layouts=(1,), target=tp, max_targets=1)
    add("CPhaseGaugeTransformerMM", lambda c_, ctx, ch: T.CPhaseGaugeTransformerMM()(c_, context=ctx, rng_or_seed=_gen(ch)), "gauge_mm",
        R_CPHMM, deep=False, randomized=True, full=True, rel_len=3)
    for gname, gauges, ml in (("pauli", "pauli", 1), ("SHT", (cirq.S, cirq.H, cirq.T), 2)):
        for beg, end in ((False, False), (True, True)):
            add(f"IdleMomentsGauge[{gname},min_length={ml},beginning={beg},ending={end}]",
                (lambda gauges, ml, beg, end: lambda c_, ctx, ch: GC.IdleMomentsGauge(ml, gauges=gauges, gauge_beginning=beg, gauge_ending=end)(
                    c_, context=ctx, rng_or_seed=_gen(ch)))(gauges, ml, beg, end),
                "gauge_idle", R_IDLE, deep=False, randomized=True, full=(gname == "pauli" and not beg), rel_len=3, layouts=(1,))
    add("RandomizedMeasurements[pauli]", lambda c_, ctx, ch: T.RandomizedMeasurements()(c_, unitary_ensemble="pauli", rng=_gen(ch), context=ctx), "randmeas",
        ["X(a)", "CZ(a,b)", "M(b;m)", "Moment()"], deep=False, randomized=True, oracle="randmeas", ign="none", full=False, rel_len=2,
        consumable=ALL)
    return C


def _input_sweep():
    return cirq.Zip(cirq.Points("s", list(_GRID["s"])), cirq.Points("s2", list(_GRID["s2"])))


# ---------------------------------------------------------------------------------------------
# oracle


def _ctx(cfg, deep):
    if cfg.ctx == "noignore":
        return cirq.TransformerContext(deep=deep)
    return cirq.TransformerContext(tags_to_ignore=(IGN,), deep=deep)


def _fmt(inp, cfg, deep, out=None, extra=""):
    s = f"transformer={cfg.name} deep={deep} tags_to_ignore=('ignore',)\ninput circuit (letters {[_L[i].name for i in inp.seq]}, layout {inp.layout}):\n{inp.circuit!r}\n"
    if out is not None:
        s += f"output:\n{out!r}\n"
    return s + extra


def compare_meanings(m_in: Meaning, out_ops, *, extras_ok=False, states=True, atol_u=ATOL, atol_d=1e-7, tol_dist=None, records_only=False):
    """None when the two meanings agree, else a message."""
    ex = extra_qubits(out_ops)
    if ex and not extras_ok:
        return f"output acts on qubits outside the input register: {ex}"
    qs = QS + tuple(ex)
    m_out = Meaning(out_ops, qs)
    if not ex and not records_only:
        u_in = m_in.unitary()
        if u_in is not None:
            u_out = m_out.unitary()
            if u_out is not None:
                if tol_dist is not None:
                    d = opt_phase_distance(u_in, u_out)
                    if d > tol_dist:
                        return f"unitary distance (up to global phase) {d:.3g} exceeds the allowed {tol_dist:.3g}"
                    return None
                if not E.eq_up_to_phase(u_in, u_out, atol=atol_u):
                    f = E.phase_of(u_in, u_out)
                    return f"unitary differs from the input's beyond global phase (max deviation {np.abs(u_in - f * u_out).max():.3g})"
                return None
    d_in = m_in.dist(_PSI)
    d_out = m_out.dist(_PSI)
    if tol_dist is not None:
        atol_d = max(atol_d, 4 * tol_dist)
    return interp.compare_dists(d_in, d_out, atol=atol_d, states=states and not records_only)


def check_output(cfg, inp: Input, deep, out, counters):
    """Checks one returned value against the input; returns None or a bad() result."""
    sig = dict(transformer=cfg.name.split("[")[0], config=cfg.name, deep=deep)
    # (v) argument unmodified
    if not inp.untouched():
        _INCACHE.pop((inp.seq, inp.layout), None)  # the cached input is spoiled
        return bad("input circuit was modified by the call\n" + _fmt(inp, cfg, deep, None, f"now: {inp.circuit!r}"), kind="input_modified", **sig)
    sweep = None
    if cfg.oracle in ("sweep", "sweep_pair"):
        out, sweep = out
    if not isinstance(out, cirq.AbstractCircuit):
        return bad(f"returned a {type(out).__name__}, not a circuit\n" + _fmt(inp, cfg, deep), kind="return_type", **sig)
    # (iii) ignored operations
    if cfg.ign != "none" and cfg.ctx == "std":
        want_ign, want_deep = inp.ign, inp.deep_ign
        if cfg.ign_skip_co:
            want_ign, want_deep = ignored_profile(inp.circuit, True), deep_ignored_counter(inp.circuit, skip_co=True)
        if cfg.ign == "strict":
            got = ignored_profile(out, cfg.ign_skip_co)
            # a pass that may consume an (un-ignored) CircuitOperation as an opaque operation surfaces its inner ops
            surfacing = any(cfg.consumable(op) for m_ in inp.circuit for op in m_.operations
                            if isinstance(op.untagged, cirq.CircuitOperation) and IGN not in op.tags)
            if (not _profile_subseq(want_ign, got)) if surfacing else (got != want_ign):
                return bad("operations tagged with an ignored tag were changed, lost, duplicated or reordered\n" + _fmt(inp, cfg, deep, out),
                           kind="ignored_op_changed", **sig)
        if cfg.ign == "multiset" or deep:
            got = deep_ignored_counter(out, skip_co=cfg.ign_skip_co)
            if (any(got[k] < n for k, n in want_deep.items())) if cfg.ign_skip_co else (got != want_deep):
                return bad("multiset of operations tagged with an ignored tag changed\n" + _fmt(inp, cfg, deep, out), kind="ignored_op_changed", **sig)
    # (iv) sub-circuits untouched without deep
    if not deep:
        keep = lambda op: not cfg.consumable(op)
        want = co_profile(inp.circuit, keep)
        if want:
            wanted_ops = {op for v in want.values() for op in v}
            got = co_profile(out, lambda op: op in wanted_ops)
            if got != want:
                return bad("a CircuitOperation was rewritten / lost although deep=False\n" + _fmt(inp, cfg, deep, out), kind="subcircuit_changed", **sig)
    # meaning
    stats = {}
    out_flat = list(flat_ops(out, stats))
    if stats:
        counters["flatten_fallbacks"] = counters.get("flatten_fallbacks", 0) + stats.get("fallback", 0)
    try:
        msg = ORACLES[cfg.oracle](cfg, inp, deep, out, out_flat, sweep)
    except ControlBeforeMeasurement as e:
        msg = f"the returned circuit cannot be executed: {e}"
    if msg:
        return bad(msg + "\n" + _fmt(inp, cfg, deep, out), kind="meaning", oracle=cfg.oracle, **sig)
    return None


def _resolve(ops, r):
    return ops if r is None else [cirq.resolve_parameters(o, r) for o in ops]


def o_same(cfg, inp, deep, out, out_flat, sweep, **kw):
    tol = None
    if cfg.tol is not None and cfg.tol > 1e-7:
        dropped = max(0, inp.n_flat - len(out_flat))
        tol = cfg.tol * dropped + 1e-7
    for ri, r in enumerate(inp.resolvers):
        msg = compare_meanings(inp.meaning(ri), _resolve(out_flat, r), tol_dist=tol, **kw)
        if msg:
            return (f"[resolver {dict(r.param_dict)}] " if r is not None else "") + msg
    return None


def o_defer(cfg, inp, deep, out, out_flat, sweep):
    # all measurements of the output must be terminal ("all measurements at the end of the circuit"), unless ignored
    return o_same(cfg, inp, deep, out, out_flat, sweep, extras_ok=True)


def o_dephase(cfg, inp, deep, out, out_flat, sweep):
    for ri, r in enumerate(inp.resolvers):
        ops = _resolve(out_flat, r)
        if extra_qubits(ops):
            return "output acts on new qubits"
        t_in = interp.total_rho(inp.meaning(ri).dist(_PSI))
        t_out = interp.total_rho(Meaning(ops, QS).dist(_PSI))
        if not np.allclose(t_in, t_out, atol=1e-7):
            return f"final density matrix differs from the input circuit's (max deviation {np.abs(t_in - t_out).max():.3g})"
    return None


def _reduced(dist, keep):
    shape = (2, 2, 2)
    out = {}
    for k, (p, r) in interp.canon_dist(dist).items():
        out[k] = (p, E.partial_trace(r, keep, shape) if keep else np.array([[1.0]]))
    return out


def o_drop_terminal(cfg, inp, deep, out, out_flat, sweep):
    for ri, r in enumerate(inp.resolvers):
        ops = _resolve(out_flat, r)
        if extra_qubits(ops):
            return "output acts on new qubits"
        appended = []
        measured = set()
        in_ops = inp.meaning(ri).ops
        for op in in_ops:
            if isinstance(op.gate, cirq.MeasurementGate):
                measured |= set(op.qubits)
        for op in _dropped_measurements(inp, ri, deep):
            appended.append(cirq.measure(*op.qubits, key=op.gate.key))
        keep = [i for i, q in enumerate(QS) if q not in measured]
        m_in = inp.meaning(ri)
        if any(isinstance(op.gate, cirq.MeasurementGate) and op.gate.confusion_map for op in in_ops):
            # the documented replacement (identity / X per invert mask) reproduces the un-confused inverted bits
            m_in = Meaning([_without_confusion(op) for op in in_ops], QS)
        d_in = _reduced(m_in.dist(_PSI), keep)
        d_out = _reduced(Meaning(list(ops) + appended, QS).dist(_PSI), keep)
        msg = interp.compare_dists(d_in, d_out, atol=1e-7, states=True)
        if msg:
            return "reading out the returned circuit in the computational basis does not reproduce the input's measurement statistics: " + msg
    return None


def _without_confusion(op):
    g = op.gate
    if isinstance(g, cirq.MeasurementGate) and g.confusion_map and IGN not in op.tags:
        return cirq.measure(*op.qubits, key=g.mkey, invert_mask=g.invert_mask).with_tags(*op.tags)
    return op


def _dropped_measurements(inp, ri, deep):
    """MeasurementGate operations of the input that drop_terminal_measurements is documented to replace."""
    def walk(circuit, mult_ok=True):
        for moment in circuit:
            for op in moment.operations:
                if IGN in op.tags:
                    continue
                u = op.untagged
                if isinstance(u, cirq.CircuitOperation):
                    if deep:
                        for _ in range(int(u.repetitions)):
                            yield from walk(u.circuit)
                    continue
                if isinstance(op.gate, cirq.MeasurementGate):
                    yield op
    return list(walk(inp.circuit))


def o_lightcone(cfg, inp, deep, out, out_flat, sweep):
    return o_same(cfg, inp, deep, out, out_flat, sweep, records_only=True)


def _pairs(inp, out):
    """Zip the top-level operations of input and output position-wise (tag transformers keep the structure)."""
    if len(inp.circuit) != len(out):
        return None
    pairs = []
    for m1, m2 in zip(inp.circuit, out):
        if len(m1) != len(m2):
            return None
        d2 = {}
        for op in m2:
            d2.setdefault(op.qubits, []).append(op)
        for op in m1:
            lst = d2.get(op.qubits)
            if not lst:
                return None
            pairs.append((op, lst.pop(0)))
    return pairs


def o_toggle(cfg, inp, deep, out, out_flat, sweep):
    msg = o_same(cfg, inp, deep, out, out_flat, sweep)
    if msg:
        return msg
    pairs = _pairs(inp, out)
    if pairs is None:
        return "toggle_tags changed the moment / operation structure"
    for o1, o2 in pairs:
        if isinstance(o1.untagged, cirq.CircuitOperation):
            continue
        if o1.untagged != o2.untagged or set(o2.tags) != (set(o1.tags) ^ {IGN}):
            return f"toggle_tags: {o1!r} became {o2!r}, expected tags {set(o1.tags) ^ {IGN}}"
    return None


def o_index_tags(cfg, inp, deep, out, out_flat, sweep):
    msg = o_same(cfg, inp, deep, out, out_flat, sweep)
    if msg:
        return msg
    pairs = _pairs(inp, out)
    if pairs is None:
        return "index_tags changed the moment / operation structure"
    seen = {"T": set(), "nocompile": set()}
    for o1, o2 in pairs:
        if isinstance(o1.untagged, cirq.CircuitOperation):
            continue
        if o1.untagged != o2.untagged:
            return f"index_tags changed the operation {o1!r} into {o2!r}"
        t1, t2 = set(o1.tags), set(o2.tags)
        for tag in ("T", "nocompile"):
            if tag in t1:
                new = [t for t in t2 - t1 if str(t).startswith(tag + "_")]
                if tag in t2 or len(new) != 1:
                    return f"index_tags: tag {tag!r} of {o1!r} not replaced by exactly one indexed tag: {o2!r}"
                if new[0] in seen[tag]:
                    return f"index_tags: index {new[0]!r} used twice"
                seen[tag].add(new[0])
                t1 = (t1 - {tag}) | {new[0]}
        if t1 != t2:
            return f"index_tags: unexpected tags on {o2!r} (from {o1!r})"
    if not deep:
        for tag, s in seen.items():
            if s != {f"{tag}_{i}" for i in range(len(s))}:
                return f"index_tags: indices of {tag!r} are not 0..n-1: {sorted(s)}"
    return None


def o_remove_tags(cfg, inp, deep, out, out_flat, sweep):
    msg = o_same(cfg, inp, deep, out, out_flat, sweep)
    if msg:
        return msg
    pairs = _pairs(inp, out)
    if pairs is None:
        return "remove_tags changed the moment / operation structure"
    for o1, o2 in pairs:
        if isinstance(o1.untagged, cirq.CircuitOperation) and deep:
            continue
        want = {t for t in o1.tags if t != "T" and not str(t).startswith("noc")}
        if o1.untagged != o2.untagged or set(o2.tags) != want:
            return f"remove_tags: {o1!r} became {o2!r}, expected tags {want}"
    return None


def _phxz_params(op):
    u = op_unitary(op.untagged)
    g = cirq.single_qubit_matrix_to_phxz(u)
    if g is None:
        return 0.0, 0.0, 0.0
    return g.x_exponent, g.z_exponent, g.axis_phase_exponent


def o_symbolize(cfg, inp, deep, out, out_flat, sweep):
    """index_tags('T') then symbolize(prefix 'T'): binding (x_i,z_i,a_i) to the i-th tagged op's PhasedXZ angles restores the input."""
    # the i-th op (circuit order, deep order for deep=True) tagged 'T' and not ignored gets symbols x_i, z_i, a_i
    tagged = []

    def walk(circuit):
        for moment in circuit:
            for op in moment.operations:
                if isinstance(op.untagged, cirq.CircuitOperation):
                    if deep and IGN not in op.tags:
                        walk(op.untagged.circuit)
                    continue
                if "T" in op.tags:
                    tagged.append(op)
    walk(inp.circuit)
    binding = {}
    for i, op in enumerate(tagged):
        if IGN in op.tags:
            continue
        if len(op.qubits) != 1 or cirq.is_parameterized(op):
            return None
        x, z, a_ = _phxz_params(op)
        binding.update({f"x{i}": x, f"z{i}": z, f"a{i}": a_})
    # explicit 'T_7' letter: symbols x7,z7,a7
    for op in inp.flat:
        if "T_7" in op.tags and (deep or op in [o for m in inp.circuit for o in m.operations]):
            x, z, a_ = _phxz_params(op)
            binding.update({"x7": x, "z7": z, "a7": a_})
    if len(tagged) > 7:
        return None
    for ri, r in enumerate(inp.resolvers):
        full = dict(binding)
        if r is not None:
            full.update({str(k): v for k, v in r.param_dict.items()})
        rr = cirq.ParamResolver(full)
        msg = compare_meanings(inp.meaning(ri), _resolve(out_flat, rr))
        if msg:
            return f"[symbols bound to the tagged operations' PhasedXZ angles {full}] " + msg
    return None


def o_sweep(cfg, inp, deep, out, out_flat, sweep):
    """as_sweep: the returned circuit resolved with EVERY resolver of the returned sweep means the same as the input."""
    rs = list(cirq.to_resolvers(sweep))
    if not rs:
        if cirq.parameter_names(out) - set(inp.symbols):
            return "as_sweep returned a circuit with new symbols but an empty sweep"
        rs = [cirq.ParamResolver({})]  # no gauge target in the circuit: nothing to sweep over
    for r in rs:
        for ri, r_in in enumerate(inp.resolvers):
            full = {str(k): v for k, v in r.param_dict.items()}
            if r_in is not None:
                full.update({str(k): v for k, v in r_in.param_dict.items()})
            msg = compare_meanings(inp.meaning(ri), _resolve(out_flat, cirq.ParamResolver(full)))
            if msg:
                return f"[sweep point {full}] " + msg
    return None


def o_sweep_pair(cfg, inp, deep, out, out_flat, sweep):
    """merge_single_qubit_gates_to_phxz_symbolized: new circuit under new_sweep[i] == old circuit under sweep[i]."""
    rs = list(cirq.to_resolvers(sweep))
    if len(rs) != 3:
        return f"returned sweep has {len(rs)} points, the input sweep 3"
    for i in range(3):
        r_in = cirq.ParamResolver({"s": _GRID["s"][i], "s2": _GRID["s2"][i]})
        m_in = Meaning(_resolve(inp.flat, r_in), QS)
        msg = compare_meanings(m_in, _resolve(out_flat, rs[i]))
        if msg:
            return f"[sweep point {i}: input {dict(r_in.param_dict)}, returned {dict(rs[i].param_dict)}] " + msg
    return None


def o_randmeas(cfg, inp, deep, out, out_flat, sweep):
    """Documented contract only: input moments, one moment of basis rotations, one measurement of all qubits with key 'm'."""
    n = len(inp.circuit)
    if len(out) != n + 2 or list(out.moments[:n]) != list(inp.circuit.moments):
        return "RandomizedMeasurements: the input moments are not a prefix of the output"
    qs = sorted(inp.circuit.all_qubits())
    last = out.moments[-1]
    if qs and list(last.operations) != [cirq.measure(*qs, key="m")]:
        return f"RandomizedMeasurements: last moment is {last!r}"
    allowed = (cirq.Ry(rads=-np.pi / 2), cirq.Rx(rads=np.pi / 2), cirq.I)
    for op in out.moments[-2]:
        if op.gate not in allowed or len(op.qubits) != 1 or op.qubits[0] not in qs:
            return f"RandomizedMeasurements: unexpected pre-measurement operation {op!r}"
    return None


ORACLES = {
    "same": o_same, "defer": o_defer, "dephase": o_dephase, "drop_terminal": o_drop_terminal, "lightcone": o_lightcone,
    "toggle": o_toggle, "index_tags": o_index_tags, "remove_tags": o_remove_tags, "symbolize": o_symbolize, "sweep": o_sweep,
    "sweep_pair": o_sweep_pair, "randmeas": o_randmeas,
}


# documented rejections --------------------------------------------------------------------------


def documented_rejection(cfg, inp, deep, e) -> bool:
    s = str(e)
    n = cfg.name
    if isinstance(e, ValueError):
        if n.startswith("dephase_measurements") and "defer_measurements first" in s:
            return True
        if n.startswith("drop_terminal_measurements") and ("deep=True` is required" in s or "non-terminal measurement" in s):
            return True
        if "Multiple tags are prefixed" in s:
            return True
        if n.startswith("merge_single_qubit_gates_to_phxz_symbolized") and "are used by single-qubit gates and by" in s:
            return True  # symbols shared between single-qubit gates and other operations are rejected explicitly
        if n.startswith("RandomizedMeasurements") and "Measuring an empty set of qubits" in s and not inp.circuit.all_qubits():
            return True
    return False


# ---------------------------------------------------------------------------------------------
# case runner


def classify(cfg, inp, res):
    """Adds a 'defect' label to the signature of violations that belong to a recognised, reported defect class."""
    name = cfg.name.split("[")[0]
    if name == "merge_single_qubit_gates_to_phxz_symbolized" and res.sig.get("kind") == "meaning":
        one, other = set(), set()
        for op in inp.flat:
            (one if len(op.qubits) == 1 else other).update(cirq.parameter_names(op))
        if one & other:
            res.sig["defect"] = "phxz_symbolized_symbol_shared_with_multi_qubit_op"
    return res


def run_case(case):
    seq, layout, ci, deep = case
    deep = bool(deep)
    cfg = _CFG[ci]
    inp = get_input(tuple(seq), layout)
    ctx = _ctx(cfg, deep)
    counters = {"transformer_calls": 0}
    nontrivial = [False]

    def one(ch):
        counters["transformer_calls"] += 1
        try:
            out = cfg.fn(inp.circuit, ctx, ch)
        except Exception as e:  # noqa: BLE001
            if documented_rejection(cfg, inp, deep, e):
                return "rejected"
            raise
        res = check_output(cfg, inp, deep, out, counters)
        oc = out[0] if isinstance(out, tuple) else out
        if res is None and oc != inp.circuit:
            nontrivial[0] = True
        return res

    if not cfg.randomized:
        try:
            r = one(None)
        except core.HarnessError:
            raise
        except Exception as e:  # noqa: BLE001
            import traceback
            return bad(f"unexpected {type(e).__name__}: {e}\n" + _fmt(inp, cfg, deep) + traceback.format_exc(limit=8),
                       kind="exception", exception=type(e).__name__, transformer=cfg.name.split("[")[0], config=cfg.name, deep=deep)
        if r == "rejected":
            return Res(skipped=True, nontrivial=False, counters=counters)
        if r is not None:
            return classify(cfg, inp, r)
        return Res(ok=True, nontrivial=nontrivial[0], counters=counters)
    # randomized: every path of the scripted generator
    paths = 0
    wsum = 0.0
    first_bad = None
    try:
        for ch, r in explore(one):
            paths += 1
            wsum += ch.weight
            if r is not None and r != "rejected" and first_bad is None:
                first_bad = r
                first_bad.msg = f"[gauge choices {ch.choices}] " + first_bad.msg
    except core.HarnessError:
        raise
    except Exception as e:  # noqa: BLE001
        import traceback
        return bad(f"unexpected {type(e).__name__}: {e}\n" + _fmt(inp, cfg, deep) + traceback.format_exc(limit=8),
                   kind="exception", exception=type(e).__name__, transformer=cfg.name.split("[")[0], config=cfg.name, deep=deep)
    counters["paths"] = paths
    counters["max_paths"] = paths
    if first_bad is not None:
        first_bad.counters = counters
        return classify(cfg, inp, first_bad)
    if abs(wsum - 1) > 1e-6:
        return bad(f"gauge path weights sum to {wsum}\n" + _fmt(inp, cfg, deep), kind="weights", transformer=cfg.name)
    return Res(ok=True, nontrivial=nontrivial[0], counters=counters)


def describe(case):
    seq, layout, ci, deep = case
    return {"letters": [_L[i].name for i in seq], "layout": ["earliest-packed", "one-op-per-moment"][layout],
            "transformer": _CFG[ci].name, "deep": bool(deep)}


# ---------------------------------------------------------------------------------------------
# qubit management (own alphabet with CleanQubit / BorrowableQubit placeholders)

_QM_L = None


def qm_letters():
    cl0, cl1, cl2 = cirq.ops.CleanQubit(0), cirq.ops.CleanQubit(1), cirq.ops.CleanQubit(2)
    bo0, bo1 = cirq.ops.BorrowableQubit(0), cirq.ops.BorrowableQubit(1)
    clean_block = [cirq.CNOT(a, cl0), cirq.CNOT(cl0, b), cirq.CNOT(a, cl0)]
    clean2 = [cirq.CNOT(a, cl0), cirq.CNOT(b, cl1), cirq.CCZ(cl0, cl1, c), cirq.CNOT(b, cl1), cirq.CNOT(a, cl0)]
    borrow_block = [cirq.CNOT(bo0, b), cirq.CNOT(a, bo0), cirq.CNOT(bo0, b), cirq.CNOT(a, bo0)]
    borrow2 = [cirq.CNOT(bo1, c), cirq.CNOT(b, bo1), cirq.CNOT(bo1, c), cirq.CNOT(b, bo1)]
    return [
        ("H(a)", [cirq.H(a)]), ("CZ(a,b)", [cirq.CZ(a, b)]), ("X(c)^.5", [cirq.X(c) ** 0.5]), ("CZ(b,c)", [cirq.CZ(b, c)]),
        ("clean[b^=a via c0]", clean_block), ("clean[CCZ via c0,c1]", clean2), ("borrow[b^=a via b0]", borrow_block),
        ("borrow[c^=b via b1]", borrow2),
        ("SUB(clean[b^=a via c2])", [cirq.CircuitOperation(cirq.FrozenCircuit(cirq.CNOT(a, cl2), cirq.CNOT(cl2, b), cirq.CNOT(a, cl2)))]),
        ("clean[c^=b via c1]", [cirq.CNOT(b, cl1), cirq.CNOT(cl1, c), cirq.CNOT(b, cl1)]),
    ]


_QM_M = None


def qm_moment_letters():
    """Whole moments on a, an otherwise idle system qubit s (= b) and one ancilla: the position of the system qubit's own
    operation relative to the first / middle / last ancilla operation, in both operand orders inside the moment."""
    s_ = b
    bo, cl = cirq.ops.BorrowableQubit(0), cirq.ops.CleanQubit(0)
    idle2 = cirq.CZ ** 2  # identity on any ancilla state: a legal one-moment use
    L = [("[Z(a)]", cirq.Moment(cirq.Z(a))), ("[H(s)]", cirq.Moment(cirq.H(s_)))]
    for nm, anc in (("borrow0", bo), ("clean0", cl)):
        L += [
            (f"[CNOT(a,{nm})]", cirq.Moment(cirq.CNOT(a, anc))),
            (f"[H(s),CNOT(a,{nm})]", cirq.Moment(cirq.H(s_), cirq.CNOT(a, anc))),
            (f"[CNOT(a,{nm}),H(s)]", cirq.Moment(cirq.CNOT(a, anc), cirq.H(s_))),
        ]
    L += [("[H(s),CZ^2(a,borrow0)]", cirq.Moment(cirq.H(s_), idle2(a, bo))), ("[CZ^2(a,borrow0),H(s)]", cirq.Moment(idle2(a, bo), cirq.H(s_)))]
    return L


def qm_moment_seq_ok(seq):
    """Compute-uncompute use only: every ancilla receives an even number of CNOT(a, ancilla) (Z(a) commutes with them), so it
    returns to its initial state whatever that state is and the system-qubit action is exact."""
    cnt = {}
    for i in seq:
        for op in _QM_M[i][1]:
            if op.gate == cirq.CNOT:
                cnt[op.qubits[1]] = cnt.get(op.qubits[1], 0) + 1
    return all(v % 2 == 0 for v in cnt.values())


def _is_temp(q):
    return isinstance(q, (cirq.ops.CleanQubit, cirq.ops.BorrowableQubit))


def qm_structure(circ, out):
    """Recovers the placeholder -> qubit assignment by walking the wires (every ancilla operation of the moment letters starts
    with a system qubit) and checks it is legal: one image per lifespan, clean ancillas never on system qubits, a borrowed
    system qubit has no operation of its own anywhere in the lifespan, no qubit serves two live placeholders."""
    in_ops = [(mi, op) for mi, m_ in enumerate(circ) for op in m_]
    span, ospan = {}, {}
    for k, (mi, op) in enumerate(in_ops):
        for q in op.qubits:
            if _is_temp(q):
                st, _ = span.get(q, (mi, mi))
                span[q] = (st, mi)
                ost, _ = ospan.get(q, (k, k))
                ospan[q] = (ost, k)
    system = {q for _, op in in_ops for q in op.qubits if not _is_temp(q)}
    wires = {}
    for m_ in out:
        for op in m_:
            for q in op.qubits:
                wires.setdefault(q, []).append(op)
    ptr = {q: 0 for q in wires}
    image = {}
    for k, (mi, op) in enumerate(in_ops):
        anchor = next(q for q in op.qubits if not _is_temp(q))
        if ptr.get(anchor, 0) >= len(wires.get(anchor, [])):
            return f"operation {op!r} has no image in the output"
        img = wires[anchor][ptr[anchor]]
        if img.gate != op.gate or len(img.qubits) != len(op.qubits):
            return f"operation {op!r} became {img!r}"
        for q, qi in zip(op.qubits, img.qubits):
            if not _is_temp(q):
                if qi != q:
                    return f"operation {op!r} became {img!r}"
            elif image.setdefault(q, qi) != qi:
                return f"placeholder {q!r} is mapped to both {image[q]!r} and {qi!r} within one lifespan"
        for qi in img.qubits:
            if wires[qi][ptr[qi]] is not img:
                return f"operations on {qi!r} are not in input order: expected {img!r}, found {wires[qi][ptr[qi]]!r}"
            ptr[qi] += 1
    if any(ptr[q] != len(w) for q, w in wires.items()):
        return "the output contains operations that are no image of an input operation"
    for t, qi in image.items():
        st, en = span[t]
        if _is_temp(qi):
            return f"placeholder {t!r} is mapped to the placeholder {qi!r}"
        if qi in system:
            if isinstance(t, cirq.ops.CleanQubit):
                return f"clean ancilla {t!r} is mapped to the system qubit {qi!r}"
            busy = [(mi, op) for mi, op in in_ops if st <= mi <= en and qi in op.qubits]
            if busy:
                return (f"{t!r} (lifespan moments {st}..{en}) borrows the system qubit {qi!r} although that qubit has its own "
                        f"operation {busy[0][1]!r} in moment {busy[0][0]}")
    ts = list(image)
    for i_, t1 in enumerate(ts):
        for t2 in ts[i_ + 1:]:
            if image[t1] == image[t2] and not (ospan[t1][1] < ospan[t2][0] or ospan[t2][1] < ospan[t1][0]):
                return f"{t1!r} and {t2!r} are alive at the same time and share {image[t1]!r}"
    return None


def _effective_unitary(circuit):
    """<0_temps| U |0_temps> on (a,b,c): the action on the system qubits with every ancilla starting and ending in |0>."""
    ops = list(flat_ops(circuit))
    temps = sorted({q for op in ops for q in op.qubits if q not in QS}, key=lambda q: (type(q).__name__, str(q)))
    qs = QS + tuple(temps)
    U = Meaning(ops, qs).unitary()
    if U is None:
        raise core.HarnessError("qubit-management letters must be unitary")
    k = 2 ** len(temps)
    return U[::k, ::k], U, len(temps)


def run_qm(case):
    seq, layout, qmi = case
    if layout == 2:
        names = [_QM_M[i][0] for i in seq]
        circ = cirq.Circuit([_QM_M[i][1] for i in seq])
    else:
        names = [_QM_L[i][0] for i in seq]
        items = [op for i in seq for op in _QM_L[i][1]]
        circ = cirq.Circuit(items) if layout == 0 else cirq.Circuit([cirq.Moment(op) for op in items])
    snap = tuple(circ.moments)
    qm = [None, cirq.GreedyQubitManager(prefix="anc", maximize_reuse=True), cirq.GreedyQubitManager(prefix="anc", size=1)][qmi]
    u_in, _, _ = _effective_unitary(circ)
    out = T.map_clean_and_borrowable_qubits(circ, qm=qm)
    if tuple(circ.moments) != snap or not all(x is y for x, y in zip(circ.moments, snap)):
        return bad(f"map_clean_and_borrowable_qubits modified its input\n{circ!r}", kind="input_modified", transformer="map_clean_and_borrowable_qubits")
    left = [q for op in flat_ops(out) for q in op.qubits if isinstance(q, (cirq.ops.CleanQubit, cirq.ops.BorrowableQubit))]
    if left:
        return bad(f"placeholder qubits left in the output: {sorted(set(left), key=str)}\ninput {circ!r}\noutput {out!r}", kind="placeholders_left",
                   transformer="map_clean_and_borrowable_qubits")
    if layout == 2:
        msg = qm_structure(circ, out)
        if msg:
            return bad(f"illegal qubit assignment: {msg}\nletters {names} qm={qm!r}\ninput {circ!r}\noutput {out!r}", kind="assignment",
                       transformer="map_clean_and_borrowable_qubits")
    u_out, full, nt = _effective_unitary(out)
    if not E.eq_up_to_phase(u_in, u_out, atol=ATOL):
        return bad(f"action on the system qubits (ancillas |0> -> |0>) differs\nletters {names} layout {layout} qm={qm!r}\n"
                   f"input {circ!r}\noutput {out!r}", kind="meaning", transformer="map_clean_and_borrowable_qubits")
    # ancillas must come back to |0>: the |0..0> column block must carry all the weight
    if nt and abs(np.linalg.norm(u_out) ** 2 - 8) > 1e-6:
        return bad(f"allocated ancillas do not return to |0>\ninput {circ!r}\noutput {out!r}", kind="ancilla_dirty", transformer="map_clean_and_borrowable_qubits")
    if layout == 2:
        return good(nontrivial=any(_is_temp(q) for q in circ.all_qubits()), transformer_calls=1)
    return good(nontrivial=any(len(_QM_L[i][1]) > 1 for i in seq), transformer_calls=1)


def describe_qm(case):
    seq, layout, qmi = case
    return {"letters": [(_QM_M if layout == 2 else _QM_L)[i][0] for i in seq], "layout": ["earliest-packed", "one-op-per-moment", "explicit moments"][layout], "qubit_manager": ["default", "greedy(maximize_reuse)", "greedy(size=1)"][qmi]}


# ---------------------------------------------------------------------------------------------
# documented rejections of unsupported contexts (cheap, explicit)


def run_reject(case):
    ci, = case
    cfg = _CFG[ci]
    circ = cirq.Circuit(cirq.H(a), cirq.CZ(a, b), cirq.measure(a, key="m"))
    try:
        cfg.fn(circ, cirq.TransformerContext(tags_to_ignore=(IGN,), deep=True), core_chooser())
    except ValueError:
        return good()
    return bad(f"{cfg.name} is documented to reject deep=True with ValueError but returned", kind="no_rejection", transformer=cfg.name)


def core_chooser():
    from mc.choices import Chooser
    return Chooser()


# ---------------------------------------------------------------------------------------------


def _init(seed):
    global _L, _IDX, _CFG, _PSI, _GRID, _SEED, _QM_L, _QM_M
    if _SEED == seed and _L is not None:
        return
    _SEED = seed
    _L = letters(seed)
    _IDX = {le.name: i for i, le in enumerate(_L)}
    if len(_IDX) != len(_L):
        raise core.HarnessError("duplicate letter names")
    _PSI = E.generic_state(8, seed)
    _GRID = {"s": (core.generic(seed, 2), 1.0, -0.5), "s2": (core.generic(seed, 4), 0.25, 1.5)}
    _CFG = make_configs()
    for cfg in _CFG:
        for n in cfg.rel:
            if n not in _IDX:
                raise core.HarnessError(f"unknown letter {n!r} in the relevant alphabet of {cfg.name}")
        if len(cfg.rel) > 12:
            raise core.HarnessError(f"relevant alphabet of {cfg.name} has {len(cfg.rel)} letters")
    _QM_L = qm_letters()
    _QM_M = qm_moment_letters()
    _UC.clear()
    _EC.clear()
    _INCACHE.clear()


WIDE = ["X(a)", "Z(a)", "X(b)", "Y(b)^.5", "T(a)", "Z(a)^g", "W(a;p=g)", "W(b;p=g2)^g", "PhXZ(a;x=g,z=g2,a=.25)", "H(a)", "H(b)",
        "rx(g)(c)", "CZ(a,b)", "CZ(b,c)", "CZ(a,b)^g", "CNOT(a,b)", "ISWAP(a,b)", "SWAP(a,b)", "ZZ(a,b)^g", "M(a;m)", "M(b;m)",
        "M(a,b;k,inv=10)", "X(b)?m", "Z(c)?k", "X(a)[ignore]", "CZ(a,b)[ignore]", "SUB[H(a),CZ(a,b),Y(b)[ignore],Z(a)^g]",
        "SUBx2[X(b)^.5,Z(b)^g2]", "SUB[H(c),M(c;s)]", "X(a)^s", "GP(1j)", "Moment()"]


def _seqs(alpha, lengths):
    out = []
    for L in lengths:
        for seq in itertools.product(alpha, repeat=L):
            if valid_seq(seq):
                out.append(seq)
    return out


def _n_targets(seq, cfg):
    if cfg.target is None:
        return 0
    return sum(1 for i in seq if not isinstance(_L[i].item, cirq.Moment) and cfg.target(_L[i].item))


def _measured_qubits(seq):
    return sum(len(_L[i].item.qubits) for i in seq if not isinstance(_L[i].item, cirq.Moment) and cirq.is_measurement(_L[i].item))


# defer_measurements adds one ancilla per measured qubit and the reference is a dense density matrix on all of them:
# the thorough-only enumerations (length 4, wide alphabet) keep sequences with at most this many measured qubits
# (measured: 2 two-qubit measurements = 3+4 qubits cost ~3 s per case, 3 of them minutes).  Lengths <= 3 are not filtered.
DEFER_MAX_MEASURED_QUBITS_LONG = 4


def _too_big(seq, cfg):
    return cfg.family == "defer" and _measured_qubits(seq) > DEFER_MAX_MEASURED_QUBITS_LONG


def _emit(cases, seq, layouts, cfgs):
    """Append (seq, layout, cfg, deep) for every admissible combination, circuit-major (the input reference is cached)."""
    for layout in layouts:
        if len(seq) == 1 and layout == 1 and not isinstance(_L[seq[0]].item, cirq.Moment) and any(0 in cfg.layouts for _, cfg in cfgs):
            continue  # a single operation gives the same circuit in both layouts
        for ci, cfg in cfgs:
            if layout not in cfg.layouts:
                continue
            if cfg.max_targets is not None and _n_targets(seq, cfg) > cfg.max_targets:
                continue
            for deep in ((0, 1) if cfg.deep else (0,)):
                cases.append((seq, layout, ci, deep))


def stages(tier, seed):
    _init(seed)
    reset = lambda: _init(seed)
    full_alpha = [i for i, le in enumerate(_L) if le.full]
    wide_alpha = [_IDX[n] for n in WIDE]
    quick = tier == "quick"
    full_seqs = _seqs(full_alpha, (1, 2))
    wide3 = [] if quick else [sq for sq in _seqs(wide_alpha, (3,))]
    families = []
    for cfg in _CFG:
        if cfg.family not in families:
            families.append(cfg.family)
    out = []
    for fam in families:
        cfgs = [(ci, cfg) for ci, cfg in enumerate(_CFG) if cfg.family == fam]
        cases = []
        fcfgs = [(ci, cfg) for ci, cfg in cfgs if cfg.full]
        # (1) every sequence of length <= 2 over the full alphabet, both layouts, deep in {F,T}
        if fcfgs:
            for seq in full_seqs:
                _emit(cases, seq, (0, 1), fcfgs)
        # (2) relevant sub-alphabets: length 3 (quick) / 3 and 4 on the first 9 letters (thorough)
        groups = collections.OrderedDict()
        for ci, cfg in cfgs:
            groups.setdefault((tuple(cfg.rel), cfg.rel_len, cfg.full), []).append((ci, cfg))
        for (rel, rel_len, isfull), g in groups.items():
            alpha = [_IDX[n] for n in rel]
            top = rel_len if rel_len is not None else 3
            lens = set(range(3 if isfull else 1, top + 1))
            if isfull and any(not _L[i].full for i in alpha):
                lens |= {1, 2}  # extra letters have not been seen by (1)
            for seq in _seqs(alpha, sorted(lens)):
                if isfull and len(seq) <= 2 and all(_L[i].full for i in seq):
                    continue  # already enumerated by (1)
                _emit(cases, seq, (0, 1), g)
            if not quick and top >= 3:
                nondet = any(cfg.randomized for _, cfg in g)
                for seq in _seqs(alpha[:6 if nondet else 9], (4,)):
                    _emit(cases, seq, (0,) if any(0 in cfg.layouts for _, cfg in g) else (1,), [x for x in g if not _too_big(seq, x[1])])
        # (3) thorough: length 3 over the wide alphabet, packed layout, deterministic passes
        if not quick:
            wcfgs = [(ci, cfg) for ci, cfg in fcfgs if not cfg.randomized]
            if wcfgs:
                relsets = {ci: set(_IDX[n] for n in cfg.rel) for ci, cfg in wcfgs}
                for seq in wide3:
                    for ci, cfg in wcfgs:
                        if set(seq) <= relsets[ci]:
                            continue  # enumerated by (2)
                        if _too_big(seq, cfg):
                            continue
                        for deep in ((0, 1) if cfg.deep else (0,)):
                            cases.append((seq, cfg.layouts[0], ci, deep))
        out.append(CaseStage(fam, cases, run_case, reset=reset, describe=describe))
    # qubit management
    qml = range(len(_QM_L))
    qm_cases = []
    for L in ((1, 2, 3) if quick else (1, 2, 3, 4)):
        for seq in itertools.product(qml, repeat=L):
            for layout in (0, 1):
                for qmi in (0, 1, 2):
                    qm_cases.append((seq, layout, qmi))
    # explicit moments: where the system qubit's own operation sits relative to the ancilla's lifespan (compute-uncompute only)
    for L in ((1, 2, 3) if quick else (1, 2, 3, 4)):
        for seq in itertools.product(range(len(_QM_M)), repeat=L):
            if qm_moment_seq_ok(seq):
                for qmi in (0, 1, 2):
                    qm_cases.append((seq, 2, qmi))
    out.append(CaseStage("qubit_management", qm_cases, run_qm, reset=reset, describe=describe_qm))
    rej = [(ci,) for ci, cfg in enumerate(_CFG) if not cfg.deep and cfg.family in ("gauge", "gauge_sweep", "gauge_mm", "gauge_idle", "dd")]
    out.append(CaseStage("deep_rejections", rej, run_reject, reset=reset, describe=lambda cs: _CFG[cs[0]].name))
    return out
