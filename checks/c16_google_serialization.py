"""C16 -- Google wire formats round-trip programs, sweeps, results and devices.

Bounded-exhaustive round-trip checks of the cirq_google wire formats:

(a) programs  : a vocabulary V of placed operations (every branch of
    CircuitSerializer._serialize_gate_op x argument kinds x tags, InternalGate argument shapes,
    measurements, classical control, CircuitOperations, waits, resets, noise, CouplerPulse, analog gates,
    all 24 single-qubit Cliffords, qubit kinds) is combined in ALL ordered pairs (and, thorough tier, all
    ordered triples of a ~60 letter core) inside "collision skeletons" that force hits on the program
    constants table (equal ops, ops equal but for a tag, X**0.5 vs X**2.5, equal moments, equal
    sub-circuits, equal tags on different ops, moment tags, circuit tags).  Oracle:
    deserialize(parse(bytes(serialize(c)))) is structurally equal to c (moments, op multiset per moment by
    qubits / tags in order / classical controls / gate, real arguments within float32 rounding, symbols and
    expressions structurally equal, gates equal up to global phase / period) and re-serialization is stable.
(b) sweeps    : sweep terms (Points/Linspace/Zip/ZipLongest/Product/Concat/ListSweep/UnitSweep/
    FiniteRandomVariable, units, metadata, const sweeps) through sweep_to_proto/sweep_from_proto,
    sweepable_to_proto and run_context_to_proto (plain / compressed, float32 / float64).
(c) results   : pack_bits/unpack_bits for ALL bit arrays up to a length bound (against an independent
    integer-arithmetic reference), results_to_proto/results_from_proto for all record tensors of small shapes,
    find_measurements on measurement layouts.
(d) devices   : enumerated DeviceSpecification protos (qubit subsets of a 2x2 grid x pair subsets x gate-kind
    subsets x pair orientation x durations): from_proto/to_proto round trips, rejection of invalid specs and
    validate_operation decisions against an independent (gate kind, qubit, pair) table.
"""
from __future__ import annotations

import gzip
import itertools
import math
import struct

import numpy as np
import sympy
import tunits as tu

import cirq
import cirq_google as cg
from cirq_google.api import v2
from cirq_google.api.v2 import ndarrays as v2_nd
from cirq_google.api.v2 import sweeps as v2_sweeps
from cirq_google.serialization import arg_func_langs as _afl
from cirq_google.experimental.ops import CouplerPulse
from cirq_google.study.device_parameter import DeviceParameter, Metadata
from cirq_google.study.finite_random_variable import FiniteRandomVariable

from mc import core
from mc.core import CaseStage, Res, bad, good
from mc.ref import embed as E

PROPERTY = "C16"
LEVEL = "exploration"
RULE = ("programs: every letter of a 263 letter vocabulary of placed operations alone (4 small circuits each), ALL ordered "
        "pairs of the 218 letter pair vocabulary x 5 collision skeletons (same moment, consecutive, repeated moment, "
        "sandwich, op reuse), thorough: also ALL ordered triples of a 59 letter core x 4 skeletons; ALL ordered pairs of "
        "the core in decorated variants (moment tags, circuit tags, frozen input, shared / nearly equal sub-circuits) and "
        "in multi-program list / dict / circuit-function forms; sweeps: every leaf, every ordered pair of leaves under "
        "Zip / ZipLongest / Product / Concat, all depth-2 terms over 7 leaves, ListSweeps, x float32/float64, sweepables "
        "and run contexts (plain / compressed, scalar / per-sweep repetitions), v1 zip-product terms; results: ALL bit "
        "arrays of length 0..16 (thorough 0..18) plus patterns at lengths 63..66, all record tensors with reps*bits <= 12 "
        "(patterns above) for 7 measurement layouts x reps {0,1,7,8,9} x 4 sweep structures, all measurement-letter "
        "sequences of length <= 3; devices: all (qubit subset of a 2x2 grid, pair subset, gate-kind subset, pair "
        "orientation, duration pattern) specifications.  A program case is non-trivial when the serialized constants "
        "table holds >= 2 operations or one of its entries is referenced more than once; distinct = distinct case "
        "descriptor (stage, indices)")
TECHNIQUE = ("bounded-exhaustive enumeration of programs / sweeps / result tensors / device specifications with "
             "structural round-trip comparison (float32-tolerant, global-phase-tolerant) and independent reference "
             "encoders for bit packing and device validation")
LEVEL_TEXT = ("Every circuit of the bounded vocabulary (all ordered pairs, thorough: triples, in skeletons that force "
              "constants-table collisions) is serialized, sent through bytes, deserialized and compared structurally "
              "with the original; the same is done for all enumerated sweeps, run contexts, result tensors (all bit "
              "patterns up to the bound) and device specifications. Nothing is sampled; bounds are the vocabulary, "
              "circuit length <= 5 moments, bit-array length <= 16/18 and a 2x2 device grid.")
LEVEL_NOTE = ("trusted: protobuf runtime, numpy, sympy structural equality, cirq value-equality values of gates, "
              "cirq.unitary of single gates (tied to closed forms by C03/C04)")
ASSUMPTIONS = [
    "protobuf SerializeToString/ParseFromString are faithful",
    "gate._value_equality_values_() exposes every semantic argument of a gate (used for float32-tolerant comparison)",
    "cirq.unitary of single gates is correct (C03/C04) -- used only to allow global-phase/period normalisation",
    "sympy structural equality / evaluation",
]

S = cg.CIRCUIT_SERIALIZER
REL = 1e-6          # float32 has 24 bits: relative rounding error <= 6e-8
G = cirq.GridQubit
SLOTS = [(G(0, 0), G(0, 1)), (G(1, 0), G(1, 1)), (G(2, 0), G(2, 1))]
LINE = [cirq.LineQubit(3), cirq.LineQubit(4), cirq.LineQubit(5)]
NAMED = [cirq.NamedQubit("nq"), cirq.NamedQubit("nq1"), cirq.NamedQubit("nq2")]


# =============================================================================================
# tolerant structural comparison
# =============================================================================================

def _is_num(x):
    return isinstance(x, (int, float, complex, np.number)) and not isinstance(x, (bool, np.bool_))


def num_close(x, y, rel=REL):
    x = complex(x)
    y = complex(y)
    return abs(x - y) <= rel * max(abs(x), abs(y))


def expr_close(e1, e2, rel=REL):
    """Structural equality of sympy expressions, numeric leaves within float32 rounding."""
    e1 = sympy.sympify(e1)
    e2 = sympy.sympify(e2)
    if e1 == e2:
        return True
    if e1.is_number and e2.is_number:
        try:
            return num_close(complex(e1), complex(e2), rel)
        except TypeError:
            return False
    if e1.free_symbols != e2.free_symbols:
        return False
    if e1.func == e2.func and len(e1.args) == len(e2.args) and e1.args:
        if all(expr_close(x, y, rel) for x, y in zip(e1.args, e2.args)):
            return True
    Boolean = sympy.logic.boolalg.Boolean
    if isinstance(e1, Boolean) or isinstance(e2, Boolean):
        # relations and boolean connectives: structure only (truth values at sample points prove nothing);
        # And/Or/Xor arguments are unordered
        if e1.func != e2.func or len(e1.args) != len(e2.args) or not e1.args:
            return False
        if not isinstance(e1, (sympy.And, sympy.Or, sympy.Xor)):
            return False
        rest = list(e2.args)
        for x in e1.args:
            hit = next((i for i, y in enumerate(rest) if expr_close(x, y, rel)), None)
            if hit is None:
                return False
            rest.pop(hit)
        return True
    # structural walk failed (argument re-ordering after rounding, Pow(pi,-1) vs Float ...): the expressions
    # must at least denote the same function of their symbols: evaluate at generic points.
    syms = sorted(e1.free_symbols, key=str)
    if not syms or not all(isinstance(x, sympy.Symbol) for x in syms):
        return False
    for pt in ((0.3717, -0.8123, 1.2931), (1.1173, 0.4519, -0.6677)):
        sub = {sy: pt[i % 3] + 0.11 * (i // 3) for i, sy in enumerate(syms)}
        try:
            v1 = complex(e1.evalf(17, subs=sub))
            v2 = complex(e2.evalf(17, subs=sub))
        except (TypeError, AttributeError, ValueError):
            return False
        if not abs(v1 - v2) <= 4 * rel * max(abs(v1), abs(v2), 1.0):
            return False
    return True


def val_close(v1, v2, rel=REL):
    """Recursive comparison of argument values; container types and structure must be preserved."""
    if isinstance(v1, sympy.Basic) or isinstance(v2, sympy.Basic):
        if isinstance(v1, sympy.Basic) and isinstance(v2, sympy.Basic):
            return expr_close(v1, v2, rel)
        a, b = (v1, v2) if isinstance(v1, sympy.Basic) else (v2, v1)
        return a.is_number and _is_num(b) and num_close(complex(a), b, rel)
    if isinstance(v1, (bool, np.bool_)) or isinstance(v2, (bool, np.bool_)):
        return isinstance(v1, (bool, np.bool_)) and isinstance(v2, (bool, np.bool_)) and bool(v1) == bool(v2)
    if _is_num(v1) or _is_num(v2):
        return _is_num(v1) and _is_num(v2) and num_close(v1, v2, rel)
    if v1 is None or v2 is None:
        return v1 is None and v2 is None
    if isinstance(v1, (str, bytes)):
        return type(v1) is type(v2) and v1 == v2
    if isinstance(v1, np.ndarray) or isinstance(v2, np.ndarray):
        if not (isinstance(v1, np.ndarray) and isinstance(v2, np.ndarray)):
            return False
        if v1.shape != v2.shape or v1.dtype != v2.dtype:
            return False
        if v1.dtype == np.bool_:
            return bool(np.array_equal(v1, v2))
        return bool(np.array_equal(v1, v2))   # arrays travel in their own dtype: no rounding is allowed
    if isinstance(v1, tu.Value) or isinstance(v2, tu.Value):
        if not (isinstance(v1, tu.Value) and isinstance(v2, tu.Value)):
            return False
        if v1 == v2:
            return True
        try:
            return num_close(v1[v1.unit], v2[v1.unit], rel)
        except Exception:
            return False
    if isinstance(v1, cirq.Duration):
        return isinstance(v2, cirq.Duration) and val_close(v1.total_picos(), v2.total_picos(), rel)
    if isinstance(v1, cirq.PeriodicValue) or isinstance(v2, cirq.PeriodicValue):
        if not (isinstance(v1, cirq.PeriodicValue) and isinstance(v2, cirq.PeriodicValue)):
            return False
        if not val_close(v1.period, v2.period, rel):
            return False
        if val_close(v1.value, v2.value, rel):
            return True
        if _is_num(v1.value) and _is_num(v2.value) and _is_num(v1.period):
            dist = abs(v1.value - v2.value) % abs(v1.period)
            return min(dist, abs(v1.period) - dist) <= rel * max(abs(v1.value), abs(v2.value))
        return False
    if isinstance(v1, (list, tuple)):
        return (type(v1) is type(v2) and len(v1) == len(v2)
                and all(val_close(x, y, rel) for x, y in zip(v1, v2)))
    if isinstance(v1, (set, frozenset)):
        if type(v1) is not type(v2) or len(v1) != len(v2):
            return False
        rest = list(v2)
        for x in v1:
            hit = next((i for i, y in enumerate(rest) if val_close(x, y, rel)), None)
            if hit is None:
                return False
            rest.pop(hit)
        return True
    if isinstance(v1, dict):
        if not isinstance(v2, dict) or len(v1) != len(v2):
            return False
        for k, x in v1.items():
            if k not in v2 or not val_close(x, v2[k], rel):
                return False
        return True
    if isinstance(v1, cirq.Gate) and isinstance(v2, cirq.Gate):
        return gate_diff(v1, v2) is None
    if hasattr(v1, "SerializeToString") and hasattr(v2, "SerializeToString"):
        return v1.SerializeToString(deterministic=True) == v2.SerializeToString(deterministic=True)
    try:
        return bool(v1 == v2)
    except Exception:
        return False


_RES_PTS = ((0.3717, -0.8123, 1.2931), (1.1173, 0.4519, -0.6677))


def _num_leaves(v, out):
    if isinstance(v, cirq.PeriodicValue):
        _num_leaves(v.value, out)
    elif isinstance(v, cirq.Duration):
        _num_leaves(v.total_picos(), out)
    elif isinstance(v, sympy.Basic):
        for a in sympy.preorder_traversal(v):
            if a.is_number and a.is_real:
                out.append(abs(float(a)))
    elif _is_num(v):
        out.append(abs(v))
    elif isinstance(v, (list, tuple, set, frozenset)):
        for x in v:
            _num_leaves(x, out)
    elif isinstance(v, dict):
        for x in v.values():
            _num_leaves(x, out)
    elif isinstance(v, cirq.Gate) and hasattr(v, "_value_equality_values_"):
        _num_leaves(v._value_equality_values_(), out)
    return out


def _unitary_atol(g):
    """Tolerance of the unitary comparison: float32 rounding of the gate's own arguments (error <= pi * 6e-8 * |arg|)."""
    try:
        leaves = _num_leaves(g._value_equality_values_(), []) if hasattr(g, "_value_equality_values_") else []
    except Exception:
        leaves = []
    scale = max(leaves) if leaves else 1.0
    return max(2e-6 * min(1.0, scale), 1e-13)


def gate_diff(g1, g2):
    """None when the deserialized gate g2 is an acceptable image of g1, else a reason string."""
    try:
        if g1 == g2:
            return None
    except Exception:
        pass
    if g1 is None or g2 is None:
        return f"gate {g1!r} vs {g2!r}"
    if not (type(g1) is type(g2) or isinstance(g1, type(g2))):
        return f"gate type {type(g1).__name__} became {type(g2).__name__}"
    if cirq.num_qubits(g1) != cirq.num_qubits(g2) or cirq.qid_shape(g1) != cirq.qid_shape(g2):
        return f"gate shape changed: {g1!r} vs {g2!r}"
    if isinstance(g1, cg.InternalGate):
        if g1.gate_name != g2.gate_name or g1.gate_module != g2.gate_module:
            return f"InternalGate name/module {g1.gate_module!r}.{g1.gate_name!r} became {g2.gate_module!r}.{g2.gate_name!r}"
        if not val_close(dict(g1.gate_args), dict(g2.gate_args)):
            return f"InternalGate gate_args {g1.gate_args!r} became {g2.gate_args!r}"
        c1 = {k: v.SerializeToString(deterministic=True) for k, v in g1.custom_args.items()}
        c2 = {k: v.SerializeToString(deterministic=True) for k, v in g2.custom_args.items()}
        if c1 != c2:
            return "InternalGate custom_args changed"
        return None
    if type(g1) is type(g2) and hasattr(g1, "_value_equality_values_"):
        try:
            if val_close(g1._value_equality_values_(), g2._value_equality_values_()):
                return None
        except Exception:
            pass
    # global phase / period normalisation: compare unitaries (parameterised gates at generic points)
    n1 = cirq.parameter_names(g1)
    n2 = cirq.parameter_names(g2)
    if n1 != n2:
        return f"parameter names {sorted(n1)} became {sorted(n2)}"
    names = sorted(n1)
    pts = _RES_PTS if names else ((),)
    for pt in pts:
        res = {nm: pt[i % 3] + 0.07 * (i // 3) for i, nm in enumerate(names)}
        try:
            r1 = cirq.resolve_parameters(g1, res) if names else g1
            r2 = cirq.resolve_parameters(g2, res) if names else g2
            u1 = cirq.unitary(r1, None)
            u2 = cirq.unitary(r2, None)
        except Exception as ex:  # resolution failing on one side only is a difference
            return f"gate {g1!r} became {g2!r} (cannot compare: {type(ex).__name__}: {ex})"
        if u1 is None or u2 is None:
            return f"gate {g1!r} became {g2!r}"
        if u1.shape != u2.shape or not E.eq_up_to_phase(u1, u2, _unitary_atol(g1)):
            return f"gate {g1!r} became {g2!r} (unitaries differ beyond a global phase)"
    return None


def tag_diff(t1, t2):
    try:
        if type(t1) is type(t2) and t1 == t2:
            return None
    except Exception:
        pass
    if isinstance(t1, cg.InternalTag) and isinstance(t2, cg.InternalTag):
        if t1.name == t2.name and t1.package == t2.package and val_close(dict(t1.tag_args), dict(t2.tag_args)):
            return None
        return f"tag {t1!r} became {t2!r}"
    if type(t1) in (str, bytes, int, float, complex, tuple, frozenset, bool) and val_close(t1, t2):
        return None
    return f"tag {t1!r} became {t2!r}"


def tags_diff(ts1, ts2, what):
    ts1 = list(ts1)
    ts2 = list(ts2)
    if len(ts1) != len(ts2):
        return f"{what}: tags {ts1!r} became {ts2!r}"
    for x, y in zip(ts1, ts2):
        d = tag_diff(x, y)
        if d:
            return f"{what}: tags {ts1!r} became {ts2!r} ({d})"
    return None


def _strict_eq(x, y):
    """Equal and of the same type (0 is not None, 1 is not True, 1 is not 1.0)."""
    return type(x) is type(y) and x == y


def cond_diff(c1, c2):
    """None when every field of the classical-control condition c2 equals that of c1, else a reason."""
    if type(c1) is not type(c2):
        return f"condition {c1!r} became {c2!r}"
    if isinstance(c1, cirq.KeyCondition):
        ok = c1.key == c2.key and tuple(c1.key.path) == tuple(c2.key.path) and _strict_eq(c1.index, c2.index)
    elif isinstance(c1, cirq.BitMaskKeyCondition):
        ok = (c1.key == c2.key and tuple(c1.key.path) == tuple(c2.key.path)
              and all(_strict_eq(getattr(c1, f), getattr(c2, f))
                      for f in ("index", "target_value", "equal_target", "bitmask")))
    elif isinstance(c1, cirq.SympyCondition):
        ok = expr_close(c1.expr, c2.expr)
        if ok and not c1.expr.atoms(sympy.Float):
            ok = sympy.srepr(c1.expr) == sympy.srepr(c2.expr)      # nothing to round: exact structure
    else:
        ok = c1 == c2
    return None if ok else f"condition {c1!r} became {c2!r}"


def conds_diff(cs1, cs2):
    """Conditions of one operation form a conjunction: compare as multisets with the strict comparison."""
    cs1, rest = list(cs1), list(cs2)
    if len(cs1) != len(rest):
        return f"classical controls {cs1!r} became {rest!r}"
    for c in cs1:
        hit = next((i for i, d in enumerate(rest) if cond_diff(c, d) is None), None)
        if hit is None:
            return f"classical controls {cs1!r} became {list(cs2)!r}"
        rest.pop(hit)
    return None


def op_diff(o1, o2):
    """None when o2 is an acceptable image of o1, else (kind, reason)."""
    try:
        # fast path; not for CircuitOperations: FrozenCircuit/Moment equality ignores moment tags
        if (o1 == o2 and list(o1.tags) == list(o2.tags) and not o1.untagged.classical_controls
                and not isinstance(o1.untagged.without_classical_controls().untagged, cirq.CircuitOperation)):
            return None
    except Exception:
        pass
    if o1.qubits != o2.qubits:
        return ("qubits", f"qubits {o1.qubits!r} became {o2.qubits!r}")
    d = tags_diff(o1.tags, o2.tags, f"op on {o1.qubits}")
    if d:
        return ("tags", d)
    u1, u2 = o1.untagged, o2.untagged
    d = conds_diff(u1.classical_controls, u2.classical_controls)
    if d:
        return ("controls", d)
    b1, b2 = u1.without_classical_controls(), u2.without_classical_controls()
    d = tags_diff(b1.tags, b2.tags, f"inner op on {o1.qubits}")
    if d:
        return ("tags", d)
    b1, b2 = b1.untagged, b2.untagged
    c1, c2 = isinstance(b1, cirq.CircuitOperation), isinstance(b2, cirq.CircuitOperation)
    if c1 != c2:
        return ("gate", f"operation {b1!r} became {b2!r}")
    if c1:
        return circuit_op_diff(b1, b2)
    d = gate_diff(b1.gate, b2.gate)
    if d:
        return ("gate", d)
    return None


def circuit_op_diff(c1, c2):
    d = circuit_diff(c1.circuit, c2.circuit)
    if d:
        return (d[0], "in sub-circuit: " + d[1])
    r1, r2 = c1.repeat_until, c2.repeat_until
    if (r1 is None) != (r2 is None) or (r1 is not None and cond_diff(r1, r2)):
        return ("circuit_op", f"CircuitOperation.repeat_until {r1!r} became {r2!r}")
    for attr in ("repetitions", "qubit_map", "measurement_key_map", "repetition_ids", "use_repetition_ids"):
        x, y = getattr(c1, attr), getattr(c2, attr)
        if attr == "repetition_ids":
            x = None if x is None else list(x)
            y = None if y is None else list(y)
        if x != y:
            return ("circuit_op", f"CircuitOperation.{attr} {x!r} became {y!r}")
    p1, p2 = dict(c1.param_resolver.param_dict), dict(c2.param_resolver.param_dict)
    if not val_close(p1, p2):
        return ("circuit_op", f"CircuitOperation.param_resolver {p1!r} became {p2!r}")
    return None


def moment_diff(m1, m2, idx):
    d = tags_diff(m1.tags, m2.tags, f"moment {idx}")
    if d:
        return ("moment_tags", d)
    ops1 = list(m1.operations)
    rest = list(m2.operations)
    if len(ops1) != len(rest):
        return ("moment", f"moment {idx}: {len(ops1)} operations became {len(rest)}: {m1!r} vs {m2!r}")
    first = None
    for o in ops1:
        hit = None
        for i, p in enumerate(rest):
            if p.qubits != o.qubits:
                continue
            dd = op_diff(o, p)
            if dd is None:
                hit = i
                break
            if first is None:
                first = dd
        if hit is None:
            if first is None:
                first = ("moment", f"no operation on qubits {o.qubits!r} in the deserialized moment")
            return (first[0], f"moment {idx}: {first[1]}\n   original op: {o!r}\n   deserialized moment: {m2!r}")
        rest.pop(hit)
    return None


def circuit_diff(c1, c2):
    if len(c1) != len(c2):
        return ("length", f"{len(c1)} moments became {len(c2)}")
    d = tags_diff(c1.tags, c2.tags, "circuit")
    if d:
        return ("circuit_tags", d)
    for i, (m1, m2) in enumerate(zip(c1.moments, c2.moments)):
        d = moment_diff(m1, m2, i)
        if d:
            return d
    return None


def _hop(msg):
    out = type(msg)()
    out.ParseFromString(msg.SerializeToString())
    return out


def _nontrivial_program(msg):
    n_ops = sum(1 for c in msg.constants if c.WhichOneof("const_value") == "operation_value")
    if n_ops >= 2:
        return True
    refs = {}
    for c in msg.constants:
        w = c.WhichOneof("const_value")
        if w == "moment_value":
            for i in list(c.moment_value.operation_indices) + list(c.moment_value.tag_indices):
                refs[i] = refs.get(i, 0) + 1
        elif w == "operation_value":
            for i in list(c.operation_value.tag_indices) + list(c.operation_value.qubit_constant_index):
                refs[i] = refs.get(i, 0) + 1
        elif w == "circuit_value":
            for i in c.circuit_value.moment_indices:
                refs[i] = refs.get(i, 0) + 1
    for i in msg.circuit.moment_indices:
        refs[i] = refs.get(i, 0) + 1
    return any(v > 1 for v in refs.values())


def check_program(circ, unordered=False, stability=True):
    """Round-trip one circuit. Returns (None, nontrivial) or ((kind, msg), nontrivial)."""
    msg = S.serialize(circ)
    nontrivial = _nontrivial_program(msg)
    back = S.deserialize(_hop(msg))
    d = circuit_diff(circ, back)
    if d:
        return (d[0], f"deserialize(serialize(c)) differs from c: {d[1]}\n c = {circ!r}\n back = {back!r}"), nontrivial
    if not stability:
        return None, nontrivial
    # stability: serializing the deserialized circuit, deserializing and serializing again gives the same bytes
    m1 = S.serialize(back)
    back2 = S.deserialize(_hop(m1))
    if unordered:
        # set-valued arguments / several classical controls have no canonical wire order: compare structurally
        d = circuit_diff(back, back2)
        if d:
            return ("stability", f"second round trip changes the circuit: {d[1]}\n c = {circ!r}\n first = {back!r}\n "
                                 f"second = {back2!r}"), nontrivial
        return None, nontrivial
    m2 = S.serialize(back2)
    if m1.SerializeToString(deterministic=True) != m2.SerializeToString(deterministic=True):
        return ("stability", f"re-serialization is not stable for c = {circ!r}:\n{m1}\n---\n{m2}"), nontrivial
    return None, nontrivial


# =============================================================================================
# (a) vocabulary of placed operations
# =============================================================================================

# ---- numpy array arguments: dtypes handled by api/v2/ndarrays.py and memory layouts
ND_DTYPES = ["float64", "float32", "float16", "int64", "int32", "int16", "int8", "uint8", "complex128", "complex64",
             "bool"]
ND_LAYOUTS = ["C", "T", "F", "stride0", "stride_last", "rev_last", "rev0", "swap", "bcast"]


def _nd_base(dtype, shape):
    """C-ordered array with pairwise distinct, asymmetric contents (exactly representable in every dtype)."""
    n = int(np.prod(shape)) if len(shape) else 1
    k = np.arange(n)
    dt = np.dtype(dtype)
    if dt.kind == "b":
        flat = ((k * k + k // 3 + (k % 5 == 0)) % 3 == 0)
    elif dt.kind == "f":
        flat = (k * 3 - 7) / 4.0
    elif dt.kind == "c":
        flat = (k * 3 - 7) / 4.0 + 1j * (k * k - 2 * k + 1) / 8.0
    elif dt.kind == "u":
        flat = (k * 5 + 1) % 251
    else:
        flat = k * 3 - 20
    return np.asarray(flat).astype(dt).reshape(shape)


def nd_array(dtype, shape, layout):
    """An array of the given logical shape and contents _nd_base(dtype, shape), stored with the given layout.
    Returns None when the layout does not exist for the shape (e.g. axis swap of a 1-d array)."""
    base = _nd_base(dtype, shape)
    nd = len(shape)
    if layout == "C":
        return base
    if nd == 0:
        return None
    if layout == "F":
        return np.asfortranarray(base)
    if layout == "T":             # transposed view of a C array: Fortran-contiguous, not owning its data
        return np.ascontiguousarray(base.T).T
    if layout in ("stride0", "stride_last"):
        ax = 0 if layout == "stride0" else nd - 1
        big_shape = list(shape)
        big_shape[ax] = 2 * shape[ax]
        big = np.zeros(big_shape, dtype=base.dtype)
        sl = [slice(None)] * nd
        sl[ax] = slice(None, None, 2)
        big[tuple(sl)] = base
        sl2 = [slice(None)] * nd
        sl2[ax] = slice(1, None, 2)
        big[tuple(sl2)] = _nd_base(dtype, shape)[tuple([slice(None, None, -1)] * nd)]   # filler that must not leak
        return big[tuple(sl)]
    if layout in ("rev_last", "rev0"):
        ax = 0 if layout == "rev0" else nd - 1
        sl = [slice(None)] * nd
        sl[ax] = slice(None, None, -1)
        return np.ascontiguousarray(base[tuple(sl)])[tuple(sl)]     # negative stride view with the contents of base
    if layout == "swap":
        if nd < 2:
            return None
        return np.ascontiguousarray(np.swapaxes(base, 0, nd - 1)).swapaxes(0, nd - 1) if nd == 2 else \
            np.ascontiguousarray(np.swapaxes(base, 0, 1)).swapaxes(0, 1)
    if layout == "bcast":         # zero strides, read-only
        if nd < 2:
            return None
        row = _nd_base(dtype, shape[1:])
        return np.broadcast_to(row, shape)
    raise core.HarnessError(f"unknown ndarray layout {layout}")


class _UnknownTag:
    """A tag the serializer cannot know (documented ValueError 'Unrecognized Tag')."""

    def __eq__(self, other):
        return isinstance(other, _UnknownTag)

    def __hash__(self):
        return 77

    def __repr__(self):
        return "_UnknownTag()"


_VOCAB = {}


def vocab(seed):
    if seed in _VOCAB:
        return _VOCAB[seed]
    g = core.generic(seed)
    g2 = core.generic(seed, 1)
    s, t = sympy.Symbol("s"), sympy.Symbol("t")
    L = []

    def add(name, fn, rej=False, find=None, corel=False, unordered=False, pairs=True):
        L.append(dict(name=name, fn=fn, rej=rej, find=find, core=corel, unordered=unordered,
                      pairs=pairs and not rej and find is None))

    ARGS = [("q", 0.25), ("n", 0.1), ("o", 2.5), ("i", 1), ("s", s), ("e", 2 * s + 1)]
    # --- one-parameter gates x all argument kinds
    one = [("X", cirq.XPowGate, 1), ("Y", cirq.YPowGate, 1), ("Z", cirq.ZPowGate, 1), ("H", cirq.HPowGate, 1),
           ("CZ", cirq.CZPowGate, 2), ("ISWAP", cirq.ISwapPowGate, 2)]
    core_one = {"X": "qnoise", "Y": "n", "Z": "qs", "H": "q", "CZ": "qos", "ISWAP": "n"}
    for gn, gt, nq in one:
        for an, av in ARGS:
            if nq == 1:
                add(f"{gn}^{an}", lambda q0, q1, k, gt=gt, av=av: gt(exponent=av).on(q0), corel=an in core_one[gn])
            else:
                add(f"{gn}^{an}", lambda q0, q1, k, gt=gt, av=av: gt(exponent=av).on(q0, q1), corel=an in core_one[gn])
    for an, av in ARGS:
        add(f"PhX(pe={an},e=q)", lambda q0, q1, k, av=av: cirq.PhasedXPowGate(phase_exponent=av, exponent=0.25).on(q0),
            corel=an == "n")
        add(f"PhXZ(x={an})", lambda q0, q1, k, av=av: cirq.PhasedXZGate(x_exponent=av, z_exponent=0.25,
                                                                     axis_phase_exponent=0.5).on(q1), corel=an == "n")
        add(f"FSim(th={an},phi=q)", lambda q0, q1, k, av=av: cirq.FSimGate(theta=av, phi=0.25).on(q0, q1),
            corel=an in "ns")
    for an, av in ARGS[1:]:
        if an in "nos":
            add(f"PhX(pe=q,e={an})", lambda q0, q1, k, av=av: cirq.PhasedXPowGate(phase_exponent=0.25, exponent=av).on(q0))
            add(f"PhXZ(z={an})", lambda q0, q1, k, av=av: cirq.PhasedXZGate(x_exponent=0.25, z_exponent=av,
                                                                         axis_phase_exponent=0.5).on(q1))
            add(f"PhXZ(a={an})", lambda q0, q1, k, av=av: cirq.PhasedXZGate(x_exponent=0.25, z_exponent=0.5,
                                                                         axis_phase_exponent=av).on(q1))
        add(f"FSim(th=q,phi={an})", lambda q0, q1, k, av=av: cirq.FSimGate(theta=0.25, phi=av).on(q0, q1))
    # --- other expressions / global shifts / generic values
    add("X^(s**2)", lambda q0, q1, k: cirq.X(q0) ** (s ** 2))
    add("X^(0.1*s)", lambda q0, q1, k: cirq.X(q0) ** (0.1 * s), corel=True)
    add("X^(s/2)", lambda q0, q1, k: cirq.X(q0) ** (s / 2))
    add("X^(s-t)", lambda q0, q1, k: cirq.X(q0) ** (s - t))
    add("Z^(s*pi)", lambda q0, q1, k: cirq.Z(q0) ** (s * sympy.pi))
    add("Y^(t**s)", lambda q0, q1, k: cirq.Y(q0) ** (t ** s))
    add("X^g", lambda q0, q1, k: cirq.X(q0) ** g)
    add("X^(1/3)", lambda q0, q1, k: cirq.X(q0) ** sympy.Rational(1, 3))
    add("X^1e-8", lambda q0, q1, k: cirq.X(q0) ** 1e-8)
    add("X^0", lambda q0, q1, k: cirq.X(q0) ** 0)
    add("X^-1", lambda q0, q1, k: cirq.X(q0) ** -1)
    add("rx(g)", lambda q0, q1, k: cirq.rx(g).on(q0), corel=True)
    add("rz(s)", lambda q0, q1, k: cirq.rz(s).on(q0))
    add("ry(g2)", lambda q0, q1, k: cirq.ry(g2).on(q1))
    add("X(shift=.5)^q", lambda q0, q1, k: cirq.XPowGate(exponent=0.25, global_shift=0.5).on(q0))
    add("CZ(shift=.25)^n", lambda q0, q1, k: cirq.CZPowGate(exponent=0.1, global_shift=0.25).on(q0, q1))
    add("PhX(shift)", lambda q0, q1, k: cirq.PhasedXPowGate(phase_exponent=0.1, exponent=0.5, global_shift=0.25).on(q0))
    add("FSim(g,g2)", lambda q0, q1, k: cirq.FSimGate(theta=g, phi=g2).on(q0, q1))
    add("FSim(7,n)", lambda q0, q1, k: cirq.FSimGate(theta=7.0, phi=0.1).on(q0, q1))
    # --- documented rejections (argument function language / unsupported gates)
    add("X^cos(s)", lambda q0, q1, k: cirq.X(q0) ** sympy.cos(s), rej=True)
    add("FSim(cos(s))", lambda q0, q1, k: cirq.FSimGate(theta=sympy.cos(s), phi=0.25).on(q0, q1), rej=True)
    add("X^floor(s)", lambda q0, q1, k: cirq.X(q0) ** sympy.floor(s), rej=True)
    add("CNOT", lambda q0, q1, k: cirq.CNOT(q0, q1), rej=True)
    add("SWAP", lambda q0, q1, k: cirq.SWAP(q0, q1), rej=True)
    add("CX(ctrl)", lambda q0, q1, k: cirq.X(q0).controlled_by(q1), rej=True)
    add("PhasedISwap", lambda q0, q1, k: cirq.PhasedISwapPowGate(phase_exponent=0.1).on(q0, q1), rej=True)
    add("ZZ^.5", lambda q0, q1, k: (cirq.ZZ ** 0.5).on(q0, q1), rej=True)
    add("Matrix", lambda q0, q1, k: cirq.MatrixGate(np.eye(2)).on(q0), rej=True)
    # --- tags
    cal_x, cal_y = cg.CalibrationTag("x"), cg.CalibrationTag("y")
    pz, fvm, tpf, cdt = cg.PhysicalZTag(), cg.FSimViaModelTag(), cg.TwoPulseFSimTag(), cg.CompressDurationTag()
    ddx, ddxy4 = cg.ops.DynamicalDecouplingTag("X"), cg.ops.DynamicalDecouplingTag("XY4")
    itag = cg.InternalTag(name="T", package="p", x=1, y="v", w=0.25, z=("a", 1))
    add("Z^q+PhysZ", lambda q0, q1, k: (cirq.Z(q0) ** 0.25).with_tags(pz), corel=True)
    add("Z^s+PhysZ", lambda q0, q1, k: (cirq.Z(q0) ** s).with_tags(pz))
    add("X+PhysZ", lambda q0, q1, k: cirq.X(q0).with_tags(pz))
    add("X+Cal(x)", lambda q0, q1, k: cirq.X(q0).with_tags(cal_x), corel=True)
    add("X^q+Cal(x)", lambda q0, q1, k: (cirq.X(q0) ** 0.25).with_tags(cal_x), corel=True)
    add("CZ+Cal(x)", lambda q0, q1, k: cirq.CZ(q0, q1).with_tags(cal_x), corel=True)
    add("X+Cal(y)", lambda q0, q1, k: cirq.X(q0).with_tags(cal_y))
    add("FSim+ViaModel", lambda q0, q1, k: cirq.FSimGate(0.25, 0.5).on(q0, q1).with_tags(fvm), corel=True)
    add("FSim+TwoPulse", lambda q0, q1, k: cirq.FSimGate(0.25, 0.5).on(q0, q1).with_tags(tpf))
    add("FSim+both", lambda q0, q1, k: cirq.FSimGate(0.25, 0.5).on(q0, q1).with_tags(fvm, tpf), rej=True)
    add("FSim(plain .25,.5)", lambda q0, q1, k: cirq.FSimGate(0.25, 0.5).on(q0, q1))
    add("X+ViaModel", lambda q0, q1, k: cirq.X(q0).with_tags(fvm))
    add("X+ITag", lambda q0, q1, k: cirq.X(q0).with_tags(itag), corel=True)
    add("X+ITag()", lambda q0, q1, k: cirq.X(q0).with_tags(cg.InternalTag(name="T", package="p")))
    add("X+ITag(n)", lambda q0, q1, k: cirq.X(q0).with_tags(cg.InternalTag(name="T", package="p", w=0.1, e=2 * s + 1)))
    add("X+DD(X)", lambda q0, q1, k: cirq.X(q0).with_tags(ddx), corel=True)
    add("I+DD(XY4)", lambda q0, q1, k: cirq.I(q0).with_tags(ddxy4))
    add("X+Compress", lambda q0, q1, k: cirq.X(q0).with_tags(cdt), corel=True)
    add("PhXZ+Compress", lambda q0, q1, k: cirq.PhasedXZGate(x_exponent=0, z_exponent=0.25, axis_phase_exponent=0).on(q1).with_tags(cdt))
    add("X+(Cal,DD)", lambda q0, q1, k: cirq.X(q0).with_tags(cal_x, ddx), corel=True)
    add("X+(DD,Cal)", lambda q0, q1, k: cirq.X(q0).with_tags(ddx, cal_x), corel=True)
    add("Z+(PhysZ,Cal)", lambda q0, q1, k: cirq.Z(q0).with_tags(pz, cal_x), corel=True)
    add("FSim+(ViaModel,Cal)", lambda q0, q1, k: cirq.FSimGate(0.25, 0.5).on(q0, q1).with_tags(fvm, cal_x))
    add("X+(Cal x,Cal y)", lambda q0, q1, k: cirq.X(q0).with_tags(cal_x, cal_y))
    add("X+(foo,foo)", lambda q0, q1, k: cirq.X(q0).with_tags("foo", "foo"))
    add("X+'foo'", lambda q0, q1, k: cirq.X(q0).with_tags("foo"), corel=True)
    add("X+7", lambda q0, q1, k: cirq.X(q0).with_tags(7))
    add("X+('a',1)", lambda q0, q1, k: cirq.X(q0).with_tags(("a", 1)))
    add("X+('x',)", lambda q0, q1, k: cirq.X(q0).with_tags(("x",)))
    add("X+0", lambda q0, q1, k: cirq.X(q0).with_tags(0))                  # falsy raw values (see also prog_raw_tags)
    add("X+''", lambda q0, q1, k: cirq.X(q0).with_tags(""))
    add("X+()", lambda q0, q1, k: cirq.X(q0).with_tags(()))
    add("CZ+('foo',0)", lambda q0, q1, k: cirq.CZ(q0, q1).with_tags("foo", 0))
    add("X+unknown", lambda q0, q1, k: cirq.X(q0).with_tags(_UnknownTag()), rej=True)
    # tag order against the gate-specific flags, type-losing tuples (see final report)
    add("Z+(Cal,PhysZ)", lambda q0, q1, k: cirq.Z(q0).with_tags(cal_x, pz), find="flag_tag_order")
    add("FSim+(Cal,ViaModel)", lambda q0, q1, k: cirq.FSimGate(0.25, 0.5).on(q0, q1).with_tags(cal_x, fvm),
        find="flag_tag_order")
    add("X+(1,2)", lambda q0, q1, k: cirq.X(q0).with_tags((1, 2)), find="numeric_tuple_becomes_list")
    add("X+ITag(z=(1,2))", lambda q0, q1, k: cirq.X(q0).with_tags(cg.InternalTag(name="T", package="p", z=(1, 2))),
        find="numeric_tuple_becomes_list")
    # --- measurements
    add("M(q0,q1;m)", lambda q0, q1, k: cirq.measure(q0, q1, key="m"), corel=True)
    add("M(q1,q0;k,inv=(1,))", lambda q0, q1, k: cirq.measure(q1, q0, key="k", invert_mask=(True,)), corel=True)
    add("M(q0;m)", lambda q0, q1, k: cirq.measure(q0, key="m"), corel=True)
    add("M(q0,q1;k,inv=(0,1))", lambda q0, q1, k: cirq.measure(q0, q1, key="k", invert_mask=(False, True)))
    add("M(q0,q1;k,inv=(0,0))", lambda q0, q1, k: cirq.measure(q0, q1, key="k", invert_mask=(False, False)))
    add("M(q0;m,inv=(1,))", lambda q0, q1, k: cirq.measure(q0, key="m", invert_mask=(True,)))
    add("M(q0;'')", lambda q0, q1, k: cirq.measure(q0, key=""))
    add("M(q0;unicode)", lambda q0, q1, k: cirq.measure(q0, key="mé-1 x"))
    add("M(q0;m)+Cal", lambda q0, q1, k: cirq.measure(q0, key="m").with_tags(cal_x))
    # --- classical control
    m_sym = sympy.Symbol("m")
    add("X?m", lambda q0, q1, k: cirq.X(q0).with_classical_controls("m"), corel=True)
    add("X?(m,k)", lambda q0, q1, k: cirq.X(q0).with_classical_controls("m", "k"), unordered=True)
    add("X?(m>1)", lambda q0, q1, k: cirq.X(q0).with_classical_controls(sympy.Gt(m_sym, 1)), corel=True)
    add("X?(m==1|k!=0)", lambda q0, q1, k: cirq.X(q0).with_classical_controls(
        sympy.Or(sympy.Eq(m_sym, 1), sympy.Ne(sympy.Symbol("k"), 0))), unordered=True)
    add("X?bitmask==", lambda q0, q1, k: cirq.X(q0).with_classical_controls(
        cirq.BitMaskKeyCondition("m", bitmask=1, target_value=1, equal_target=True)), corel=True)
    add("X?bitmask!=", lambda q0, q1, k: cirq.X(q0).with_classical_controls(
        cirq.BitMaskKeyCondition("m", bitmask=None, target_value=0, equal_target=False, index=0)))
    add("X?m[0]", lambda q0, q1, k: cirq.X(q0).with_classical_controls(cirq.KeyCondition(cirq.MeasurementKey("m"), index=0)))
    add("CZ?m", lambda q0, q1, k: cirq.CZ(q0, q1).with_classical_controls("m"), corel=True)
    add("X^s?m", lambda q0, q1, k: (cirq.X(q0) ** s).with_classical_controls("m"))
    add("X^n?k", lambda q0, q1, k: (cirq.X(q0) ** 0.1).with_classical_controls("k"))
    add("(X?m)+Cal", lambda q0, q1, k: cirq.X(q0).with_classical_controls("m").with_tags(cal_x), rej=True)
    # --- circuit operations
    def sub1(q0, q1):
        return cirq.FrozenCircuit(cirq.X(q0), cirq.CZ(q0, q1))

    def subm(q0, q1):
        return cirq.FrozenCircuit(cirq.X(q0), cirq.measure(q0, key="m"))

    def subs(q0, q1):
        return cirq.FrozenCircuit(cirq.X(q0) ** s, cirq.measure(q0, key="m"))

    add("CO(sub1)", lambda q0, q1, k: cirq.CircuitOperation(sub1(q0, q1)), corel=True)
    add("CO(sub1)x2", lambda q0, q1, k: cirq.CircuitOperation(sub1(q0, q1), repetitions=2), corel=True)
    add("CO(sub1)x2,ids", lambda q0, q1, k: cirq.CircuitOperation(sub1(q0, q1), repetitions=2, use_repetition_ids=True))
    add("CO(subm)[p,q]", lambda q0, q1, k: cirq.CircuitOperation(subm(q0, q1), repetitions=2, repetition_ids=["p", "q"]),
        corel=True)
    add("CO(sub1)x-1", lambda q0, q1, k: cirq.CircuitOperation(sub1(q0, q1), repetitions=-1))
    add("CO(sub1)x0", lambda q0, q1, k: cirq.CircuitOperation(sub1(q0, q1), repetitions=0))
    add("CO(subs,maps)", lambda q0, q1, k: cirq.CircuitOperation(subs(q0, q1), qubit_map={q0: q1},
                                                             measurement_key_map={"m": "k"}, param_resolver={s: 0.25}),
        corel=True)
    add("CO(subs,s=n)", lambda q0, q1, k: cirq.CircuitOperation(subs(q0, q1), param_resolver={s: 0.1}))
    add("CO(subs,s=t)", lambda q0, q1, k: cirq.CircuitOperation(subs(q0, q1), param_resolver={s: t}))
    add("CO(subs,'s'=1)", lambda q0, q1, k: cirq.CircuitOperation(subs(q0, q1), param_resolver={"s": 1}))
    add("CO(subs,s=2t)", lambda q0, q1, k: cirq.CircuitOperation(subs(q0, q1), param_resolver={s: 2 * t}), rej=True)
    add("CO(sub1)?m", lambda q0, q1, k: cirq.CircuitOperation(sub1(q0, q1)).with_classical_controls("m"), corel=True)
    add("CO(sub1)x2?(m>1)", lambda q0, q1, k: cirq.CircuitOperation(sub1(q0, q1), repetitions=2)
        .with_classical_controls(sympy.Gt(m_sym, 1)))
    add("CO(CO(X)x3,X)", lambda q0, q1, k: cirq.CircuitOperation(cirq.FrozenCircuit(
        cirq.CircuitOperation(cirq.FrozenCircuit(cirq.X(q0)), repetitions=3), cirq.X(q0))), corel=True)
    add("CO(CO(sub1),X?m)", lambda q0, q1, k: cirq.CircuitOperation(cirq.FrozenCircuit(
        cirq.CircuitOperation(sub1(q0, q1)), cirq.X(q0).with_classical_controls("m"))))
    add("CO(empty)", lambda q0, q1, k: cirq.CircuitOperation(cirq.FrozenCircuit()))
    add("CO(until)", lambda q0, q1, k: cirq.CircuitOperation(subm(q0, q1), use_repetition_ids=False,
                                                         repeat_until=cirq.KeyCondition(cirq.MeasurementKey("m"))))
    add("CO(tagged sub)", lambda q0, q1, k: cirq.CircuitOperation(cirq.FrozenCircuit(
        cirq.Moment((cirq.Y(q0) ** 0.125).with_tags(cal_x), tags=(cal_x,)), tags=("ct", cal_x))))
    add("CO(sub1)+tag", lambda q0, q1, k: cirq.CircuitOperation(sub1(q0, q1)).with_tags("t"),
        find="circuit_op_tags_dropped")
    # --- waits, resets
    add("wait(5ns)", lambda q0, q1, k: cirq.wait(q0, nanos=5), corel=True)
    add("wait(q0,q1;.1ns)", lambda q0, q1, k: cirq.wait(q0, q1, nanos=0.1))
    add("wait(1ps)", lambda q0, q1, k: cirq.wait(q0, picos=1))
    add("wait(s)", lambda q0, q1, k: cirq.WaitGate(cirq.Duration(nanos=s)).on(q0))
    add("WGU(5ns)", lambda q0, q1, k: cg.ops.WaitGateWithUnit(5 * tu.ns).on(q0), corel=True)
    add("WGU(.1us,2q)", lambda q0, q1, k: cg.ops.WaitGateWithUnit(0.1 * tu.us, num_qubits=2).on(q0, q1))
    add("WGU(s)", lambda q0, q1, k: cg.ops.WaitGateWithUnit(s).on(q0))
    add("reset", lambda q0, q1, k: cirq.ResetChannel().on(q0), corel=True)
    add("LZSReset", lambda q0, q1, k: cg.ops.LZSResetViaResonator().on(q0))
    add("MLReset", lambda q0, q1, k: cg.ops.MultilevelResetViaResonator().on(q0))
    add("LeakISWAP(m)", lambda q0, q1, k: cg.ops.LeakageISWAP(phase_matched=True).on(q0, q1))
    add("LeakISWAP(u)", lambda q0, q1, k: cg.ops.LeakageISWAP(phase_matched=False).on(q0, q1))
    # --- noise
    add("depol(q)", lambda q0, q1, k: cirq.depolarize(0.25).on(q0))
    add("depol(n)", lambda q0, q1, k: cirq.depolarize(0.1).on(q1), corel=True)
    add("depol(q,2)", lambda q0, q1, k: cirq.depolarize(0.25, n_qubits=2).on(q0, q1))
    add("X.p(q)", lambda q0, q1, k: cirq.X(q0).with_probability(0.25), corel=True)
    add("X.p(n)", lambda q0, q1, k: cirq.X(q0).with_probability(0.1))
    add("X.p(s)", lambda q0, q1, k: cirq.X(q0).with_probability(s))
    add("X.p(1)", lambda q0, q1, k: cirq.X(q0).with_probability(1))
    add("CZ.p(.5)", lambda q0, q1, k: cirq.CZ(q0, q1).with_probability(0.5))
    add("X^s.p(.5)", lambda q0, q1, k: (cirq.X(q0) ** s).with_probability(0.5))
    add("X^n.p(n)", lambda q0, q1, k: (cirq.X(q0) ** 0.1).with_probability(0.1))
    add("depol(1)", lambda q0, q1, k: cirq.depolarize(1).on(q0), find="depolarize_integral_p")
    add("depol(0.0)", lambda q0, q1, k: cirq.depolarize(0.0).on(q0), find="depolarize_integral_p")
    # --- coupler pulse, fixed gates, identities
    add("Coupler", lambda q0, q1, k: CouplerPulse(hold_time=cirq.Duration(nanos=10), coupling_mhz=25.0,
                                               rise_time=cirq.Duration(nanos=18),
                                               padding_time=cirq.Duration(picos=2500)).on(q0, q1), corel=True)
    add("Coupler(n,s)", lambda q0, q1, k: CouplerPulse(hold_time=cirq.Duration(nanos=10), coupling_mhz=0.1,
                                                    q0_detune_mhz=s, q1_detune_mhz=2.5).on(q0, q1))
    add("SYC", lambda q0, q1, k: cg.SYC(q0, q1), corel=True)
    add("WILLOW", lambda q0, q1, k: cg.WILLOW(q0, q1))
    add("I", lambda q0, q1, k: cirq.I(q0), corel=True)
    add("I2", lambda q0, q1, k: cirq.IdentityGate(2).on(q0, q1))
    # --- all 24 single-qubit Cliffords
    for ci, cgate in enumerate(cirq.SingleQubitCliffordGate.all_single_qubit_cliffords):
        add(f"Cliff{ci}", lambda q0, q1, k, cgate=cgate: cgate.on(q0), corel=ci in (0, 5, 17), pairs=ci in (0, 5, 11, 17))
    # --- InternalGate argument shapes
    IG = cg.InternalGate
    ca = cg.ops.internal_gate.function_points_to_proto([0, 0.5, 1], [1, 2, 3])
    add("IG()", lambda q0, q1, k: IG("G", "mod", 1).on(q0), corel=True)
    add("IG(mod='')", lambda q0, q1, k: IG("G", "", 1).on(q0))
    add("IG(scalars,2q)", lambda q0, q1, k: IG("G", "mod", 2, x=1, y=0.25, z="v", w=True).on(q0, q1), corel=True)
    add("IG(n)", lambda q0, q1, k: IG("G", "mod", 1, x=0.1).on(q0))
    add("IG(mixed tuple)", lambda q0, q1, k: IG("G", "mod", 1, x=("a", 1)).on(q0))
    add("IG(str tuple)", lambda q0, q1, k: IG("G", "mod", 1, x=("a", "b")).on(q0))
    add("IG(nested)", lambda q0, q1, k: IG("G", "mod", 1, x=(1, "a", (2, ("b", 0.25), ()))).on(q0))
    add("IG(())", lambda q0, q1, k: IG("G", "mod", 1, x=()).on(q0))
    add("IG(frozenset)", lambda q0, q1, k: IG("G", "mod", 1, x=frozenset(["a", 1])).on(q0), unordered=True)
    add("IG(complex)", lambda q0, q1, k: IG("G", "mod", 1, x=1 + 2j).on(q0))
    add("IG(bytes)", lambda q0, q1, k: IG("G", "mod", 1, x=b"ab").on(q0))
    add("IG(units)", lambda q0, q1, k: IG("G", "mod", 1, x=5 * tu.ns, y=0.1 * tu.GHz).on(q0))
    add("IG(s)", lambda q0, q1, k: IG("G", "mod", 1, x=s).on(q0))
    add("IG(e)", lambda q0, q1, k: IG("G", "mod", 1, x=2 * s + 1, y=0.1 * s).on(q0))
    add("IG(key)", lambda q0, q1, k: IG("G", "mod", 1, x=cirq.MeasurementKey("m")).on(q0))
    add("IG(None)", lambda q0, q1, k: IG("G", "mod", 1, x=None).on(q0))
    add("IG(2**40)", lambda q0, q1, k: IG("G", "mod", 1, x=2 ** 40).on(q0))
    add("IG(np scalars)", lambda q0, q1, k: IG("G", "mod", 1, x=np.float64(0.25), y=np.int64(3)).on(q0))
    add("IG(custom)", lambda q0, q1, k: IG("G", "mod", 1, custom_args={"f": ca}, x=1).on(q0))
    add("IG(H)", lambda q0, q1, k: IG("H", "mod", 1).on(q0))
    add("IG(cos)", lambda q0, q1, k: IG("G", "mod", 1, x=sympy.cos(s)).on(q0), rej=True)
    add("IG(module=None)", lambda q0, q1, k: IG("G", None, 1).on(q0), find="internal_gate_module_none")
    add("IG(int tuple)", lambda q0, q1, k: IG("G", "mod", 1, x=(1, 2)).on(q0), find="numeric_tuple_becomes_list")
    add("IG(list)", lambda q0, q1, k: IG("G", "mod", 1, x=[1, 2]).on(q0), find="internal_gate_unhashable_args")
    add("IG(ndarray)", lambda q0, q1, k: IG("G", "mod", 1, x=np.array([1.5, 2.5])).on(q0),
        find="internal_gate_unhashable_args")
    # --- InternalGate with ndarray arguments: every dtype of api/v2/ndarrays.py x memory layout (asymmetric contents)
    for dn in ND_DTYPES:
        for ln in ("C", "T", "F", "stride0", "stride_last", "rev_last", "swap"):
            arr = nd_array(dn, (3, 4), ln)
            add(f"IG(nd {dn} {ln})", lambda q0, q1, k, arr=arr: IG("G", "mod", 1, table=arr).on(q0),
                pairs=(dn, ln) in (("float64", "T"), ("int32", "stride_last"), ("bool", "F")))
        arr3 = nd_array(dn, (2, 3, 4), "T")
        add(f"IG(nd {dn} 3d T)", lambda q0, q1, k, arr3=arr3: IG("G", "mod", 2, table=arr3, n=1).on(q0, q1), pairs=False)
        add(f"IG(nd {dn} empty)", lambda q0, q1, k, dn=dn: IG("G", "mod", 1, table=nd_array(dn, (0, 3), "C")).on(q0),
            pairs=False)
        add(f"IG(nd {dn} 1d strided)", lambda q0, q1, k, dn=dn: IG("G", "mod", 1, table=nd_array(dn, (5,), "stride0")).on(q0),
            pairs=False)
    # --- analog gates
    add("ADQ", lambda q0, q1, k: cg.AnalogDetuneQubit(length=5 * tu.ns, w=5 * tu.ns, target_freq=5 * tu.GHz, prev_freq=None,
                                                  neighbor_coupler_g_dict={"c_q0_0_q0_1": 5 * tu.MHz},
                                                  prev_neighbor_coupler_g_dict=None).on(q0))
    add("ADQ(s)", lambda q0, q1, k: cg.AnalogDetuneQubit(length=0.1 * tu.ns, w=s, target_freq=None, prev_freq=4 * tu.GHz,
                                                     neighbor_coupler_g_dict=None,
                                                     prev_neighbor_coupler_g_dict={"c": sympy.Symbol("gg")},
                                                     linear_rise=False).on(q0))
    add("ADC", lambda q0, q1, k: cg.AnalogDetuneCouplerOnly(length=5 * tu.ns, w=5 * tu.ns, g_0=None, g_max=4 * tu.MHz,
                                                        neighbor_qubits_freq=(5 * tu.GHz, 6 * tu.GHz)).on(q0, q1))
    add("ADC(s)", lambda q0, q1, k: cg.AnalogDetuneCouplerOnly(
        length=s, w=0.1 * tu.ns, g_0=1 * tu.MHz, g_max=4 * tu.MHz, g_ramp_exponent=2,
        neighbor_qubits_freq=(5 * tu.GHz, None), prev_neighbor_qubits_freq=(None, sympy.Symbol("f")),
        interpolate_coupling_cal=True, analog_cal_for_pulseshaping=True).on(q0, q1))
    # --- qubit kinds
    add("X(line)", lambda q0, q1, k: cirq.X(LINE[k]))
    add("X(named)", lambda q0, q1, k: cirq.X(NAMED[k]), corel=True)
    add("X(q(r,c))", lambda q0, q1, k: cirq.X(cirq.q(5 + k, 3)))
    add("X(q('name'))", lambda q0, q1, k: cirq.X(cirq.q(f"w{k}")))
    add("X(q(int))", lambda q0, q1, k: cirq.X(cirq.q(11 + k)))
    add("X(grid -1)", lambda q0, q1, k: cirq.X(G(-1 - k, 2)))
    add("X(line -3)", lambda q0, q1, k: cirq.X(cirq.LineQubit(-3 - k)))
    add("CZ(grid,line)", lambda q0, q1, k: cirq.CZ(q0, LINE[k]))
    add("CZ(named,grid)", lambda q0, q1, k: cirq.CZ(NAMED[k], q1))
    add("X(coupler)", lambda q0, q1, k: cirq.X(cg.Coupler(q0, q1)))
    add("M(line,named)", lambda q0, q1, k: cirq.measure(LINE[k], NAMED[k], key="ln"))

    V = dict(letters=L, pairs=[i for i, l in enumerate(L) if l["pairs"]], core=[i for i, l in enumerate(L) if l["core"]])
    names = [l["name"] for l in L]
    if len(set(names)) != len(names):
        raise core.HarnessError("duplicate letter names in the C16 vocabulary")
    _VOCAB[seed] = V
    return V


def place(V, li, slot):
    """The (immutable) operation of letter li on qubit slot `slot` (cached per worker)."""
    cache = V.setdefault("placed", {})
    op = cache.get((li, slot))
    if op is None:
        q0, q1 = SLOTS[slot]
        op = cache[(li, slot)] = V["letters"][li]["fn"](q0, q1, slot)
    return op


# =============================================================================================
# (a) program stages
# =============================================================================================

F_MOMENT_TAGS = "moment_tags_shared_by_equal_moments"


def _all_moments(circ, out):
    for m in circ.moments:
        out.append(m)
        for op in m.operations:
            u = op.untagged.without_classical_controls().untagged
            if isinstance(u, cirq.CircuitOperation):
                _all_moments(u.circuit, out)
    return out


def _equal_moments_with_different_tags(circ):
    ms = _all_moments(circ, [])
    try:
        return any(ms[i] == ms[j] and list(ms[i].tags) != list(ms[j].tags)
                   for i in range(len(ms)) for j in range(i + 1, len(ms)))
    except Exception:      # operations with ndarray arguments cannot be compared with ==
        return False


def _run_circuits(named_circuits, unordered, find=None, stable_labels=None, skip_if=None):
    """named_circuits: list of (label, thunk building the circuit); the stability (second round trip) check runs
    on every circuit, or only on those whose label is in stable_labels."""
    n = 0
    nontriv = False
    for label, thunk in named_circuits:
        circ = thunk()
        if skip_if is not None and skip_if(circ):
            continue
        stab = stable_labels is None or label in stable_labels
        if find is not None:
            try:
                d, nt = check_program(circ, unordered, stab)
            except Exception as ex:
                return bad(f"[{label}] {type(ex).__name__}: {ex}\n c = {circ!r}", kind=find)
            if d:
                return bad(f"[{label}] {d[1]}", kind=find)
        else:
            d, nt = check_program(circ, unordered, stab)
            if d:
                kind = d[0]
                if kind == "moment_tags" and _equal_moments_with_different_tags(circ):
                    # root cause classification: Moment.__eq__ ignores tags, so the constants table shares the entry
                    kind = F_MOMENT_TAGS
                return bad(f"[{label}] {d[1]}", kind=kind)
        nontriv = nontriv or nt
        n += 1
    return good(nontrivial=nontriv, circuits=n)


def make_letter_stage(seed):
    V = vocab(seed)
    # (letters that currently expose suspected defects are ordered last so that they cannot hide anything new)
    cases = [i for i, l in enumerate(V["letters"]) if l["find"] is None]
    cases += [i for i, l in enumerate(V["letters"]) if l["find"] is not None]

    def run(li):
        L = V["letters"][li]
        x0 = lambda: place(V, li, 0)
        x1 = lambda: place(V, li, 1)
        circuits = [
            ("single", lambda: cirq.Circuit(x0())),
            ("twice", lambda: cirq.Circuit(cirq.Moment(x0()), cirq.Moment(x0()))),
            ("two slots", lambda: cirq.Circuit(cirq.Moment(x0(), x1()), cirq.Moment(x1()))),
            ("frozen", lambda: cirq.FrozenCircuit(cirq.Moment(x0()), cirq.Moment(x1()))),
        ]
        if L["rej"]:
            # documented rejection: ValueError from serialize or deserialize; anything else propagates
            try:
                return _run_circuits(circuits, L["unordered"])
            except ValueError:
                return Res(skipped=True, nontrivial=False)
        return _run_circuits(circuits, L["unordered"], find=L["find"])

    return CaseStage("prog_letters", cases, run, describe=lambda li: [li, V["letters"][li]["name"]])


def make_moment_tag_stage(seed):
    """Moments that are equal but for their tags (Moment.__eq__ ignores tags) must not share a constant."""
    V = vocab(seed)
    cases = list(V["core"])

    def run(li):
        L = V["letters"][li]
        x0 = lambda: place(V, li, 0)
        circuits = [
            ("plain,tagged,plain", lambda: cirq.Circuit([cirq.Moment(x0()), cirq.Moment(x0(), tags=("mt",)), cirq.Moment(x0())])),
            ("tagged,plain", lambda: cirq.Circuit([cirq.Moment(x0(), tags=("mt",)), cirq.Moment(x0())])),
            ("tag a,tag b", lambda: cirq.Circuit([cirq.Moment(x0(), tags=("ma",)), cirq.Moment(x0(), tags=("mb", "ma"))])),
        ]
        return _run_circuits(circuits, L["unordered"], find=F_MOMENT_TAGS)

    return CaseStage("prog_moment_tags", cases, run, describe=lambda li: [li, V["letters"][li]["name"]])


def _pair_circuits(V, i, j):
    x0 = lambda: place(V, i, 0)
    y0 = lambda: place(V, j, 0)
    y1 = lambda: place(V, j, 1)
    M = cirq.Moment
    return [
        ("same moment", lambda: cirq.Circuit([M(x0(), y1())])),
        ("consecutive", lambda: cirq.Circuit([M(x0()), M(y0())])),
        ("repeated moment", lambda: cirq.Circuit([M(x0(), y1()), M(x0(), y1())])),
        ("sandwich", lambda: cirq.Circuit([M(x0()), M(y0()), M(x0())])),
        ("op reuse", lambda: cirq.Circuit([M(x0()), M(x0(), y1()), M(y1())])),
    ]


def make_pair_stage(seed):
    V = vocab(seed)
    P = V["pairs"]
    cases = [(i, j) for i in P for j in P]

    def run(case):
        i, j = case
        Ls = V["letters"]
        return _run_circuits(_pair_circuits(V, i, j), Ls[i]["unordered"] or Ls[j]["unordered"],
                             stable_labels=("op reuse",))

    return CaseStage("prog_pairs", cases, run,
                     describe=lambda c: [c, V["letters"][c[0]]["name"], V["letters"][c[1]]["name"]])


def _triple_circuits(V, i, j, k):
    x0 = lambda: place(V, i, 0)
    y0 = lambda: place(V, j, 0)
    y1 = lambda: place(V, j, 1)
    z0 = lambda: place(V, k, 0)
    z1 = lambda: place(V, k, 1)
    z2 = lambda: place(V, k, 2)
    M = cirq.Moment
    return [
        ("same moment", lambda: cirq.Circuit([M(x0(), y1(), z2())])),
        ("consecutive", lambda: cirq.Circuit([M(x0()), M(y0()), M(z0())])),
        ("repeated around", lambda: cirq.Circuit([M(x0(), y1()), M(z0()), M(x0(), y1())])),
        ("op reuse", lambda: cirq.Circuit([M(x0()), M(y0(), z1()), M(x0()), M(z1())])),
    ]


def make_triple_stage(seed):
    V = vocab(seed)
    C = V["core"]
    cases = [(i, j, k) for i in C for j in C for k in C]

    def run(case):
        i, j, k = case
        Ls = V["letters"]
        return _run_circuits(_triple_circuits(V, i, j, k), any(Ls[x]["unordered"] for x in case),
                             stable_labels=("op reuse",))

    return CaseStage("prog_triples", cases, run,
                     describe=lambda c: [c] + [V["letters"][x]["name"] for x in c])


def _decor_circuits(V, i, j):
    x0 = lambda: place(V, i, 0)
    y0 = lambda: place(V, j, 0)
    y1 = lambda: place(V, j, 1)
    M = cirq.Moment
    cal_x = cg.CalibrationTag("x")
    F = cirq.FrozenCircuit
    CO = cirq.CircuitOperation
    return [
        # (moments that are equal but for their tags are the subject of the prog_moment_tags stage: keep them apart)
        ("moment+circuit tags", lambda: cirq.Circuit([M(x0(), tags=(cal_x, "mt", cal_x)),
                                                      M(y0(), tags=(cal_x, "mt", cal_x) if x0() == y0() else ("mt",))],
                                                     tags=("ct", cal_x, "mt", "ct"))),
        ("equal tagged moments", lambda: cirq.Circuit([M(x0(), tags=("mt",)), M(y0(), tags=("mt",)), M(x0(), tags=("mt",))])),
        ("frozen input", lambda: F(M(x0()), M(y0()), tags=("ft",))),
        ("sub-circuit twice", lambda: cirq.Circuit([M(CO(F(x0(), y1()))), M(CO(F(x0(), y1()), repetitions=2)), M(x0())])),
        ("sub-circuits equal but for tags", lambda: cirq.Circuit([M(CO(F(x0(), y1()))), M(CO(F(x0(), y1(), tags=("st",)))),
                                                                  M(CO(F(x0(), y1())))])),
        ("op inside and outside sub-circuit", lambda: cirq.Circuit([M(y0()), M(CO(F(M(y0()), M(x0())))), M(x0())])),
    ]


def make_decor_stage(seed):
    V = vocab(seed)
    C = V["core"]
    cases = [(i, j) for i in C for j in C]

    def run(case):
        i, j = case
        Ls = V["letters"]
        # circuits in which two moments are equal but for their tags (e.g. an untagged moment of a sub-circuit and a
        # tagged top-level moment) are the subject of the prog_moment_tags stage and are not repeated here
        return _run_circuits(_decor_circuits(V, i, j), Ls[i]["unordered"] or Ls[j]["unordered"],
                             skip_if=_equal_moments_with_different_tags)

    return CaseStage("prog_decor", cases, run,
                     describe=lambda c: [c, V["letters"][c[0]]["name"], V["letters"][c[1]]["name"]])


_CONDS = None


def conditions():
    """Every field of every condition kind at default, falsy-but-non-default and boundary values."""
    global _CONDS
    if _CONDS is not None:
        return _CONDS
    m, k, j = sympy.Symbol("m"), sympy.Symbol("k"), sympy.Symbol("j")
    A, B = sympy.IndexedBase("m"), sympy.IndexedBase("k")
    C = []          # (condition, flag) flag: None | "rej" | finding kind
    for bm, tv, eq, ix in itertools.product((None, 0, 1, 13), (0, 1, 9), (False, True), (-1, 0, 1)):
        C.append((cirq.BitMaskKeyCondition("m", index=ix, target_value=tv, equal_target=eq, bitmask=bm), None))
    C.append((cirq.BitMaskKeyCondition.create_equal_mask(cirq.MeasurementKey("k"), 0), None))
    C.append((cirq.BitMaskKeyCondition.create_not_equal_mask(cirq.MeasurementKey("k"), 0, index=0), None))
    C.append((cirq.BitMaskKeyCondition(cirq.MeasurementKey("m", path=("p",)), bitmask=0, index=0), None))
    C.append((cirq.BitMaskKeyCondition("m", bitmask=2 ** 20 + 1, target_value=2 ** 20), None))
    for ix in (-1, 0, 1):
        C.append((cirq.KeyCondition(cirq.MeasurementKey("m"), ix), None))
    for ix in (-1, 0):
        C.append((cirq.KeyCondition(cirq.MeasurementKey("m", path=("p", "q")), ix), None))
    C.append((cirq.KeyCondition(cirq.MeasurementKey("k")), None))
    exprs = [
        sympy.Eq(m, 1), sympy.Eq(m, 0), sympy.Ne(m, 0), sympy.Ne(m, 1), sympy.Gt(m, 1), sympy.Gt(m, 0), sympy.Ge(m, 1),
        sympy.Lt(m, 3), sympy.Lt(m, 0), sympy.Le(m, 0), sympy.Eq(m, -1), sympy.Eq(m, 0.5), m > 0.1, sympy.Eq(m, k),
        sympy.Ne(m, k + 1), m + k > 1, 2 * m < 3, m * k,
        sympy.And(m > 0, k < 2), sympy.Or(sympy.Eq(m, 1), sympy.Ne(k, 0)), sympy.Not(sympy.And(m > 0, k < 2)),
        sympy.Not(sympy.Or(m > 0, sympy.Eq(k, 0))), sympy.Xor(m > 0, k > 0),
        sympy.And(sympy.Eq(m, 1), sympy.Eq(k, 1), sympy.Eq(j, 0)), sympy.Or(sympy.And(m > 0, k > 0), sympy.Eq(j, 0)),
        sympy.Xor(A[0], A[1]), sympy.Xor(A[0], B[1]), sympy.Xor(A[0], A[1], A[2]), A[0], A[1], A[1, 0],
        sympy.Eq(A[0], 1), sympy.Eq(A[0], 0), sympy.And(sympy.Eq(A[0], 1), sympy.Ne(A[1], 1)),
        sympy.Or(sympy.Eq(A[0], 0), sympy.Eq(B[0], 0)), sympy.Not(sympy.Xor(sympy.Eq(A[0], 1), sympy.Eq(A[1], 1))),
    ]
    C += [(cirq.SympyCondition(e), None) for e in exprs]
    C.append((cirq.SympyCondition(sympy.true), "rej"))      # documented: unrecognized sympy expression type
    C.append((cirq.SympyCondition(m), "sympy_condition_bare_symbol"))
    _CONDS = C
    return C


def make_condition_stage():
    """Classical-control conditions: every condition as the only control of a gate op / a CircuitOperation, next to
    partner conditions on one op, as repeat_until, and every ordered pair of conditions in one circuit."""
    C = conditions()
    n = len(C)
    plain = [i for i in range(n) if C[i][1] is None]
    cases = [("single", i, 0) for i in plain] + [("pair", i, j) for i in plain for j in plain]
    cases += [("single", i, 0) for i in range(n) if C[i][1] is not None]
    q0, q1, q2 = SLOTS[0][0], SLOTS[0][1], SLOTS[1][0]
    sub = cirq.FrozenCircuit(cirq.measure(q0, key="m"), cirq.measure(q1, key="k"), cirq.measure(q2, key="j"), cirq.X(q0))
    sub_nm = cirq.FrozenCircuit(cirq.X(q0), cirq.CZ(q0, q1))      # (cirq does not allow controlling a measuring sub-circuit)
    partners = [cirq.KeyCondition(cirq.MeasurementKey("k")),
                cirq.BitMaskKeyCondition("j", bitmask=0, target_value=0, equal_target=True, index=0),
                cirq.SympyCondition(sympy.Eq(sympy.Symbol("j"), 0))]
    M = cirq.Moment

    def run(case):
        kind, i, j = case
        c, flag = C[i]
        if kind == "pair":
            d = C[j][0]
            circuits = [("two controlled ops", lambda: cirq.Circuit([M(cirq.X(q0).with_classical_controls(c)),
                                                                     M(cirq.X(q0).with_classical_controls(d)),
                                                                     M(cirq.X(q0).with_classical_controls(c))]))]
            if cond_diff(c, d) is not None and c != d:
                circuits.append(("two conditions on one op",
                                 lambda: cirq.Circuit(cirq.CZ(q0, q1).with_classical_controls(c, d))))
            return _run_circuits(circuits, True)
        circuits = [
            ("only control", lambda: cirq.Circuit(cirq.X(q0).with_classical_controls(c))),
            ("control of a tagged 2q op", lambda: cirq.Circuit(
                cirq.CZ(q0, q1).with_tags(cg.CalibrationTag("x")).with_classical_controls(c), cirq.CZ(q0, q1))),
            ("control of a CircuitOperation", lambda: cirq.Circuit(
                cirq.CircuitOperation(sub_nm, repetitions=2).with_classical_controls(c))),
        ]
        for pn, prt in enumerate(partners):
            circuits.append((f"with partner {pn}", lambda prt=prt: cirq.Circuit(cirq.X(q0).with_classical_controls(c, prt))))
            circuits.append((f"after partner {pn}", lambda prt=prt: cirq.Circuit(cirq.X(q0).with_classical_controls(prt, c))))
        try:
            ru = cirq.CircuitOperation(sub, use_repetition_ids=False, repeat_until=c)
            circuits.append(("repeat_until", lambda: cirq.Circuit(ru, cirq.X(q0).with_classical_controls(c))))
            circuits.append(("two repeat_until", lambda: cirq.Circuit(
                ru, cirq.CircuitOperation(sub, use_repetition_ids=False, repeat_until=partners[1]), ru)))
        except ValueError:
            pass        # cirq.CircuitOperation rejects a repeat_until whose keys the sub-circuit does not measure
        if flag == "rej":
            try:
                return _run_circuits(circuits, True)
            except ValueError:
                return Res(skipped=True, nontrivial=False)
        return _run_circuits(circuits, True, find=flag)

    def describe(case):
        return [list(case), repr(C[case[1]][0])] + ([repr(C[case[2]][0])] if case[0] == "pair" else [])

    return CaseStage("prog_conditions", cases, run, describe=describe)


RAW_TAGS = [0, 0.0, -0.0, "", False, (), b"", 0j, frozenset(),                      # falsy raw values
            True, 1, -1, 7, 1.0, 0.5, 0.1, 1e-8, 2 ** 24 + 1, 2 ** 40, 1j, b"\x00", " ", "0", "label2",
            ("",), ((),), ("a", 0), ((), 0), ("a", "b"), (0, "a"), frozenset(["", 0])]


def make_raw_tag_stage():
    """Raw-value tags (the `raw_value` branch of the Tag message) at falsy and boundary values, as operation, moment
    and circuit tags: alone, after / before a truthy tag, duplicated; and every ordered pair of distinct values."""
    n = len(RAW_TAGS)
    q0, q1 = SLOTS[0]
    arrangements = [lambda t: (t,), lambda t: ("label", t), lambda t: (t, "label"), lambda t: (t, t),
                    lambda t: (t, "label", t), lambda t: ("label", t, cg.CalibrationTag("x"), t)]
    cases = [("one", i, 0) for i in range(n)]
    # (values that are equal under Python's == (0 == 0.0 == False, 1 == 1.0 == True) are the same dict key, hence the
    #  same tag for cirq as well as for the constants table; they are not mixed in one circuit)
    cases += [("two", i, j) for i in range(n) for j in range(n) if RAW_TAGS[i] != RAW_TAGS[j]]
    M = cirq.Moment

    def run(case):
        kind, i, j = case
        t = RAW_TAGS[i]
        circuits = []
        if kind == "one":
            for an, arr in enumerate(arrangements):
                tags = arr(t)
                circuits += [
                    (f"op tags #{an}", lambda tags=tags: cirq.Circuit(cirq.X(q0).with_tags(*tags), cirq.X(q0))),
                    (f"2q op tags #{an}", lambda tags=tags: cirq.Circuit(cirq.CZ(q0, q1).with_tags(*tags),
                                                                         cirq.Z(q0).with_tags(cg.PhysicalZTag(), *tags))),
                    (f"controlled op tags #{an}", lambda tags=tags: cirq.Circuit(
                        cirq.X(q0).with_tags(*tags).with_classical_controls("m"))),
                    (f"moment tags #{an}", lambda tags=tags: cirq.Circuit([M(cirq.X(q0), tags=tags), M(cirq.X(q0))])),
                    (f"circuit tags #{an}", lambda tags=tags: cirq.Circuit(cirq.X(q0), tags=tags)),
                    (f"sub-circuit tags #{an}", lambda tags=tags: cirq.Circuit(cirq.CircuitOperation(
                        cirq.FrozenCircuit([M(cirq.Y(q0).with_tags(*tags), tags=tags)], tags=tags)))),
                    (f"everywhere #{an}", lambda tags=tags: cirq.Circuit(
                        [M(cirq.X(q0).with_tags(*tags), tags=tags), M(cirq.X(q0), tags=tags)], tags=tags)),
                ]
        else:
            u = RAW_TAGS[j]
            circuits = [
                ("two tags on one op", lambda: cirq.Circuit(cirq.X(q0).with_tags(t, u), cirq.X(q0).with_tags(u))),
                ("two ops", lambda: cirq.Circuit([M(cirq.X(q0).with_tags(t)), M(cirq.X(q0).with_tags(u)),
                                                  M(cirq.X(q0).with_tags(t))])),
                ("op / moment / circuit", lambda: cirq.Circuit([M(cirq.X(q0).with_tags(t), tags=(u,)),
                                                                M(cirq.X(q0).with_tags(u), tags=(t, u))], tags=(u, t))),
            ]
        unordered = any(isinstance(x, frozenset) for x in (t, RAW_TAGS[j] if kind == "two" else t))
        return _run_circuits(circuits, unordered)

    def describe(case):
        return [list(case), repr(RAW_TAGS[case[1]])] + ([repr(RAW_TAGS[case[2]])] if case[0] == "two" else [])

    return CaseStage("prog_raw_tags", cases, run, describe=describe)


def make_multi_stage(seed):
    """serialize_multi_program (list / dict) and serialize_circuit_function sharing ops across programs."""
    V = vocab(seed)
    C = V["core"]
    cases = [(i, j) for i in C for j in C]
    M = cirq.Moment

    def compare(expected, got, label):
        if len(expected) != len(got):
            return bad(f"[{label}] {len(expected)} programs became {len(got)}", kind="multi")
        for n, ((ek, eargs, ec), (gk, gargs, gc)) in enumerate(zip(expected, got)):
            if ek != gk:
                return bad(f"[{label}] program {n}: key {ek!r} became {gk!r}", kind="multi")
            if not val_close(dict(eargs), dict(gargs)) or len(eargs) != len(gargs):
                return bad(f"[{label}] program {n}: args {eargs!r} became {gargs!r}", kind="multi")
            d = circuit_diff(ec, gc)
            if d:
                return bad(f"[{label}] program {n} (key {ek!r}): {d[1]}\n c = {ec!r}\n back = {gc!r}", kind=d[0])
        return None

    def run(case):
        i, j = case
        x0 = lambda: place(V, i, 0)
        y0 = lambda: place(V, j, 0)
        y1 = lambda: place(V, j, 1)
        c1 = cirq.Circuit([M(x0()), M(y0())])
        c2 = cirq.Circuit([M(y0()), M(x0(), y1())], tags=("t2",))
        c3 = cirq.FrozenCircuit([M(x0()), M(y0())])
        n = 0
        # list form
        msg = S.serialize_multi_program([c1, c2, c3])
        got = S.deserialize_multi_program(_hop(msg))
        r = compare([("", (), c1), ("", (), c2), ("", (), c3)], got, "list")
        if r:
            return r
        n += 3
        # dict form
        msg = S.serialize_multi_program({"k1": c1, "k2": c2, "": c3})
        got = S.deserialize_multi_program(_hop(msg))
        r = compare([("k1", (), c1), ("k2", (), c2), ("", (), c3)], got, "dict")
        if r:
            return r
        n += 3
        # circuit function returning a circuit; second sweep parameter is not an argument of the function
        pts = [0.25, 0.1, 2.5]

        def f(p):
            return cirq.Circuit([M(x0()), M(cirq.X(SLOTS[2][0]) ** p, y1()), M(x0())])

        sweep = cirq.Zip(cirq.Points("p", pts), cirq.Points("unused", [1, 2, 3]))
        msg = S.serialize_circuit_function(f, sweep)
        got = S.deserialize_multi_program(_hop(msg))
        exp = [("", (("p", p), ("unused", u)), f(p)) for p, u in zip(pts, [1, 2, 3])]
        r = compare(exp, got, "function")
        if r:
            return r
        n += 3

        # function with **kwargs returning a mapping
        def h(**kw):
            return {"A": cirq.Circuit([M(cirq.Z(SLOTS[2][0]) ** kw["p"]), M(y0())]), "B": c1}

        msg = S.serialize_circuit_function(h, cirq.Points("p", [0.1, 0.5]))
        got = S.deserialize_multi_program(_hop(msg))
        exp = []
        for p in (0.1, 0.5):
            for key, c in h(p=p).items():
                exp.append((key, (("p", p),), c))
        r = compare(exp, got, "function->mapping")
        if r:
            return r
        n += 4
        return good(nontrivial=True, circuits=n)

    return CaseStage("prog_multi", cases, run,
                     describe=lambda c: [c, V["letters"][c[0]]["name"], V["letters"][c[1]]["name"]])


# =============================================================================================
# (b) sweeps and run contexts
# =============================================================================================

def _sweep_leaves(seed):
    g, g2 = core.generic(seed), core.generic(seed, 1)
    ns, us, GHz = tu.ns, tu.us, tu.GHz
    dp = DeviceParameter(path=["p", "q"], idx=2, units="GHz")
    L = []

    def add(name, sw, find=None, comb=True):
        L.append(dict(name=name, sweep=sw, find=find, comb=comb and find is None))

    add("unit", cirq.UnitSweep)
    add("Pa3", cirq.Points("a", [0.25, 0.1, 2.5]))
    add("Pb2i", cirq.Points("b", [1, 2]))
    add("Pb3g", cirq.Points("b", [g, -g2, 7]))
    add("Pb big", cirq.Points("b", [2 ** 30, 2 ** 31 + 1]), comb=False)
    add("Pb np", cirq.Points("b", [np.float32(0.1), np.int64(3), np.float64(0.3)]), comb=False)
    add("Pc float", cirq.Points("c", [0.1]))
    add("Pc int", cirq.Points("c", [3]))
    add("Pc None", cirq.Points("c", [None]), comb=False)
    add("Pc str", cirq.Points("c", ["x"]), comb=False)
    add("Pc True", cirq.Points("c", [True]), comb=False)
    add("Pc 2**40", cirq.Points("c", [2 ** 40]), comb=False)
    add("Pc unit", cirq.Points("c", [5 * ns]))
    add("Pc np", cirq.Points("c", [np.float32(0.1)]), comb=False)
    add("Pu3", cirq.Points("u", [5 * ns, 0.25 * us, 0.1 * us]))
    add("Pu2 GHz", cirq.Points("u", [0.1 * GHz, 5 * GHz]), comb=False)
    add("Pa dp", cirq.Points("a", [0.25, 0.5], metadata=dp))
    add("Pa dp const", cirq.Points("a", [0.25], metadata=dp), comb=False)
    add("Pa dp path only", cirq.Points("a", [0.25, 0.5], metadata=DeviceParameter(path=["p"])), comb=False)
    add("Pa dp no path", cirq.Points("a", [0.25, 0.5], metadata=DeviceParameter(path=[], idx=1)), comb=False)
    add("Pa md", cirq.Points("a", [0.25, 0.5], metadata=Metadata(
        device_parameters=[DeviceParameter(path=["p"], idx=1)], label="l", is_const=True, unit="ns")))
    add("Pa md empty", cirq.Points("a", [0.25, 0.5], metadata=Metadata()), comb=False)
    add("Pa md const", cirq.Points("a", [0.1], metadata=Metadata(label="", is_const=False, unit="GHz")), comb=False)
    add("La5", cirq.Linspace("a", 0, 1, 5))
    add("Ld3", cirq.Linspace("d", 0.1, 0.7, 3))
    add("Ld4", cirq.Linspace("d", -0.1, 0.2, 4))
    add("Ld1", cirq.Linspace("d", 0.5, 0.5, 1), comb=False)
    add("Ld desc", cirq.Linspace("d", 0.5, 0.0, 3), comb=False)
    add("Ld from0", cirq.Linspace("d", 0.0, g, 3), comb=False)
    add("Lu", cirq.Linspace("u", 1 * ns, 0.005 * us, 3))
    add("Lu GHz", cirq.Linspace("u", 0.1 * GHz, 0.7 * GHz, 4), comb=False)
    add("La dp", cirq.Linspace("a", 0, 1, 3, metadata=DeviceParameter(path=["p"], idx=1)), comb=False)
    add("La md", cirq.Linspace("a", 0, 1, 3, metadata=Metadata(label="l", unit="ns")), comb=False)
    # suspected defects (see final report): kept as separate letters, not used in combinations
    add("FRV sorted", FiniteRandomVariable("r", {0.25: 0.5, 0.5: 0.25, 0.75: 0.25}, seed=3, length=6),
        find="finite_random_variable_order")
    add("FRV unsorted", FiniteRandomVariable("r", {0.75: 0.25, 0.25: 0.5, 0.5: 0.25}, seed=3, length=6),
        find="finite_random_variable_order")
    add("Pa dp idx0", cirq.Points("a", [0.25, 0.5], metadata=DeviceParameter(path=["p", "q"], idx=0, units="GHz")),
        find="device_parameter_idx0")
    add("La dp idx0", cirq.Linspace("a", 0, 1, 3, metadata=DeviceParameter(path=["p"], idx=0)),
        find="device_parameter_idx0")
    add("Pa md dp units", cirq.Points("a", [0.25, 0.5], metadata=Metadata(
        device_parameters=[DeviceParameter(path=["p"], idx=1, units="GHz")], label="l")),
        find="metadata_device_parameter_units")
    return L


_SWEEPS = {}


def sweep_terms(seed):
    """All sweep terms: descriptor -> sweep.  Descriptors: ('leaf', i) | ('c2', comb, i, j) |
    ('c3', comb1, comb2, i, j, k, side) | ('list', n)."""
    if seed in _SWEEPS:
        return _SWEEPS[seed]
    leaves = _sweep_leaves(seed)
    combs = [("Zip", cirq.Zip), ("ZipLongest", cirq.ZipLongest), ("Product", cirq.Product), ("Concat", cirq.Concat)]
    lists = [
        cirq.ListSweep([cirq.ParamResolver({"a": 1, "b": 2}), cirq.ParamResolver({"a": 3, "b": 4})]),
        cirq.ListSweep([cirq.ParamResolver({"a": 0.1, "b": 2})]),
        cirq.ListSweep([cirq.ParamResolver({"a": 1, "b": 2}), cirq.ParamResolver({"b": 4, "a": 0.1}),
                        cirq.ParamResolver({"a": -1, "b": 2.5})]),
        cirq.ListSweep([cirq.ParamResolver({sympy.Symbol("a"): 1}), cirq.ParamResolver({sympy.Symbol("a"): 0.1})]),
        cirq.ListSweep(cirq.Zip(cirq.Points("a", [0.1, 0.2]), cirq.Linspace("b", 0, 1, 2))),
        cirq.dict_to_product_sweep({"a": [1, 0.1], "b": [3]}),
        cirq.dict_to_zip_sweep({"a": [1, 0.1], "b": [3, 4]}),
        cirq.Points("a", [1, 2]) * cirq.Points("b", [0.1, 2]) + cirq.Points("c", [1, 2, 3, 4]),
        cirq.Product(), cirq.Zip(),
    ]
    T = dict(leaves=leaves, combs=combs, lists=lists)
    cidx = [i for i, l in enumerate(leaves) if l["comb"]]
    descs = [("leaf", i) for i in range(len(leaves))]
    descs += [("list", n) for n in range(len(lists))]

    def keys(i):
        return tuple(leaves[i]["sweep"].keys)

    for c, (cn, _) in enumerate(combs):
        for i in cidx:
            for j in cidx:
                if cn == "Concat":
                    ok = keys(i) == keys(j)
                else:
                    ok = not (set(keys(i)) & set(keys(j)))
                if ok:
                    descs.append(("c2", c, i, j))
    c3 = [i for i in cidx if leaves[i]["name"] in ("Pa3", "Pb2i", "Pc float", "Ld3", "Pu3", "Pa md", "unit")]
    for c1, (n1, _) in enumerate(combs):
        for c2, (n2, _) in enumerate(combs):
            for i in c3:
                for j in c3:
                    if n2 == "Concat":
                        if keys(i) != keys(j):
                            continue
                    elif set(keys(i)) & set(keys(j)) or i == j:
                        continue
                    inner_keys = keys(i) if n2 == "Concat" else keys(i) + keys(j)
                    for k in c3:
                        if n1 == "Concat":
                            if keys(k) != inner_keys:
                                continue
                        elif set(keys(k)) & set(inner_keys):
                            continue
                        for side in (0, 1):
                            descs.append(("c3", c1, c2, i, j, k, side))
    T["descs"] = descs
    _SWEEPS[seed] = T
    return T


def build_sweep(T, d):
    if d[0] == "leaf":
        return T["leaves"][d[1]]["sweep"]
    if d[0] == "list":
        return T["lists"][d[1]]
    lv = lambda i: T["leaves"][i]["sweep"]
    if d[0] == "c2":
        return T["combs"][d[1]][1](lv(d[2]), lv(d[3]))
    _, c1, c2, i, j, k, side = d
    inner = T["combs"][c2][1](lv(i), lv(j))
    return T["combs"][c1][1](inner, lv(k)) if side == 0 else T["combs"][c1][1](lv(k), inner)


def describe_sweep(T, d):
    try:
        return [list(d), repr(build_sweep(T, d))[:300]]
    except Exception:
        return list(d)


def _plain(v):
    """Numeric payload of a sweep value (tunits values in their own unit)."""
    if isinstance(v, tu.Value):
        return float(v[v.unit]) if v.unit is not None else float(v)
    return v


def resolvers_diff(exp, got, rel):
    """exp/got: lists of ParamResolver. Per key the tolerance is relative to the largest magnitude of that key."""
    if len(exp) != len(got):
        return f"{len(exp)} parameter sets became {len(got)}"
    scale = {}
    for r in exp:
        for k, v in r.param_dict.items():
            pv = _plain(v)
            if _is_num(pv):
                scale[str(k)] = max(scale.get(str(k), 0.0), abs(pv))
    for n, (r1, r2) in enumerate(zip(exp, got)):
        d1 = {str(k): v for k, v in r1.param_dict.items()}
        d2 = {str(k): v for k, v in r2.param_dict.items()}
        if set(d1) != set(d2):
            return f"parameter set {n}: keys {sorted(d1)} became {sorted(d2)}"
        for k, x in d1.items():
            y = d2[k]
            if isinstance(x, tu.Value) or isinstance(y, tu.Value):
                if not (isinstance(x, tu.Value) and isinstance(y, tu.Value)):
                    return f"parameter set {n}: {k}={x!r} became {y!r}"
                try:
                    fx, fy = float(x[x.unit]), float(y[x.unit])
                except Exception:
                    return f"parameter set {n}: {k}={x!r} became {y!r} (unit changed)"
                if abs(fx - fy) > rel * max(abs(fx), abs(fy)) + rel * scale.get(k, 0.0):
                    return f"parameter set {n}: {k}={x!r} became {y!r}"
            elif isinstance(x, (bool, np.bool_)) or _is_num(x):
                if not (isinstance(y, (bool, np.bool_)) or _is_num(y)):
                    return f"parameter set {n}: {k}={x!r} became {y!r}"
                if abs(complex(x) - complex(y)) > rel * max(abs(x), abs(y)) + rel * scale.get(k, 0.0):
                    return f"parameter set {n}: {k}={x!r} became {y!r}"
            else:
                if type(x) is not type(y) or x != y:
                    return f"parameter set {n}: {k}={x!r} became {y!r}"
    return None


def _single_sweeps(sw, out):
    if isinstance(sw, cirq.Product):
        for f in sw.factors:
            _single_sweeps(f, out)
    elif isinstance(sw, (cirq.Zip, cirq.Concat)):
        for f in sw.sweeps:
            _single_sweeps(f, out)
    elif sw is not cirq.UnitSweep and hasattr(sw, "key"):
        out.append(sw)
    return out


def sweep_roundtrip_diff(sw, f64):
    msg = v2.sweep_to_proto(sw, use_float64=f64)
    back = v2.sweep_from_proto(_hop(msg))
    rel = 1e-12 if f64 else REL
    d = resolvers_diff(list(sw), list(back), rel)
    if d:
        return f"sweep_from_proto(sweep_to_proto(s, use_float64={f64})) differs: {d}\n s = {sw!r}\n back = {back!r}"
    if len(sw) != len(back):
        return f"len {len(sw)} became {len(back)} for {sw!r}"
    if not isinstance(sw, cirq.ListSweep):
        l1, l2 = _single_sweeps(sw, []), _single_sweeps(back, [])
        if [str(x.key) for x in l1] != [str(x.key) for x in l2]:
            return f"single sweeps {[str(x.key) for x in l1]} became {[str(x.key) for x in l2]} for {sw!r}"
        for x, y in zip(l1, l2):
            mx, my = getattr(x, "metadata", None), getattr(y, "metadata", None)
            if isinstance(mx, (DeviceParameter, Metadata)) and mx != my:
                return f"metadata of sweep {x.key!r}: {mx!r} became {my!r}"
            if mx is None and my is not None:
                return f"metadata of sweep {x.key!r}: None became {my!r}"
    return None


def _frv_order_diff(sw):
    """The distribution travels in a proto3 map, whose entry order is unspecified (and differs between processes
    with the upb runtime): the round trip can only be faithful if the sampled values do not depend on the order of
    the distribution's entries.  Checked for every order, which makes the verdict process independent."""
    want = list(sw)
    for perm in itertools.permutations(list(sw.distribution.items())):
        other = FiniteRandomVariable(sw.key, dict(perm), seed=sw.seed, length=sw.length, metadata=sw.metadata)
        if other != sw:
            return f"{other!r} != {sw!r}"
        got = list(other)
        if got != want:
            return (f"the wire format carries the distribution as an unordered map, but the values depend on the entry "
                    f"order: {sw!r} yields {[r.value_of(sw.key) for r in want]}, the equal sweep {other!r} (a legal "
                    f"result of sweep_from_proto) yields {[r.value_of(sw.key) for r in got]}")
    return None


def make_sweep_stage(seed):
    T = sweep_terms(seed)
    is_find = lambda d: d[0] == "leaf" and T["leaves"][d[1]]["find"] is not None
    # (letters that currently expose suspected defects are ordered last so that they cannot hide anything new)
    cases = [(d, f) for d in T["descs"] if not is_find(d) for f in (0, 1)]
    cases += [(d, f) for d in T["descs"] if is_find(d) for f in (0, 1)]

    def run(case):
        d, f = case
        find = T["leaves"][d[1]]["find"] if d[0] == "leaf" else None
        sw = build_sweep(T, d)
        if find:
            try:
                r = sweep_roundtrip_diff(sw, bool(f))
                if r is None and isinstance(sw, FiniteRandomVariable):
                    r = _frv_order_diff(sw)
            except Exception as ex:
                return bad(f"{type(ex).__name__}: {ex} for {sw!r}", kind=find)
            return bad(r, kind=find) if r else good(nontrivial=True)
        r = sweep_roundtrip_diff(sw, bool(f))
        if r:
            return bad(r, kind="sweep")
        return good(nontrivial=len(sw) >= 2, points=len(sw))

    return CaseStage("sweeps", cases, run, describe=lambda c: [describe_sweep(T, c[0]), c[1]])


def make_sweep_v1_stage(seed):
    """Legacy v1 params API: product-of-zips of plain numeric single sweeps (float32)."""
    from cirq_google.api.v1 import params as v1_params

    T = sweep_terms(seed)
    names = ["Pa3", "Pb2i", "Pb3g", "Pc float", "Pc int", "La5", "Ld3", "Ld4", "Ld1", "Ld desc"]
    lf = {l["name"]: l["sweep"] for l in T["leaves"]}
    leaves = [lf[n] for n in names]
    n = len(leaves)
    terms = [("unit",)] + [("leaf", i) for i in range(n)]
    distinct = lambda *ix: len({k for i in ix for k in leaves[i].keys}) == sum(len(leaves[i].keys) for i in ix)
    terms += [(c, i, j) for c in ("zip", "product", "concat") for i in range(n) for j in range(n) if distinct(i, j)]
    terms += [(c, i, j, k) for c in ("product(zip,leaf)", "product(leaf,zip)", "zip(product,leaf)")
              for i in range(0, n, 2) for j in range(1, n, 2) for k in range(n) if distinct(i, j, k)]

    def build(t):
        if t[0] == "unit":
            return cirq.UnitSweep, False
        if t[0] == "leaf":
            return leaves[t[1]], False
        if t[0] == "zip":
            return cirq.Zip(leaves[t[1]], leaves[t[2]]), False
        if t[0] == "product":
            return cirq.Product(leaves[t[1]], leaves[t[2]]), False
        if t[0] == "concat":   # not a zip-product form: documented ValueError
            return cirq.Concat(leaves[t[1]], leaves[t[1]]), True
        if t[0] == "product(zip,leaf)":
            return cirq.Product(cirq.Zip(leaves[t[1]], leaves[t[2]]), leaves[t[3]]), False
        if t[0] == "product(leaf,zip)":
            return cirq.Product(leaves[t[3]], cirq.Zip(leaves[t[1]], leaves[t[2]])), False
        return cirq.Zip(cirq.Product(leaves[t[1]], leaves[t[2]]), leaves[t[3]]), True

    def run(t):
        sw, rejects = build(t)
        for reps in (1, 1000):
            try:
                msg = v1_params.sweep_to_proto(sw, reps)
            except ValueError:
                if rejects:
                    return Res(skipped=True, nontrivial=False)
                raise
            if rejects:
                return bad(f"v1 sweep_to_proto accepted {sw!r}, which is not a product of zips", kind="sweep_v1")
            msg = _hop(msg)
            if msg.repetitions != reps:
                return bad(f"v1 repetitions {reps} became {msg.repetitions}", kind="sweep_v1")
            back = v1_params.sweep_from_proto(msg)
            d = resolvers_diff(list(sw), list(back), REL)
            if d:
                return bad(f"v1 sweep round trip differs: {d}\n s = {sw!r}\n back = {back!r}", kind="sweep_v1")
        return good(nontrivial=len(sw) >= 2, points=len(sw))

    return CaseStage("sweeps_v1", terms, run, describe=lambda t: [list(t), repr(build(t)[0])[:300]])


def _sweepables(seed):
    T = sweep_terms(seed)
    lf = {l["name"]: l["sweep"] for l in T["leaves"]}
    return [
        ("None", None, False),
        ("resolver{}", cirq.ParamResolver({}), False),
        ("resolver", cirq.ParamResolver({"a": 0.1, "b": 1}), False),
        # (ParamResolver with sympy.Symbol keys and a raw empty dict are left out: the unexported, unused helper
        #  sweepable_to_proto raises TypeError / yields zero parameter sets for them; see the builder report)
        ("dict", {"a": 0.25}, False),
        ("dict3", {"a": 0.1, "b": 2, "u": 5 * tu.ns}, False),
        ("dict list value", {"a": [1, 2]}, True),       # documented ValueError of _add_sweep_const
        ("unit", cirq.UnitSweep, False),
        ("Pa3", lf["Pa3"], False),
        ("Ld4", lf["Ld4"], False),
        ("Pu3", lf["Pu3"], False),
        ("product", cirq.Product(lf["Pa3"], lf["Pb2i"]), False),
        ("zip", cirq.Zip(lf["Pa3"], lf["Ld3"]), False),
        ("[Pa3,Ld3]", [lf["Pa3"], lf["Ld3"]], False),
        ("[dict,dict]", [{"a": 0.1}, {"a": 0.2, "b": 1}], False),
        ("[resolver,sweep,dict]", [cirq.ParamResolver({"a": 0.1}), lf["Pb2i"], {"c": 3}], False),
        ("[]", [], False),
        ("(Pa3,)", (lf["Pa3"],), False),
        ("[[Pa3],[Ld3,Pb2i]]", [[lf["Pa3"]], [lf["Ld3"], lf["Pb2i"]]], False),
    ]


def make_run_context_stage(seed):
    SW = _sweepables(seed)
    REPS = [1000, (10,), (10, 20), (10, 20, 30), 0]
    cases = [("sweepable", i, f, 0, 0) for i in range(len(SW)) for f in (0, 1)]
    cases += [("run_context", i, f, c, r) for i in range(len(SW)) for f in (0, 1) for c in (0, 1)
              for r in range(len(REPS))]

    def decode(ps, f64, expected, label):
        got = list(v2.sweep_from_proto(ps.sweep))
        d = resolvers_diff(expected, got, 1e-12 if f64 else REL)
        if d:
            return f"{label}: {d}\n expected {expected!r}\n got {got!r}"
        return None

    def run(case):
        kind, i, f, comp, ri = case
        name, sweepable, rejects = SW[i]
        f64 = bool(f)
        if kind == "sweepable":
            out = v2.run_context_pb2.RunContext()
            try:
                v2_sweeps.sweepable_to_proto(sweepable, 1000, out=out, use_float64=f64)
            except ValueError:
                if rejects:
                    return Res(skipped=True, nontrivial=False)
                raise
            out = _hop(out)
            got = []
            for ps in out.parameter_sweeps:
                if ps.repetitions != 1000:
                    return bad(f"sweepable {name}: repetitions 1000 became {ps.repetitions}", kind="run_context")
                got.extend(v2.sweep_from_proto(ps.sweep))
            expected = list(cirq.to_resolvers(sweepable))
            d = resolvers_diff(expected, got, 1e-12 if f64 else REL)
            if d:
                return bad(f"sweepable_to_proto({name}, use_float64={f64}): {d}\n expected {expected!r}\n got {got!r}",
                           kind="run_context")
            return good(nontrivial=len(expected) >= 2, points=len(expected))
        reps = REPS[ri]
        try:
            sweeps_list = cirq.to_sweeps(sweepable)
        except Exception:
            return Res(skipped=True, nontrivial=False)
        if isinstance(reps, tuple):
            sl = sweeps_list * len(reps) if (len(sweeps_list) == 1 and len(reps) > 1) else sweeps_list
            must_reject = len(sl) != len(reps)
            reps_list = list(reps)
        else:
            sl = sweeps_list
            must_reject = False
            reps_list = [reps] * len(sl)
        try:
            out = v2.run_context_to_proto(sweepable, list(reps) if isinstance(reps, tuple) else reps,
                                          compress_proto=bool(comp), use_float64=f64)
        except ValueError:
            if must_reject:
                return Res(skipped=True, nontrivial=False)
            raise
        if must_reject:
            return bad(f"run_context_to_proto({name}, repetitions={reps}) accepted {len(sl)} sweeps for "
                       f"{len(reps)} repetition counts", kind="run_context")
        out = _hop(out)
        if comp:
            if len(out.parameter_sweeps):
                return bad("compressed run context also carries uncompressed sweeps", kind="run_context")
            inner = v2.run_context_pb2.RunContext()
            inner.ParseFromString(gzip.decompress(out.compressed_run_context))
            out = inner
        elif out.compressed_run_context:
            return bad("uncompressed run context carries compressed bytes", kind="run_context")
        if len(out.parameter_sweeps) != len(sl):
            return bad(f"run_context_to_proto({name}, {reps}): {len(sl)} sweeps became {len(out.parameter_sweeps)}",
                       kind="run_context")
        npts = 0
        for n, (ps, sw, r) in enumerate(zip(out.parameter_sweeps, sl, reps_list)):
            if ps.repetitions != r:
                return bad(f"run_context_to_proto({name}, {reps}): sweep {n} repetitions {r} became {ps.repetitions}",
                           kind="run_context")
            d = decode(ps, f64, list(sw), f"run_context_to_proto({name}, {reps}, compress={comp}, f64={f64}) sweep {n}")
            if d:
                return bad(d, kind="run_context")
            npts += len(sw)
        return good(nontrivial=npts >= 2, points=npts)

    return CaseStage("run_contexts", cases, run, describe=lambda c: [list(c), SW[c[1]][0]])


# =============================================================================================
# (c) results
# =============================================================================================

def ref_pack(bits):
    """Independent reference of the wire format: bit i of the stream is bit (i % 8) (LSB first) of byte i // 8."""
    v = 0
    for i, b in enumerate(bits):
        if b:
            v |= 1 << i
    return v.to_bytes((len(bits) + 7) // 8, "little")


def make_pack_stage(tier):
    nmax = 18 if tier == "thorough" else 16
    chunk = 4096
    cases = []
    for n in range(nmax + 1):
        tot = 1 << n
        for lo in range(0, tot, chunk):
            cases.append(("all", n, lo, min(tot, lo + chunk)))
    for n in (63, 64, 65, 66):
        cases.append(("patterns", n, 0, 0))

    def one(bits, ref):
        got = v2.pack_bits(bits)
        if got != ref:
            return bad(f"pack_bits({bits.astype(int).tolist()}) = {got!r}, wire format says {ref!r}", kind="pack_bits")
        un = v2.unpack_bits(ref, len(bits))
        if un.shape != bits.shape or not np.array_equal(un, bits):
            return bad(f"unpack_bits({ref!r}, {len(bits)}) = {un.astype(int).tolist()}, expected "
                       f"{bits.astype(int).tolist()}", kind="unpack_bits")
        return None

    def run(case):
        kind, n, lo, hi = case
        cnt = 0
        if kind == "all":
            idx = np.arange(n)
            nb = (n + 7) // 8
            for v in range(lo, hi):
                bits = ((v >> idx) & 1).astype(bool) if n else np.zeros(0, dtype=bool)
                r = one(bits, v.to_bytes(nb, "little"))
                if r:
                    return r
                cnt += 1
        else:
            pats = [np.zeros(n, dtype=bool), np.ones(n, dtype=bool), np.arange(n) % 2 == 0, np.arange(n) % 2 == 1]
            for i in range(n):
                b = np.zeros(n, dtype=bool)
                b[i] = True
                pats.append(b)
            for bits in pats:
                r = one(bits, ref_pack(bits))
                if r:
                    return r
                cnt += 1
        return good(nontrivial=n > 0, bit_arrays=cnt)

    return CaseStage("pack_bits", cases, run)


_RA, _RB, _RC = G(0, 0), G(0, 1), G(1, 0)
RESULT_LAYOUTS = [
    [("k", (_RB,), 1)],
    [("k", (_RB, _RA), 1)],
    [("k", (_RB, _RA), 1), ("m", (_RC,), 1)],
    [("k", (_RC, _RA, _RB), 1)],
    [("k", (_RB, _RA), 2), ("m", (_RC,), 1)],
    [("z", (_RC,), 1), ("a", (_RB, _RA), 1)],
    [("k", (_RA,), 3)],
]
RESULT_REPS = [0, 1, 7, 8, 9]


def _tensor_patterns(T):
    if T <= 12:
        for v in range(1 << T):
            yield ((v >> np.arange(T)) & 1).astype(bool) if T else np.zeros(0, dtype=bool)
        return
    yield np.zeros(T, dtype=bool)
    yield np.ones(T, dtype=bool)
    yield np.arange(T) % 2 == 0
    yield np.arange(T) % 2 == 1
    yield np.arange(T) % 3 == 0
    for i in range(T):
        b = np.zeros(T, dtype=bool)
        b[i] = True
        yield b
        yield ~b


def _records(layout, reps, flat):
    recs = {}
    pos = 0
    for key, qs, inst in layout:
        n = reps * inst * len(qs)
        recs[key] = flat[pos:pos + n].reshape((reps, inst, len(qs))).copy()
        pos += n
    return recs


def make_results_stage():
    cases = [(li, reps, st) for li in range(len(RESULT_LAYOUTS)) for reps in RESULT_REPS for st in range(4)]
    cases += [(-1, 0, 0), (-1, 0, 1)]

    def infos(layout):
        return [v2.MeasureInfo(key=k, qubits=list(qs), instances=inst, invert_mask=[False] * len(qs), tags=[])
                for k, qs, inst in layout]

    def compare(sweeps, back, layout, msg, label):
        if len(back) != len(sweeps):
            return f"{label}: {len(sweeps)} sweeps became {len(back)}"
        for si, (sw, bs) in enumerate(zip(sweeps, back)):
            if len(sw) != len(bs):
                return f"{label}: sweep {si}: {len(sw)} results became {len(bs)}"
            for ri, (r, b) in enumerate(zip(sw, bs)):
                p1, p2 = dict(r.params.param_dict), dict(b.params.param_dict)
                if not val_close(p1, p2):
                    return f"{label}: sweep {si} result {ri}: params {p1} became {p2}"
                if set(r.records) != set(b.records):
                    return f"{label}: sweep {si} result {ri}: keys {sorted(r.records)} became {sorted(b.records)}"
                for k in r.records:
                    x, y = r.records[k], b.records[k]
                    if x.shape != y.shape or not np.array_equal(x, y):
                        return (f"{label}: sweep {si} result {ri}: records[{k!r}] {x.astype(int).tolist()} (shape {x.shape}) "
                                f"became {np.asarray(y).astype(int).tolist()} (shape {np.asarray(y).shape})")
        # wire format of every qubit stream against the independent packer
        for si, sw in enumerate(sweeps):
            srm = msg.sweep_results[si]
            if len(sw) and srm.repetitions != sw[0].repetitions:
                return f"{label}: sweep {si}: repetitions {sw[0].repetitions} became {srm.repetitions}"
            for ri, r in enumerate(sw):
                pr = srm.parameterized_results[ri]
                for mi, (k, qs, inst) in enumerate(layout):
                    mr = pr.measurement_results[mi]
                    if mr.key != k or mr.instances != inst:
                        return f"{label}: measurement {mi}: ({k},{inst}) became ({mr.key},{mr.instances})"
                    for qi, q in enumerate(qs):
                        qmr = mr.qubit_measurement_results[qi]
                        if qmr.qubit.id != f"{q.row}_{q.col}":
                            return f"{label}: measurement {k}: qubit {qi} is {qmr.qubit.id}, expected {q}"
                        ref = ref_pack(r.records[k][:, :, qi].reshape(-1))
                        if qmr.results != ref:
                            return f"{label}: measurement {k} qubit {q}: wire bytes {qmr.results!r}, expected {ref!r}"
        return None

    def run(case):
        li, reps, st = case
        if li < 0:
            sweeps = [] if st == 0 else [[]]
            msg = _hop(v2.results_to_proto(sweeps, infos(RESULT_LAYOUTS[2])))
            back = v2.results_from_proto(msg, infos(RESULT_LAYOUTS[2]))
            if [list(x) for x in back] != sweeps:
                return bad(f"empty result structure {sweeps} became {back}", kind="results")
            return good(nontrivial=False)
        layout = RESULT_LAYOUTS[li]
        ms = infos(layout)
        T = reps * sum(inst * len(qs) for _, qs, inst in layout)
        reps2 = reps + 1
        T2 = reps2 * sum(inst * len(qs) for _, qs, inst in layout)
        n = 0
        for flat in _tensor_patterns(T):
            r1 = cirq.ResultDict(params=cirq.ParamResolver({"x": 0.1, "y": 1}), records=_records(layout, reps, flat))
            r2 = cirq.ResultDict(params=cirq.ParamResolver({"x": 2.5, "y": -0.3}), records=_records(layout, reps, ~flat))
            r3 = cirq.ResultDict(params=cirq.ParamResolver({}),
                                 records=_records(layout, reps2, np.resize(np.append(flat, True), T2)))
            sweeps = [[[r1]], [[r1, r2]], [[r1], [r3]], [[r2, r1], [r3], [r1]]][st]
            msg = _hop(v2.results_to_proto(sweeps, ms))
            back = v2.results_from_proto(msg, ms)
            d = compare(sweeps, back, layout, msg, f"layout {li} reps {reps} structure {st}")
            if d:
                return bad(d, kind="results")
            back = v2.results_from_proto(msg)       # without measurement infos: wire order
            d = compare(sweeps, back, layout, msg, f"layout {li} reps {reps} structure {st} (no MeasureInfo)")
            if d:
                return bad(d, kind="results")
            n += 1
        return good(nontrivial=T > 0, tensors=n)

    return CaseStage("results", cases, run)


def _meas_letters():
    a, b, c = _RA, _RB, _RC
    cal = cg.CalibrationTag("x")
    return [
        ("M(b,a;k)", cirq.measure(b, a, key="k")),
        ("M(b,a;k,inv=(1,))", cirq.measure(b, a, key="k", invert_mask=(True,))),
        ("M(b,a;k,inv=(1,0))", cirq.measure(b, a, key="k", invert_mask=(True, False))),
        ("M(a,b;k)", cirq.measure(a, b, key="k")),
        ("M(c;m)", cirq.measure(c, key="m")),
        ("M(c;m)+tag", cirq.measure(c, key="m").with_tags(cal)),
        ("M(c;k)", cirq.measure(c, key="k")),
        ("X(a)", cirq.X(a)),
        ("M(line;l)", cirq.measure(cirq.LineQubit(1), key="l")),
        ("M(a;z)", cirq.measure(a, key="z")),
    ]


def make_find_measurements_stage():
    Ls = _meas_letters()
    n = len(Ls)
    cases = [()] + [s for k in (1, 2, 3) for s in itertools.product(range(n), repeat=k)]

    def expected(ops):
        out = {}
        for op in ops:
            if not isinstance(op.gate, cirq.MeasurementGate):
                continue
            if not all(isinstance(q, cirq.GridQubit) for q in op.qubits):
                return None
            full = list(op.gate.invert_mask) + [False] * (len(op.qubits) - len(op.gate.invert_mask))
            cur = (list(op.qubits), full, list(op.tags))
            key = op.gate.key
            if key in out:
                if out[key][0] != cur:
                    return None
                out[key][1] += 1
            else:
                out[key] = [cur, 1]
        return [(k, v[0][0], v[1], v[0][1], v[0][2]) for k, v in out.items()]

    def run(seq):
        ops = [Ls[i][1] for i in seq]
        circ = cirq.Circuit([cirq.Moment(op) for op in ops])
        exp = expected(ops)
        try:
            got = v2.find_measurements(circ)
        except ValueError:
            if exp is None:
                return Res(skipped=True, nontrivial=False)
            raise
        if exp is None:
            return bad(f"find_measurements accepted incompatible / non-grid measurements: {circ!r} -> {got!r}",
                       kind="find_measurements")
        g = [(m.key, list(m.qubits), m.instances, list(m.invert_mask), list(m.tags)) for m in got]
        if g != exp:
            return bad(f"find_measurements({[Ls[i][0] for i in seq]}) = {g!r}, expected {exp!r}", kind="find_measurements")
        return good(nontrivial=len(exp) >= 1)

    return CaseStage("find_measurements", cases, run, describe=lambda s: [Ls[i][0] for i in s])


# =============================================================================================
# (c') numpy array codecs of api/v2/ndarrays.py
# =============================================================================================

# codec name -> (target dtype, input dtypes accepted by the docstring / _to_dtype: same kind, itemsize <= target)
ND_CODECS = [
    ("float64", "f8", ["f8", "f4", "f2", ">f8", ">f4"]),
    ("float32", "f4", ["f4", "f2", ">f4"]),
    ("float16", "f2", ["f2", ">f2"]),
    ("int64", "i8", ["i8", "i4", "i2", "i1", ">i8", ">i2"]),
    ("int32", "i4", ["i4", "i2", "i1", ">i4"]),
    ("int16", "i2", ["i2", "i1", ">i2"]),
    ("int8", "i1", ["i1"]),
    ("uint8", "u1", ["u1"]),
    ("complex128", "c16", ["c16", "c8", ">c16"]),
    ("complex64", "c8", ["c8", ">c8"]),
    ("bitarray", "?", ["?", "u1"]),
]
ND_SHAPES = [(), (0,), (0, 3), (5,), (1, 4), (4, 1), (3, 4), (2, 3, 4), (2, 1, 3)]
# inputs the codecs document as rejected (ValueError): wider or different-kind dtypes
ND_REJECT = [("float32", "f8"), ("float16", "f4"), ("int32", "i8"), ("int8", "i2"), ("float64", "i8"), ("int64", "f8"),
             ("complex64", "c16"), ("uint8", "i1"), ("int8", "u1"), ("complex128", "f8")]
_STRUCT = {"f8": "d", "f4": "f", "f2": "e", "i8": "q", "i4": "i", "i2": "h", "i1": "b", "u1": "B"}


def _nd_wire_reference(a, target, big_endian):
    """Row-major (C index order) element stream, independent of numpy's memory layout handling."""
    if target == "?":
        out = bytearray((a.size + 7) // 8)
        for n, idx in enumerate(np.ndindex(a.shape)):
            if a[idx]:
                out[n // 8] |= 1 << (7 - n % 8)
        return bytes(out)
    bo = ">" if big_endian else "<"
    parts = []
    for idx in np.ndindex(a.shape):
        v = a[idx]
        if target in ("c16", "c8"):
            f = "d" if target == "c16" else "f"
            parts.append(struct.pack(bo + f + f, float(v.real), float(v.imag)))
        elif target[0] == "f":
            parts.append(struct.pack(bo + _STRUCT[target], float(v)))
        else:
            parts.append(struct.pack(bo + _STRUCT[target], int(v)))
    return b"".join(parts)


def make_ndarray_stage():
    cases = []
    for ci, (name, target, inputs) in enumerate(ND_CODECS):
        for ii in range(len(inputs)):
            for si in range(len(ND_SHAPES)):
                for li in range(len(ND_LAYOUTS)):
                    cases.append(("codec", ci, ii, si, li))
    cases += [("reject", n, 0, 0, 0) for n in range(len(ND_REJECT))]
    cases += [("bit_invalid", 0, 0, 0, 0)]
    # the generic argument codec (dtype dispatch of arg_to_proto) over native dtypes x shapes x layouts
    cases += [("arg", di, 0, si, li) for di in range(len(ND_DTYPES)) for si in range(len(ND_SHAPES))
              for li in range(len(ND_LAYOUTS))]

    def fns(name):
        if name == "bitarray":
            return v2_nd.to_bitarray, v2_nd.from_bitarray
        return getattr(v2_nd, f"to_{name}_array"), getattr(v2_nd, f"from_{name}_array")

    def run(case):
        kind, ci, ii, si, li = case
        if kind == "reject":
            name, idt = ND_REJECT[ci]
            a = _nd_base("int8" if idt[0] in "iu" else idt, (2, 3)).astype(idt)
            try:
                msg = fns(name)[0](a)
            except ValueError:
                return good(nontrivial=True)
            return bad(f"to_{name}_array accepted a {a.dtype} array (documented ValueError): {msg}", kind="ndarray")
        if kind == "bit_invalid":
            try:
                v2_nd.to_bitarray(np.array([0, 1, 2], dtype=np.uint8))
            except ValueError:
                return good(nontrivial=True)
            return bad("to_bitarray accepted the value 2", kind="ndarray")
        shape, layout = ND_SHAPES[si], ND_LAYOUTS[li]
        if kind == "arg":
            dn = ND_DTYPES[ci]
            a = nd_array(dn, shape, layout)
            if a is None:
                return Res(skipped=True, nontrivial=False)
            keep = a.copy()
            msg = _hop(_afl.arg_to_proto(a))
            try:
                b = _afl.arg_from_proto(msg)
            except ValueError:
                if len(shape) == 0:     # documented: "Cannot convert unset/empty ... message" (0-d arrays have no shape)
                    return Res(skipped=True, nontrivial=False)
                raise
            label = f"arg_from_proto(arg_to_proto({dn} array, shape {shape}, layout {layout}, strides {a.strides}))"
            if not isinstance(b, np.ndarray) or b.shape != a.shape or b.dtype != a.dtype:
                return bad(f"{label} = {b!r}, expected shape {a.shape} dtype {a.dtype}", kind="ndarray")
            if not np.array_equal(b, keep) or not np.array_equal(a, keep):
                return bad(f"{label}: sent {keep.tolist()} received {b.tolist()}", kind="ndarray")
            return good(nontrivial=a.size >= 2)
        name, target, inputs = ND_CODECS[ci]
        idt = inputs[ii]
        if name == "bitarray":
            a = nd_array("bool", shape, layout)
            if a is not None and idt == "u1":
                a = a.view(np.uint8)            # 0/1 valued uint8 input with the same strides
        else:
            a = nd_array(np.dtype(idt), shape, layout)     # (big-endian inputs keep the layout, too)
        if a is None:
            return Res(skipped=True, nontrivial=False)
        to, fr = fns(name)
        want = _nd_base("bool" if name == "bitarray" else np.dtype(idt).newbyteorder("="), shape)
        if layout == "bcast":
            want = np.broadcast_to(_nd_base("bool" if name == "bitarray" else np.dtype(idt).newbyteorder("="), shape[1:]), shape)
        if not np.array_equal(a, want):
            raise core.HarnessError(f"layout generator broke the contents for {case}")
        label = f"{name} codec, input dtype {a.dtype}, shape {shape}, layout {layout} (strides {a.strides})"
        msg = _hop(to(a))
        if not np.array_equal(a, want):
            return bad(f"{label}: to_* modified its input", kind="ndarray")
        if tuple(msg.shape) != tuple(shape):
            return bad(f"{label}: message shape {tuple(msg.shape)}", kind="ndarray")
        if name == "bitarray":
            ref = _nd_wire_reference(want, "?", False)
        else:
            has_bo = "endianness" in msg.DESCRIPTOR.fields_by_name      # single-byte messages have no byte order
            big = has_bo and msg.endianness == v2_nd.ndarrays_pb2.BIG_ENDIAN
            if has_bo and (idt[0] == ">") != big:
                return bad(f"{label}: endianness field {msg.endianness}", kind="ndarray")
            ref = _nd_wire_reference(want, target, big)
        if msg.flat_bytes != ref:
            return bad(f"{label}: flat_bytes are not the row-major element stream of the array\n sent {want.tolist()}\n"
                       f" wire {msg.flat_bytes!r}\n expected {ref!r}", kind="ndarray")
        try:
            b = fr(msg)
        except ValueError:
            if len(shape) == 0:
                return Res(skipped=True, nontrivial=False)
            raise
        tdt = np.dtype(target)
        if b.shape != tuple(shape) or b.dtype.newbyteorder("=") != tdt.newbyteorder("="):
            return bad(f"{label}: decoded shape {b.shape} dtype {b.dtype}", kind="ndarray")
        if not np.array_equal(b, want):
            return bad(f"{label}: sent {want.tolist()} received {b.tolist()}", kind="ndarray")
        return good(nontrivial=want.size >= 2)

    return CaseStage("ndarrays", cases, run)


# =============================================================================================
# (d) devices
# =============================================================================================

DEV_KINDS = ["syc", "sqrt_iswap", "sqrt_iswap_inv", "cz", "cz_pow_gate", "phased_xz", "virtual_zpow", "physical_zpow",
             "coupler_pulse", "meas", "wait", "fsim_via_model", "two_pulse_fsim", "internal_gate", "reset",
             "analog_detune_qubit", "analog_detune_coupler_only", "wait_gate_with_unit"]
DEV_SUBSET_QUICK = ["syc", "sqrt_iswap", "cz", "cz_pow_gate", "phased_xz", "virtual_zpow", "meas"]
DEV_SUBSET_THOROUGH = DEV_SUBSET_QUICK + ["physical_zpow", "wait"]
# a 2x2 grid placed so that the frozenset pairs of cirq's GridDeviceMetadata iterate in descending qubit order for
# two of its four edges and in ascending order for the other two (GridQubit hashes are process independent)
DEV_QUBITS = [G(1, 2), G(1, 3), G(2, 2), G(2, 3)]
DEV_EDGES = [(0, 1), (0, 2), (1, 3), (2, 3)]


def _qid(q):
    return f"{q.row}_{q.col}"


def dev_topologies():
    out = []
    for mask in range(16):
        qs = [i for i in range(4) if mask >> i & 1]
        edges = [e for e in DEV_EDGES if e[0] in qs and e[1] in qs]
        for emask in range(1 << len(edges)):
            out.append((tuple(qs), tuple(e for n, e in enumerate(edges) if emask >> n & 1)))
    return out


def dev_gate_sets(tier):
    sub = DEV_SUBSET_THOROUGH if tier == "thorough" else DEV_SUBSET_QUICK
    sets = []
    for m in range(1 << len(sub)):
        sets.append(tuple(k for n, k in enumerate(sub) if m >> n & 1))
    for k in DEV_KINDS:
        if (k,) not in sets:
            sets.append((k,))
    sets.append(tuple(DEV_KINDS))
    sets.append(tuple(reversed(DEV_KINDS)))
    return sets


def build_spec(qs, edges, kinds, orient, dur, ordering=None):
    p = v2.device_pb2.DeviceSpecification()
    p.valid_qubits.extend(_qid(DEV_QUBITS[i]) for i in qs)
    ts = p.valid_targets.add()
    ts.name = "2_qubit_targets"
    ts.target_ordering = v2.device_pb2.TargetSet.SYMMETRIC if ordering is None else ordering
    for (x, y) in edges:
        ids = [_qid(DEV_QUBITS[x]), _qid(DEV_QUBITS[y])]
        if orient == 1:
            ids.reverse()
        ts.targets.add().ids.extend(ids)
        if orient == 2:
            ts.targets.add().ids.extend(reversed(ids))
    for n, k in enumerate(kinds):
        gs = p.valid_gates.add()
        getattr(gs, k).SetInParent()
        if dur == 1:
            gs.gate_duration_picos = 1000 * (n + 1)
        elif dur == 2:
            gs.gate_duration_picos = 0 if n % 2 == 0 else 12500
    return p


def spec_semantics(p):
    qs = list(p.valid_qubits)
    pairs = set()
    for ts in p.valid_targets:
        for t in ts.targets:
            if len(t.ids) == 2 and ts.target_ordering == v2.device_pb2.TargetSet.SYMMETRIC:
                pairs.add(frozenset(t.ids))
    gates = {}
    for gs in p.valid_gates:
        gates[gs.WhichOneof("gate")] = gs.gate_duration_picos
    return sorted(qs), pairs, gates


def _dev_ops():
    q00, q01, q10, q11 = DEV_QUBITS
    pz, fvm = cg.PhysicalZTag(), cg.FSimViaModelTag()
    ops = [
        # (name, op, kinds that accept it, needs an allowed pair)
        ("X", cirq.X(q00), {"phased_xz"}),
        ("X^.3@11", cirq.X(q11) ** 0.3, {"phased_xz"}),
        ("H", cirq.H(q01), {"phased_xz"}),
        ("I", cirq.I(q10), {"phased_xz"}),
        ("PhXZ", cirq.PhasedXZGate(x_exponent=0.3, z_exponent=0.2, axis_phase_exponent=0.1).on(q00), {"phased_xz"}),
        ("PhX", cirq.PhasedXPowGate(phase_exponent=0.3, exponent=0.2).on(q01), {"phased_xz"}),
        ("Z^.3", cirq.Z(q00) ** 0.3, {"virtual_zpow"}),
        ("Z+PhysZ", cirq.Z(q01).with_tags(pz), {"physical_zpow"}),
        ("CZ(00,01)", cirq.CZ(q00, q01), {"cz", "cz_pow_gate"}),
        ("CZ(01,00)", cirq.CZ(q01, q00), {"cz", "cz_pow_gate"}),
        ("CZ(00,10)", cirq.CZ(q00, q10), {"cz", "cz_pow_gate"}),
        ("CZ(10,11)", cirq.CZ(q10, q11), {"cz", "cz_pow_gate"}),
        ("CZ(00,11)", cirq.CZ(q00, q11), {"cz", "cz_pow_gate"}),
        ("CZ^.5(00,01)", cirq.CZ(q00, q01) ** 0.5, {"cz_pow_gate"}),
        ("SYC(00,01)", cg.SYC(q00, q01), {"syc"}),
        ("SYC(11,01)", cg.SYC(q11, q01), {"syc"}),
        ("sqrtISWAP(00,10)", cirq.SQRT_ISWAP(q00, q10), {"sqrt_iswap"}),
        ("sqrtISWAPinv(00,01)", cirq.SQRT_ISWAP_INV(q00, q01), {"sqrt_iswap_inv"}),
        ("FSim+ViaModel", cirq.FSimGate(0.3, 0.2).on(q00, q01).with_tags(fvm), {"fsim_via_model"}),
        ("FSim+TwoPulse", cirq.FSimGate(0.3, 0.2).on(q00, q01).with_tags(cg.TwoPulseFSimTag()), {"two_pulse_fsim"}),
        ("FSim", cirq.FSimGate(0.3, 0.2).on(q00, q01), set()),
        ("M(00,01)", cirq.measure(q00, q01, key="m"), {"meas"}),
        ("M(00,11)", cirq.measure(q00, q11, key="m"), {"meas"}),
        ("M(10)", cirq.measure(q10, key="m"), {"meas"}),
        ("wait(00)", cirq.wait(q00, nanos=5), {"wait"}),
        ("wait(00,11)", cirq.wait(q00, q11, nanos=5), {"wait"}),
        ("WGU(01)", cg.ops.WaitGateWithUnit(5 * tu.ns).on(q01), {"wait", "wait_gate_with_unit"}),
        ("reset", cirq.ResetChannel().on(q00), {"reset"}),
        ("IG", cg.InternalGate("G", "mod", 1).on(q11), {"internal_gate"}),
        ("IG2(00,01)", cg.InternalGate("G", "mod", 2).on(q00, q01), {"internal_gate"}),
        ("Coupler(10,11)", CouplerPulse(hold_time=cirq.Duration(nanos=10), coupling_mhz=25.0).on(q10, q11), {"coupler_pulse"}),
        ("X(off)", cirq.X(G(5, 5)), {"phased_xz"}),
        ("CNOT", cirq.CNOT(q00, q01), set()),
    ]
    return ops


_VARIADIC = (cirq.MeasurementGate, cirq.WaitGate)


def make_device_stage(tier):
    topos = dev_topologies()
    gsets = dev_gate_sets(tier)
    cases = []
    for ti, (qs, edges) in enumerate(topos):
        for gi in range(len(gsets)):
            for orient in ((0, 1, 2) if edges else (0,)):
                for dur in (0, 1, 2):
                    cases.append((ti, gi, orient, dur))
    ops = _dev_ops()

    def accepts(dev, op):
        try:
            dev.validate_operation(op)
            return True
        except ValueError:
            return False

    def run(case):
        ti, gi, orient, dur = case
        qs, edges = topos[ti]
        kinds = gsets[gi]
        spec = build_spec(qs, edges, kinds, orient, dur)
        label = f"qubits={[_qid(DEV_QUBITS[i]) for i in qs]} pairs={edges} gates={kinds} orient={orient} dur={dur}"
        dev = cg.GridDevice.from_proto(_hop(spec))
        # the device object describes exactly the spec
        exp_q = frozenset(DEV_QUBITS[i] for i in qs)
        exp_p = frozenset(frozenset((DEV_QUBITS[x], DEV_QUBITS[y])) for x, y in edges)
        if frozenset(dev.metadata.qubit_set) != exp_q:
            return bad(f"{label}: device qubit_set {sorted(dev.metadata.qubit_set)}", kind="device")
        if frozenset(dev.metadata.qubit_pairs) != exp_p:
            return bad(f"{label}: device qubit_pairs {dev.metadata.qubit_pairs}", kind="device")
        out = dev.to_proto()
        s_in, s_out = spec_semantics(spec), spec_semantics(_hop(out))
        if len(set(out.valid_qubits)) != len(out.valid_qubits):
            return bad(f"{label}: to_proto repeats qubits {list(out.valid_qubits)}", kind="device")
        if s_in != s_out:
            return bad(f"{label}: from_proto(p).to_proto() means {s_out}, p means {s_in}", kind="device")
        dev2 = cg.GridDevice.from_proto(_hop(out))
        if dev2 != dev or dev != dev2:
            return bad(f"{label}: from_proto(d.to_proto()) != d", kind="device")
        out2 = dev2.to_proto()
        if out2.SerializeToString(deterministic=True) != out.SerializeToString(deterministic=True):
            return bad(f"{label}: to_proto is not stable:\n{out}\n---\n{out2}", kind="device")
        if dur == 0:
            ks = set(kinds)
            for name, op, ok_kinds in ops:
                exp = bool(ok_kinds & ks) and all(q in exp_q for q in op.qubits)
                if exp and len(op.qubits) == 2 and not isinstance(op.gate, _VARIADIC):
                    exp = frozenset(op.qubits) in exp_p
                a1, a2 = accepts(dev, op), accepts(dev2, op)
                if a1 != exp or a2 != exp:
                    return bad(f"{label}: validate_operation({name}) accepted={a1} (after round trip {a2}), the "
                               f"specification says {exp}", kind="device_validation")
        return good(nontrivial=bool(qs) and bool(kinds), devices=1)

    return CaseStage("devices", cases, run)


def make_invalid_device_stage():
    topos = [t for t in dev_topologies() if t[0]]
    kinds_list = [(), ("cz", "meas")]
    variants = ["pair_outside", "self_pair", "duplicate_qubit", "non_grid_name", "asymmetric", "attr_unknown_qubit"]
    cases = [(ti, ki, v) for ti in range(len(topos)) for ki in range(len(kinds_list)) for v in range(len(variants))]

    def run(case):
        ti, ki, v = case
        qs, edges = topos[ti]
        spec = build_spec(qs, edges, kinds_list[ki], 0, 1)
        q0 = _qid(DEV_QUBITS[qs[0]])
        var = variants[v]
        if var == "pair_outside":
            spec.valid_targets[0].targets.add().ids.extend([q0, "9_9"])
        elif var == "self_pair":
            spec.valid_targets[0].targets.add().ids.extend([q0, q0])
        elif var == "duplicate_qubit":
            spec.valid_qubits.append(q0)
        elif var == "non_grid_name":
            spec.valid_qubits.append("q7")
        elif var == "asymmetric":
            spec.valid_targets[0].target_ordering = v2.device_pb2.TargetSet.ASYMMETRIC
        elif var == "attr_unknown_qubit":
            spec.qubit_attributes["9_9"].attributes["a"].int_value = 1
        try:
            dev = cg.GridDevice.from_proto(spec)
        except ValueError:
            return good(nontrivial=True)
        return bad(f"invalid DeviceSpecification ({var}) accepted: {spec} -> {dev!r}", kind="device_invalid_accepted")

    return CaseStage("devices_invalid", cases, run, describe=lambda c: [list(c), variants[c[2]]])


# =============================================================================================

def stages(tier, seed):
    st = [make_pair_stage(seed), make_decor_stage(seed), make_multi_stage(seed), make_condition_stage(), make_raw_tag_stage()]
    if tier == "thorough":
        st.append(make_triple_stage(seed))
    st += [make_run_context_stage(seed), make_sweep_v1_stage(seed), make_pack_stage(tier), make_ndarray_stage(), make_results_stage(), make_find_measurements_stage(),
           make_device_stage(tier), make_invalid_device_stage()]
    # stages that currently report suspected Cirq defects come last (each under its own `kind` signature)
    st += [make_sweep_stage(seed), make_moment_tag_stage(seed), make_letter_stage(seed)]
    return st
