"""C16 -- Google wire formats round-trip programs, sweeps, results and devices.

Bounded-exhaustive round-trip checks of the cirq_google wire formats:

(a) programs  : a vocabulary V of placed operations (every branch of
    CircuitSerializer._serialize_gate_op x argument kinds x tags, InternalGate argument shapes,
    measurements, classical control, CircuitOperations, waits, resets, noise, CouplerPulse, analog gates,
    all 24 single-qubit Cliffords, qubit kinds) is combined in ALL ordered pairs (and, thorough tier, all
    ordered triples of a ~60 letter core) inside "collision skeletons" that force hits on the program
    constants table (equal ops, ops equal but for a tag, X**0.5 vs X**2.5, equal moments, equal
    sub-circuits, equal tags on different ops, moment tags, circuit tags).  Oracle:
    deserialize(parse(bytes(serialize(c)))) is structurally equal to c (moments, op multiset per moment by
    qubits / tags in order / classical controls / gate, real arguments within float32 rounding, symbols and
    expressions structurally equal, gates equal up to global phase / period) and re-serialization is stable.
(b) sweeps    : sweep terms (Points/Linspace/Zip/ZipLongest/Product/Concat/ListSweep/UnitSweep/
    FiniteRandomVariable, units, metadata, const sweeps) through sweep_to_proto/sweep_from_proto,
    sweepable_to_proto and run_context_to_proto (plain / compressed, float32 / float64).
(c) results   : pack_bits/unpack_bits for ALL bit arrays up to a length bound (against an independent
    integer-arithmetic reference), results_to_proto/results_from_proto for all record tensors of small shapes,
    find_measurements on measurement layouts.
(d) devices   : enumerated DeviceSpecification protos (qubit subsets of a 2x2 grid x pair subsets x gate-kind
    subsets x pair orientation x durations): from_proto/to_proto round trips, rejection of invalid specs and
    validate_operation decisions against an independent (gate kind, qubit, pair) table.
"""
from __future__ import annotations

import gzip
import itertools
import math

import numpy as np
import sympy
import tunits as tu

import cirq
import cirq_google as cg
from cirq_google.api import v2
from cirq_google.experimental.ops import CouplerPulse
from cirq_google.study.device_parameter import DeviceParameter, Metadata
from cirq_google.study.finite_random_variable import FiniteRandomVariable

from mc import core
from mc.core import CaseStage, Res, bad, good
from mc.ref import embed as E

PROPERTY = "C16"
LEVEL = "exploration"
RULE = ("programs: every letter of a ~230 letter vocabulary of placed operations alone, ALL ordered pairs of the "
        "pair vocabulary (thorough: also ALL ordered triples of a ~60 letter core) x collision skeletons (same moment, "
        "consecutive, repeated moment, sandwich, op reuse), decorated variants (moment tags, circuit tags, frozen "
        "circuits, shared sub-circuits) and multi-program / circuit-function forms; sweeps: all leaves, all ordered "
        "pairs of leaves under every combinator, depth-2 terms, x float32/float64; results: ALL bit arrays up to the "
        "length bound, all record tensors of the listed shapes; devices: all (qubit subset, pair subset, gate-kind "
        "subset, orientation, duration) specifications of a 2x2 grid.  A program case is non-trivial when the "
        "serialized constants table is referenced more than once by at least one entry or holds >= 2 operations; "
        "distinct = distinct case descriptor")
TECHNIQUE = ("bounded-exhaustive enumeration of programs / sweeps / result tensors / device specifications with "
             "structural round-trip comparison (float32-tolerant, global-phase-tolerant) and independent reference "
             "encoders for bit packing and device validation")
LEVEL_TEXT = ("Every circuit of the bounded vocabulary (all ordered pairs, thorough: triples, in skeletons that force "
              "constants-table collisions) is serialized, sent through bytes, deserialized and compared structurally "
              "with the original; the same is done for all enumerated sweeps, run contexts, result tensors (all bit "
              "patterns up to the bound) and device specifications. Nothing is sampled; bounds are the vocabulary, "
              "circuit length <= 5 moments, bit-array length <= 16/18 and a 2x2 device grid.")
LEVEL_NOTE = ("trusted: protobuf runtime, numpy, sympy structural equality, cirq value-equality values of gates, "
              "cirq.unitary of single gates (tied to closed forms by C03/C04)")
ASSUMPTIONS = [
    "protobuf SerializeToString/ParseFromString are faithful",
    "gate._value_equality_values_() exposes every semantic argument of a gate (used for float32-tolerant comparison)",
    "cirq.unitary of single gates is correct (C03/C04) -- used only to allow global-phase/period normalisation",
    "sympy structural equality / evaluation",
]

S = cg.CIRCUIT_SERIALIZER
REL = 1e-6          # float32 has 24 bits: relative rounding error <= 6e-8
G = cirq.GridQubit
SLOTS = [(G(0, 0), G(0, 1)), (G(1, 0), G(1, 1)), (G(2, 0), G(2, 1))]
LINE = [cirq.LineQubit(3), cirq.LineQubit(4), cirq.LineQubit(5)]
NAMED = [cirq.NamedQubit("nq"), cirq.NamedQubit("nq1"), cirq.NamedQubit("nq2")]


# =============================================================================================
# tolerant structural comparison
# =============================================================================================

def _is_num(x):
    return isinstance(x, (int, float, complex, np.number)) and not isinstance(x, (bool, np.bool_))


def num_close(x, y, rel=REL):
    x = complex(x)
    y = complex(y)
    return abs(x - y) <= rel * max(abs(x), abs(y))


def expr_close(e1, e2, rel=REL):
    """Structural equality of sympy expressions, numeric leaves within float32 rounding."""
    e1 = sympy.sympify(e1)
    e2 = sympy.sympify(e2)
    if e1 == e2:
        return True
    if e1.is_number and e2.is_number:
        try:
            return num_close(complex(e1), complex(e2), rel)
        except TypeError:
            return False
    if e1.free_symbols != e2.free_symbols:
        return False
    if e1.func == e2.func and len(e1.args) == len(e2.args) and e1.args:
        if all(expr_close(x, y, rel) for x, y in zip(e1.args, e2.args)):
            return True
    # structural walk failed (argument re-ordering after rounding, Pow(pi,-1) vs Float ...): the expressions
    # must at least denote the same function of their symbols: evaluate at generic points.
    syms = sorted(e1.free_symbols, key=str)
    if not syms or not all(isinstance(x, sympy.Symbol) for x in syms):
        return False
    for pt in ((0.3717, -0.8123, 1.2931), (1.1173, 0.4519, -0.6677)):
        sub = {sy: pt[i % 3] + 0.11 * (i // 3) for i, sy in enumerate(syms)}
        try:
            v1 = complex(e1.evalf(17, subs=sub))
            v2 = complex(e2.evalf(17, subs=sub))
        except TypeError:
            return False
        if not abs(v1 - v2) <= 4 * rel * max(abs(v1), abs(v2), 1.0):
            return False
    return True


def val_close(v1, v2, rel=REL):
    """Recursive comparison of argument values; container types and structure must be preserved."""
    if isinstance(v1, sympy.Basic) or isinstance(v2, sympy.Basic):
        if isinstance(v1, sympy.Basic) and isinstance(v2, sympy.Basic):
            return expr_close(v1, v2, rel)
        a, b = (v1, v2) if isinstance(v1, sympy.Basic) else (v2, v1)
        return a.is_number and _is_num(b) and num_close(complex(a), b, rel)
    if isinstance(v1, (bool, np.bool_)) or isinstance(v2, (bool, np.bool_)):
        return isinstance(v1, (bool, np.bool_)) and isinstance(v2, (bool, np.bool_)) and bool(v1) == bool(v2)
    if _is_num(v1) or _is_num(v2):
        return _is_num(v1) and _is_num(v2) and num_close(v1, v2, rel)
    if v1 is None or v2 is None:
        return v1 is None and v2 is None
    if isinstance(v1, (str, bytes)):
        return type(v1) is type(v2) and v1 == v2
    if isinstance(v1, np.ndarray) or isinstance(v2, np.ndarray):
        if not (isinstance(v1, np.ndarray) and isinstance(v2, np.ndarray)):
            return False
        if v1.shape != v2.shape or v1.dtype != v2.dtype:
            return False
        if v1.dtype == np.bool_:
            return bool(np.array_equal(v1, v2))
        return bool(np.allclose(v1, v2, rtol=rel, atol=0))
    if isinstance(v1, tu.Value) or isinstance(v2, tu.Value):
        if not (isinstance(v1, tu.Value) and isinstance(v2, tu.Value)):
            return False
        if v1 == v2:
            return True
        try:
            return num_close(v1[v1.unit], v2[v1.unit], rel)
        except Exception:
            return False
    if isinstance(v1, cirq.Duration):
        return isinstance(v2, cirq.Duration) and val_close(v1.total_picos(), v2.total_picos(), rel)
    if isinstance(v1, (list, tuple)):
        return (type(v1) is type(v2) and len(v1) == len(v2)
                and all(val_close(x, y, rel) for x, y in zip(v1, v2)))
    if isinstance(v1, (set, frozenset)):
        if type(v1) is not type(v2) or len(v1) != len(v2):
            return False
        rest = list(v2)
        for x in v1:
            hit = next((i for i, y in enumerate(rest) if val_close(x, y, rel)), None)
            if hit is None:
                return False
            rest.pop(hit)
        return True
    if isinstance(v1, dict):
        if not isinstance(v2, dict) or len(v1) != len(v2):
            return False
        for k, x in v1.items():
            if k not in v2 or not val_close(x, v2[k], rel):
                return False
        return True
    if isinstance(v1, cirq.Gate) and isinstance(v2, cirq.Gate):
        return gate_diff(v1, v2) is None
    if hasattr(v1, "SerializeToString") and hasattr(v2, "SerializeToString"):
        return v1.SerializeToString(deterministic=True) == v2.SerializeToString(deterministic=True)
    try:
        return bool(v1 == v2)
    except Exception:
        return False


_RES_PTS = ((0.3717, -0.8123, 1.2931), (1.1173, 0.4519, -0.6677))


def gate_diff(g1, g2):
    """None when the deserialized gate g2 is an acceptable image of g1, else a reason string."""
    try:
        if g1 == g2:
            return None
    except Exception:
        pass
    if g1 is None or g2 is None:
        return f"gate {g1!r} vs {g2!r}"
    if not (type(g1) is type(g2) or isinstance(g1, type(g2))):
        return f"gate type {type(g1).__name__} became {type(g2).__name__}"
    if cirq.num_qubits(g1) != cirq.num_qubits(g2) or cirq.qid_shape(g1) != cirq.qid_shape(g2):
        return f"gate shape changed: {g1!r} vs {g2!r}"
    if isinstance(g1, cg.InternalGate):
        if g1.gate_name != g2.gate_name or g1.gate_module != g2.gate_module:
            return f"InternalGate name/module {g1.gate_module!r}.{g1.gate_name!r} became {g2.gate_module!r}.{g2.gate_name!r}"
        if not val_close(dict(g1.gate_args), dict(g2.gate_args)):
            return f"InternalGate gate_args {g1.gate_args!r} became {g2.gate_args!r}"
        c1 = {k: v.SerializeToString(deterministic=True) for k, v in g1.custom_args.items()}
        c2 = {k: v.SerializeToString(deterministic=True) for k, v in g2.custom_args.items()}
        if c1 != c2:
            return "InternalGate custom_args changed"
        return None
    if type(g1) is type(g2) and hasattr(g1, "_value_equality_values_"):
        try:
            if val_close(g1._value_equality_values_(), g2._value_equality_values_()):
                return None
        except Exception:
            pass
    # global phase / period normalisation: compare unitaries (parameterised gates at generic points)
    n1 = cirq.parameter_names(g1)
    n2 = cirq.parameter_names(g2)
    if n1 != n2:
        return f"parameter names {sorted(n1)} became {sorted(n2)}"
    names = sorted(n1)
    pts = _RES_PTS if names else ((),)
    for pt in pts:
        res = {nm: pt[i % 3] + 0.07 * (i // 3) for i, nm in enumerate(names)}
        try:
            r1 = cirq.resolve_parameters(g1, res) if names else g1
            r2 = cirq.resolve_parameters(g2, res) if names else g2
            u1 = cirq.unitary(r1, None)
            u2 = cirq.unitary(r2, None)
        except Exception as ex:  # resolution failing on one side only is a difference
            return f"gate {g1!r} became {g2!r} (cannot compare: {type(ex).__name__}: {ex})"
        if u1 is None or u2 is None:
            return f"gate {g1!r} became {g2!r}"
        if u1.shape != u2.shape or not E.eq_up_to_phase(u1, u2, 2e-6):
            return f"gate {g1!r} became {g2!r} (unitaries differ beyond a global phase)"
    return None


def tag_diff(t1, t2):
    try:
        if type(t1) is type(t2) and t1 == t2:
            return None
    except Exception:
        pass
    if isinstance(t1, cg.InternalTag) and isinstance(t2, cg.InternalTag):
        if t1.name == t2.name and t1.package == t2.package and val_close(dict(t1.tag_args), dict(t2.tag_args)):
            return None
        return f"tag {t1!r} became {t2!r}"
    if type(t1) in (str, bytes, int, float, complex, tuple, frozenset, bool) and val_close(t1, t2):
        return None
    return f"tag {t1!r} became {t2!r}"


def tags_diff(ts1, ts2, what):
    ts1 = list(ts1)
    ts2 = list(ts2)
    if len(ts1) != len(ts2):
        return f"{what}: tags {ts1!r} became {ts2!r}"
    for x, y in zip(ts1, ts2):
        d = tag_diff(x, y)
        if d:
            return f"{what}: tags {ts1!r} became {ts2!r} ({d})"
    return None


def op_diff(o1, o2):
    """None when o2 is an acceptable image of o1, else (kind, reason)."""
    try:
        if o1 == o2 and list(o1.tags) == list(o2.tags):
            return None
    except Exception:
        pass
    if o1.qubits != o2.qubits:
        return ("qubits", f"qubits {o1.qubits!r} became {o2.qubits!r}")
    d = tags_diff(o1.tags, o2.tags, f"op on {o1.qubits}")
    if d:
        return ("tags", d)
    u1, u2 = o1.untagged, o2.untagged
    if u1.classical_controls != u2.classical_controls:
        return ("controls", f"classical controls {set(u1.classical_controls)!r} became {set(u2.classical_controls)!r}")
    b1, b2 = u1.without_classical_controls(), u2.without_classical_controls()
    d = tags_diff(b1.tags, b2.tags, f"inner op on {o1.qubits}")
    if d:
        return ("tags", d)
    b1, b2 = b1.untagged, b2.untagged
    c1, c2 = isinstance(b1, cirq.CircuitOperation), isinstance(b2, cirq.CircuitOperation)
    if c1 != c2:
        return ("gate", f"operation {b1!r} became {b2!r}")
    if c1:
        return circuit_op_diff(b1, b2)
    d = gate_diff(b1.gate, b2.gate)
    if d:
        return ("gate", d)
    return None


def circuit_op_diff(c1, c2):
    d = circuit_diff(c1.circuit, c2.circuit)
    if d:
        return (d[0], "in sub-circuit: " + d[1])
    for attr in ("repetitions", "qubit_map", "measurement_key_map", "repetition_ids", "use_repetition_ids",
                 "repeat_until"):
        x, y = getattr(c1, attr), getattr(c2, attr)
        if attr == "repetition_ids":
            x = None if x is None else list(x)
            y = None if y is None else list(y)
        if x != y:
            return ("circuit_op", f"CircuitOperation.{attr} {x!r} became {y!r}")
    p1, p2 = dict(c1.param_resolver.param_dict), dict(c2.param_resolver.param_dict)
    if not val_close(p1, p2):
        return ("circuit_op", f"CircuitOperation.param_resolver {p1!r} became {p2!r}")
    return None


def moment_diff(m1, m2, idx):
    d = tags_diff(m1.tags, m2.tags, f"moment {idx}")
    if d:
        return ("moment_tags", d)
    ops1 = list(m1.operations)
    rest = list(m2.operations)
    if len(ops1) != len(rest):
        return ("moment", f"moment {idx}: {len(ops1)} operations became {len(rest)}: {m1!r} vs {m2!r}")
    first = None
    for o in ops1:
        hit = None
        for i, p in enumerate(rest):
            if p.qubits != o.qubits:
                continue
            dd = op_diff(o, p)
            if dd is None:
                hit = i
                break
            if first is None:
                first = dd
        if hit is None:
            if first is None:
                first = ("moment", f"no operation on qubits {o.qubits!r} in the deserialized moment")
            return (first[0], f"moment {idx}: {first[1]}\n   original op: {o!r}\n   deserialized moment: {m2!r}")
        rest.pop(hit)
    return None


def circuit_diff(c1, c2):
    if len(c1) != len(c2):
        return ("length", f"{len(c1)} moments became {len(c2)}")
    d = tags_diff(c1.tags, c2.tags, "circuit")
    if d:
        return ("circuit_tags", d)
    for i, (m1, m2) in enumerate(zip(c1.moments, c2.moments)):
        d = moment_diff(m1, m2, i)
        if d:
            return d
    return None


def _hop(msg):
    out = type(msg)()
    out.ParseFromString(msg.SerializeToString())
    return out


def _nontrivial_program(msg):
    n_ops = sum(1 for c in msg.constants if c.WhichOneof("const_value") == "operation_value")
    if n_ops >= 2:
        return True
    refs = {}
    for c in msg.constants:
        w = c.WhichOneof("const_value")
        if w == "moment_value":
            for i in list(c.moment_value.operation_indices) + list(c.moment_value.tag_indices):
                refs[i] = refs.get(i, 0) + 1
        elif w == "operation_value":
            for i in list(c.operation_value.tag_indices) + list(c.operation_value.qubit_constant_index):
                refs[i] = refs.get(i, 0) + 1
        elif w == "circuit_value":
            for i in c.circuit_value.moment_indices:
                refs[i] = refs.get(i, 0) + 1
    for i in msg.circuit.moment_indices:
        refs[i] = refs.get(i, 0) + 1
    return any(v > 1 for v in refs.values())


def check_program(circ, unordered=False):
    """Round-trip one circuit. Returns (None, nontrivial) or ((kind, msg), nontrivial)."""
    msg = S.serialize(circ)
    nontrivial = _nontrivial_program(msg)
    back = S.deserialize(_hop(msg))
    d = circuit_diff(circ, back)
    if d:
        return (d[0], f"deserialize(serialize(c)) differs from c: {d[1]}\n c = {circ!r}\n back = {back!r}"), nontrivial
    # stability: serializing the deserialized circuit, deserializing and serializing again gives the same bytes
    m1 = S.serialize(back)
    back2 = S.deserialize(_hop(m1))
    d = circuit_diff(back, back2)
    if d:
        return ("stability", f"second round trip changes the circuit: {d[1]}\n c = {circ!r}\n first = {back!r}\n "
                             f"second = {back2!r}"), nontrivial
    if not unordered:
        m2 = S.serialize(back2)
        if m1.SerializeToString(deterministic=True) != m2.SerializeToString(deterministic=True):
            return ("stability", f"re-serialization is not stable for c = {circ!r}:\n{m1}\n---\n{m2}"), nontrivial
    return None, nontrivial


# =============================================================================================
# (a) vocabulary of placed operations
# =============================================================================================

class _UnknownTag:
    """A tag the serializer cannot know (documented ValueError 'Unrecognized Tag')."""

    def __eq__(self, other):
        return isinstance(other, _UnknownTag)

    def __hash__(self):
        return 77

    def __repr__(self):
        return "_UnknownTag()"


_VOCAB = {}


def vocab(seed):
    if seed in _VOCAB:
        return _VOCAB[seed]
    g = core.generic(seed)
    g2 = core.generic(seed, 1)
    s, t = sympy.Symbol("s"), sympy.Symbol("t")
    L = []

    def add(name, fn, rej=False, find=None, corel=False, unordered=False, pairs=True):
        L.append(dict(name=name, fn=fn, rej=rej, find=find, core=corel, unordered=unordered,
                      pairs=pairs and not rej and find is None))

    ARGS = [("q", 0.25), ("n", 0.1), ("o", 2.5), ("i", 1), ("s", s), ("e", 2 * s + 1)]
    # --- one-parameter gates x all argument kinds
    one = [("X", cirq.XPowGate, 1), ("Y", cirq.YPowGate, 1), ("Z", cirq.ZPowGate, 1), ("H", cirq.HPowGate, 1),
           ("CZ", cirq.CZPowGate, 2), ("ISWAP", cirq.ISwapPowGate, 2)]
    core_one = {"X": "qnoise", "Y": "n", "Z": "qs", "H": "q", "CZ": "qos", "ISWAP": "n"}
    for gn, gt, nq in one:
        for an, av in ARGS:
            if nq == 1:
                add(f"{gn}^{an}", lambda q0, q1, k, gt=gt, av=av: gt(exponent=av).on(q0), corel=an in core_one[gn])
            else:
                add(f"{gn}^{an}", lambda q0, q1, k, gt=gt, av=av: gt(exponent=av).on(q0, q1), corel=an in core_one[gn])
    for an, av in ARGS:
        add(f"PhX(pe={an},e=q)", lambda q0, q1, k, av=av: cirq.PhasedXPowGate(phase_exponent=av, exponent=0.25).on(q0),
            corel=an == "n")
        add(f"PhXZ(x={an})", lambda q0, q1, k, av=av: cirq.PhasedXZGate(x_exponent=av, z_exponent=0.25,
                                                                     axis_phase_exponent=0.5).on(q1), corel=an == "n")
        add(f"FSim(th={an},phi=q)", lambda q0, q1, k, av=av: cirq.FSimGate(theta=av, phi=0.25).on(q0, q1),
            corel=an in "ns")
    for an, av in ARGS[1:]:
        if an in "nos":
            add(f"PhX(pe=q,e={an})", lambda q0, q1, k, av=av: cirq.PhasedXPowGate(phase_exponent=0.25, exponent=av).on(q0))
            add(f"PhXZ(z={an})", lambda q0, q1, k, av=av: cirq.PhasedXZGate(x_exponent=0.25, z_exponent=av,
                                                                         axis_phase_exponent=0.5).on(q1))
            add(f"PhXZ(a={an})", lambda q0, q1, k, av=av: cirq.PhasedXZGate(x_exponent=0.25, z_exponent=0.5,
                                                                         axis_phase_exponent=av).on(q1))
        add(f"FSim(th=q,phi={an})", lambda q0, q1, k, av=av: cirq.FSimGate(theta=0.25, phi=av).on(q0, q1))
    # --- other expressions / global shifts / generic values
    add("X^(s**2)", lambda q0, q1, k: cirq.X(q0) ** (s ** 2))
    add("X^(0.1*s)", lambda q0, q1, k: cirq.X(q0) ** (0.1 * s), corel=True)
    add("X^(s/2)", lambda q0, q1, k: cirq.X(q0) ** (s / 2))
    add("X^(s-t)", lambda q0, q1, k: cirq.X(q0) ** (s - t))
    add("Z^(s*pi)", lambda q0, q1, k: cirq.Z(q0) ** (s * sympy.pi))
    add("Y^(t**s)", lambda q0, q1, k: cirq.Y(q0) ** (t ** s))
    add("X^g", lambda q0, q1, k: cirq.X(q0) ** g)
    add("X^(1/3)", lambda q0, q1, k: cirq.X(q0) ** sympy.Rational(1, 3))
    add("X^1e-8", lambda q0, q1, k: cirq.X(q0) ** 1e-8)
    add("X^0", lambda q0, q1, k: cirq.X(q0) ** 0)
    add("X^-1", lambda q0, q1, k: cirq.X(q0) ** -1)
    add("rx(g)", lambda q0, q1, k: cirq.rx(g).on(q0), corel=True)
    add("rz(s)", lambda q0, q1, k: cirq.rz(s).on(q0))
    add("ry(g2)", lambda q0, q1, k: cirq.ry(g2).on(q1))
    add("X(shift=.5)^q", lambda q0, q1, k: cirq.XPowGate(exponent=0.25, global_shift=0.5).on(q0))
    add("CZ(shift=.25)^n", lambda q0, q1, k: cirq.CZPowGate(exponent=0.1, global_shift=0.25).on(q0, q1))
    add("PhX(shift)", lambda q0, q1, k: cirq.PhasedXPowGate(phase_exponent=0.1, exponent=0.5, global_shift=0.25).on(q0))
    add("FSim(g,g2)", lambda q0, q1, k: cirq.FSimGate(theta=g, phi=g2).on(q0, q1))
    add("FSim(7,n)", lambda q0, q1, k: cirq.FSimGate(theta=7.0, phi=0.1).on(q0, q1))
    # --- documented rejections (argument function language / unsupported gates)
    add("X^cos(s)", lambda q0, q1, k: cirq.X(q0) ** sympy.cos(s), rej=True)
    add("FSim(cos(s))", lambda q0, q1, k: cirq.FSimGate(theta=sympy.cos(s), phi=0.25).on(q0, q1), rej=True)
    add("X^floor(s)", lambda q0, q1, k: cirq.X(q0) ** sympy.floor(s), rej=True)
    add("CNOT", lambda q0, q1, k: cirq.CNOT(q0, q1), rej=True)
    add("SWAP", lambda q0, q1, k: cirq.SWAP(q0, q1), rej=True)
    add("CX(ctrl)", lambda q0, q1, k: cirq.X(q0).controlled_by(q1), rej=True)
    add("PhasedISwap", lambda q0, q1, k: cirq.PhasedISwapPowGate(phase_exponent=0.1).on(q0, q1), rej=True)
    add("ZZ^.5", lambda q0, q1, k: (cirq.ZZ ** 0.5).on(q0, q1), rej=True)
    add("Matrix", lambda q0, q1, k: cirq.MatrixGate(np.eye(2)).on(q0), rej=True)
    # --- tags
    cal_x, cal_y = cg.CalibrationTag("x"), cg.CalibrationTag("y")
    pz, fvm, tpf, cdt = cg.PhysicalZTag(), cg.FSimViaModelTag(), cg.TwoPulseFSimTag(), cg.CompressDurationTag()
    ddx, ddxy4 = cg.ops.DynamicalDecouplingTag("X"), cg.ops.DynamicalDecouplingTag("XY4")
    itag = cg.InternalTag(name="T", package="p", x=1, y="v", w=0.25, z=("a", 1))
    add("Z^q+PhysZ", lambda q0, q1, k: (cirq.Z(q0) ** 0.25).with_tags(pz), corel=True)
    add("Z^s+PhysZ", lambda q0, q1, k: (cirq.Z(q0) ** s).with_tags(pz))
    add("X+PhysZ", lambda q0, q1, k: cirq.X(q0).with_tags(pz))
    add("X+Cal(x)", lambda q0, q1, k: cirq.X(q0).with_tags(cal_x), corel=True)
    add("X^q+Cal(x)", lambda q0, q1, k: (cirq.X(q0) ** 0.25).with_tags(cal_x), corel=True)
    add("CZ+Cal(x)", lambda q0, q1, k: cirq.CZ(q0, q1).with_tags(cal_x), corel=True)
    add("X+Cal(y)", lambda q0, q1, k: cirq.X(q0).with_tags(cal_y))
    add("FSim+ViaModel", lambda q0, q1, k: cirq.FSimGate(0.25, 0.5).on(q0, q1).with_tags(fvm), corel=True)
    add("FSim+TwoPulse", lambda q0, q1, k: cirq.FSimGate(0.25, 0.5).on(q0, q1).with_tags(tpf))
    add("FSim+both", lambda q0, q1, k: cirq.FSimGate(0.25, 0.5).on(q0, q1).with_tags(fvm, tpf), rej=True)
    add("FSim(plain .25,.5)", lambda q0, q1, k: cirq.FSimGate(0.25, 0.5).on(q0, q1))
    add("X+ViaModel", lambda q0, q1, k: cirq.X(q0).with_tags(fvm))
    add("X+ITag", lambda q0, q1, k: cirq.X(q0).with_tags(itag), corel=True)
    add("X+ITag()", lambda q0, q1, k: cirq.X(q0).with_tags(cg.InternalTag(name="T", package="p")))
    add("X+ITag(n)", lambda q0, q1, k: cirq.X(q0).with_tags(cg.InternalTag(name="T", package="p", w=0.1, e=2 * s + 1)))
    add("X+DD(X)", lambda q0, q1, k: cirq.X(q0).with_tags(ddx), corel=True)
    add("I+DD(XY4)", lambda q0, q1, k: cirq.I(q0).with_tags(ddxy4))
    add("X+Compress", lambda q0, q1, k: cirq.X(q0).with_tags(cdt), corel=True)
    add("PhXZ+Compress", lambda q0, q1, k: cirq.PhasedXZGate(x_exponent=0, z_exponent=0.25, axis_phase_exponent=0).on(q1).with_tags(cdt))
    add("X+(Cal,DD)", lambda q0, q1, k: cirq.X(q0).with_tags(cal_x, ddx), corel=True)
    add("X+(DD,Cal)", lambda q0, q1, k: cirq.X(q0).with_tags(ddx, cal_x), corel=True)
    add("Z+(PhysZ,Cal)", lambda q0, q1, k: cirq.Z(q0).with_tags(pz, cal_x), corel=True)
    add("FSim+(ViaModel,Cal)", lambda q0, q1, k: cirq.FSimGate(0.25, 0.5).on(q0, q1).with_tags(fvm, cal_x))
    add("X+(Cal x,Cal y)", lambda q0, q1, k: cirq.X(q0).with_tags(cal_x, cal_y))
    add("X+(foo,foo)", lambda q0, q1, k: cirq.X(q0).with_tags("foo", "foo"))
    add("X+'foo'", lambda q0, q1, k: cirq.X(q0).with_tags("foo"), corel=True)
    add("X+7", lambda q0, q1, k: cirq.X(q0).with_tags(7))
    add("X+('a',1)", lambda q0, q1, k: cirq.X(q0).with_tags(("a", 1)))
    add("X+('x',)", lambda q0, q1, k: cirq.X(q0).with_tags(("x",)))
    add("X+unknown", lambda q0, q1, k: cirq.X(q0).with_tags(_UnknownTag()), rej=True)
    # tag order against the gate-specific flags, type-losing tuples (see final report)
    add("Z+(Cal,PhysZ)", lambda q0, q1, k: cirq.Z(q0).with_tags(cal_x, pz), find="flag_tag_order")
    add("FSim+(Cal,ViaModel)", lambda q0, q1, k: cirq.FSimGate(0.25, 0.5).on(q0, q1).with_tags(cal_x, fvm),
        find="flag_tag_order")
    add("X+(1,2)", lambda q0, q1, k: cirq.X(q0).with_tags((1, 2)), find="numeric_tuple_becomes_list")
    add("X+ITag(z=(1,2))", lambda q0, q1, k: cirq.X(q0).with_tags(cg.InternalTag(name="T", package="p", z=(1, 2))),
        find="numeric_tuple_becomes_list")
    # --- measurements
    add("M(q0,q1;m)", lambda q0, q1, k: cirq.measure(q0, q1, key="m"), corel=True)
    add("M(q1,q0;k,inv=(1,))", lambda q0, q1, k: cirq.measure(q1, q0, key="k", invert_mask=(True,)), corel=True)
    add("M(q0;m)", lambda q0, q1, k: cirq.measure(q0, key="m"), corel=True)
    add("M(q0,q1;k,inv=(0,1))", lambda q0, q1, k: cirq.measure(q0, q1, key="k", invert_mask=(False, True)))
    add("M(q0,q1;k,inv=(0,0))", lambda q0, q1, k: cirq.measure(q0, q1, key="k", invert_mask=(False, False)))
    add("M(q0;m,inv=(1,))", lambda q0, q1, k: cirq.measure(q0, key="m", invert_mask=(True,)))
    add("M(q0;'')", lambda q0, q1, k: cirq.measure(q0, key=""))
    add("M(q0;unicode)", lambda q0, q1, k: cirq.measure(q0, key="mé-1 x"))
    add("M(q0;m)+Cal", lambda q0, q1, k: cirq.measure(q0, key="m").with_tags(cal_x))
    # --- classical control
    m_sym = sympy.Symbol("m")
    add("X?m", lambda q0, q1, k: cirq.X(q0).with_classical_controls("m"), corel=True)
    add("X?(m,k)", lambda q0, q1, k: cirq.X(q0).with_classical_controls("m", "k"), unordered=True)
    add("X?(m>1)", lambda q0, q1, k: cirq.X(q0).with_classical_controls(sympy.Gt(m_sym, 1)), corel=True)
    add("X?(m==1|k!=0)", lambda q0, q1, k: cirq.X(q0).with_classical_controls(
        sympy.Or(sympy.Eq(m_sym, 1), sympy.Ne(sympy.Symbol("k"), 0))), unordered=True)
    add("X?bitmask==", lambda q0, q1, k: cirq.X(q0).with_classical_controls(
        cirq.BitMaskKeyCondition("m", bitmask=1, target_value=1, equal_target=True)), corel=True)
    add("X?bitmask!=", lambda q0, q1, k: cirq.X(q0).with_classical_controls(
        cirq.BitMaskKeyCondition("m", bitmask=None, target_value=0, equal_target=False, index=0)))
    add("X?m[0]", lambda q0, q1, k: cirq.X(q0).with_classical_controls(cirq.KeyCondition(cirq.MeasurementKey("m"), index=0)))
    add("CZ?m", lambda q0, q1, k: cirq.CZ(q0, q1).with_classical_controls("m"), corel=True)
    add("X^s?m", lambda q0, q1, k: (cirq.X(q0) ** s).with_classical_controls("m"))
    add("X^n?k", lambda q0, q1, k: (cirq.X(q0) ** 0.1).with_classical_controls("k"))
    add("(X?m)+Cal", lambda q0, q1, k: cirq.X(q0).with_classical_controls("m").with_tags(cal_x), rej=True)
    # --- circuit operations
    def sub1(q0, q1):
        return cirq.FrozenCircuit(cirq.X(q0), cirq.CZ(q0, q1))

    def subm(q0, q1):
        return cirq.FrozenCircuit(cirq.X(q0), cirq.measure(q0, key="m"))

    def subs(q0, q1):
        return cirq.FrozenCircuit(cirq.X(q0) ** s, cirq.measure(q0, key="m"))

    add("CO(sub1)", lambda q0, q1, k: cirq.CircuitOperation(sub1(q0, q1)), corel=True)
    add("CO(sub1)x2", lambda q0, q1, k: cirq.CircuitOperation(sub1(q0, q1), repetitions=2), corel=True)
    add("CO(sub1)x2,ids", lambda q0, q1, k: cirq.CircuitOperation(sub1(q0, q1), repetitions=2, use_repetition_ids=True))
    add("CO(subm)[p,q]", lambda q0, q1, k: cirq.CircuitOperation(subm(q0, q1), repetitions=2, repetition_ids=["p", "q"]),
        corel=True)
    add("CO(sub1)x-1", lambda q0, q1, k: cirq.CircuitOperation(sub1(q0, q1), repetitions=-1))
    add("CO(sub1)x0", lambda q0, q1, k: cirq.CircuitOperation(sub1(q0, q1), repetitions=0))
    add("CO(subs,maps)", lambda q0, q1, k: cirq.CircuitOperation(subs(q0, q1), qubit_map={q0: q1},
                                                             measurement_key_map={"m": "k"}, param_resolver={s: 0.25}),
        corel=True)
    add("CO(subs,s=n)", lambda q0, q1, k: cirq.CircuitOperation(subs(q0, q1), param_resolver={s: 0.1}))
    add("CO(subs,s=t)", lambda q0, q1, k: cirq.CircuitOperation(subs(q0, q1), param_resolver={s: t}))
    add("CO(subs,'s'=1)", lambda q0, q1, k: cirq.CircuitOperation(subs(q0, q1), param_resolver={"s": 1}))
    add("CO(subs,s=2t)", lambda q0, q1, k: cirq.CircuitOperation(subs(q0, q1), param_resolver={s: 2 * t}), rej=True)
    add("CO(sub1)?m", lambda q0, q1, k: cirq.CircuitOperation(sub1(q0, q1)).with_classical_controls("m"), corel=True)
    add("CO(sub1)x2?(m>1)", lambda q0, q1, k: cirq.CircuitOperation(sub1(q0, q1), repetitions=2)
        .with_classical_controls(sympy.Gt(m_sym, 1)))
    add("CO(CO(X)x3,X)", lambda q0, q1, k: cirq.CircuitOperation(cirq.FrozenCircuit(
        cirq.CircuitOperation(cirq.FrozenCircuit(cirq.X(q0)), repetitions=3), cirq.X(q0))), corel=True)
    add("CO(CO(sub1),X?m)", lambda q0, q1, k: cirq.CircuitOperation(cirq.FrozenCircuit(
        cirq.CircuitOperation(sub1(q0, q1)), cirq.X(q0).with_classical_controls("m"))))
    add("CO(empty)", lambda q0, q1, k: cirq.CircuitOperation(cirq.FrozenCircuit()))
    add("CO(until)", lambda q0, q1, k: cirq.CircuitOperation(subm(q0, q1), use_repetition_ids=False,
                                                         repeat_until=cirq.KeyCondition(cirq.MeasurementKey("m"))))
    add("CO(tagged sub)", lambda q0, q1, k: cirq.CircuitOperation(cirq.FrozenCircuit(
        cirq.Moment(cirq.X(q0).with_tags(cal_x), tags=(cal_x,)), tags=("ct", cal_x))))
    add("CO(sub1)+tag", lambda q0, q1, k: cirq.CircuitOperation(sub1(q0, q1)).with_tags("t"),
        find="circuit_op_tags_dropped")
    # --- waits, resets
    add("wait(5ns)", lambda q0, q1, k: cirq.wait(q0, nanos=5), corel=True)
    add("wait(q0,q1;.1ns)", lambda q0, q1, k: cirq.wait(q0, q1, nanos=0.1))
    add("wait(1ps)", lambda q0, q1, k: cirq.wait(q0, picos=1))
    add("wait(s)", lambda q0, q1, k: cirq.WaitGate(cirq.Duration(nanos=s)).on(q0))
    add("WGU(5ns)", lambda q0, q1, k: cg.ops.WaitGateWithUnit(5 * tu.ns).on(q0), corel=True)
    add("WGU(.1us,2q)", lambda q0, q1, k: cg.ops.WaitGateWithUnit(0.1 * tu.us, num_qubits=2).on(q0, q1))
    add("WGU(s)", lambda q0, q1, k: cg.ops.WaitGateWithUnit(s).on(q0))
    add("reset", lambda q0, q1, k: cirq.ResetChannel().on(q0), corel=True)
    add("LZSReset", lambda q0, q1, k: cg.ops.LZSResetViaResonator().on(q0))
    add("MLReset", lambda q0, q1, k: cg.ops.MultilevelResetViaResonator().on(q0))
    add("LeakISWAP(m)", lambda q0, q1, k: cg.ops.LeakageISWAP(phase_matched=True).on(q0, q1))
    add("LeakISWAP(u)", lambda q0, q1, k: cg.ops.LeakageISWAP(phase_matched=False).on(q0, q1))
    # --- noise
    add("depol(q)", lambda q0, q1, k: cirq.depolarize(0.25).on(q0))
    add("depol(n)", lambda q0, q1, k: cirq.depolarize(0.1).on(q1), corel=True)
    add("depol(q,2)", lambda q0, q1, k: cirq.depolarize(0.25, n_qubits=2).on(q0, q1))
    add("X.p(q)", lambda q0, q1, k: cirq.X(q0).with_probability(0.25), corel=True)
    add("X.p(n)", lambda q0, q1, k: cirq.X(q0).with_probability(0.1))
    add("X.p(s)", lambda q0, q1, k: cirq.X(q0).with_probability(s))
    add("X.p(1)", lambda q0, q1, k: cirq.X(q0).with_probability(1))
    add("CZ.p(.5)", lambda q0, q1, k: cirq.CZ(q0, q1).with_probability(0.5))
    add("X^s.p(.5)", lambda q0, q1, k: (cirq.X(q0) ** s).with_probability(0.5))
    add("X^n.p(n)", lambda q0, q1, k: (cirq.X(q0) ** 0.1).with_probability(0.1))
    add("depol(1)", lambda q0, q1, k: cirq.depolarize(1).on(q0), find="depolarize_integral_p")
    add("depol(0.0)", lambda q0, q1, k: cirq.depolarize(0.0).on(q0), find="depolarize_integral_p")
    # --- coupler pulse, fixed gates, identities
    add("Coupler", lambda q0, q1, k: CouplerPulse(hold_time=cirq.Duration(nanos=10), coupling_mhz=25.0,
                                               rise_time=cirq.Duration(nanos=18),
                                               padding_time=cirq.Duration(picos=2500)).on(q0, q1), corel=True)
    add("Coupler(n,s)", lambda q0, q1, k: CouplerPulse(hold_time=cirq.Duration(nanos=10), coupling_mhz=0.1,
                                                    q0_detune_mhz=s, q1_detune_mhz=2.5).on(q0, q1))
    add("SYC", lambda q0, q1, k: cg.SYC(q0, q1), corel=True)
    add("WILLOW", lambda q0, q1, k: cg.WILLOW(q0, q1))
    add("I", lambda q0, q1, k: cirq.I(q0), corel=True)
    add("I2", lambda q0, q1, k: cirq.IdentityGate(2).on(q0, q1))
    # --- all 24 single-qubit Cliffords
    for ci, cgate in enumerate(cirq.SingleQubitCliffordGate.all_single_qubit_cliffords):
        add(f"Cliff{ci}", lambda q0, q1, k, cgate=cgate: cgate.on(q0), corel=ci in (0, 5, 17), pairs=ci in (0, 5, 11, 17))
    # --- InternalGate argument shapes
    IG = cg.InternalGate
    ca = cg.ops.internal_gate.function_points_to_proto([0, 0.5, 1], [1, 2, 3])
    add("IG()", lambda q0, q1, k: IG("G", "mod", 1).on(q0), corel=True)
    add("IG(mod='')", lambda q0, q1, k: IG("G", "", 1).on(q0))
    add("IG(scalars,2q)", lambda q0, q1, k: IG("G", "mod", 2, x=1, y=0.25, z="v", w=True).on(q0, q1), corel=True)
    add("IG(n)", lambda q0, q1, k: IG("G", "mod", 1, x=0.1).on(q0))
    add("IG(mixed tuple)", lambda q0, q1, k: IG("G", "mod", 1, x=("a", 1)).on(q0))
    add("IG(str tuple)", lambda q0, q1, k: IG("G", "mod", 1, x=("a", "b")).on(q0))
    add("IG(nested)", lambda q0, q1, k: IG("G", "mod", 1, x=(1, "a", (2, ("b", 0.25), ()))).on(q0))
    add("IG(())", lambda q0, q1, k: IG("G", "mod", 1, x=()).on(q0))
    add("IG(frozenset)", lambda q0, q1, k: IG("G", "mod", 1, x=frozenset(["a", 1])).on(q0), unordered=True)
    add("IG(complex)", lambda q0, q1, k: IG("G", "mod", 1, x=1 + 2j).on(q0))
    add("IG(bytes)", lambda q0, q1, k: IG("G", "mod", 1, x=b"ab").on(q0))
    add("IG(units)", lambda q0, q1, k: IG("G", "mod", 1, x=5 * tu.ns, y=0.1 * tu.GHz).on(q0))
    add("IG(s)", lambda q0, q1, k: IG("G", "mod", 1, x=s).on(q0))
    add("IG(e)", lambda q0, q1, k: IG("G", "mod", 1, x=2 * s + 1, y=0.1 * s).on(q0))
    add("IG(key)", lambda q0, q1, k: IG("G", "mod", 1, x=cirq.MeasurementKey("m")).on(q0))
    add("IG(None)", lambda q0, q1, k: IG("G", "mod", 1, x=None).on(q0))
    add("IG(2**40)", lambda q0, q1, k: IG("G", "mod", 1, x=2 ** 40).on(q0))
    add("IG(np scalars)", lambda q0, q1, k: IG("G", "mod", 1, x=np.float64(0.25), y=np.int64(3)).on(q0))
    add("IG(custom)", lambda q0, q1, k: IG("G", "mod", 1, custom_args={"f": ca}, x=1).on(q0))
    add("IG(H)", lambda q0, q1, k: IG("H", "mod", 1).on(q0))
    add("IG(cos)", lambda q0, q1, k: IG("G", "mod", 1, x=sympy.cos(s)).on(q0), rej=True)
    add("IG(module=None)", lambda q0, q1, k: IG("G", None, 1).on(q0), find="internal_gate_module_none")
    add("IG(int tuple)", lambda q0, q1, k: IG("G", "mod", 1, x=(1, 2)).on(q0), find="numeric_tuple_becomes_list")
    add("IG(list)", lambda q0, q1, k: IG("G", "mod", 1, x=[1, 2]).on(q0), find="internal_gate_unhashable_args")
    add("IG(ndarray)", lambda q0, q1, k: IG("G", "mod", 1, x=np.array([1.5, 2.5])).on(q0),
        find="internal_gate_unhashable_args")
    # --- analog gates
    add("ADQ", lambda q0, q1, k: cg.AnalogDetuneQubit(length=5 * tu.ns, w=5 * tu.ns, target_freq=5 * tu.GHz, prev_freq=None,
                                                  neighbor_coupler_g_dict={"c_q0_0_q0_1": 5 * tu.MHz},
                                                  prev_neighbor_coupler_g_dict=None).on(q0))
    add("ADQ(s)", lambda q0, q1, k: cg.AnalogDetuneQubit(length=0.1 * tu.ns, w=s, target_freq=None, prev_freq=4 * tu.GHz,
                                                     neighbor_coupler_g_dict=None,
                                                     prev_neighbor_coupler_g_dict={"c": sympy.Symbol("gg")},
                                                     linear_rise=False).on(q0))
    add("ADC", lambda q0, q1, k: cg.AnalogDetuneCouplerOnly(length=5 * tu.ns, w=5 * tu.ns, g_0=None, g_max=4 * tu.MHz,
                                                        neighbor_qubits_freq=(5 * tu.GHz, 6 * tu.GHz)).on(q0, q1))
    add("ADC(s)", lambda q0, q1, k: cg.AnalogDetuneCouplerOnly(
        length=s, w=0.1 * tu.ns, g_0=1 * tu.MHz, g_max=4 * tu.MHz, g_ramp_exponent=2,
        neighbor_qubits_freq=(5 * tu.GHz, None), prev_neighbor_qubits_freq=(None, sympy.Symbol("f")),
        interpolate_coupling_cal=True, analog_cal_for_pulseshaping=True).on(q0, q1))
    # --- qubit kinds
    add("X(line)", lambda q0, q1, k: cirq.X(LINE[k]))
    add("X(named)", lambda q0, q1, k: cirq.X(NAMED[k]), corel=True)
    add("X(q(r,c))", lambda q0, q1, k: cirq.X(cirq.q(5 + k, 3)))
    add("X(q('name'))", lambda q0, q1, k: cirq.X(cirq.q(f"w{k}")))
    add("X(q(int))", lambda q0, q1, k: cirq.X(cirq.q(11 + k)))
    add("X(grid -1)", lambda q0, q1, k: cirq.X(G(-1 - k, 2)))
    add("X(line -3)", lambda q0, q1, k: cirq.X(cirq.LineQubit(-3 - k)))
    add("CZ(grid,line)", lambda q0, q1, k: cirq.CZ(q0, LINE[k]))
    add("CZ(named,grid)", lambda q0, q1, k: cirq.CZ(NAMED[k], q1))
    add("X(coupler)", lambda q0, q1, k: cirq.X(cg.Coupler(q0, q1)))
    add("M(line,named)", lambda q0, q1, k: cirq.measure(LINE[k], NAMED[k], key="ln"))

    V = dict(letters=L, pairs=[i for i, l in enumerate(L) if l["pairs"]], core=[i for i, l in enumerate(L) if l["core"]])
    names = [l["name"] for l in L]
    if len(set(names)) != len(names):
        raise core.HarnessError("duplicate letter names in the C16 vocabulary")
    _VOCAB[seed] = V
    return V


def place(V, li, slot):
    q0, q1 = SLOTS[slot]
    return V["letters"][li]["fn"](q0, q1, slot)


# =============================================================================================
# (a) program stages
# =============================================================================================

def _run_circuits(named_circuits, unordered, find=None):
    """named_circuits: list of (label, thunk building the circuit)."""
    n = 0
    nontriv = False
    for label, thunk in named_circuits:
        circ = thunk()
        if find is not None:
            try:
                d, nt = check_program(circ, unordered)
            except Exception as ex:
                return bad(f"[{label}] {type(ex).__name__}: {ex}\n c = {circ!r}", kind=find)
            if d:
                return bad(f"[{label}] {d[1]}", kind=find)
        else:
            d, nt = check_program(circ, unordered)
            if d:
                return bad(f"[{label}] {d[1]}", kind=d[0])
        nontriv = nontriv or nt
        n += 1
    return good(nontrivial=nontriv, circuits=n)


def make_letter_stage(seed):
    V = vocab(seed)
    cases = list(range(len(V["letters"])))

    def run(li):
        L = V["letters"][li]
        x0 = lambda: place(V, li, 0)
        x1 = lambda: place(V, li, 1)
        circuits = [
            ("single", lambda: cirq.Circuit(x0())),
            ("twice", lambda: cirq.Circuit(cirq.Moment(x0()), cirq.Moment(x0()))),
            ("two slots", lambda: cirq.Circuit(cirq.Moment(x0(), x1()), cirq.Moment(x1()))),
            ("frozen", lambda: cirq.FrozenCircuit(cirq.Moment(x0()), cirq.Moment(x1()))),
        ]
        if L["rej"]:
            # documented rejection: ValueError from serialize or deserialize; anything else propagates
            try:
                return _run_circuits(circuits, L["unordered"])
            except ValueError:
                return Res(skipped=True, nontrivial=False)
        return _run_circuits(circuits, L["unordered"], find=L["find"])

    return CaseStage("prog_letters", cases, run, describe=lambda li: [li, V["letters"][li]["name"]])


def make_moment_tag_stage(seed):
    """Moments that are equal but for their tags (Moment.__eq__ ignores tags) must not share a constant."""
    V = vocab(seed)
    cases = list(V["core"])

    def run(li):
        L = V["letters"][li]
        x0 = lambda: place(V, li, 0)
        circuits = [
            ("plain,tagged,plain", lambda: cirq.Circuit([cirq.Moment(x0()), cirq.Moment(x0(), tags=("mt",)), cirq.Moment(x0())])),
            ("tagged,plain", lambda: cirq.Circuit([cirq.Moment(x0(), tags=("mt",)), cirq.Moment(x0())])),
            ("tag a,tag b", lambda: cirq.Circuit([cirq.Moment(x0(), tags=("ma",)), cirq.Moment(x0(), tags=("mb", "ma"))])),
        ]
        return _run_circuits(circuits, L["unordered"], find="moment_tags_shared_by_equal_moments")

    return CaseStage("prog_moment_tags", cases, run, describe=lambda li: [li, V["letters"][li]["name"]])


def _pair_circuits(V, i, j):
    x0 = lambda: place(V, i, 0)
    y0 = lambda: place(V, j, 0)
    y1 = lambda: place(V, j, 1)
    M = cirq.Moment
    return [
        ("same moment", lambda: cirq.Circuit([M(x0(), y1())])),
        ("consecutive", lambda: cirq.Circuit([M(x0()), M(y0())])),
        ("repeated moment", lambda: cirq.Circuit([M(x0(), y1()), M(x0(), y1())])),
        ("sandwich", lambda: cirq.Circuit([M(x0()), M(y0()), M(x0())])),
        ("op reuse", lambda: cirq.Circuit([M(x0()), M(x0(), y1()), M(y1())])),
    ]


def make_pair_stage(seed):
    V = vocab(seed)
    P = V["pairs"]
    cases = [(i, j) for i in P for j in P]

    def run(case):
        i, j = case
        Ls = V["letters"]
        return _run_circuits(_pair_circuits(V, i, j), Ls[i]["unordered"] or Ls[j]["unordered"])

    return CaseStage("prog_pairs", cases, run,
                     describe=lambda c: [c, V["letters"][c[0]]["name"], V["letters"][c[1]]["name"]])


def _triple_circuits(V, i, j, k):
    x0 = lambda: place(V, i, 0)
    y0 = lambda: place(V, j, 0)
    y1 = lambda: place(V, j, 1)
    z0 = lambda: place(V, k, 0)
    z1 = lambda: place(V, k, 1)
    z2 = lambda: place(V, k, 2)
    M = cirq.Moment
    return [
        ("same moment", lambda: cirq.Circuit([M(x0(), y1(), z2())])),
        ("consecutive", lambda: cirq.Circuit([M(x0()), M(y0()), M(z0())])),
        ("repeated around", lambda: cirq.Circuit([M(x0(), y1()), M(z0()), M(x0(), y1())])),
        ("op reuse", lambda: cirq.Circuit([M(x0()), M(y0(), z1()), M(x0()), M(z1())])),
    ]


def make_triple_stage(seed):
    V = vocab(seed)
    C = V["core"]
    cases = [(i, j, k) for i in C for j in C for k in C]

    def run(case):
        i, j, k = case
        Ls = V["letters"]
        return _run_circuits(_triple_circuits(V, i, j, k), any(Ls[x]["unordered"] for x in case))

    return CaseStage("prog_triples", cases, run,
                     describe=lambda c: [c] + [V["letters"][x]["name"] for x in c])


def _decor_circuits(V, i, j):
    x0 = lambda: place(V, i, 0)
    y0 = lambda: place(V, j, 0)
    y1 = lambda: place(V, j, 1)
    M = cirq.Moment
    cal_x = cg.CalibrationTag("x")
    F = cirq.FrozenCircuit
    CO = cirq.CircuitOperation
    return [
        ("moment+circuit tags", lambda: cirq.Circuit([M(x0(), tags=(cal_x, "mt")), M(y0(), tags=("mt",))],
                                                     tags=("ct", cal_x, "mt"))),
        ("equal tagged moments", lambda: cirq.Circuit([M(x0(), tags=("mt",)), M(y0(), tags=("mt",)), M(x0(), tags=("mt",))])),
        ("frozen input", lambda: F(M(x0()), M(y0()), tags=("ft",))),
        ("sub-circuit twice", lambda: cirq.Circuit([M(CO(F(x0(), y1()))), M(CO(F(x0(), y1()), repetitions=2)), M(x0())])),
        ("sub-circuits equal but for tags", lambda: cirq.Circuit([M(CO(F(x0(), y1()))), M(CO(F(x0(), y1(), tags=("st",)))),
                                                                  M(CO(F(x0(), y1())))])),
        ("op inside and outside sub-circuit", lambda: cirq.Circuit([M(y0()), M(CO(F(M(y0()), M(x0())))), M(x0())])),
    ]


def make_decor_stage(seed):
    V = vocab(seed)
    C = V["core"]
    cases = [(i, j) for i in C for j in C]

    def run(case):
        i, j = case
        Ls = V["letters"]
        return _run_circuits(_decor_circuits(V, i, j), Ls[i]["unordered"] or Ls[j]["unordered"])

    return CaseStage("prog_decor", cases, run,
                     describe=lambda c: [c, V["letters"][c[0]]["name"], V["letters"][c[1]]["name"]])


def make_multi_stage(seed):
    """serialize_multi_program (list / dict) and serialize_circuit_function sharing ops across programs."""
    V = vocab(seed)
    C = V["core"]
    cases = [(i, j) for i in C for j in C]
    M = cirq.Moment

    def compare(expected, got, label):
        if len(expected) != len(got):
            return bad(f"[{label}] {len(expected)} programs became {len(got)}", kind="multi")
        for n, ((ek, eargs, ec), (gk, gargs, gc)) in enumerate(zip(expected, got)):
            if ek != gk:
                return bad(f"[{label}] program {n}: key {ek!r} became {gk!r}", kind="multi")
            if not val_close(dict(eargs), dict(gargs)) or len(eargs) != len(gargs):
                return bad(f"[{label}] program {n}: args {eargs!r} became {gargs!r}", kind="multi")
            d = circuit_diff(ec, gc)
            if d:
                return bad(f"[{label}] program {n} (key {ek!r}): {d[1]}\n c = {ec!r}\n back = {gc!r}", kind=d[0])
        return None

    def run(case):
        i, j = case
        x0 = lambda: place(V, i, 0)
        y0 = lambda: place(V, j, 0)
        y1 = lambda: place(V, j, 1)
        c1 = cirq.Circuit([M(x0()), M(y0())])
        c2 = cirq.Circuit([M(y0()), M(x0(), y1())], tags=("t2",))
        c3 = cirq.FrozenCircuit([M(x0()), M(y0())])
        n = 0
        # list form
        msg = S.serialize_multi_program([c1, c2, c3])
        got = S.deserialize_multi_program(_hop(msg))
        r = compare([("", (), c1), ("", (), c2), ("", (), c3)], got, "list")
        if r:
            return r
        n += 3
        # dict form
        msg = S.serialize_multi_program({"k1": c1, "k2": c2, "": c3})
        got = S.deserialize_multi_program(_hop(msg))
        r = compare([("k1", (), c1), ("k2", (), c2), ("", (), c3)], got, "dict")
        if r:
            return r
        n += 3
        # circuit function returning a circuit; second sweep parameter is not an argument of the function
        pts = [0.25, 0.1, 2.5]

        def f(p):
            return cirq.Circuit([M(x0()), M(cirq.X(SLOTS[2][0]) ** p, y1()), M(x0())])

        sweep = cirq.Zip(cirq.Points("p", pts), cirq.Points("unused", [1, 2, 3]))
        msg = S.serialize_circuit_function(f, sweep)
        got = S.deserialize_multi_program(_hop(msg))
        exp = [("", (("p", p), ("unused", u)), f(p)) for p, u in zip(pts, [1, 2, 3])]
        r = compare(exp, got, "function")
        if r:
            return r
        n += 3

        # function with **kwargs returning a mapping
        def h(**kw):
            return {"A": cirq.Circuit([M(cirq.Z(SLOTS[2][0]) ** kw["p"]), M(y0())]), "B": c1}

        msg = S.serialize_circuit_function(h, cirq.Points("p", [0.1, 0.5]))
        got = S.deserialize_multi_program(_hop(msg))
        exp = []
        for p in (0.1, 0.5):
            for key, c in h(p=p).items():
                exp.append((key, (("p", p),), c))
        r = compare(exp, got, "function->mapping")
        if r:
            return r
        n += 4
        return good(nontrivial=True, circuits=n)

    return CaseStage("prog_multi", cases, run,
                     describe=lambda c: [c, V["letters"][c[0]]["name"], V["letters"][c[1]]["name"]])
