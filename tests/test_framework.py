"""Self-tests of the verification machinery itself (run: cd /verif && PYTHONPATH=/verif:/repo/cirq-core \
/venv/bin/python -m pytest -q tests/test_framework.py -p no:cacheprovider).

They check that the explorers really enumerate everything they claim to, on toy systems whose
state spaces are known in closed form, and that the reference interpreter reproduces textbook
distributions.
"""
import itertools

import numpy as np
import pytest

from mc import core
from mc.choices import Chooser, explore
from mc.ref import embed as E


def test_explore_enumerates_all_paths_of_a_tree():
    # a run that makes 3 choices with 2, 3 and (choice-dependent) 1..2 options
    seen = []

    def run(ch):
        a = ch.choose(2, "a")
        b = ch.choose(3, "b")
        c = ch.choose(1 + a, "c")
        return (a, b, c)

    for ch, out in explore(run):
        seen.append(out)
    expect = [(a, b, c) for a in range(2) for b in range(3) for c in range(1 + a)]
    assert sorted(seen) == sorted(expect)
    assert len(seen) == len(set(seen))  # every path exactly once


def test_explore_weights_sum_to_one():
    def run(ch):
        ch.choose(2, "x", weights=[0.25, 0.75])
        ch.choose(3, "y", weights=[0.5, 0.25, 0.25])
        return None

    assert abs(sum(ch.weight for ch, _ in explore(run)) - 1.0) < 1e-12


def test_deviation_bound():
    # 4 binary points where option 1 costs one deviation: bound k admits sum_{i<=k} C(4, i) paths
    def run(ch):
        return tuple(ch.choose(2, f"p{i}", costs=[0, 1]) for i in range(4))

    for k, n in ((0, 1), (1, 5), (2, 11), (4, 16)):
        assert sum(1 for _ in explore(run, bound=k)) == n


def test_replay_divergence_is_a_hard_error():
    flip = {"n": 0}

    def run(ch):
        flip["n"] += 1
        ch.choose(2, "a")
        # nondeterministic harness: the number of options at the second point changes between executions
        ch.choose(2 if flip["n"] % 2 else 3, "b")
        return None

    with pytest.raises(core.HarnessError):
        list(explore(run))


def test_embed_matches_kron_for_adjacent_targets():
    rng = np.random.RandomState(0)
    m = rng.randn(4, 4) + 1j * rng.randn(4, 4)
    assert np.allclose(E.embed(m, [0, 1], (2, 2, 2)), np.kron(m, np.eye(2)))
    assert np.allclose(E.embed(m, [1, 2], (2, 2, 2)), np.kron(np.eye(2), m))
    # permuted targets = conjugation by SWAP
    swap = np.eye(4)[[0, 2, 1, 3]]
    assert np.allclose(E.embed(m, [1, 0], (2, 2)), swap @ m @ swap)


def test_interp_bell_state_distribution():
    import cirq
    from mc.ref import interp

    a, b = cirq.LineQubit.range(2)
    c = cirq.Circuit(cirq.H(a), cirq.CNOT(a, b), cirq.measure(a, key="x"), cirq.X(b).with_classical_controls("x"),
                     cirq.measure(b, key="y"))
    d = interp.run(c, [a, b])
    probs = {tuple(v for _, v in rec): p for rec, (p, _) in d.items()}
    # a is uniformly random, b is flipped back to 0 whenever a = 1
    assert probs == pytest.approx({((0,), (0,)): 0.5, ((1,), (0,)): 0.5})


def test_case_stage_counts_every_case():
    cases = [(i, j) for i in range(7) for j in range(5)]
    st = core.CaseStage("toy", cases, lambda c: core.good(nontrivial=(c[0] + c[1]) % 2 == 0), serial=True)
    r = st.execute()
    assert r.evaluations == 35 and r.distinct_nontrivial == 18 and not r.violations
    st2 = core.CaseStage("toy2", cases, lambda c: core.bad("boom", kind="k") if c == (3, 3) else None, serial=True)
    r2 = st2.execute()
    assert len(r2.violations) == 1 and r2.violations[0]["case"] == [3, 3]
